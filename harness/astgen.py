"""astgen.py — random structured programs over refinterp's AST, valid by construction."""
from __future__ import annotations
import random
from refinterp import *


class SScope:
    def __init__(self, parent=None, func=False, loop=False):
        self.vars = set(parent.vars) if parent and not func else set()
        self.funcs = dict(parent.funcs) if parent else {}
        self.in_loop = (parent.in_loop if parent and not func else 0) + (1 if loop else 0)
        self.in_func = (parent.in_func if parent else 0) + (1 if func else 0)
        self.all_names = parent.all_names if parent else set()
        self.all_funcs = parent.all_funcs if parent else {}      # every function ever defined in the program: name -> arity


class AstGen:
    DEFAULT_W = dict(emit=5, assign=3, ifchain=3, repeat=2, whil=1, brk=1.5, func=1.2, call=2, ret=0.4,
                     prnt=0.8, exist=0.6, passs=0.2, rawkw=0.5)

    def __init__(self, rnd: random.Random, weights=None, max_depth=4, fresh_prefix='v'):
        self.r = rnd
        weights = dict(weights or {})
        self.between_p = weights.pop('between_p', 0.15)      # a statement between two arms of a chain
        self.dead_call_p = weights.pop('dead_call_p', 0.06)  # a call of a function whose defining block has ended
        self.w = dict(self.DEFAULT_W); self.w.update(weights)
        self.max_depth = max_depth
        self.n = 0
        self.tagn = 0
        self.fresh_prefix = fresh_prefix

    def chance(self, p): return self.r.random() < p

    # identifier shapes a scanner or a cache can get wrong: no letter at all, one character, mixed case, names that are prefixes
    # of one another (upper-case prefixes and extensions of TRUE / FALSE are left out: the recorded finding D14; their mixed-case look-alikes and
    # names that look like command words are in)
    ODD_NAMES = ['_', '_1', '__', '_9x', 'n', 'nn', 'nnn', 'a', 'ab', 'abc', 'I', 'l1', 'O0', 'x_', 'Ab', 'aB9', 'zz_top', 'e', 'E2', 'q',
                 'True', 'Falsey', 'TrueCount', 'tRUE', 'false1', 'true', 'If', 'while_', 'REPEATs', 'elsey', 'Run', 'string', 'var']

    def fresh(self, sc, p=None):
        self.n += 1
        nm = f'{p or self.fresh_prefix}{self.n}'
        if self.chance(0.2):
            pool = [x for x in self.ODD_NAMES if x not in sc.all_names]
            if pool: nm = self.r.choice(pool)
        sc.all_names.add(nm)
        return nm

    def tag(self):
        self.tagn += 1
        return f't{self.tagn}'

    # ---- expressions (ints only unless asked) ----
    def int_expr(self, sc, d=0):
        r = self.r
        if d >= 2 or self.chance(0.45):
            if sc.vars and self.chance(0.55): return Var(r.choice(sorted(sc.vars)))
            return Lit(r.choice([0, 1, 2, 3, 4, 5, 7, 10]))
        op = r.choice(['+', '-', '*', '+', '-', '%', '//'])
        a = self.int_expr(sc, d + 1)
        b = self.int_expr(sc, d + 1) if op in '+-*' else Lit(r.choice([2, 3, 5]))
        return Bin(op, a, b)

    def cond(self, sc, d=0):
        r = self.r
        c = r.random()
        if c < 0.25: return Lit(r.choice([True, False]))
        if c < 0.35 and d < 2: return Not(self.cond(sc, d + 1))
        return Bin(r.choice(['==', '!=', '<', '>', '<=', '>=']), self.int_expr(sc, 1), self.int_expr(sc, 1))

    # ---- statements ----
    def body(self, sc, depth, budget, n=None):
        out = []
        for _ in range(n or self.r.randint(1, 4)):
            if budget[0] <= 0: break
            out.append(self.stmt(sc, depth, budget))
        return out

    def stmt(self, sc, depth, budget):
        r = self.r
        budget[0] -= 1
        w = dict(self.w)
        if depth >= self.max_depth:
            for k in ('ifchain', 'repeat', 'whil', 'func'): w[k] = 0
        if not sc.in_loop: w['brk'] = 0
        if (not sc.funcs and not (set(sc.all_funcs) - set(sc.funcs))) or sc.in_func: w['call'] = 0
        if sc.in_func or depth > 1: w['func'] = 0
        if not sc.vars: w['exist'] = w['exist'] * 0.3
        kinds = [k for k in w if w[k] > 0]
        k = r.choices(kinds, [w[x] for x in kinds])[0]
        if k == 'rawkw':
            # a block keyword written WITHOUT a block (and its `$` form) is no construct: the line passes through like any unknown
            # command — also when the same word is used as a real construct elsewhere in the same compilation, before or after
            word = r.choice(['WHILE', 'IF', 'ELIF', 'ELSE', 'FUNC', 'FUNCTION', 'IGNORE', 'while', 'If', '$WHILE', '$IF', '$REPEAT', '$FOR', '$FUNC', 'REPEAT', 'FOR'])
            if word.startswith('$'):
                e = self.int_expr(sc, 1)
                from refinterp import render_expr
                return Raw([(0, f'{word} {render_expr(e)}')], [('RAWEVAL', word[1:].upper(), e)])
            if word.upper() in ('REPEAT', 'FOR'):
                n = r.choice(['3', '10', '2'])
                return Raw([(0, f'{word} {n}')], [f'REPEAT {n}'])
            arg = r.choice(['', '(x<20) THEN', 'done', 'a b  c', 'TRUE', 'f p,q'])
            return Raw([(0, (word + ' ' + arg).rstrip())], [(word.upper() + ' ' + ' '.join(arg.split(' ', 0))).rstrip() if arg else word.upper()])
        if k == 'emit':
            return Emit(self.tag(), self.int_expr(sc) if self.chance(0.5) else None)
        if k == 'assign':
            if sc.vars and self.chance(0.6): nm = r.choice(sorted(sc.vars))
            else: nm = self.fresh(sc)
            e = self.int_expr(sc)
            sc.vars.add(nm)
            return Assign(nm, e)
        if k == 'ifchain':
            arms = []; between = []
            for i in range(r.choice([1, 1, 2, 2, 3, 4])):
                arms.append((self.cond(sc), self.body(SScope(sc), depth + 1, budget)))
                between.append(self.between(sc, depth, budget) if self.chance(self.between_p) else [])
            els = self.body(SScope(sc), depth + 1, budget) if self.chance(0.5) else None
            if els is None: between[-1] = []
            return IfChain(arms, els, between)
        if k == 'repeat':
            cnt = Lit(r.choice([0, 1, 2, 2, 3, 4]))
            s2 = SScope(sc, loop=True)
            var = None
            if self.chance(0.6):
                var = self.fresh(sc, 'i'); s2.vars.add(var)
            return Repeat(cnt, var, self.body(s2, depth + 1, budget), r.choice(['REPEAT', 'FOR']))
        if k == 'whil':
            s2 = SScope(sc, loop=True)
            var = self.fresh(sc, 'c'); s2.vars.add(var)
            lim = r.choice([0, 1, 2, 3])
            cond = r.choice([Bin('<', Var(var), Lit(lim)), Bin('!=', Var(var), Lit(lim)), Not(Bin('>=', Var(var), Lit(lim)))])
            return While(var, cond, self.body(s2, depth + 1, budget))
        if k == 'brk':
            inner = r.choice([Break('BREAKLOOP'), Break('BREAK_LOOP'), Continue('CONTINUELOOP'), Continue('CONTINUE_LOOP'), Continue('CONTINUE')])
            # under 0–3 IFs
            st = inner
            pre = [Emit(self.tag())] if self.chance(0.5) else []
            for _ in range(r.choice([0, 1, 1, 2, 3])):
                st = IfChain([(self.cond(sc), pre + [st])], None, [[]]); pre = []
            return st
        if k == 'func':
            nm = self.fresh(sc, 'f')
            ar = r.choice([0, 1, 1, 2, 3])
            s2 = SScope(sc, func=True)
            ps = [self.fresh(sc, 'p') for _ in range(ar)]
            for p in ps: s2.vars.add(p)
            body = self.body(s2, depth + 1, budget)
            if self.chance(0.3):
                pos = r.randint(0, len(body))
                rt = Return(r.choice(['RETURN', 'RET']), self.int_expr(s2, 1) if self.chance(0.4) else None)
                st = rt
                for _ in range(r.choice([0, 1, 2])): st = IfChain([(self.cond(s2), [st])], None, [[]])
                body.insert(pos, st)
            sc.funcs[nm] = ar
            sc.all_funcs[nm] = ar
            return FuncDef(nm, ps, body)
        if k == 'call':
            dead = sorted(set(sc.all_funcs) - set(sc.funcs))
            if dead and self.chance(self.dead_call_p):      # a function defined in a block that has ended: not visible any more
                nm = r.choice(dead)
                return Call(nm, [self.int_expr(sc, 1) for _ in range(sc.all_funcs[nm])])
            if not sc.funcs: return Pass()
            nm = r.choice(sorted(sc.funcs))
            return Call(nm, [self.int_expr(sc, 1) for _ in range(sc.funcs[nm])])
        if k == 'ret':
            return Return(r.choice(['RETURN', 'RET']), self.int_expr(sc, 1) if self.chance(0.3) else None)
        if k == 'prnt':
            if self.chance(0.5):
                # texts that a console, a markup renderer or a formatter might treat specially
                return Print(text=r.choice(['msg {t}', '[red] alert {t}', '[/] {t}', '[item 3] {t}', '[bold]{t}[/bold]', '{t} 100%', '{{x}} {t}', '"{t}"', '{t} a\\b', '{t} \\', '#{t}', '{t}: [link=x]y[/link]', '<{t}>', '$ {t}', '{t}\\n']).replace('{t}', self.tag()).replace('{{x}}', '{x}'))
            return Print(expr=Bin('+', Lit(f'{self.tag()}:'), self.int_expr(sc)))
        if k == 'exist':
            if sc.vars and self.chance(0.6): return Exist(r.choice(sorted(sc.vars)))
            dead = sorted(sc.all_names - sc.vars - set(sc.funcs)) if not sc.in_func else []
            if dead and self.chance(0.7): return Exist(r.choice(dead), neg=True)
            return Exist(self.fresh(sc, 'zz'), neg=True)
        return Pass()

    def between(self, sc, depth, budget):
        """a statement standing between two arms of a chain (in the chain's own block): it must leave the chain alone whatever
        chains run inside it — a loop or a call whose body takes a branch of its own, an assignment, an output line"""
        r = self.r
        k = r.choice(['emit', 'assign', 'loop', 'loop', 'call'])
        if k == 'emit' or depth >= self.max_depth: return [Emit(self.tag())]
        if k == 'assign':
            nm = r.choice(sorted(sc.vars)) if sc.vars and self.chance(0.6) else self.fresh(sc)
            st = Assign(nm, self.int_expr(sc)); sc.vars.add(nm)
            return [st]
        inner = IfChain([(Lit(r.choice([True, True, False])), [Emit(self.tag())])], [Emit(self.tag())] if self.chance(0.5) else None, [[]])
        if k == 'call' and sc.funcs and not sc.in_func:
            nm = r.choice(sorted(sc.funcs))
            return [Call(nm, [self.int_expr(sc, 1) for _ in range(sc.funcs[nm])])]
        return [Repeat(Lit(r.choice([1, 2])), None, [inner], 'REPEAT')]

    def program(self, size=14):
        sc = SScope()
        budget = [size]
        body = []
        while budget[0] > 0:
            body.append(self.stmt(sc, 0, budget))
        return body, sc
