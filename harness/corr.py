"""corr.py — model side of the correspondence: drive `dmodel`, compare with the implementation."""
from __future__ import annotations
import json, os, subprocess, sys
from pathlib import Path

HERE = Path(__file__).resolve().parent
VERIF = HERE.parent
DMODEL = VERIF / 'lean' / '.lake' / 'build' / 'bin' / 'dmodel'


def run_model(cases, procs: int = 8):
    """run cases through the compiled Lean model; returns results in order"""
    if not cases: return []
    procs = max(1, min(procs, len(cases) // 50 + 1))
    chunks = [cases[i::procs] for i in range(procs)]
    ps = []
    for ch in chunks:
        p = subprocess.Popen([str(DMODEL)], stdin=subprocess.PIPE, stdout=subprocess.PIPE, text=True)
        ps.append((p, ch))
    import threading
    outs = [None] * procs

    def as_read(c):
        """what the implementation reads from a file is what Python's text mode hands it: every line ending is one newline"""
        if not c.get('files'): return c
        return dict(c, files={k: (v.replace('\r\n', '\n').replace('\r', '\n') if isinstance(v, str) else v) for k, v in c['files'].items()})

    def feed(i, p, ch):
        data = ''.join(json.dumps(as_read(c)) + '\n' for c in ch)
        o, _ = p.communicate(data)
        outs[i] = o
    ts = [threading.Thread(target=feed, args=(i, p, ch)) for i, (p, ch) in enumerate(ps)]
    for t in ts: t.start()
    for t in ts: t.join()
    res = [None] * len(cases)
    for i, (p, ch) in enumerate(ps):
        lines = [l for l in (outs[i] or '').split('\n') if l.strip()]
        if len(lines) != len(ch) or p.returncode != 0:
            # the driver died (stack overflow / panic): rerun this chunk case by case
            lines = []
            for c in ch:
                q = subprocess.run([str(DMODEL)], input=json.dumps(as_read(c)) + '\n', capture_output=True, text=True)
                l = [x for x in q.stdout.split('\n') if x.strip()]
                lines.append(l[0] if l and q.returncode == 0 else json.dumps(dict(kind='model-died', rc=q.returncode)))
        for j, l in enumerate(lines):
            res[i + j * procs] = json.loads(l)
    return res


def canon_warns(ws):
    """warnings as a set of (kind, arg, trace) — the implementation de-duplicates by object identity,
    the model by value"""
    out = set()
    for w in ws or []:
        tr = tuple(tuple(f) for f in w['trace']) if w.get('trace') is not None else None
        out.add((w['kind'], json.dumps(w.get('arg')), tr))
    return sorted(out, key=repr)


def project(r, fields):
    """the observables of a result that a property speaks about"""
    if r is None: return None
    k = r.get('kind')
    o = {'kind': k}
    if k == 'ok':
        for f in ('out', 'prints', 'vars', 'tree', 'val', 'toks'):
            if f in fields and f in r: o[f] = r[f]
        if 'warns' in fields: o['warns'] = canon_warns(r.get('warns'))
        if 'cfgAfter' in fields and 'cfgAfter' in r: o['cfgAfter'] = r['cfgAfter']
        if 'warnkinds' in fields: o['warnkinds'] = sorted({(w['kind'], json.dumps(w.get('arg'))) for w in r.get('warns') or []})
    elif k == 'cerr':
        if 'cfgAfter' in fields and 'cfgAfter' in r: o['cfgAfter'] = r['cfgAfter']
        if 'cls' in fields: o['cls'] = r.get('cls')
        if 'trace' in fields: o['trace'] = r.get('trace')
        if 'errprints' in fields: o['prints'] = r.get('prints')
        if 'lineNo' in fields: o['lineNo'] = r.get('lineNo')
    elif k == 'crash':
        o['exc'] = r.get('exc')
    return o


ALL_FIELDS = ('out', 'prints', 'vars', 'warns', 'cls', 'trace', 'errprints', 'lineNo', 'tree', 'val', 'toks')


def diff(impl, model, fields=ALL_FIELDS):
    """None if the two agree on the projected observables (or the model is out of its domain)"""
    if model is None or model.get('kind') in ('oom',):
        return None
    a, b = project(impl, fields), project(model, fields)
    if a == b: return None
    return dict(impl=a, model=b)
