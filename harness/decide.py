#!/venv/bin/python
"""decide.py — the decision rule of every check (DESIGN.md §2.7), evidence writer, known findings.

  ./check Cxx quick|thorough        run the check of one property
  ./check Cxx --replay FILE         re-run the cases stored in a replay file

Steps: regenerate Generated/ from /repo (translator) → lake build (driver + Props.Cxx) → axiom and
forbidden-token audit → corpus + generated cases on the implementation and on the model →
property oracle + model/implementation diff → decision, evidence file, exit code.
"""
from __future__ import annotations
import fcntl, hashlib, importlib, json, os, re, shutil, subprocess, sys, tempfile, time
from pathlib import Path

HERE = Path(__file__).resolve().parent
VERIF = HERE.parent
LEAN = VERIF / 'lean'
sys.path.insert(0, str(HERE))

ALLOWED_AXIOMS = {'propext', 'Classical.choice', 'Quot.sound'}
FORBIDDEN = re.compile(r'\b(sorry|admit|native_decide|bv_decide|implemented_by|unsafe)\b|^\s*axiom\s|maxHeartbeats\s+0')
TRUSTED_BASE = [
    'Lean 4.33.0 kernel and elaborator (lake build); axioms allowed: propext, Classical.choice, Quot.sound',
    'harness/translate.py: tables, limits and effect inventories extracted from /repo (import-time introspection + AST patterns)',
    'correspondence: agreement of model and implementation on the generated inputs extends to the property domain (sampling)',
    'spec/tables.json: frozen documented line language',
    'modelled, not verified: Unicode outside the model alphabet, inexact floats, str(list), host FS/YAML, CPython limits (DESIGN.md §3)',
]


def sh(cmd, cwd=None, timeout=3600, env=None):
    p = subprocess.run(cmd, cwd=cwd, capture_output=True, text=True, timeout=timeout, env=env)
    return p.returncode, p.stdout + p.stderr


def strip_comments(src: str) -> str:
    src = re.sub(r'/-.*?-/', '', src, flags=re.S)
    return re.sub(r'--.*', '', src)


def theorems_of(prop: str):
    f = LEAN / 'Duckling' / 'Props' / f'{prop}.lean'
    if not f.exists(): return []
    src = strip_comments(f.read_text())
    return re.findall(r'^\s*theorem\s+([A-Za-z0-9_\.]+)', src, flags=re.M)


def prepare_build(prop: str, scratch: Path, tier: str = 'quick'):
    """translator + lake build + audits; serialised across concurrent checks by a lock"""
    info = dict(translate=None, build_ok=False, dmodel_ok=False, props_ok=False, axioms={}, audit_ok=False,
                forbidden=[], log='')
    lock = open(VERIF / '.build.lock', 'w')
    fcntl.flock(lock, fcntl.LOCK_EX)
    try:
        env = dict(os.environ, HOME=str(scratch / 'home'))
        (scratch / 'home').mkdir(parents=True, exist_ok=True)
        rc, out = sh(['/venv/bin/python', str(HERE / 'translate.py'), '--repo', os.environ.get('VERIF_REPO', '/repo')], env=env)
        info['translate'] = out.strip().split('\n')[-1] if rc == 0 else ('FAILED: ' + out[-2000:])
        info['translate_ok'] = rc == 0
        rc, out = sh(['lake', 'build', 'dmodel'], cwd=LEAN)
        info['dmodel_ok'] = rc == 0
        info['log'] += out[-3000:] if rc != 0 else ''
        rc2, out2 = sh(['lake', 'build', f'Duckling.Props.{prop}'], cwd=LEAN)
        info['props_ok'] = rc2 == 0
        if rc2 != 0:
            info['log'] += out2[-4000:]
            # which theorems / declarations failed
            info['failed_decls'] = sorted(set(re.findall(r'error: ([^\n]*)', out2)))[:20]
        info['build_ok'] = info['dmodel_ok'] and info['props_ok']
        # forbidden tokens (comments stripped)
        for f in sorted((LEAN / 'Duckling').rglob('*.lean')):
            for n, line in enumerate(strip_comments(f.read_text()).split('\n'), 1):
                if FORBIDDEN.search(line):
                    info['forbidden'].append(f'{f.relative_to(LEAN)}:{n}: {line.strip()[:80]}')
        thms = theorems_of(prop)
        info['theorems'] = thms
        if info['props_ok'] and thms:
            audit = scratch / f'Audit_{prop}.lean'
            audit.write_text(f'import Duckling.Props.{prop}\n' + ''.join(f'#print axioms Duckling.Props.{prop}.{t}\n' for t in thms))
            rc3, out3 = sh(['lake', 'env', 'lean', str(audit)], cwd=LEAN)
            for m in re.finditer(r"'([^']+)' depends on axioms: \[([^\]]*)\]", out3):
                info['axioms'][m.group(1).split('.')[-1]] = [a.strip() for a in m.group(2).replace('\n', ' ').split(',') if a.strip()]
            for m in re.finditer(r"'([^']+)' does not depend on any axioms", out3):
                info['axioms'][m.group(1).split('.')[-1]] = []
            bad = {t: a for t, a in info['axioms'].items() if not set(a) <= ALLOWED_AXIOMS}
            info['bad_axioms'] = bad
            info['audit_ok'] = rc3 == 0 and not bad and len(info['axioms']) == len(thms) and not info['forbidden']
            if rc3 != 0: info['log'] += out3[-2000:]
            if tier == 'thorough' and info['audit_ok'] and shutil.which('leanchecker'):
                # independent re-check: replay the compiled module AND everything it imports through the kernel again
                try:
                    rc4, out4 = sh(['lake', 'env', 'leanchecker', '--fresh', f'Duckling.Props.{prop}'], cwd=LEAN, timeout=3000)
                    info['leanchecker'] = 'ok (--fresh: module and all imports replayed)' if rc4 == 0 else 'FAILED: ' + out4[-1500:]
                    if rc4 != 0:
                        info['audit_ok'] = False; info['log'] += out4[-2000:]
                except subprocess.TimeoutExpired:
                    info['leanchecker'] = 'not finished within 50 minutes (not counted)'
    finally:
        fcntl.flock(lock, fcntl.LOCK_UN)
        lock.close()
    return info


def load_known(prop):
    f = VERIF / 'known_findings.json'
    if not f.exists(): return []
    return [k for k in json.loads(f.read_text()).get('findings', []) if k.get('property') == prop and k.get('status', 'known') == 'known']


def match_known(failure, known):
    for k in known:
        if re.fullmatch(k['sig'], failure.get('sig', '')):
            return k
    return None


def corpus_cases(prop):
    d = VERIF / 'corpus' / prop
    out = []
    if d.exists():
        for f in sorted(d.glob('*.json')):
            try:
                c = json.loads(f.read_text())
                for x in (c if isinstance(c, list) else [c]):
                    x.setdefault('meta', {})['corpus'] = f.name
                    out.append(x)
            except Exception:
                pass
    return out


def minimise(case, still_fails, max_steps=200):
    """delta-debugging over the lines of a single-text case"""
    src = case.get('src') or {}
    if 'text' not in src: return case
    lines = src['text'].split('\n')
    steps = 0
    n = 2
    while len(lines) >= 2 and steps < max_steps:
        chunk = max(1, len(lines) // n)
        reduced = False
        for i in range(0, len(lines), chunk):
            cand = lines[:i] + lines[i + chunk:]
            if not cand: continue
            c2 = dict(case, src=dict(text='\n'.join(cand)))
            steps += 1
            if still_fails(c2):
                lines = cand; n = max(n - 1, 2); reduced = True
                break
        if not reduced:
            if chunk == 1: break
            n = min(len(lines), n * 2)
    return dict(case, src=dict(text='\n'.join(lines)))


def write_replay(prop, payload):
    d = VERIF / 'replays'
    d.mkdir(exist_ok=True)
    h = hashlib.sha256(json.dumps(payload, sort_keys=True, default=str).encode()).hexdigest()[:12]
    f = d / f'{prop}-{h}.json'
    f.write_text(json.dumps(payload, indent=1, default=str))
    return f


def main(argv):
    prop = argv[0]
    tier = argv[1] if len(argv) > 1 and not argv[1].startswith('--') else 'quick'
    replay = argv[argv.index('--replay') + 1] if '--replay' in argv else None
    seed = int(os.environ.get('VERIF_SEED', '0') or 0)
    t0 = time.time()
    scratch = Path(tempfile.mkdtemp(prefix=f'dsv-{prop}-'))
    os.environ['VERIF_SCRATCH'] = str(scratch)
    try:
        return run(prop, tier, seed, replay, scratch, t0)
    finally:
        shutil.rmtree(scratch, ignore_errors=True)


def run(prop, tier, seed, replay, scratch, t0):
    import impl, corr, gen
    # how many times the base number of generated cases the quick tier runs (kept so that every quick check takes well under a minute)
    os.environ.setdefault('VERIF_QUICK_SCALE', str({'C09': 1, 'C10': 1, 'C14': 1, 'C06': 2, 'C01': 2, 'C08': 2, 'C19': 2}.get(prop, 4)))
    mod = importlib.import_module(f'props.{prop}')
    build = prepare_build(prop, scratch, tier)
    known = load_known(prop)
    fields = getattr(mod, 'FIELDS', corr.ALL_FIELDS)

    def explore(seed_, tier_, extra=False):
        g = gen.Gen(seed_)
        cases = mod.generate(g, tier_)
        for i, c in enumerate(cases): c['id'] = i
        return cases

    if replay:
        payload = json.loads(Path(replay).read_text())
        cases = payload['cases'] if 'cases' in payload else [payload['case']]
    else:
        cases = corpus_cases(prop) + explore(seed, tier)
    for i, c in enumerate(cases): c['id'] = i
    fresh = getattr(mod, 'FRESH', False)
    ir = impl.run_cases(cases, fresh=fresh)
    if build['dmodel_ok']:
        sel = [i for i, c in enumerate(cases) if not c.get('meta', {}).get('nocorr') and c.get('op') in ('compile', 'compile_file', 'parse', 'tokenize')]
        got = corr.run_model([cases[i] for i in sel])
        mr = [None] * len(cases)
        for i, r in zip(sel, got): mr[i] = r
        if hasattr(mod, 'model_view'):
            # the command-line model (Model/Cli.lean) on the same sequences of invocations
            sel2 = [i for i, c in enumerate(cases) if c.get('op') == 'cli' and c.get('meta', {}).get('clicorr')]
            for i, r in zip(sel2, corr.run_model([mod.model_view(cases[i]) for i in sel2])): mr[i] = r
    else:
        mr = [None] * len(cases)

    failures = mod.oracle(cases, ir)                    # [{idx, msg, sig}]
    diffs = []
    n_oom = n_hang = 0
    for i, (c, a, b) in enumerate(zip(cases, ir, mr)):
        if a.get('kind') == 'hang': n_hang += 1
        if b is None: continue
        if b.get('kind') == 'oom': n_oom += 1; continue
        if a.get('kind') == 'hang' and not c.get('meta', {}).get('compare_hang'): continue
        if c.get('meta', {}).get('clicorr'):
            d = mod.model_diff(c, a, b)
            if d: diffs.append(dict(idx=i, **d))
            continue
        if c.get('meta', {}).get('nocorr'): continue
        d = corr.diff(a, b, c.get('meta', {}).get('fields', fields))
        if d: diffs.append(dict(idx=i, **d))

    new_fail = [f for f in failures if not match_known(f, known)]
    known_hit = {}
    for f in failures:
        k = match_known(f, known)
        if k: known_hit.setdefault(k['id'], (k, f))

    proof_broken = not (build['props_ok'] and build['audit_ok'] and build.get('translate_ok'))
    corr_broken = bool(diffs) or not build['dmodel_ok']
    widened = 0
    if (proof_broken or corr_broken) and not new_fail and not replay:
        # widen the search for a failing input on the implementation alone
        for k in range(1, 6 if tier == 'quick' else 12):
            cs = explore(seed * 1000 + k * 7919 + 13, 'thorough' if k > 2 else tier)
            widened += len(cs)
            rs = impl.run_cases(cs, fresh=fresh)
            fs = [f for f in mod.oracle(cs, rs) if not match_known(f, known)]
            if fs:
                cases, ir, failures, new_fail = cs, rs, fs, fs
                break

    violations = 0
    lines = []
    if new_fail:
        f = new_fail[0]
        idxs = f['idx'] if isinstance(f['idx'], list) else [f['idx']]
        payload = dict(property=prop, kind='failing-input', message=f['msg'], sig=f.get('sig'),
                       cases=[cases[i] for i in idxs], observed=[ir[i] for i in idxs],
                       model=[mr[i] for i in idxs] if mr and len(mr) == len(cases) else None,
                       replay_cmd=f'./check {prop} --replay <this file>', seed=seed, tier=tier,
                       proof_broken=proof_broken, n_failures=len(new_fail))
        rp = write_replay(prop, payload)
        lines.append(f'VIOLATION property={prop} replay={rp}')
        violations = len(new_fail)
    elif proof_broken or corr_broken:
        what = []
        if not build.get('translate_ok'): what.append('translator failed: ' + str(build['translate'])[:300])
        if not build['dmodel_ok']: what.append('model driver no longer builds against the regenerated tables')
        if not build['props_ok']: what.append(f'theorems of Duckling.Props.{prop} no longer check: ' + '; '.join(build.get('failed_decls', []))[:1500])
        elif not build['audit_ok']: what.append('axiom/forbidden-token audit failed: ' + json.dumps(build.get('bad_axioms')) + ' ' + '; '.join(build['forbidden'][:5]))
        if diffs: what.append(f'correspondence model≠implementation on {len(diffs)} case(s)')
        payload = dict(property=prop, kind='unproved', what=what, build_log=build['log'][-4000:],
                       disagreements=[dict(case=cases[d['idx']], impl=d['impl'], model=d['model']) for d in diffs[:5]],
                       cases=[cases[d['idx']] for d in diffs[:5]],
                       widened_search_cases=widened, seed=seed, tier=tier,
                       note='no input violating the property statement was found on the implementation; the property is no longer shown to hold')
        rp = write_replay(prop, payload)
        lines.append(f'VIOLATION property={prop} replay={rp} no-failing-input-found')
        violations = 1
    for kid, (k, f) in sorted(known_hit.items()):
        lines.append(f"KNOWN-FINDING: property={prop} {k['description']}")
    # known findings that are probed explicitly by the module and did not reproduce are simply not printed

    # evidence
    thms = build.get('theorems', [])
    discharged = [t for t in thms if t in build['axioms'] and set(build['axioms'][t]) <= ALLOWED_AXIOMS] if build['props_ok'] else []
    nontrivial = set()
    rule = getattr(mod, 'RULE', 'distinct case texts whose implementation result is not an immediate parse error')
    dist = {}
    for c, a in zip(cases, ir):
        fam = c.get('meta', {}).get('family', 'general')
        key = fam + ':' + a.get('kind', '?') + (':' + a.get('cls', '') if a.get('kind') == 'cerr' else '')
        dist[key] = dist.get(key, 0) + 1
        if getattr(mod, 'nontrivial', lambda c, a: True)(c, a):
            nontrivial.add(hashlib.sha256(json.dumps({k: v for k, v in c.items() if k not in ('id', 'meta')}, sort_keys=True).encode()).hexdigest())
    samples = []
    for c, a in list(zip(cases, ir))[:: max(1, len(cases) // 4)][:4]:
        samples.append(dict(case={k: v for k, v in c.items() if k != 'meta'}, family=c.get('meta', {}).get('family'), impl=a))
    ev = dict(
        property_id=prop, tier=tier, seed=seed, level=getattr(mod, 'LEVEL', 'proof'),
        coverage=dict(
            obligations=max(1, len(thms)), discharged=len(discharged),
            checker_cmd=f'cd lean && lake build Duckling.Props.{prop} && lake env lean <#print axioms of every theorem>',
            trusted_base=TRUSTED_BASE + getattr(mod, 'TRUSTED_EXTRA', []),
            theorems=thms, axioms=build['axioms'],
            translator=build['translate'], build_ok=build['build_ok'], audit_ok=build['audit_ok'], leanchecker=build.get('leanchecker', 'not run (thorough tier only)'),
            evaluations=len(cases) + widened, distinct_nontrivial=len(nontrivial), rule=rule,
            samples=samples, out_of_model_skipped=n_oom, impl_timeouts=n_hang,
            model_compared=sum(1 for c, b in zip(cases, mr) if b is not None and b.get('kind') != 'oom' and (c.get('meta', {}).get('clicorr') or not c.get('meta', {}).get('nocorr'))),
            disagreements=len(diffs), oracle_failures=len(failures), known_findings_reproduced=sorted(known_hit),
            input_distribution=dict(sorted(dist.items())), compared_fields=list(fields),
            explanation=getattr(mod, 'EXPLANATION', ''),
        ),
        assumptions=getattr(mod, 'ASSUMPTIONS', []) + ['see DESIGN.md §3 (model domain) and §6 (trusted base)'],
        wall_s=round(time.time() - t0, 2), violations=violations)
    (VERIF / 'evidence').mkdir(exist_ok=True)
    (VERIF / 'evidence' / f'{prop}.json').write_text(json.dumps(ev, indent=1, default=str))
    for l in lines: print(l)
    print(f'[{prop} {tier} seed={seed}] theorems {len(discharged)}/{len(thms)} cases {len(cases)}+{widened} '
          f'oom {n_oom} hang {n_hang} diffs {len(diffs)} oracle-failures {len(failures)} (new {len(new_fail)}) '
          f'build_ok={build["build_ok"]} audit_ok={build["audit_ok"]} {time.time() - t0:.1f}s')
    return 1 if violations else 0


if __name__ == '__main__':
    sys.exit(main(sys.argv[1:]))
