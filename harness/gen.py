"""gen.py — seeded structured generators (one PRNG state per run; DESIGN.md §2.5).

A *program* is a list of (depth, text) pairs rendered with an indent unit; generators know the
environment they build (defined variables with known values where needed) so that most generated
programs are valid, and plant faults deliberately with a small probability.
"""
from __future__ import annotations
import json, random
from pathlib import Path

HERE = Path(__file__).resolve().parent
SPEC = json.loads((HERE.parent / 'spec' / 'tables.json').read_text()) if (HERE.parent / 'spec' / 'tables.json').exists() else {}

NONASCII = ['€', '日', '☃', 'ツ']
TEXT_CHARS = list("abcdefghijklmnopqrstuvwxyzABCDEFGHIJKLMNOPQRSTUVWXYZ0123456789 !#%&'*+,-./:;<=>?@[]^_`{|}~()\"$\\") + NONASCII


def render(lines, unit='    '):
    return '\n'.join(unit * d + t for d, t in lines)


class Scope:
    """what the generator knows about the program point it is writing"""

    def __init__(self, parent=None):
        self.vars = dict(parent.vars) if parent else {}      # name -> kind ('int','str','bool')
        self.funcs = dict(parent.funcs) if parent else {}    # name -> arity
        self.in_loop = parent.in_loop if parent else 0
        self.in_func = parent.in_func if parent else 0
        self.depth = (parent.depth + 1) if parent else 0

    def child(self, loop=False, func=False):
        s = Scope(self)
        if loop: s.in_loop += 1
        if func: s.in_func += 1; s.in_loop = 0
        return s


class Gen:
    def __init__(self, seed):
        self.r = random.Random(seed)
        self.counter = 0
        self.tag = 0

    # ---- small pieces ----
    def chance(self, p): return self.r.random() < p

    def fresh(self, prefix='v'):
        self.counter += 1
        return f'{prefix}{self.counter}'

    def name(self):
        r = self.r
        pools = ['a', 'b', 'ab', 'abc', 'x', 'xy', 'n', 'i', 'cnt', 'count', 'count1', 'k_1', '_t', 'Val', 'T', 'TR', 'F', 'FA', 'tRUE', 'z9']
        return r.choice(pools) if self.chance(0.7) else self.fresh()

    def text(self, maxlen=12):
        n = self.r.randint(1, maxlen)
        s = ''.join(self.r.choice(TEXT_CHARS) for _ in range(n))
        s = s.strip()
        return s or 'x'

    def int_lit(self):
        r = self.r
        return str(r.choice([0, 1, 2, 3, 4, 5, 7, 10, 12, 100, 255, 1000])) if self.chance(0.8) else str(r.randint(0, 10 ** r.randint(1, 12)))

    def str_lit(self):
        pool = ['"a"', '"b c"', '""', '"x,y"', '"(p)"', '"1"', '"TRUE"', '"q )("', '"日"', '"a+b"', '"  s "']
        return self.r.choice(pool)

    def atom(self, sc: Scope, kind=None):
        r = self.r
        names = [n for n, k in sc.vars.items() if kind is None or k == kind]
        if names and self.chance(0.45): return r.choice(names)
        if kind == 'str': return self.str_lit()
        if kind == 'bool': return r.choice(['TRUE', 'FALSE'])
        if kind == 'int' or kind is None and self.chance(0.6):
            return r.choice(['0', '1', '2', '3', '4', '5', '6', '7', '10', '12', '007', '5.', '100'])
        if self.chance(0.3): return r.choice(['1.5', '2.5', '0.5', '0.25', '2.0', '10.75'])
        return r.choice([self.str_lit(), 'TRUE', 'FALSE'])

    def sp(self):
        return self.r.choice(['', '', ' ', ' ', '  ', '\t'])

    def int_expr(self, sc, d=0):
        r = self.r
        if d > 2 or self.chance(0.4): return self.atom(sc, 'int')
        op = r.choice(['+', '-', '*', '//', '%', '^', '+', '-', '*'])
        a, b = self.int_expr(sc, d + 1), self.int_expr(sc, d + 1)
        if op == '^': b = r.choice(['0', '1', '2', '3'])
        if op in ('//', '%') and self.chance(0.9): b = r.choice(['1', '2', '3', '5', '7'])
        e = f'{a}{self.sp()}{op}{self.sp()}{b}'
        if self.chance(0.3): e = f'({self.sp()}{e}{self.sp()})'
        return e

    def cond_expr(self, sc, d=0):
        r = self.r
        c = r.random()
        if c < 0.2: return r.choice(['TRUE', 'FALSE'])
        if c < 0.3:
            bs = [n for n, k in sc.vars.items() if k == 'bool']
            if bs: return r.choice(bs)
        if c < 0.4 and d < 2: return f'!({self.cond_expr(sc, d + 1)})'
        op = r.choice(['==', '!=', '<', '>', '<=', '>='])
        return f'{self.int_expr(sc, 2)}{self.sp()}{op}{self.sp()}{self.int_expr(sc, 2)}'

    def any_expr(self, sc, d=0):
        r = self.r
        c = r.random()
        if c < 0.35: return self.int_expr(sc, d)
        if c < 0.5: return self.cond_expr(sc, d)
        if c < 0.75: return f'{self.str_lit()}{self.sp()}+{self.sp()}{self.int_expr(sc, d + 1)}'
        if c < 0.85: return f'{self.int_expr(sc, 2)}{self.sp()}/{self.sp()}{r.choice(["1", "2", "4", "8", "5", "3"])}'
        if c < 0.93: return f'{self.atom(sc)}{self.sp()}{r.choice(["+", "-", "*", "/", "==", "<", ",", "^", "%", "//"])}{self.sp()}{self.atom(sc)}'
        return self.atom(sc)

    # ---- statements ----
    def simple_ducky(self):
        r = self.r
        c = r.random()
        if c < 0.3: return f'{r.choice(["STRING", "STRINGLN", "string", "String"])} {self.text(20)}'
        if c < 0.4: return f'DELAY {self.int_lit()}'
        if c < 0.5: return r.choice(['ENTER', 'TAB', 'ESC', 'SPACE', 'UP', 'DOWNARROW', 'MENU', 'CAPSLOCK', 'enter', 'Tab', 'DELETE', 'FN', 'PAUSE', 'BREAK'])
        if c < 0.6: return f'{r.choice(["GUI", "WINDOWS", "META", "gui"])} {r.choice(list("rdlxe1 ") + NONASCII).strip() or "r"}'
        if c < 0.7: return f'{r.choice(["CTRL", "CONTROL", "ALT", "alt"])} {r.choice(["c", "v", "z", "ESC", "esc", "F4", "f4", "TAB", "BREAK", "F12", "a", "日"])}'
        if c < 0.75: return f'SHIFT {r.choice(["TAB", "tab", "DELETE", "HOME", "INSERT", "UPARROW", "GUI", "PageUp"])}'
        if c < 0.8: return f'REM {self.text(15)}'
        if c < 0.85: return r.choice([f'ALTCHAR {r.randint(0, 9999):0{r.randint(1, 4)}d}'[:12], f'ALTSTRING {self.text(8)}', f'ALTCODE {self.text(6)}', 'SYSRQ k', 'CTRL-ALT t', 'GUI-SHIFT s', 'CTRL-SHIFT', 'ALT-GUI x'])
        if c < 0.9: return f'DEFAULT_DELAY {self.int_lit()}'
        if c < 0.95: return r.choice(['CTRL', 'ALT', 'SHIFT', 'GUI r', 'REM', 'STRING', 'ENTER'])
        return f'REPEAT {r.randint(1, 9)}'

    def unknown_cmd(self, sc):
        r = self.r
        w = r.choice(['HOLD', 'RELEASE', 'WAIT_FOR_BUTTON_PRESS', 'STRINGG', 'DELAYY', 'ATTACKMODE', 'hold', 'Inject_Mod', 'IFF', 'ELS', 'WHIL', 'BUTTON_DEF', 'LED_R', 'X', 'RANDOM_LOWERCASE_LETTER', 'IF', 'ELSE', 'WHILE', 'FUNC', 'IGNORE', 'ELIF'])
        if self.chance(0.25):
            return f'${w} {self.any_expr(sc)}'
        return w if self.chance(0.3) else f'{w} {self.text(10)}'

    def block(self, sc: Scope, depth, budget):
        """a list of (depth, text) for a block body; budget limits total statements"""
        out = []
        n = self.r.randint(1, 4)
        for _ in range(n):
            if budget[0] <= 0: break
            out.extend(self.statement(sc, depth, budget))
        if not out: out = [(depth, 'PASS')]
        return out

    def statement(self, sc: Scope, depth, budget):
        r = self.r
        budget[0] -= 1
        c = r.random()
        deep = depth >= 4
        if c < 0.16:
            return [(depth, self.simple_ducky())]
        if c < 0.30:
            return [(depth, f'$STRING {self.any_expr(sc)}')]
        if c < 0.42:
            nm = self.name()
            kind = r.choice(['int', 'int', 'int', 'str', 'bool'])
            e = {'int': self.int_expr(sc), 'str': f'{self.str_lit()}+{self.int_expr(sc, 2)}' if self.chance(0.5) else self.str_lit(), 'bool': self.cond_expr(sc)}[kind]
            sc.vars[nm] = kind
            return [(depth, f'VAR {nm} {e}')]
        if c < 0.52 and not deep:
            out = [(depth, f'IF {self.cond_expr(sc)}')] + self.block(sc.child(), depth + 1, budget)
            for _ in range(r.choice([0, 0, 1, 1, 2, 3])):
                if self.chance(0.2): out.append((depth, self.simple_ducky()))
                out += [(depth, f'{r.choice(["ELIF", "elif", "ELIF"])} {self.cond_expr(sc)}')] + self.block(sc.child(), depth + 1, budget)
            if self.chance(0.5):
                out += [(depth, 'ELSE')] + self.block(sc.child(), depth + 1, budget)
            return out
        if c < 0.60 and not deep:
            cnt = r.choice(['0', '1', '2', '3', '4', '(' + self.int_expr(sc, 2) + ')%5'])      # an evaluated count, kept small: nested loops over thousands of rounds only cost time-outs
            if self.chance(0.6):
                v = self.name(); s2 = sc.child(loop=True); s2.vars[v] = 'int'
                return [(depth, f'{r.choice(["REPEAT", "FOR", "repeat"])} {v},{cnt}')] + self.block(s2, depth + 1, budget)
            return [(depth, f'{r.choice(["REPEAT", "FOR"])} {cnt}')] + self.block(sc.child(loop=True), depth + 1, budget)
        if c < 0.66 and not deep:
            v = self.name(); s2 = sc.child(loop=True); s2.vars[v] = 'int'
            lim = r.choice(['0', '1', '2', '3', '5'])
            cond = r.choice([f'{v}<{lim}', f'{v} < {lim}', f'{v}!={lim}', f'!({v}>={lim})'])
            return [(depth, f'WHILE {v},{cond}')] + self.block(s2, depth + 1, budget)
        if c < 0.70 and sc.in_loop:
            w = r.choice(['BREAKLOOP', 'BREAK_LOOP', 'CONTINUELOOP', 'CONTINUE_LOOP', 'CONTINUE', 'breakloop'])
            if self.chance(0.7):
                return [(depth, f'IF {self.cond_expr(sc)}'), (depth + 1, w)]
            return [(depth, w)]
        if c < 0.76 and not deep and not sc.in_func:
            fn = r.choice(['f', 'g', 'h', 'fn1', 'go']) if self.chance(0.7) else self.fresh('f')
            ar = r.choice([0, 1, 1, 2, 3, 4])
            ps = [r.choice(['p', 'q', 'a', 'b', 'x', 'n']) + str(i) for i in range(ar)]
            s2 = sc.child(func=True)
            for p in ps: s2.vars[p] = 'int'
            s2.funcs[fn] = ar          # recursion possible
            body = self.block(s2, depth + 1, budget)
            sc.funcs[fn] = ar
            head = f'{r.choice(["FUNC", "FUNCTION", "func"])} {fn}' + ((' ' + ','.join(ps)) if ps else '')
            return [(depth, head)] + body
        if c < 0.84 and sc.funcs and not sc.in_func:
            fn = r.choice(list(sc.funcs))
            ar = sc.funcs[fn]
            if self.chance(0.08): ar = max(0, ar + r.choice([-1, 1]))
            args = ','.join(self.r.choice([self.int_expr(sc, 2), self.str_lit(), self.atom(sc)]) for _ in range(ar))
            return [(depth, f'RUN {fn}' + ((' ' + args) if args else ''))]
        if c < 0.87:
            return [(depth, r.choice(['RETURN', 'RET', 'RETURN 1+1']))] if self.chance(0.35) else [(depth, 'PASS')]
        if c < 0.91:
            if self.chance(0.5): return [(depth, f'PRINT {self.text(10)}')]
            return [(depth, f'$PRINT {self.any_expr(sc)}')]
        if c < 0.94:
            return [(depth, self.unknown_cmd(sc))]
        if c < 0.96:
            vs = list(sc.vars)
            if vs and self.chance(0.7): return [(depth, f'EXIST {r.choice(vs)}')]
            return [(depth, f'{r.choice(["NOTEXIST", "NOT_EXIST"])} {self.fresh("nv")}')]
        if c < 0.98:
            # grouped arguments
            cmd = r.choice(['STRING', 'STRINGLN', 'DELAY', 'PRINT', 'HOLD', 'REM', 'ALT', '$STRING', 'VAR'])
            n = r.randint(1, 3)
            if cmd == 'DELAY': args = [self.int_expr(sc, 2) for _ in range(n)]
            elif cmd == 'ALT': args = [r.choice(['a', 'F4', 'esc', 'TAB']) for _ in range(n)]
            elif cmd == '$STRING': args = [self.any_expr(sc) for _ in range(n)]
            elif cmd == 'VAR':
                args = []
                for _ in range(n):
                    nm = self.name(); sc.vars[nm] = 'int'; args.append(f'{nm} {self.int_expr(sc, 2)}')
            else: args = [self.text(10) for _ in range(n)]
            head = cmd if self.chance(0.6) or cmd == 'VAR' else f'{cmd} {args[0]}'
            return [(depth, head)] + [(depth + 1, a) for a in args]
        if c < 0.99:
            body = [self.text(8) for _ in range(r.randint(1, 3))]
            cmd = r.choice(['STRING', 'IGNORE', 'STRINGLN'])
            return [(depth, cmd), (depth + 1, '"""')] + [(depth + 1, r.choice(['', ' ', '  ', '\t']) + b) for b in body] + [(depth + 1, '"""')]
        return [(depth, r.choice(['$ENTER 3', 'WHITESPACE 2', '$ENTER 0', 'WHITESPACE', '$DELAY 5*2', 'IGNORE\n' if False else 'ENTER']))]

    def program(self, size=12, scope=None):
        sc = scope or Scope()
        budget = [size]
        out = []
        while budget[0] > 0:
            out.extend(self.statement(sc, 0, budget))
        return out, sc

    def faulty_line(self, sc):
        r = self.r
        return r.choice(['GUI xx', 'DELAY "a"', '$STRING 1/0', '$STRING (1', 'RUN nosuch', 'VAR 1x 5', 'DELAY 0-1', 'EXIST nosuchvar',
                         '$STRING undefinedvar', 'SHIFT q', 'TAB x', 'ALTCHAR 12345', 'RUN', 'VAR x', '$STRING "a" - 1', 'DELAY 1.5',
                         'BREAKLOOP x', '$STRING 5 % 0', 'ELSE x', 'WHITESPACE 100', 'START', 'DEFAULT_DELAY TRUE', '$STRING )', '$STRING 1 +'])

    def options(self):
        r = self.r
        o = {}
        if self.chance(0.3): o['include_comments'] = self.chance(0.5)
        if self.chance(0.2): o['flipper_commands'] = self.chance(0.5)
        if self.chance(0.2): o['supress_command_not_exist'] = self.chance(0.5)
        if self.chance(0.3): o['stack_limit'] = r.choice([2, 3, 4, 5, 6, 8, 20])
        return o or None

    def units(self):
        return self.r.choice(['    ', '    ', '\t', '  ', ' ', '        ', ' \t', '\t '])

    def blanks(self, lines):
        """insert blank / whitespace-only lines at random positions"""
        out = []
        for l in lines:
            while self.chance(0.08): out.append((0, self.r.choice(['', ' ', '\t', '   '])))
            out.append(l)
        return out

    # ---- whole cases ----
    def case_general(self, i):
        prog, sc = self.program(self.r.randint(3, 18))
        if self.chance(0.25):
            pos = self.r.randint(0, len(prog))
            d = prog[pos][0] if pos < len(prog) else 0
            prog.insert(pos, (d, self.faulty_line(sc)))
        if self.chance(0.3): prog = self.blanks(prog)
        text = render(prog, self.units())
        return dict(id=i, op='compile', opts=self.options(), src=dict(text=text))
