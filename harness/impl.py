#!/venv/bin/python
"""impl.py — in-process runner of the real DucklingScript package (DESIGN.md §2.5).

A case is a JSON object:
  {"id":…, "op":"compile"|"compile_file"|"parse"|"tokenize"|"history"|"cli", "opts":{…}|null,
   "files":{"rel/path.txt": text}, "cfgs":{"rel/dir": {option: value}},
   "src":{"text":…}|{"lines":[…]}|{"tree":[…]}, "file":"rel/path.txt"|null, ...}
Results use the same canonical JSON shape as the Lean driver (`lean/Driver.lean`).

Every case runs under a `setitimer` timeout in a worker process whose HOME and cwd are inside a
scratch directory (outside /repo and /verif) that is removed afterwards.
"""
from __future__ import annotations
import json, os, re, shutil, signal, sys, tempfile, traceback
from pathlib import Path

REPO = os.environ.get('VERIF_REPO', '/repo')
TIMEOUT = float(os.environ.get('VERIF_CASE_TIMEOUT', '10'))

_ds = None


def ds():
    """import the package (once per process) from REPO"""
    global _ds
    if _ds is None:
        if REPO not in sys.path:
            sys.path.insert(0, REPO)
        import ducklingscript
        assert Path(ducklingscript.__file__).resolve().is_relative_to(Path(REPO).resolve()), ducklingscript.__file__
        _ds = ducklingscript
    return _ds


class Timeout(Exception):
    pass


def _alarm(signum, frame):
    raise Timeout()


def show_val(v) -> str:
    if isinstance(v, bool): return 'bool:True' if v else 'bool:False'
    if isinstance(v, int):
        try: return 'int:%d' % v
        except ValueError: return 'int:huge'
    if isinstance(v, float): return 'flt:' + repr(v)
    if isinstance(v, str): return 'str:' + v
    if isinstance(v, list): return 'list:[' + ','.join(show_val(x) for x in v) + ']'
    if v is None: return 'none'
    return 'other:' + type(v).__name__


def rel(p, root: Path):
    if p is None: return None
    try:
        return str(Path(p).relative_to(root))
    except ValueError:
        return str(p)


def trace_of(nodes, root):
    return [[rel(n.file, root), n.line.number, (n.line_2.number if n.line_2 is not None else None)] for n in nodes]


WARN_RES = [
    (re.compile(r'^The command on line (\d+) may not exist$'), 'notExist'),
    (re.compile(r'^Setting the default delay multiple times is unnecessary\.$'), 'defaultDelayMulti'),
    (re.compile(r'^Program was exited using (\w+) instead of using RETURN$'), 'exitedUsing'),
]


def warn_of(w, root):
    kind, arg = 'other:' + str(w.error), None
    for rx, k in WARN_RES:
        m = rx.match(str(w.error))
        if m:
            kind = k
            if m.groups():
                arg = int(m.group(1)) if m.group(1).isdigit() else m.group(1)
            break
    return dict(kind=kind, arg=arg, trace=(trace_of(w.stacktrace, root) if w.stacktrace is not None else None))


def prints_of(std, root):
    return [[s.line.content if isinstance(s.line.content, str) else show_val(s.line.content), s.line.number, rel(s.file, root)] for s in std]


def result_ok(c, root):
    return dict(kind='ok', out=[x if isinstance(x, str) else 'NONSTR:' + repr(x) for x in c.output],
                warns=[warn_of(w, root) for w in c.warnings], prints=prints_of(c.std_out, root),
                vars={k: show_val(v) for k, v in c.env.var.user_vars.items()})


def result_err(e, root):
    d = ds()
    r = dict(kind='cerr', cls=type(e).__name__, trace=None, prints=None, lineNo=None, msg=str(e.args[0]) if e.args else '')
    if isinstance(e, d.GeneralError) and e.stack is not None:
        try:
            r['trace'] = trace_of(e.stack_traceback(-1), root)
            # asking for the last n entries returns exactly the n innermost (the CLI asks for five)
            for n in (0, 1, 2, 3, 5, 8):
                tn = trace_of(e.stack_traceback(n), root)
                want = r['trace'][-n:] if n > 0 else []
                if tn != want:
                    r.setdefault('trace_limit_bad', []).append([n, tn])
        except Exception as ex:   # producing the trace must always succeed (C09)
            return dict(kind='crash', exc='trace:' + type(ex).__name__, where=innermost_frame(ex), msg=str(ex)[:200])
        try:
            r['prints'] = prints_of(e.stack.std_out, root)
        except Exception as ex:
            return dict(kind='crash', exc='std_out:' + type(ex).__name__, where=innermost_frame(ex), msg=str(ex)[:200])
    else:
        m = re.search(r'(?:on line |began on )(\d+)', r['msg'])
        if m: r['lineNo'] = int(m.group(1))
    return r


def innermost_frame(ex) -> str:
    tb = traceback.extract_tb(ex.__traceback__)
    for fr in reversed(tb):
        if '/ducklingscript/' in fr.filename:
            return '%s:%s' % (fr.filename.split('/ducklingscript/', 1)[1], fr.name)
    return '?'


def mk_opts(o):
    d = ds()
    if o is None: return None
    return d.CompileOptions(**o)


def materialise(case, root: Path):
    for p, text in (case.get('files') or {}).items():
        f = root / p
        f.parent.mkdir(parents=True, exist_ok=True)
        with open(f, 'w', newline='') as fh:
            fh.write(text)
    for link, target in (case.get('symlinks') or {}).items():       # link -> target, both relative to the scratch root
        f = root / link
        f.parent.mkdir(parents=True, exist_ok=True)
        os.symlink(os.path.relpath(root / target, f.parent), f)
    import yaml
    for dname, cfg in (case.get('cfgs') or {}).items():
        f = root / dname / 'config.yaml'
        f.parent.mkdir(parents=True, exist_ok=True)
        if isinstance(cfg, str):
            f.write_text(cfg)
        else:
            f.write_text(yaml.dump(cfg))


def snapshot(root: Path):
    out = {}
    for p in sorted(root.rglob('*')):
        if p.is_file():
            out[str(p.relative_to(root))] = p.read_bytes().decode('utf-8', 'replace')
        elif p.is_dir():
            out[str(p.relative_to(root)) + '/'] = '<dir>'       # folders count as side effects too
    return out


def src_of(case):
    s = case['src']
    if 'text' in s: return s['text'], False
    if 'lines' in s: return list(s['lines']), False
    return s['tree'], True


def procstate():
    """process-level state a compilation could leave changed: interpreter settings and every module-level / class-level attribute of
    the package (plain introspection, no hook)"""
    import decimal, threading, types, warnings
    st = {'sys.recursionlimit': sys.getrecursionlimit(), 'os.cwd': os.getcwd(), 'os.environ': repr(sorted(os.environ.items())),
          'decimal.context': repr(decimal.getcontext()), 'sys.int_max_str_digits': sys.get_int_max_str_digits(),
          'warnings.filters': len(warnings.filters), 'threads': threading.active_count(), 'sys.path': repr(sys.path),
          'sys.switchinterval': sys.getswitchinterval(), 'os.umask': None}
    def deep(v, depth=4, seen=None):
        """a description of a value that shows what is INSIDE objects and containers (a class-level object whose content a compilation
        changed has the same identity and the same default repr)"""
        seen = seen if seen is not None else set()
        if isinstance(v, (int, float, str, bytes, bool, type(None))): return repr(v)[:120]
        if id(v) in seen or depth == 0: return '<' + type(v).__name__ + '>'
        seen = seen | {id(v)}
        if isinstance(v, (list, tuple, set, frozenset)): return type(v).__name__ + '[' + ','.join(deep(x, depth - 1, seen) for x in list(v)[:40]) + ']'
        if isinstance(v, dict): return '{' + ','.join(deep(k, depth - 1, seen) + ':' + deep(x, depth - 1, seen) for k, x in list(v.items())[:40]) + '}'
        if isinstance(v, type) or callable(v) or isinstance(v, types.ModuleType): return '<' + getattr(v, '__name__', type(v).__name__) + '>'
        d = getattr(v, '__dict__', None)
        if isinstance(d, dict): return type(v).__name__ + deep(d, depth - 1, seen)
        return '<' + type(v).__name__ + '>'
    for name, mod in sorted(sys.modules.items()):
        if not name.startswith('ducklingscript') or mod is None: continue
        for k, v in list(vars(mod).items()):
            if k.startswith('__'): continue
            if isinstance(v, type):
                if v.__module__ != name: continue
                for a, av in list(vars(v).items()):
                    if (a.startswith('__') and a.endswith('__')) or callable(av) or isinstance(av, (staticmethod, classmethod, property)): continue
                    st[f'{name}.{k}.{a}'] = deep(av)[:600]
            elif not callable(v) and not isinstance(v, types.ModuleType):
                st[f'{name}.{k}'] = deep(v)[:600]
    return st


def run_compile(case, root: Path, compiler=None):
    d = ds()
    op = case.get('op', 'compile')
    comp = compiler if compiler is not None else d.Compiler(mk_opts(case.get('opts')))
    try:
        if op == 'compile':
            text, skip = src_of(case)
            f = case.get('file')
            c = comp.compile(text, (root / f) if f else None, skip_indentation=skip)
            return result_ok(c, root)
        elif op == 'compile_file':
            # how the caller spells the entry path: absolute and normalised (default), relative to the working directory,
            # or through a folder and back out of it (`proj/zz_dir/../main.txt`)
            p = root / case['file']
            sp = case.get('entry')
            cwd = os.getcwd()
            try:
                if sp == 'relative':
                    os.chdir(root); p = Path(case['file'])
                elif sp == 'relative-leaf':      # the working directory is the entry file's own folder
                    os.chdir((root / case['file']).parent); p = Path(Path(case['file']).name)
                elif sp == 'dotdot':
                    parts = Path(case['file']).parts
                    (root.joinpath(*parts[:-1]) / 'zz_dir').mkdir(parents=True, exist_ok=True)
                    p = root.joinpath(*parts[:-1]) / 'zz_dir' / '..' / parts[-1]
                c = comp.compile_file(p)
                return result_ok(c, root)
            finally:
                os.chdir(cwd)
        raise ValueError('bad op ' + op)
    except d.CompilationError as e:
        return result_err(e, root)


def nodes_json(nodes):
    return [nodes_json(n) if isinstance(n, list) else [n.content, n.number] for n in nodes]


def run_case_inner(case, root: Path):
    d = ds()
    op = case.get('op', 'compile')
    materialise(case, root)
    if op in ('compile', 'compile_file'):
        r = run_compile(case, root)
        if op == 'compile_file':
            import yaml
            wr = None
            for dname in (case.get('cfgs') or {}):
                pass
            # report the project config of the entry file's folder as it is now
            cf = (root / case['file']).parent / 'config.yaml'
            if cf.exists():
                try:
                    r['cfgNow'] = yaml.safe_load(cf.read_text())
                    from dataclasses import asdict
                    r['cfgAfter'] = asdict(d.CompileOptions(**(r['cfgNow'] or {})))
                except Exception as ex: r['cfgNow'] = r['cfgAfter'] = 'unreadable:' + type(ex).__name__
            else:
                r['cfgNow'] = r['cfgAfter'] = None
        return r
    if op == 'parse':
        try:
            text, skip = src_of(case)
            lines = text.split('\n') if isinstance(text, str) else text
            return dict(kind='ok', tree=nodes_json(d.Compiler.prepare_for_stack(lines, skip)))
        except d.CompilationError as e:
            return result_err(e, root)
    if op == 'tokenize':
        try:
            return dict(kind='ok', val=show_val(d.Tokenizer.tokenize(case['expr'])))
        except d.CompilationError as e:
            return dict(kind='cerr', cls=type(e).__name__)
    if op == 'lex':
        # the token list of the character scanner (Tokenizer.__convert_string), before tree building and evaluation
        from ducklingscript.compiler.tokenization.tokenizer import Tokenizer, SolveData
        from ducklingscript.compiler.environments.environment import Environment
        env = Environment()
        for n, v in case.get('vars') or []: env.var.new_var(n, v)
        try:
            t = Tokenizer(None, env, case['expr'])
            obj = SolveData()
            t._Tokenizer__convert_string(obj)
        except d.CompilationError as e:
            return dict(kind='cerr', cls=type(e).__name__)
        toks = []
        for tok in obj.parse_list:
            cn = type(tok).__name__
            if cn == 'Tokenizer': toks.append([cn, tok.value, bool(tok.is_opposite)])
            elif cn.endswith('Operator'): toks.append([cn, tok.value])
            else: toks.append([cn, show_val(tok.value)])
        return dict(kind='ok', toks=toks)
    if op == 'history':
        # a sequence of compilations in this process; results of all steps
        comps = {}
        res = []
        ps0 = procstate()
        for step in case['steps']:
            key = step.get('compiler')
            sroot = root / step.get('dir', '.')
            sroot.mkdir(parents=True, exist_ok=True)
            materialise(step, sroot)
            c = None
            if key is not None:
                if key not in comps: comps[key] = d.Compiler(mk_opts(step.get('opts')))
                elif step.get('reassign'):      # the caller gives the reused Compiler new options
                    comps[key].compile_options = mk_opts(step.get('opts'))
                c = comps[key]
            try:
                res.append(run_compile(step, sroot, c))
            except Timeout:
                raise
            except Exception as ex:
                res.append(dict(kind='crash', exc=type(ex).__name__, where=innermost_frame(ex), msg=str(ex)[:200]))
        ps1 = procstate()
        diff = sorted(k for k in set(ps0) | set(ps1) if ps0.get(k) != ps1.get(k))
        return dict(kind='history', results=res, procDiff=[f'{k}: {ps0.get(k, "<absent>")} -> {ps1.get(k, "<absent>")}'[:300] for k in diff])
    if op == 'cli':
        return run_cli(case, root)
    raise ValueError('unknown op ' + str(op))


def run_cli(case, root: Path):
    """the CLI functions in a sandboxed HOME and cwd; MUST run in a fresh process (config is cached per process)"""
    import contextlib, io, yaml
    home = root / 'home'
    (home).mkdir(parents=True, exist_ok=True)
    os.environ['HOME'] = str(home)
    if case.get('home_cfg') is not None:
        (home / '.duckling').mkdir(exist_ok=True)
        hc = case['home_cfg']
        (home / '.duckling' / 'config.yaml').write_text(hc if isinstance(hc, str) else yaml.dump(hc))
    work = root / 'work'
    work.mkdir(exist_ok=True)
    for p, text in (case.get('pre_files') or {}).items():
        f = work / p; f.parent.mkdir(parents=True, exist_ok=True)
        if isinstance(text, dict): f.write_bytes(bytes.fromhex(text['hex']))       # exact bytes (other line endings, undecodable bytes)
        else: f.write_text(text)
    # materialise() wrote files/cfgs under root; move them under work
    for p in list(case.get('files') or {}) + [d + '/config.yaml' for d in (case.get('cfgs') or {})]:
        src = root / p
        if src.exists():
            dst = work / p; dst.parent.mkdir(parents=True, exist_ok=True); shutil.move(str(src), str(dst))
    os.chdir(work)
    steps = []
    buf0 = io.StringIO()
    with contextlib.redirect_stdout(buf0), contextlib.redirect_stderr(buf0):
        try:
            import importlib
            importlib.import_module('ducklingscript.cli')
            cc = sys.modules['ducklingscript.cli.compile']
            cn = sys.modules['ducklingscript.cli.new']
            imp_err = None
        except Exception as ex:
            imp_err = type(ex).__name__ + ': ' + str(ex)[:200]
    if imp_err:
        return dict(kind='crash', exc='cli-import', msg=imp_err)
    for inv in case['invocations']:
        before = snapshot(root)
        buf = io.StringIO()
        raised = None
        with contextlib.redirect_stdout(buf), contextlib.redirect_stderr(buf):
            try:
                if inv['cmd'] == 'compile':
                    kw = {}
                    if 'stack_limit' in inv: kw['stack_limit'] = inv['stack_limit']
                    if 'comments' in inv: kw['comments'] = inv['comments']
                    cc.compile((work / inv['file']).resolve(), (work / inv.get('output', 'a.txt')).resolve(), **kw)
                elif inv['cmd'] == 'new':
                    cn.new(inv['name'], (work / inv['path']) if inv.get('path') else None)
                elif inv['cmd'] == 'write':      # the user edits a file between two invocations
                    f = work / inv['path']; f.parent.mkdir(parents=True, exist_ok=True); f.write_text(inv['content'])
            except Timeout:
                raise
            except BaseException as ex:
                if isinstance(ex, (KeyboardInterrupt, SystemExit)): raise
                raised = type(ex).__name__ + ': ' + str(ex)[:200]
        steps.append(dict(raised=raised, stdout=buf.getvalue(), before=before, after=snapshot(root)))
    os.chdir('/')
    return dict(kind='cli', steps=steps)


def run_case(case, scratch: Path | None = None):
    """run one case with timeout; never raises"""
    own = scratch is None
    root = Path(tempfile.mkdtemp(prefix='dsv-', dir=os.environ.get('VERIF_SCRATCH')))
    old = signal.signal(signal.SIGALRM, _alarm)
    # a history is as many compilations as it has steps: each gets the per-case allowance
    allowance = float(case.get('timeout', TIMEOUT)) * max(1, len(case.get('steps') or case.get('invocations') or []))
    signal.setitimer(signal.ITIMER_REAL, allowance)
    try:
        r = run_case_inner(case, root)
    except Timeout as ex:
        r = dict(kind='hang', where=innermost_frame(ex))      # the call site the implementation was busy in
    except RecursionError as ex:
        r = dict(kind='crash', exc='RecursionError', where=innermost_frame(ex), msg='')
    except BaseException as ex:
        if isinstance(ex, (KeyboardInterrupt, SystemExit)): raise
        r = dict(kind='crash', exc=type(ex).__name__, where=innermost_frame(ex), msg=str(ex)[:200])
    finally:
        signal.setitimer(signal.ITIMER_REAL, 0)
        signal.signal(signal.SIGALRM, old)
        shutil.rmtree(root, ignore_errors=True)
    if 'id' in case: r['id'] = case['id']
    return r


def _init_worker(home):
    os.environ['HOME'] = home
    sys.setrecursionlimit(1000)
    ds()


def run_cases(cases, workers: int | None = None, fresh: bool = False):
    """first pass with the normal per-case timeout; cases that time out are re-run, few at a time, with
    eight times the timeout before they are called a hang (a loaded machine must not look like a hang)"""
    res = _run_cases(cases, workers, fresh)
    # (the one probe that is MEANT to run out of time — the unbounded `$ENTER` count, known finding D19 — is not retried;
    #  every other time-out, probes of other findings included, gets the second chance: on a loaded machine the deep-recursion
    #  probe of D13 once took longer than the first limit and looked like a hang somewhere new)
    slow = [i for i, r in enumerate(res) if r.get('kind') == 'hang' and cases[i].get('meta', {}).get('probe') != 'enter-huge']
    if slow:
        retry = [dict(cases[i], timeout=8 * float(cases[i].get('timeout', TIMEOUT))) for i in slow]
        rr = _run_cases(retry, min(4, len(retry)), True)
        for i, r in zip(slow, rr):
            r['slow'] = True
            res[i] = r
    return res


def _run_cases(cases, workers: int | None = None, fresh: bool = False):
    """run many cases on a process pool; returns results in order.
    fresh=True: every case runs in a newly forked child of a parent that has imported the package
    but never compiled anything (pristine process-level state)."""
    import multiprocessing as mp
    workers = workers or min(16, os.cpu_count() or 4)
    home = tempfile.mkdtemp(prefix='dsv-home-', dir=os.environ.get('VERIF_SCRATCH'))
    try:
        if (workers <= 1 or len(cases) < 8) and not fresh:
            _init_worker(home)
            return [run_case(c) for c in cases]
        ctx = mp.get_context('fork')
        if fresh:
            os.environ['HOME'] = home
            ds()
            with ctx.Pool(workers, maxtasksperchild=1) as pool:
                return pool.map(run_case, cases, chunksize=1)
        with ctx.Pool(workers, initializer=_init_worker, initargs=(home,)) as pool:
            return pool.map(run_case, cases, chunksize=max(1, min(64, len(cases) // (workers * 4) or 1)))
    finally:
        shutil.rmtree(home, ignore_errors=True)


if __name__ == '__main__':
    cases = [json.loads(l) for l in sys.stdin if l.strip()]
    for r in run_cases(cases):
        print(json.dumps(r))
