#!/usr/bin/env python3
"""ingest.py — copy a sub-agent's change from a scratch directory into /verif/seeded/<id>-<x>/.
usage: ingest.py <scratch dir> <Cxx> <x>...     e.g. ingest.py /scratch/mut2 C01 c d
Paths of the scratch worktree inside the demo are rewritten to the current directory (seedtest runs the demo
with cwd = PYTHONPATH = the worktree under test)."""
import json, os, sys
from pathlib import Path
VERIF = Path(__file__).resolve().parents[1]
src, pid, xs = Path(sys.argv[1]), sys.argv[2], sys.argv[3:]
for x in xs:
    base = src / f'{pid}.{x}'
    if not Path(str(base) + '.diff').exists(): print('missing', base); continue
    d = VERIF / 'seeded' / f'{pid}-{x}'; d.mkdir(parents=True, exist_ok=True)
    (d / 'patch.diff').write_text(Path(str(base) + '.diff').read_text())
    demo = Path(str(base) + '.demo.py').read_text().replace(str(src / pid), '.')
    (d / 'demo.py').write_text(demo)
    try: m = json.loads(Path(str(base) + '.json').read_text())
    except Exception as e: m = dict(summary='(unreadable json: %s)' % e)
    meta = dict(property=pid, summary=m.get('summary'), needs=m.get('needs'), failing_input=m.get('failing_input'),
                origin=os.environ.get('SEED_ORIGIN','written by an independent sub-agent that saw only the property text and a scratch worktree'), confirmed=None)
    (d / 'meta.json').write_text(json.dumps(meta, indent=1, ensure_ascii=False))
    print('ingested', d.name)
