import json, subprocess, re
from pathlib import Path
V=Path('/verif')
d=V/'DESIGN.md'
s=d.read_text()
i=s.index('## 10. As built')
head=s[:i]
fixes=subprocess.run(['git','-C','/repo','log','--format=%h %s'],capture_output=True,text=True).stdout.strip().split('\n')
fixes=[f for f in fixes if ' fix:' in f]
kf=json.loads((V/'known_findings.json').read_text())
fx={f['commit']:f for f in kf['fixed']}
rows=[]
for sd in sorted((V/'seeded').iterdir()):
    m=json.loads((sd/'meta.json').read_text())
    summ=(m.get('summary') or '').replace('\n',' ').replace('|','/')
    caught = m.get('caught_by') or f"./check {m['property']} quick"
    rows.append(f"| {sd.name} | {m['property']} | {summ[:170]} | `{caught}` |")
sec=f'''## 10. As built (construction phase) — what differs from the plan above, and the record the brief asks for

### 10.1 Repairs committed to `/repo` (one `fix:` commit per defect; the unedited 70-test suite passes after each)

Each is also recorded in `known_findings.json` under `fixed` as `fixed: property=<id> <commit> <what failed>` (a fixed entry
suppresses nothing).

''' + '\n'.join(f"  * {f}  —  {fx.get(f.split()[0],{}).get('property','?')}: {fx.get(f.split()[0],{}).get('what','')}" for f in fixes) + '''

Beyond the design-phase list the machinery found and repaired: `$VAR 5` / `$RUN 5` (AttributeError), `DEFAULT_DELAY 0-5`
(emitted `DEFAULT_DELAY -5`; first reported by a sub-agent while seeding C02 changes), `$STRING ²` (`isnumeric()`),
**`"a"+4/2` → `a2.0` but `"a"+(4/2)` → `a2`** (e0c256b: the value depended on redundant parentheses; the construction-phase C04
generator had *excluded* string concatenation with float-typed operands as "outside the property" — a round-2 seeded change
(C04-d) that merely moved the normalisation showed that the exclusion hid a genuine violation of "integral results are
integers / independent of redundant parentheses"; the exclusion is removed, the defect repaired, the model simplified: `mkFlt`
never yields a whole float), and **`$ALTCHAR " 12"` → `ALTCHAR  12`** and `ALTCHAR ²` accepted (34e4a37: found while *proving*
`C02_every_emission_legal` — the ALTCHAR case of the proof did not close because the hook checks the stripped text and the line
keeps the blanks); after round 4: `START` + an over-long name (OSError), the comma operator extending its left operand in place
(aliasing between variables; a list containing itself → RecursionError), and — found when print texts that look like console markup
were added to the generators — `PRINT [/] x`, `FOO [/] x` or a faulty line with such text made `duckling compile` raise rich's
MarkupError instead of reporting, and `PRINT [red] alert` was reported as ` alert` (fix: 045314b: user text is escaped before it is
interpolated into rich markup); in session 4, **`$STRING 1+1+…+1` with about a thousand terms → RecursionError** out of
`Operator.solve` (fix: 2643731: the parse tree of a chain of equal-rank operators is as deep as the chain is long and is solved
recursively; `Tokenizer.tokenize` now reports ExceededLimitError — found because the round-8 seeded change C17-p *relied* on that crash
to make a later compilation's result depend on an earlier one; C09 now compiles flat expressions of 300 … 20 000 operands in every
evaluating context). The model is a model of the repaired tree.

### 10.2 Known findings (recorded in `known_findings.json`, not repaired)

* **D13** RecursionError for very deep nesting (1 100 nested blocks; a 199-deep START chain at limit 200; unbounded RUN
  recursion at limit 200 around a 100-deep expression) — C09, C14. Repair means changing the interpreter's recursion scheme.
* (D12, integers beyond CPython's 4 300-digit conversion limit, is no longer a finding: writing such an integer out was
  repaired by 99a4f48, reading such a literal by 0addceb.)
* **D19** `$ENTER 10^10` (and now equally `$ENTER 10.0^400`): unbounded time and memory — C09.
* **D18** grouped `DEFAULT_DELAY` evaluates all arguments before applying any — C11.
* **D14** names that are a prefix of, equal to, or an extension of `TRUE`/`FALSE` are accepted but cannot be read back — C20.

### 10.3 Deviations from the plan, and what is proved as of the last commit

* The interpreter model is *bind-structured*: every place that creates a stack goes through `runChild`/`guardChild`, and each
  command is split into a child-free "pre" stage and the stage that runs children. This makes whole-interpreter invariants
  one short lemma per function, closed under `>>=`. Walks done (each for EVERY program tree, depth, context and state):
  `exec_stable` (C14: a run that did not hit the limit is unchanged by a larger limit), `exec_traced` (C10: every located error
  names a line of the running block after the frames it was given), `exec_prints_grow` (C18: the print log only grows, errors
  carry an extension), `exec_crash_only_index` (C09: the only host exception is the blank-line IndexError), and the generic
  **hereditary walk** `exec_hereditary` (Lemmas/Hered.lean): for a predicate `q` on command lines that holds of all the code that
  can run (program, function bodies in the environment, files on disk as parsed) and a predicate `P` on output lines that every
  command's own emission satisfies, no run raises the blank-line error, every output line satisfies `P`, and the function table
  keeps the invariant. Instances: `C09_compile_never_crashes` (`q` = non-blank, by `parseLines_noBlank`: **compiling any text,
  with any options and file system, never crashes**) and `C02_compile_output_legal` (`q` = not an IGNORE line, `P` = `legalLine`:
  **a program without IGNORE emits only legal lines**, with `C02_every_emission_legal` covering all 28 simple classes and the
  unknown-command pass-through in every delivery form), `C02_compile_no_duckling_keyword` (`q` = a known command that is not
  IGNORE, `P` = `plainLine`: no DucklingScript-only keyword or `$` name in the output), and — with a *context invariant* that every
  child stack inherits (the options) — `C15_comments_off_no_rem` and `C15_flipper_off_no_flipper_line`.
* Further unbounded theorems beyond the per-site laws: `C03_roundtrip` (parse ∘ print = id for every well-formed tree, any unit,
  any blank lines), `C09_evaluator_never_crashes` (scanner invariant: every number token is `[-]digits[.digits]`), `C04_build`
  (the tree builder equals the precedence-climbing reference for any token sequence), `C06_repeat_exact`, `C17_history`.
* **Simulation walks** (session 3) — two runs in lock-step through every function of the interpreter, for every program, depth,
  context and state. First form (`Lemmas/Sim.lean`, `exec_sim`): THE SAME code under other option flags and a projected warning
  list; either the base run ends in an error the instance declares an *escape*, or the projected run's result is the projection of
  the base run's result (same signal, same error and trace, projected state, filtered output). Instances (`Lemmas/SimInst.lean`),
  each lifted to `Compiler.compile` by `compile_sim`: `C15_suppress_whole` (suppression = the same compilation with exactly the
  unknown-command warnings removed), `C15_comments_whole` (comments off = comments on with the REM lines filtered out — programs
  without IGNORE; the one subtlety is that REM returns a line with comments on and nothing with them off, which only agrees
  because every result of the class carries NORMAL or no signal: `NormalCls`/`ItemSim`), `C15_flipper_whole` (Flipper on = Flipper
  off unless that run ends in InvalidCommand). Second form (`Lemmas/Sim2.lean`, `S2.exec_sim`): the projected run executes
  OTHER code — every command line rewritten by an instance-chosen `lineT`, blocks that are code rewritten recursively (argument
  groups and IGNORE bodies are text and stay), the bodies of the functions in the environment and the parsed files on disk
  rewritten the same way (`FRel`), another print log. Instance (`Lemmas/SimPrint.lean`): every plain PRINT line rewritten to PASS —
  `C18_print_invisible`: the compilation gives the same output, warnings, variables, the same error with the same trace, and an
  empty print log; `C18_print_text_irrelevant`. These replace the "metamorphic statement validated by correspondence only" notes
  of C15 and C18 by theorems.
* **Refinement, chain and scanner theorems** (session 3). `C08_refines_scoped` (Spec/Scoped.lean, Lemmas/ScopedRef.lean): the
  compiler's copy-in / copy-back environment machine refines the textbook scoped stack of frames for ANY history of assignments,
  block entries and exits (invariant by induction over operations: domains agree at every depth, current values agree, frames do
  not shadow). `C05_chain` (Lemmas/Chain.lean): an IF/ELIF/ELSE chain of any length as `Stack.run` executes it is the chain with
  an explicit "a branch has run" boolean — the induction keeps `$IF_SUCCESS` equal to that boolean through every arm and body. The
  character scanner, by induction over its loop: `lex_digits` / `tokenize_digits` (a digit string of any length is one number token
  and evaluates to its integer — hence `C01_delay_line`, `C01_default_delay_line`: DELAY / DEFAULT_DELAY lines pass through written
  as the number they denote) and `lex_name` / `C20_readable` (for EVERY set of names in scope, prefixes of one another included, a name
  in scope is one Variable token and evaluates to its value: the keyword matcher's candidate-set invariant; `C20_readable_tf` adds the
  names starting with T/F, which go through the Boolean class, give up where they depart from TRUE/FALSE, and are re-read from their
  start with that class black-listed — leaving exactly the known finding D14 outside); and `lex_flat` / `C04_flat_value` (Lemmas/LexFlat.lean):
  flat arithmetic of any length over all fourteen operators is scanned into its tokens (one `Steps` lemma per kind of token, for the
  scanner standing anywhere in the text; `/` vs `//`, `<` vs `<=` decided at the next character) and `Tokenizer.tokenize` of it is the
  evaluation of the reference precedence parse — scanner, tree builder (`C04_build`) and evaluator composed end to end; `lex_flatB`
  (Lemmas/LexFlatB.lean): blanks of any kind and number before, between and after those tokens change nothing (spacing); `lex_expr` /
  `C04_expr_value` (Lemmas/LexAtoms.lean, LexExpr.lean): the same for flat expressions over EVERY kind of leaf value — numbers, variable
  names among any set of names in scope, TRUE/FALSE, string literals — each leaf by an `Atom` lemma pair (closed by a delimiter / by
  the end of the text), so that only parenthesised groups, `!( )`, signed/decimal literals and T/F-names inside compound
  expressions remain outside the scanner theorems.
* **Session 4 theorems.** *Parentheses* (C04; Lemmas/LexGroup, EvalGroup): a parenthesised group `( t )` / `!( t )` around ANY balanced
  text `t` is ONE token for the scanner (the group class's depth / in-string bookkeeping as a fold `grpWalk`, one step lemma per
  character, induction over the inner text; the Boolean and Variable classes give up on `(` / `!` first and are black-listed), the
  evaluator's recursion through the scanner is independent of the model's fuel (`eval_fuel_mono`: whatever an evaluation returns
  other than "out of fuel" it returns for any larger fuel — value tokens, trees and whole texts by one mutual induction), tree building
  preserves a weight that bounds the fuel an evaluation needs (`reduceAll_weight`), hence `C04_group_value`: `tokenize` of a flat
  expression whose leaves include groups is the reference precedence parse in which every group leaf has the value `tokenize` gives the
  text between its parentheses (negated for `!( )`) — parentheses override precedence to any nesting depth by re-application —,
  `C04_redundant_parens` (`( t )` evaluates to exactly what `t` does) and `C04_not_value`.  Guard: the model's own evaluation of `t` is
  not its "fuel ran out" answer (sufficiency of the fuel for arbitrary text is not proved).  *WHILE* (C06): `WhileRuns`, a big-step
  relation with no budget and no limit, and `C06_while_sound` / `C06_while_complete`: the loop returns `o` iff the iterations written
  out one after the other end in `o`, for any budget that is large enough.  *Parser soundness on ANY text* (C03; Lemmas/TabSound):
  `C03_no_line_dropped` — whenever `parse_document` succeeds, the tree's code lines in document order are source lines in source order
  and every non-blank, non-triple-quote line is among them (loop invariant over `stepLine` with the recursive call abstracted, then
  induction over the recursion).  *Depth exactness* (C14): `C14_nest_exact` — `k` running IF/ELIF/ELSE blocks nested around stack-free
  code overflow with `d` stacks to spare iff `d < k`, for every `k` and `d` (ELSE-in-ELSE is a kernel-checked instance).
  Later in session 4: *every kind of leaf* is now inside the scanner theorems — signed / decimal literals (Lemmas/LexNum) and names
  beginning with T or F anywhere in a compound expression (Lemmas/LexNameTF: Boolean phase, departure, restart with the class
  black-listed, Variable phase, in `Steps` form) — and the fuel guard is discharged for structured expressions of ANY nesting depth
  (`C04_nested_total`, `C04_nested_value`; Lemmas/NoFuel: no value operation, literal conversion or operator ever returns the model's
  fuel answer, tree building keeps the leaves).  `C03_line_text_kept` (the text of every line of the tree is its source line minus leading
  white space, any input).  `C08_block_creates_nothing` / `C08_repeat_creates_nothing` / `C08_while_creates_nothing` /
  `C08_run_creates_nothing` / `C08_block_keeps_functions` (whole block statements and calls, any body — the child executor is arbitrary —,
  any number of iterations, every exit path: no user variable and no function exists afterwards that did not exist before).
  `C11_verbatim_group` (a group between two triple-quote lines is exactly the lines in between, relative indentation kept).
  `C13_acceptance_is_history_independent` (whether an import is accepted depends only on the files of the live stacks and the file system).
  `C14_compile_nest_exact` (exactness of the limit through `Compiler.compile` for every `k` and `L ≥ 1`).  `C18_only_print_writes_the_log`
  (a program without a plain PRINT at a command position compiles with an empty log — corollary of the simulation).
* **Process-state snapshot** (session 4): the C17 harness now compares, before and after every history, the interpreter's settings
  (recursion limit, integer-digit limit, working directory, environment, decimal context, warning filters, thread count, `sys.path`) and
  every module-level and class-level attribute of every loaded `ducklingscript` module (plain introspection, no hook) — what DESIGN §5/C17
  planned and the construction phase had left out.
* **Tighter tie for the command line** (session 4): until now the CLI model (`Model/Cli.lean`: `cliCompile` over an abstract file system —
  the function the C19 theorems are about) was tied to the code only through the oracle on the real CLI. The driver has a new op `cli`
  that runs `cliCompile` on the same sequences of invocations (files, project / global configuration by meaning, prior bytes at the
  output path, edits of the project file between invocations), and `props/C19.model_diff` compares every step with the real
  `cli.compile.compile`: success / failure, the bytes at the output path, which files changed, the error class, the lines of the last five
  trace entries, the prints, and what the project and global `config.yaml` denote afterwards (≈ 360 of the 446 quick-tier sequences are
  in the model's domain). First run: 17 disagreements, all for `stack_limit: 0` in the home file — `Stack.__init__` compares the
  pile's length with the limit by `==`, so 0 (which only a configuration file can say; the command line accepts 5..200) DISABLES the
  limit, while the model's `exec (limit − 1)` made it "overflow at once". The model was wrong about the code; `compileFile` and the
  driver now answer outOfModel for an effective limit of 0 (`C15_entry_points` carries the hypothesis). The number of warnings is not
  compared (identity vs value de-duplication, §2.5).
* **Signed and decimal literals** (session 4, Lemmas/LexNum): `[-]digits[.digits]` as a leaf of the scanner theorems (`Atom.lit`); with the
  group leaves this leaves only names beginning with T/F inside compound expressions outside `C04_lex_expr`.
* **Tighter tie for the scanner** (session 3): the correspondence now also compares the scanner's TOKEN LIST
  (`Tokenizer.__convert_string`: classes, operator texts, leaf values, inner texts and `!` flags of groups) with the model's `lex` —
  the very function `lex_digits`, `lex_name`, `lex_flat`, `lex_flatB` are about — on structured expressions in random layouts and on
  token soup with names that are prefixes of one another (driver op `lex`, C04 family `tokens`), not only the final values.
* `Spec.Prog` (the scoped big-step semantics) exists as the Python reference interpreter `harness/refinterp.py` (the
  construction-side oracle), not as a Lean definition; the refinement of the WHOLE interpreter to it is therefore not proved (the
  environment-level refinement `C08_refines_scoped` and the algebraic laws are). The third sentence of C02 (no DucklingScript-only keyword without a warning) is decided by oracle + correspondence only.
  Each Props file header says exactly what is and is not proved.
* Lists: equality / ordering of two lists and lists stored in variables are `outOfModel`; nested-list *values* exist.
* Non-vacuity `example`s that would run the interpreter inside the kernel are not used (kernel evaluation of the model exhausts
  memory); the same instances are executed by the compiled model in the correspondence (tests, labelled as tests). Small
  instances (`resolveImport`, `allLinesL noIgnoreLine` on a literal tree, `GoodNumText`) are kernel-checked.

### 10.4 False alarms of the machinery itself, and what was done (none is listed as a finding)

* C09 reported *hang* for never-false `WHILE` fuzz cases that simply need 20 001 iterations: fuzzed WHILE bodies now end with
  BREAKLOOP, and every time-out is re-run with 8× the limit in a fresh process before it is called a hang.
* C17 compared a history step (no `cfgAfter`) with a fresh `compile_file` (has it): the comparison key drops report-only fields;
  later the same key also had to drop the `slow` marker the 8× retry adds (8-seed sweep, seed 3).
* C10 generated `START` names relative to the wrong folder; C11 generated verbatim groups with only blank lines; C03's
  expectation forgot that STRING keeps text from its first non-blank character: generator/oracle errors, corrected.
* C02's "no DucklingScript-only keyword" clause was applied to cases compiled with `supress_command_not_exist` (no warning can be
  raised there): the clause is skipped for those cases (first background sweep).
* C19 (8-seed sweep, seed 5): the generator drew a `--stack-limit 5` for a program nested six deep and expected the program's own
  DivideByZeroError; the report correctly showed StackOverflowError. The reference interpreter now records the deepest nesting
  and the generator keeps every limit that may be in force clear of it.
* C09 after the fix e0c256b: `$ENTER 10.0^400` became the same unbounded count as `$ENTER 10^400` (known finding D19); the fixed
  edge corpus skips it like its twin (the D19 probe covers it).
* C14: a new generator family mixed 2- and 4-space indentation (InvalidTabError, correctly); generator corrected.
* C04 (6-seed sweep after round 3, seed 11): the new re-evaluation family put redundant parentheses around a variable by a text
  replacement that also hit the letter `v` inside the string literal `"v="`, so its own expectation was wrong; the replacement is
  gone (the layout function already adds redundant parentheses at the tree level).
* Same sweep: C02's legality clause judged a line (`DELAY 0-1`) that an IGNORE block inside a loop had emitted verbatim — IGNORE
  output is not validated by DucklingScript, the property exempts it; the oracle now exempts output lines that stand inside an
  IGNORE block of the source. C18's planted failure `DELAY abc` met a generated variable named `abc` and was no failure; the
  planted failures use names and literals no generated program contains.
* C05 (round 4): the first version of the recursion family put an `IF` between two arms (which starts a new chain — not what the
  reference interpreter was told) and read the parameter after the inner call had returned (a parameter that shadows a visible name
  overwrites it on exit: the quirk of §4, not the chain rule); both were errors of the generator. C14: the "deepest legal chain" of
  the both-limits family counted one stack per call where a call with an IF costs two; the depth is now the measured one.
  C19: editing the *global* configuration between two invocations in one process is not a CLI scenario (one run reads it once);
  only the project file is edited.
* C11 (round 5): arguments beginning with a no-break or ideographic space were first put into every spelling at every depth; the
  unchanged code treats such a line consistently only in a single-line top-level group (the white space a group's first line begins
  with is read as part of the indentation unit; in a nested group the same line is a tab error). That inconsistency is exotic and
  not what C11 states; the family is now exactly the single-line top-level group.
* C04 (pre-emptive inexact-decimal family): literals that Python prints in exponent notation (`1e-05`) are not DucklingScript
  syntax, and arithmetic on a comparison's truth value is not well-typed; both were generator errors.
* C09 thorough sweep: the token-soup family drew `$ENTER 10^400` — the known finding D19 under another family name. A hang is
  now identified by the call site the implementation was busy in when the timer fired (`compiler/commands/enter.py:run_compile`),
  and D19 is keyed on that call site, so the same defect reached through any generator is the same finding while a hang
  anywhere else is still a new violation.

* C09 (`vp check` of session 3, seed 1, on a loaded copy of the sandbox): the deep-indentation probe of the known finding D13 ran out of
  its first time limit and — probes being exempt from the 8× retry — was reported as a hang at a new call site. Only the probe that
  is MEANT to run out of time (`$ENTER 10^10`, D19) is exempt now; every other time-out gets the retry in a fresh process.
* Same session, 6-seed sweep: C02 took two minutes for two seeds because the general program stream drew evaluated loop counts in the
  thousands (nested) and `$ENTER 2^70` (D19 under another family): time-outs, not alarms, but the quick tier must stay quick —
  evaluated counts of the general stream are reduced modulo 5 and C02 leaves the D19 probe to C09.
* C17 (session 4, first run of the new host-resources family): a history step that re-used a Compiler object was compared with a fresh
  compile under the options written on the STEP, while a re-used Compiler keeps the options it was BUILT with (stack limit 100 vs 63:
  traces of different length). Generator error; steps that share a Compiler now share its options, as the older families did.
* C19 (session 4, first run of the CLI-model correspondence; the 17 disagreements made the check widen its search to other seeds): one
  widened case expected the program's own InvalidArgumentsError where the project file's `stack_limit: 4` — which replaces a limit given
  on the command line too — produced StackOverflowError first. Generator error (the "limits in force" list left the project file out when
  a command-line limit was given); corrected. The 17 disagreements themselves were the model's error about `stack_limit: 0` (§10.3).
* C20 (session 4, round 12): a new family expected `FUNC g a,f<LF>` (list input, a line break after the LAST parameter) to be rejected;
  parameters are stripped after the split at the commas, so the name is `f` and is valid. Generator error; the family is kept for function
  names and loop counters, where nothing is stripped.

### 10.5 Seeded changes (`seeded/<id>/`: patch.diff, demo.py, meta.json) and the checks that catch them

Round 1 (`-a`, `-b`), round 2 (`-c`, `-d`), round 3 (`-e`, `-f`), round 4 (`-g`, `-h`), round 5 (`-i`, `-j`), round 6 (`-k`, `-l`), round 7 (`-m`, `-n`), round 8 (`-o`, `-p`), round 9 (`-q`, `-r`), round 10 (`-s`, `-t`), round 11 (`-u`, `-v`) and round 12 (`-w`, `-x`); (round 4: the sub-agents were told how the harness
works — reference interpreter, formal model, tens of thousands of generated programs — and asked for the corner it does not look
into). Round 3: the sub-agents were asked for changes in shared
infrastructure that break the property indirectly and only for particular values, orders, nesting shapes, option combinations,
repeated calls in one process or error paths): each written by an independent sub-agent that saw only the property text and a
scratch worktree; each confirmed here (`harness/seedtest.py`: suite still passes with the change, the demo fails with it and
passes without it) and then run through the property's quick check with `VERIF_REPO` pointing at the patched worktree.
All are caught by the quick check of their property. Round 2 was first MISSED in ten cases, and the checks were strengthened:
C01-c (special single characters for every modifier are now in the quick tier), C02-c (pairs of different arguments in one
invocation, equal-valued ones included), C02-d (`$$`/`$$$` command names), C04-d (led to the fix e0c256b; the seeded change kept
is a regression of that fix), C07-d (which definition is visible after a block), C09-c (verbatim regions with blank lines at file
and group level), C11-c (trailing blanks in all spellings), C12-c (the same dotted name from two folders), C12-d (imports that
override a function), C13-c (cycles that depend on history), C14-c (iteration bound moved by the body), C14-d (imports in a row
consume no depth). C09-b (round 1) needed the fixed corpus of edge expressions.

Round 3 was first MISSED in twenty-two of forty cases; what was learnt is general and was built into the generators rather than
into one case each: (1) *identifier shapes* — names without a letter (`_`, `_1`), one-character names, mixed case, names that are
prefixes of one another are now drawn by the structured-program generator everywhere (C06-e, C11-f: caches keyed on "no letter in
the text"); (2) *re-evaluation* — the same expression text / the same source line is run again after its variables changed,
between statements, across iterations and calls (C04-e, C02-e: result and validation caches); (3) *coming back to the same place* —
histories that reuse the same folder, file paths and Compiler object with other file contents, another config.yaml, reassigned
options (C12-f, C15-f, C17: process-wide and per-object caches); (4) *options at depth* — non-default options with imports at
the second level, inside blocks and functions, and random option variation for every generated program whose meaning cannot
depend on it (C12-e, C06-f); (5) *what stands between the arms of a chain* — loops, calls and imported files with chains of their
own (C05-e, C05-f); (6) *siblings and next rounds* — what one block created is not there for the next block of the same parent,
the next iteration, the next call (C08-f), and calls of functions whose defining block has ended are generated on purpose;
(7) *document shapes* — groups owned by commands whose output is dropped, blank lines and quote lines inside verbatim groups
(C03-e, C03-f, C16-f); (8) *code points and magnitudes* — single characters that are not stable under NFC/NFKC, other scripts'
digits, astral characters; literals beyond 2^53 and 2^64 (C01-e, C01-f); (9) *the host stack* — runaway recursion and the deepest
legal call chain at stack limits 150–200 must end in StackOverflowError / succeed (C09-e; the known finding D13 is now keyed on the
one call site it is about, `tab_parse.parse_document`, so a RecursionError anywhere else is a new violation); loops of every kind in
a row, finishing in every way, consume no depth (C14-f); (10) *functions across files* in cycle detection (C13-e, C13-f);
(11) *every error class, at top level and nested, after prints* (C18-f); out-of-range values in configuration files (C19-e).

Round 4 (told to evade this very harness) was first MISSED in thirty-one of thirty-nine cases. Two of its triggers were genuine
defects of the unchanged code and were repaired (`START` + an over-long name → OSError, fix: 84e902c; the comma operator extending
its left operand in place → aliasing and a self-containing list → RecursionError, fix: 8d16e69 — after which the seeded C17-h, a cache
of literal lists, became harmless and was dropped). What was built in, again as generator rules rather than single cases:
(a) *every spelling of a command* — aliases (FUNC/FUNCTION, NOTEXIST/NOT_EXIST, …), any letter case, blanks around the commas of
parameter and argument lists, drawn by the renderer for every structured program (C07-h, C08-h); (b) *names that look like
keywords* (`True`, `Falsey`, `If`, `string`) and *values that change type* between two evaluations of one text (C04-g, C04-h);
(c) *long loops* (256 … 20 000 iterations) whose body keeps state in a user variable, `$DEFAULT_DELAY` or the counter, and *fresh
passes at the body's own level* (C06-g, C06-h); (d) *grouped commands with state between their arguments* (C07-g) and failures that
follow a *warning raised from the same line* (C10-g); (e) *recursion* — live calls of one function deciding their own chains,
functions that RETURN a value between arms (C05-g, C05-h); (f) imports that assign outer variables from inside blocks (C08-g),
failures raised *inside* imported files after the importer printed (C18-h), warnings from several files at the same line numbers
(C16-g), configuration files lying in folders of imported files (C15-g), ill-indented imported files (C03-h); (g) the START family
with every kind of argument inside a real file, comma lists stored / nested / compared, several stacks ending through top-level
BREAK/CONTINUE (C09-g, C09-h); (h) *how the caller spells the entry path* — relative to the working directory, from the entry
file's own folder, through a folder and back (C12-h, C13-h), file names that look like extensions (C12-g); (i) blank lines made of
any ASCII white space (the model's alphabet was extended by CR, VT, FF, FS–US; C03-g), scripts read from files with CRLF / CR line
endings (C01-g), key names with zero-padded or non-ASCII digits (C02-h), print texts that look like console markup (C18-g), comma
lists as `$` values (C11-h); (j) levels whose body never runs, and both limits (stack 150/200, 99 parentheses) near their maximum
together, with the deepest legal chain and one more (C14-g, C14-h); folders as side effects, output paths in folders that do not
exist, the project file edited between two runs (C19-g, C19-h); the WHILE iteration limit's trace (C10-h). One change is caught by
the thorough tier only: C01-h (a hidden limit of 100 000 output lines; the quick tier's long script has 30 000 lines, the thorough
tier's 120 000).

Round 5 (`-i`, `-j`, twelve properties; the sub-agents were told what the formal model's domain leaves out — non-ASCII text,
inexact decimals, huge numbers, unusual file names and YAML — and what the generators already vary) was first MISSED in thirteen of
twenty-four cases. Again two triggers were defects of the unchanged code: a second call site of the former known finding D12
(`DELAY 7*10^5000`: `str()` of a > 4 300-digit integer in `SimpleCommand.run_compile`) — D12 was then repaired at all its sites
(fix: 99a4f48; the seeded C09-i, an `int(nan)` ValueError, became a MismatchError and was dropped) — and the inconsistency noted in
§10.4 for exotic white space in nested groups (left alone, outside the properties). Built in: lines that merely contain `"""` inside
verbatim groups under any command, indentation that looks like the unit but contains a no-break / ideographic / em space (C03-i,
C03-j); string literals containing other quotation marks (C04-j); inexact values of `$` forms (C11-j) and exotic first-line white
space of single-line groups (C11-i); loop bodies that change only the TYPE of a value (C06-j); arguments of thousands of digits,
imports inside blocks not leaking functions (C07-i, C07-j); non-finite decimals in every evaluating context (C09); grouped START
whose names climb, the same function text in two folders (C12-i, C12-j); an entry file that is a symbolic link into another
folder (C15-j); files that sit next to the output path (C19-i).

Round 6 (`-k`, `-l`, all twenty properties, forty changes; the sub-agents got the property text and a scratch worktree only, and were
asked for two changes per property as different from one another as possible — different mechanism, different trigger kind) was
first MISSED in six of forty cases. What was learnt: (1) the quick tier's *budget* was the weak point more often than its ideas —
C02-l (ALTCHAR validated by numeric value: `00065`, `+65`, `1_0`, other scripts' digits) was in the argument pool already but a
random (command, argument) pair met it about once in five runs; the quick tier now runs every validated command against EVERY
boundary spelling, and every property's quick tier runs 2–4× its former number of generated cases (all still under 20 s, C09/C10/C14
under a minute); (2) *what came before in the same process* matters for the plain properties too — C01-l (a mutable default
argument shared one warnings list between compilations) only shows when a valid script is compiled after a script that warned: C01
now compiles valid scripts after other compilations (warning, failing, `$`-forms, other options, reused and new Compiler objects);
(3) *imports inside blocks* were covered for C12 but not for C08 — C08-l (copy-on-write function table: what a file imported inside
a block defines leaks into the enclosing scope when that scope already had a function): every block kind × import command × what
the enclosing code and the block defined before × next round; (4) *any bytes at the output path* — C19-k (skip the write when the
text-mode comparison says "unchanged": a CRLF copy of the same lines, undecodable bytes): the prior output state now includes the
payload itself, other line endings, prefixes, extensions and non-text bytes; (5) *values that cannot be written out, inside other
values* — C09-l (the rejected argument is quoted in the message: `DELAY 10^5000,1` → ValueError); (6) *the parenthesis limit at
small stack limits with an operator at every level* — C14-k (a per-compilation recursion limit derived from the stack limit).

Round 7 (`-m`, `-n`, ten properties, twenty changes; the sub-agents were told that the harness compiles tens of thousands of generated
programs per run and compares them with an independent reference, and were asked for violations that need a CONJUNCTION of several
circumstances) was first MISSED in thirteen of twenty cases — the hardest round. What was built in, as rules: (1) *equal in the host
language, different in the language* — `1`/`TRUE`, `0`/`FALSE` on separate lines, blocks, iterations and calls of one compilation,
either order (C02-m: a per-compilation cache of accepted values; also C06-m's second trigger, C04-n); (2) *huge intermediate integers
that are reduced before anything is written out* (C04-m: a size guard on `^`); (3) *what a loop condition may read* — the system
variable `$DEFAULT_DELAY` changed by the body, values that change only in type (C06-m: the condition cached per snapshot of the user
variables); (4) *block keywords without a block* and their `$` forms as ordinary pass-through lines INSIDE structured programs, before
and after the real constructs (astgen `rawkw`; C06-n, C11-n: dispatch caches keyed by the bare word); (5) verbatim text containing a
line of three quotes at a deeper indentation (C11-m), a triple-quote region at the very top of a file whose lines begin with white
space of another kind than the file's unit (C03-m), characters that `str.splitlines` treats as line ends inside a line, with LF and
CRLF line ends (C03-n); (6) `$DEFAULT_DELAY` across START / STARTENV / STARTCODE in both directions, at top level and inside blocks
and functions (C12-m: import stacks running the commands' init hooks); (7) loop conditions and counts that are fine at first and
faulty at a LATER evaluation, functions declared again with the same text on other lines (C10-n: recycled iteration stacks; C10-m:
"unchanged function is not re-registered"); (8) textually identical unknown lines in several files entered from ONE importer line
(grouped START, `$START "part"+i` in a loop), and unknown words that are also the name of a function, parameter or variable
(C16-m, C16-n).

Round 8 (`-o`, `-p`, the other ten properties, twenty changes; asked for a conjunction of circumstances or a HISTORY, in shared
infrastructure) was first MISSED in six of twenty cases. One trigger was a genuine defect of the unchanged code (a thousand-term flat
expression → RecursionError; fix: 2643731). Built in: (1) *the deepest programs the command line can be asked for* — runaway and
deepest-legal recursion at stack limits 150–200 given on the command line, in the project file or in the home file must be REPORTED
(C19-o: one more interpreter frame per stack level; C09/C14 had the family, C19 had not); (2) *a valid script after a project-file
compilation on the same Compiler / options object* (C01-p: the project's settings written onto the caller's options object) and
*separator characters inside a line* of a script given as one string (C01-o: `str.splitlines`); (3) *interpreter-level process state*
— recursion limit, digit limit, cwd, environment, every module-/class-level attribute of the package compared before/after each
history, and programs whose outcome depends on the host's headroom after compilations under large limits (C17-p: a context manager
without try/finally leaks a raised recursion limit after a failed compile); (4) *the print log after other compilations on the same
Compiler* — printing-then-failing, printing-then-succeeding, failing inside an import (C18-p: the Compiler owns the log);
(5) *defining constructs used a second time* — the same function name defined validly before, the construct inside a function run
twice, in a file imported twice (C20-o: the name check skipped for a re-definition).

Round 9 (`-q`, `-r`, the ten properties of round 7 again, twenty changes; asked for two cooperating edit sites, error paths,
interleavings of features, unusual but legal input shapes) was first MISSED in seven of twenty cases. Built in: (1) *warnings after
other compilations on the same Compiler* — programs that met unknown commands and then failed, or succeeded, before a known-only
program (C16-r: the Compiler owns a warnings list that is emptied only on success); (2) *files with no code at all* — zero bytes,
blank lines, white space only — imported again and again, along two paths, in a loop, through a file that only imports them (C13-q:
a stack with no commands became falsy and stayed on the pile; round 8's C14-o was the same mechanism seen from C14); (3) *every
spelling of the START family in the contracts* — `$START "name"`, `$startcode "na"+"me"`, other letter case (C12-q: the mode read from
the name before the `$` is stripped); (4) *the clauses of C02 judged after other compilations* on the same Compiler built with an
explicit options object, among them files whose STARTENV / START import failed (C02-q: suppression switched on for the STARTENV file
and not switched off on the error path); (5) *grouped definitions* — a later line of a VAR group reads what an earlier line of the same
group defined (C04-q: all values evaluated before any is stored); (6) *imports in a loop body change what the condition reads* while
the body assigns nothing (C06-r: an "assigned" flag that the import's hand-back does not set); (7) *parameter names that clash with
the caller's variables* — a global, a loop counter, the caller's own parameters handed on in another order (C07-r: parameters bound
before the caller's variables are copied in; `C07_bind_positional` states exactly this, the generators had avoided the clash).

Round 10 (`-s`, `-t`, the ten properties of round 8 again with the round-9 brief, twenty changes) was first MISSED in four of twenty
cases — the lowest rate so far. Built in: (1) *mutation INSIDE a class-level object* — the process-state description of C17 now looks
into objects and containers (a `CompiledReturn` kept as a class attribute of BREAK_LOOP / CONTINUE_LOOP whose line list a later command
extended in place has the same identity and the same default repr), and the C17 snippets include loops left or skipped before anything
was output followed by commands whose result is a plain list of lines (C17-t); (2) *separator characters inside PRINT texts* (C18-t: the
`splitlines` change C01 already catches, seen from C18); (3) *`$` forms whose expression evaluates to an empty, blank or otherwise odd
string*, for every command of the palette, written out and through a variable — in the model's domain, so compared with the model too
(C09-t: `$RUN " "` → ValueError from an unpacking split); (4) *chain arms whose body holds nothing but comments*, first true arm, with
comments kept and dropped, at top level, in a loop, in a function called from a loop (C05-t: a comment-stripping pre-pass leaves an empty
block, which the block commands read as "no block").

Round 11 (`-u`, `-v`, the ten properties of rounds 7 and 9 with the round-8 brief: a conjunction or a history, shared infrastructure) was
first MISSED in seven of twenty cases. Built in: (1) *a file brought in with START / STARTENV redefines a function the importer already
has* — no new function name, another body or arity; STARTCODE keeps the old one; a second library overrides a helper of the first
(C07-v: the function table copied back only when its SIZE changed); (2) *files with quiet blocks of their own around the imports* — a
WHILE that ends by its condition, then other blocks (C13-v: the stack built for the last, false, condition check is never popped and
keeps naming the file); (3) *values changed or created by an imported file between two evaluations* with no assignment at the importer's
own level in between (C04-u: a cached merged variable table that the import's hand-back does not invalidate; C12 caught the same
mechanism as C12-v); (4) *the three spellings in CR LF texts and in lists of CR-terminated lines* (C11-v: a carriage return stripped
from the inline argument only); (5) *a whole script shifted right by one common margin* — every line, or every code line, as a string,
a list of lines, a file — is a tab error (C03-u: `textwrap.dedent` on string input); (6) *the grouped spelling of `$STRING`* written by
the structured-program renderer for every AST-based family, so that the same argument line is evaluated again at every execution in a
loop or a function run twice (C06-u: one `Line` wrapper kept per source line and evaluated in place); (7) *loops written in an imported
file* — counters and body-locals gone after the loop, in the file and in the importer (C06-v: blocks inside a STARTed file inheriting the
"parallel" exit). Two harness defects were found on the way (none an alarm on the unchanged tree): a stray apostrophe in a RULE string
made `props/C19.py` unimportable for a few commits (caught by running every generator in both tiers; `selftest.py` now imports every
property module and runs its generator), and the thorough-tier C04 generator raised on loop cases whose later passes leave the
exact-arithmetic domain.

Round 12 (`-w`, `-x`, the ten properties of rounds 8 and 10; the sub-agents were asked for violations that depend on HOW the compiler is
entered or configured — the input form, where the options come from, the order of API calls on one object, the command-line functions)
was first MISSED in twelve of twenty cases: the generators had varied programs far more than entry forms. Built in: (1) *line ends in
string input* — CR LF, mixed LF / CR LF, lists of CR-terminated lines — for chains (C05-x: `ELSE\r` no longer recognised) and for flat
scripts of argument-stripping commands (C01-w: a splitter that takes the separator from the first line break); (2) *entry files opened
through a symbolic link* — the project (its `config.yaml`, its folder for imports, the file prints are located in) is the one the file
was OPENED in (C14-w, C18-x: `Path.resolve()` on the entry path); (3) *the nested-list form with empty blocks* at any depth, and *the
same unknown line reached along different call paths and depths* (C09-w, C09-x: an IndexError in the renumbering, a `zip(strict=True)`
in the warning de-duplication); (4) *names followed by a line break* in list input (C20-w: a regular expression whose `$` matches before
a trailing line feed); (5) *the same Compiler object given other options*, then string / file / list input (C15-x: the text-input
project environment built once in the constructor); (6) *programs that reach the interpreter's integer-digit limit* in histories, with
the limit itself in the process-state description (C17-x: `sys.set_int_max_str_digits(0)` and never restored); (7) *the same source
compiled again to the same output path with other options* through the command line (C01-x: an "already up to date" shortcut that
compares time stamps only — caught by C19, whose statement it breaks; C01 does not drive the command line). C17-w (a partial project
file overlaid key by key and re-dumped with the caller's options) changes what is ON DISK between two compilations, which C15 and C19
catch (C15-w, C19-w are the same change); C17 compares each step with the same step on the same files in a fresh process and is
blind to it by construction — recorded as caught by C15 / C19.

| id | property | change | caught by |
|---|---|---|---|
''' + '\n'.join(rows) + '\n'
d.write_text(head+sec)
print(len(rows))
