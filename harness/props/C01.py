"""C01 — plain Ducky/Flipper scripts pass through unchanged."""
import json
from pathlib import Path
from .common import *

SPEC = json.loads((Path(__file__).resolve().parents[2] / 'spec' / 'tables.json').read_text())
FIELDS = ('out', 'warns')
RULE = 'flat scripts of 1-40 valid lines drawn from spec/tables.json; distinct script texts that contain at least 2 command families'
# single code points of many kinds: case-mapping specials, compatibility and canonical-equivalence specials (not stable under
# NFC / NFKC), combining-sequence precomposed letters, other scripts' digits and letters, symbols, astral characters.
# (No Unicode white space: what Python's str.split() treats as a blank is a blank.)
WIDE_NONASCII = list('éßﬁǰΩжñç日☃ツ€½²🙂İıŉ') + ['\u212b', '\u2126', '\u212a', '\u037e', '\u0958', '\u0344', '\u1e9b', '\u01c5', '\u03c2', '\u0130',
    '\u0663', '\u0967', '\uff21', '\uff11', '\u00b5', '\u2160', '\u3392', '\ufb03', '\u1f88', '\u0149', '\U0001d400', '\U0001f1e6', '\u20ac', '\u2260',
    '\uf900', '\u2f800'[:1], '\u0301', '\u200d', '\ufeff', '\u00ad']
DOMAIN_NONASCII = list('日☃ツ€')
SAFE_NONASCII = DOMAIN_NONASCII
ASCII_PRINT = [chr(i) for i in range(33, 127)]


def rand_case(g, word):
    return ''.join(c.upper() if g.chance(0.5) else c.lower() for c in word)


def ws(g):
    return g.r.choice([' ', ' ', '  ', '\t', ' \t ', '   '])


def gen_line(g, flipper=True):
    """returns (written line, canonical expectation tuple)"""
    r = g.r
    fam = r.choice(['noarg', 'enter', 'mod', 'mod', 'delay', 'ddelay', 'string', 'string', 'rem', 'repeat'] + (['flipper'] if flipper else []))
    trail = ws(g) if g.chance(0.3) else ''
    if fam == 'noarg':
        k = r.choice(SPEC['noarg_keys']); return rand_case(g, k) + trail, ('exact', k)
    if fam == 'enter':
        return rand_case(g, 'ENTER') + trail, ('exact', 'ENTER')
    if fam == 'mod':
        m = r.choice(list(SPEC['modifiers'].values()))
        name = r.choice(m['names'])
        c = r.random()
        if c < 0.2 or (not m['keys'] and not m['single_char']):
            return rand_case(g, name) + trail, ('exact', name)
        if m['keys'] and (c < 0.6 or not m['single_char']):
            k = rand_case(g, r.choice(m['keys']))
            return rand_case(g, name) + ws(g) + k + trail, ('key', name, k)
        ch = r.choice(ASCII_PRINT + SAFE_NONASCII)
        return rand_case(g, name) + ws(g) + ch + trail, ('exact', name + ' ' + ch)
    if fam in ('delay', 'ddelay'):
        name = r.choice(SPEC['delay'] if fam == 'delay' else SPEC['default_delay'])
        n = r.choice([0, 1, 5, 10, 100, 500, 1000, 65535, 10 ** 9, 10 ** 12, 2 ** 53 + 1, 2 ** 64 + 3, 10 ** 20 + 7, 10 ** 40 + 1, r.randint(0, 99999)])
        lit = ('0' * r.choice([0, 0, 0, 1, 2])) + str(n)
        return rand_case(g, name) + ws(g) + lit + trail, ('exact', f'{name} {n}')
    if fam == 'string':
        name = r.choice(SPEC['string'])
        n = r.randint(1, 30)
        alphabet = ASCII_PRINT + [' ', ' ', ' ', '\t'] + SAFE_NONASCII
        t = ''.join(r.choice(alphabet) for _ in range(n))
        t = t.lstrip(' \t') or 'x'
        return rand_case(g, name) + ws(g) + t, ('exact', name + ' ' + t)
    if fam == 'rem':
        if g.chance(0.15): return rand_case(g, 'REM') + trail, ('rem', 'REM')
        t = ''.join(r.choice(ASCII_PRINT + [' ', ' '] + SAFE_NONASCII) for _ in range(r.randint(1, 20))).strip(' \t') or 'c'
        return rand_case(g, 'REM') + ws(g) + t + trail, ('rem', 'REM ' + t)
    if fam == 'repeat':
        lit = ('0' if g.chance(0.1) else '') + str(r.randint(1, 500))
        return rand_case(g, 'REPEAT') + ws(g) + lit + trail, ('exact', 'REPEAT ' + lit)
    # flipper
    c = r.random()
    if c < 0.35:
        code = ''.join(r.choice('0123456789') for _ in range(r.randint(1, 4)))
        return rand_case(g, 'ALTCHAR') + ws(g) + code + trail, ('exact', 'ALTCHAR ' + code)
    if c < 0.6:
        name = r.choice(SPEC['flipper']['text'])
        t = ''.join(r.choice(ASCII_PRINT + [' '] + SAFE_NONASCII) for _ in range(r.randint(1, 12))).strip(' \t') or 'q'
        return rand_case(g, name) + ws(g) + t + trail, ('exact', name + ' ' + t)
    name = r.choice(SPEC['flipper']['one_char_or_bare'])
    if g.chance(0.3): return rand_case(g, name) + trail, ('exact', name)
    ch = r.choice(ASCII_PRINT + SAFE_NONASCII)
    return rand_case(g, name) + ws(g) + ch + trail, ('exact', name + ' ' + ch)


def script_case(g, lines, comments):
    text = '\n'.join(l for l, _ in lines)
    exp = [e for _, e in lines if comments or e[0] != 'rem']
    opts = dict(include_comments=True) if comments else (None if g.chance(0.5) else dict(include_comments=False))
    return dict(op='compile', opts=opts, src=dict(text=text), meta=dict(family='script', exp=exp))


def generate(g, tier):
    cases = []
    global SAFE_NONASCII
    for _ in range(count(tier, 500, 6000)):
        SAFE_NONASCII = WIDE_NONASCII if g.chance(0.15) else DOMAIN_NONASCII
        lines = [gen_line(g) for _ in range(g.r.randint(1, 40 if g.chance(0.2) else 10))]
        cases.append(script_case(g, lines, g.chance(0.4)))
    # two DEFAULT_DELAY lines in one flat script (no warning is due)
    for _ in range(count(tier, 20, 100)):
        ls = [gen_line(g) for _ in range(g.r.randint(2, 6))]
        ls.insert(0, ('DEFAULT_DELAY %d' % g.r.randint(1, 500), ('exact', None)))
        ls[0] = (ls[0][0], ('exact', ls[0][0]))
        n2 = g.r.randint(0, 500)
        ls.append((f'DEFAULTDELAY {n2}', ('exact', f'DEFAULTDELAY {n2}')))
        cases.append(script_case(g, ls, False))
    # every modifier (and Flipper one-character command) with every special single character: characters whose upper/lower form
    # has another length or is another character class are where a validator written with .upper()/.lower() goes wrong
    for m in SPEC['modifiers'].values():
        if m['single_char']:
            for name in m['names']:
                for ch in WIDE_NONASCII:
                    cases.append(script_case(g, [(f'{rand_case(g, name)} {ch}', ('exact', f'{name} {ch}'))], False))
    for name in SPEC['flipper']['one_char_or_bare']:
        for ch in WIDE_NONASCII:
            cases.append(script_case(g, [(f'{name} {ch}', ('exact', f'{name} {ch}'))], False))
    # the same scripts read from a FILE with any line-ending convention (a script saved on Windows): the lines are the same lines
    for _ in range(count(tier, 60, 600)):
        lines = [gen_line(g) for _ in range(g.r.randint(1, 12))]
        c = script_case(g, lines, g.chance(0.4))
        nl = g.r.choice(['\r\n', '\r\n', '\r', '\n'])
        text = c['src']['text'].replace('\n', nl) + g.r.choice(['', nl, nl + nl])
        cases.append(dict(op='compile_file', opts=c['opts'], file='proj/payload.txt', files={'proj/payload.txt': text}, meta=dict(c['meta'], family='script-file')))
    # a valid script is still just itself when OTHER things were compiled before it in the same process: scripts that warn
    # (unknown commands, DEFAULT_DELAY given twice), scripts that fail, scripts using `$` forms of the same commands, other options,
    # a reused or a new Compiler object
    NOISE = ['HOLD a\nRELEASE b', 'DEFAULT_DELAY\n    5\n    6', 'GUI xx', '$DELAY 1/0', '$CTRL "c"\n$ALT "F"+4\n$STRING 1+1',
             'VAR d 5\n$DELAY d*100\n$DEFAULT_DELAY d', 'IF TRUE\n    NOPE x\nREPEAT 2\n    FOO', 'REM note\nALTCHAR 65\nFUNC f\n    CTRL z\nRUN f']
    for _ in range(count(tier, 80, 800)):
        lines = [gen_line(g) for _ in range(g.r.randint(1, 10))]
        c = script_case(g, lines, g.chance(0.4))
        steps = []
        for _ in range(g.r.randint(1, 3)):
            steps.append(dict(op='compile', src=dict(text=g.r.choice(NOISE)), opts=dict(include_comments=g.chance(0.5), flipper_commands=g.chance(0.7)),
                              compiler=g.r.choice([None, 'k', 'k2'])))
        steps.append(dict(op='compile', src=c['src'], opts=c['opts'], compiler=g.r.choice([None, 'k', 'k3']), reassign=True))
        cases.append(dict(op='history', steps=steps, meta=dict(c['meta'], family='script-after-others', nocorr=True)))
    # the same Compiler (and the same options object) used before for a FILE that lies in a project folder whose config.yaml says
    # something else: the project's settings are that compilation's business, the valid script afterwards is compiled with the
    # options the caller gave
    for _ in range(count(tier, 40, 400)):
        lines = [gen_line(g) for _ in range(g.r.randint(1, 8))] + [('REM kept or dropped', ('rem', 'REM kept or dropped')), ('ALTCHAR 65', ('exact', 'ALTCHAR 65'))]
        comments = g.chance(0.5)
        c = script_case(g, lines, comments)
        opts = dict(include_comments=comments)
        pc = g.r.choice([dict(include_comments=not comments), dict(include_comments=not comments, flipper_commands=False), dict(flipper_commands=False),
                         dict(include_comments=not comments, supress_command_not_exist=True, stack_limit=7)])
        steps = [dict(op='compile_file', file='proj/main.txt', files={'proj/main.txt': g.r.choice(['REM in project\nSTRING p', 'STRING p\nDELAY 5'])}, cfgs={'proj': pc},
                      opts=opts, compiler='k')]
        if g.chance(0.4): steps.append(dict(op='compile', src=dict(text=g.r.choice(NOISE)), opts=opts, compiler='k'))
        steps.append(dict(op='compile', src=c['src'], opts=opts, compiler='k'))
        cases.append(dict(op='history', steps=steps, meta=dict(c['meta'], family='script-after-project', nocorr=True)))
    # characters that some text-splitting routines treat as line boundaries (form feed, vertical tab, the information separators, NEL,
    # the Unicode line / paragraph separators, a bare carriage return) inside the text of a line of a script given as ONE string: the
    # line is still one line and its text is kept exactly
    for _ in range(count(tier, 60, 500)):
        lines = [gen_line(g) for _ in range(g.r.randint(0, 5))]
        for _ in range(g.r.randint(1, 3)):
            ch = g.r.choice(['\x0b', '\x0c', '\x1c', '\x1d', '\x1e', '\x85', '\u2028', '\u2029', '\r'])
            a = ''.join(g.r.choice(ASCII_PRINT) for _ in range(g.r.randint(1, 6))); b = ''.join(g.r.choice(ASCII_PRINT) for _ in range(g.r.randint(1, 6)))
            name = g.r.choice(SPEC['string'])
            t = a + g.r.choice(['', ' ']) + ch + g.r.choice(['', ' ']) + b
            lines.insert(g.r.randint(0, len(lines)), (rand_case(g, name) + ' ' + t, ('exact', name + ' ' + t)))
        c = script_case(g, lines, g.chance(0.4))
        c['meta'] = dict(c['meta'], family='script-separator-chars', nocorr=True)
        cases.append(c)
    # a script given as ONE string whose lines end sometimes in LF and sometimes in CR LF (a file edited on two systems, pasted into an
    # API call): for commands that strip their argument the carriage return is trailing white space — the lines are the same lines
    NONSTRIP = ('STRING', 'STRINGLN', 'REM', 'ALTSTRING', 'ALTCODE')
    for _ in range(count(tier, 60, 500)):
        lines = []
        while len(lines) < g.r.randint(2, 10):
            l = gen_line(g)
            if l[0].split()[0].upper().lstrip('$') in NONSTRIP or l[1][0] == 'rem': continue
            lines.append(l)
        ends = [g.r.choice(['\n', '\r\n']) for _ in lines]
        if g.chance(0.5): ends[0] = '\r\n'
        text = ''.join(l + e for (l, _), e in zip(lines, ends))
        if g.chance(0.5): text = text.rstrip('\r\n')
        c = script_case(g, lines, False)
        c['src'] = dict(text=text)
        c['meta'] = dict(c['meta'], family='script-mixed-line-ends', nocorr=True)
        cases.append(c)
    # long scripts: every line passes through, however many there are
    n = 30000 if tier == 'quick' else 120000
    big = [gen_line(g) for _ in range(50)]
    reps = n // 50
    cases.append(dict(op='compile', timeout=300, src=dict(text='\n'.join(l for l, _ in big * reps)), meta=dict(family='script-long', exp=[e for _, e in big * reps if e[0] != 'rem'], nocorr=True)))
    if tier == 'thorough':
        # exhaustive: every (name, key) pair, every single printable ASCII char per modifier
        for m in SPEC['modifiers'].values():
            for name in m['names']:
                for k in m['keys']:
                    for kk in (k, k.lower(), k.capitalize()):
                        cases.append(script_case(g, [(f'{name} {kk}', ('key', name, kk))], False))
                if m['single_char']:
                    for ch in ASCII_PRINT + WIDE_NONASCII:
                        cases.append(script_case(g, [(f'{name.lower()} {ch}', ('exact', f'{name} {ch}'))], False))
        for k in SPEC['noarg_keys']:
            cases.append(script_case(g, [(k.lower(), ('exact', k))], False))
    return cases


def line_ok(exp, got):
    if exp[0] in ('exact', 'rem'): return got == exp[1]
    if exp[0] == 'key':
        return got.upper() == (exp[1] + ' ' + exp[2]).upper() and got.startswith(exp[1] + ' ')
    return False


def oracle(cases, results):
    fs = []
    for i, (c, r) in enumerate(zip(cases, results)):
        exp = c.get('meta', {}).get('exp')
        if exp is None or r.get('kind') == 'hang': continue
        if c.get('op') == 'history':
            if r.get('kind') != 'history' or not r.get('results'):
                fs.append(fail(i, f'history did not run: {str(r)[:200]}', 'script:history-broken')); continue
            r = r['results'][-1]
        if r.get('kind') != 'ok':
            fs.append(fail(i, f'valid script rejected: {r.get("kind")} {r.get("cls", r.get("exc"))} {r.get("msg", "")}', f'script:rejected:{r.get("cls", r.get("exc"))}')); continue
        if len(r['out']) != len(exp) or not all(line_ok(tuple(e), o) for e, o in zip(exp, r['out'])):
            bad = next((j for j, (e, o) in enumerate(zip(exp, r['out'])) if not line_ok(tuple(e), o)), None)
            fs.append(fail(i, f'output is not the script itself: line {bad}: expected {exp[bad] if bad is not None and bad < len(exp) else None} got {r["out"][bad] if bad is not None else len(r["out"])} ', 'script:output')); continue
        if r['warns']:
            fs.append(fail(i, f'valid script compiled with warnings: {r["warns"][:2]}', 'script:warning'))
    return fs
