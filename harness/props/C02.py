"""C02 — validated commands never emit an illegal line."""
import json, re
from pathlib import Path
from .common import *
SPEC = json.loads((Path(__file__).resolve().parents[2] / 'spec' / 'tables.json').read_text())
FIELDS = ('out', 'warnkinds', 'cls')
RULE = '(command, argument, delivery form) triples over boundary arguments inside small surrounding programs; distinct texts that compile successfully and emit at least one validated command'

NOARG = set(SPEC['noarg_keys']) | set(SPEC['enter'])
MODS = {}
for m in SPEC['modifiers'].values():
    for n in m['names']: MODS[n] = m
DELAYS = set(SPEC['delay']) | set(SPEC['default_delay'])
ONECHAR = set(SPEC['flipper']['one_char_or_bare'])
DUCKLING_ONLY = set(SPEC['duckling_only'])


def legal(line: str):
    """None if legal, else a reason"""
    w, sep, rest = line.partition(' ')
    if w in NOARG:
        return None if line == w else f'{w} takes no argument'
    if w in MODS:
        m = MODS[w]
        if not sep: return None
        if m['single_char'] and len(rest) == 1: return None
        if rest.upper() in m['keys']: return None
        return f'{w} carries {rest!r}'
    if w in DELAYS:
        return None if sep and re.fullmatch(r'[0-9]+', rest) else f'{w} needs a non-negative integer literal, has {rest!r}'
    if w == 'ALTCHAR':
        return None if sep and re.fullmatch(r'[0-9]{1,4}', rest) else f'ALTCHAR needs a 1-4 digit code, has {rest!r}'
    if w in ONECHAR:
        return None if (not sep or len(rest) == 1) else f'{w} carries {rest!r}'
    return None


BOUNDARY_STR = ['F04', 'f09', 'F012', 'F00', 'F0', 'F1 ', 'F٣', 'F１', 'ESC ', 'ESCAPE', 'Escape', 'es c', 'TAB\t', 'SPACE', 'space', 'END', 'End', 'UP', 'up', 'ENTER', 'Enter', 'a\u0301', '\U0001f600',
                ' 12', '12 ', ' 7 ', '²', '٣', ' a', 'a ', ' esc', 'F4 ', '', 'a', 'ab', 'A', 'esc', 'ESC', 'Esc', 'F4', 'f12', 'F13', 'TAB', 'tab', 'DELETE', 'Home', 'BREAK', 'pause', 'GUI', 'windows',
                'SPACE', 'END', ' ', '日', '1', '12', '0065', '00065', '12345', '9999', '+65', '-0', '1_0', '1.5', '-1', '007', 'x y', 'UPARROW', 'é']
BOUNDARY_INT = ['0', '1', '007', '0-1', '-1', '2^70', '1.5', '3/2', '4/2', 'TRUE', 'FALSE', '"a"', '"5"', '1,2', '5.', '10^3', '0*5', '2.0', '(3)', '1==1', '100']
VALIDATED = sorted(NOARG | set(MODS) | DELAYS | {'ALTCHAR'} | ONECHAR)


def quote(s): return '"' + s.replace('"', '') + '"'


def deliveries(g, cmd, arg, is_int):
    """program texts delivering `arg` to `cmd` in the six forms"""
    e = arg if is_int else quote(arg)
    forms = []
    forms.append(f'{cmd} {arg}' if arg else cmd)
    forms.append(f'{cmd}\n    {arg}' if arg.strip() else None)
    forms.append(f'{cmd} {arg}\n    {arg}' if arg.strip() else None)
    forms.append(f'${cmd} {e}')
    forms.append(f'VAR v {e}\n${cmd} v')
    forms.append(f'FUNC f p\n    ${cmd} p\nRUN f {e}')
    if is_int and re.fullmatch(r'[0-9]+', arg) and int(arg) < 30:
        forms.append(f'REPEAT i,{int(arg) + 1}\n    IF i=={int(arg)}\n        ${cmd} i')
    forms.append(f'${cmd}\n    {e}\n    {e}')
    return [f for f in forms if f is not None]


def generate(g, tier):
    r = g.r
    cases = []
    n = count(tier, 250, 2500)
    for _ in range(n):
        cmd = r.choice(VALIDATED)
        is_int = cmd in DELAYS
        arg = r.choice(BOUNDARY_INT if (is_int or g.chance(0.15)) else BOUNDARY_STR)
        if cmd == 'ENTER' and arg == '2^70': continue      # `$ENTER <huge count>` is the known finding D19 (C09 probes it): it only costs time-outs here
        if g.chance(0.3): cmd = cmd.lower()
        for t in deliveries(g, cmd, arg, is_int or arg in BOUNDARY_INT and arg not in BOUNDARY_STR):
            pre = 'STRING before\n' if g.chance(0.3) else ''
            cases.append(dict(op='compile', src=dict(text=pre + t), meta=dict(family='triple')))
    # every validated command with EVERY boundary argument (the spellings a host-language number parser accepts and the
    # documented grammar does not — signs, underscores, over-long zero-padded codes, other scripts' digits — are only wrong for one
    # command each, so sampling pairs misses them): inline, and in one more delivery form
    for cmd in VALIDATED:
        is_int = cmd in DELAYS
        for arg in (BOUNDARY_INT if is_int else BOUNDARY_STR + ['٦٥', '６５', '0x41', '1e1', '6 5', '０', '000', '0000', '00000']):
            ts = deliveries(g, cmd if g.chance(0.7) else cmd.lower(), arg, is_int)
            for t in [ts[0]] + [r.choice(ts[1:])]:
                cases.append(dict(op='compile', src=dict(text=t), meta=dict(family='triple-all')))
    # several different arguments in ONE invocation (grouped, first argument + group, $-evaluated): each one is validated on its
    # own, whatever was accepted before it (equal-valued pairs such as 1/TRUE, 0/FALSE, 5/"5", 2/2.0 included)
    PAIRS_INT = [('1', 'TRUE'), ('TRUE', '1'), ('0', 'FALSE'), ('5', '"5"'), ('2', '2.5'), ('3', '0-3'), ('1', '1==1'), ('0', '0-0'), ('7', '7'), ('1', '1.0')]
    PAIRS_STR = [('a', 'ab'), ('esc', 'escx'), ('F4', 'F44'), ('a', 'a'), ('TAB', 'TA B'), ('1', '12345'), ('0065', '00065'), ('x', '')]
    for _ in range(count(tier, 150, 1500)):
        cmd = r.choice(VALIDATED)
        is_int = cmd in DELAYS
        a1, a2 = r.choice(PAIRS_INT if is_int else PAIRS_STR)
        if g.chance(0.5): a1, a2 = a2, a1
        e1, e2 = (a1, a2) if is_int else (quote(a1), quote(a2))
        forms = [f'${cmd}\n    {e1}\n    {e2}', f'${cmd} {e1}\n    {e2}', f'${cmd}\n    {e1}\n    {e2}\n    {e1}',
                 f'VAR p {e1}\nVAR q {e2}\n${cmd}\n    p\n    q', f'FUNC f p,q\n    ${cmd}\n        p\n        q\nRUN f {e1},{e2}']
        if not is_int and a1.strip() and a2.strip(): forms += [f'{cmd}\n    {a1}\n    {a2}', f'{cmd} {a1}\n    {a2}']
        for t in forms:
            cases.append(dict(op='compile', src=dict(text=t), meta=dict(family='pair')))
    # the same source line executed again with another value is validated again: through a function parameter, a loop counter,
    # a reassigned variable (a legal value first, an illegal one later)
    SEQ = {'str1': [('"a"', '"ab"'), ('"x"', '""+"xyz"'), ('"F4"', '"F44"'), ('"esc"', '"escape!"')],
           'int': [('5', '0-5'), ('0', '1.5'), ('3', 'TRUE'), ('7', '"7"')], 'code': [('"65"', '"12345"'), ('"9"', '"9a"'), ('"0001"', '"00001"')]}
    for _ in range(count(tier, 120, 1200)):
        cmd = r.choice(VALIDATED)
        kind = 'int' if cmd in DELAYS else 'code' if cmd == 'ALTCHAR' else 'str1'
        if cmd in NOARG: continue
        good, bad = r.choice(SEQ[kind])
        forms = [f'FUNC press k\n    ${cmd} k\nRUN press {good}\nRUN press {bad}',
                 f'FUNC press k\n    ${cmd}\n        k\nRUN press {good}\nRUN press {good}\nRUN press {bad}',
                 f'VAR v {good}\nREPEAT 2\n    ${cmd} v\n    VAR v {bad}',
                 f'VAR v {good}\nWHILE w,w<2\n    ${cmd} v\n    VAR v {bad}']
        if kind == 'int': forms.append(f'REPEAT i,3\n    ${cmd} 1-i')
        if kind == 'code': forms.append(f'REPEAT i,3\n    ${cmd} 9998+i')
        if kind == 'str1' and MODS.get(cmd, {}).get('single_char', True): forms.append(f'REPEAT i,12\n    ${cmd} i')
        for t in forms:
            cases.append(dict(op='compile', src=dict(text=t), meta=dict(family='revalidate')))
    # validation is per occurrence: a value accepted EARLIER in the same compilation never vouches for a later one that is merely
    # equal to it in the host language but of another type or spelling (1 / TRUE, 0 / FALSE, 1 / 1.0, "5" / 5, "a" / "A") — on separate
    # lines, in separate blocks, iterations and calls, in either order
    TWINS_INT = [('1', 'TRUE'), ('0', 'FALSE'), ('1', '1==1'), ('0', '1==2'), ('1', '(2>1)'), ('2', '2.5'), ('7', '"7"')]
    TWINS_STR = [('"a"', '"ab"'), ('"F4"', '"F44"'), ('"1"', '"11"'), ('"esc"', '"escx"')]
    for _ in range(count(tier, 80, 800)):
        cmd = r.choice(sorted(DELAYS)) if g.chance(0.7) else r.choice([c for c in VALIDATED if c not in NOARG and c not in DELAYS])
        good, bad = r.choice(TWINS_INT if cmd in DELAYS else TWINS_STR)
        d = '$' if cmd not in DELAYS or g.chance(0.5) else ''
        mid = r.choice(['', 'STRING between\n', 'VAR z 1\n', 'IF TRUE\n    STRING x\n'])
        forms = [f'{d}{cmd} {good}\n{mid}{d}{cmd} {bad}',
                 f'{d}{cmd} {good}\n{mid}IF TRUE\n    {d}{cmd} {bad}',
                 f'REPEAT 1\n    {d}{cmd} {good}\n{mid}REPEAT 1\n    {d}{cmd} {bad}',
                 f'FUNC f\n    {d}{cmd} {good}\nFUNC h\n    {d}{cmd} {bad}\nRUN f\n{mid}RUN h',
                 f'VAR v {good}\n${cmd} v\n{mid}VAR w {bad}\n${cmd} w',
                 f'{d}{cmd} {good}\n{mid}WHILE w,w<1\n    {d}{cmd} {bad}']
        if cmd in DELAYS: forms.append(f'REPEAT i,3\n    ${cmd} i\n{mid}${cmd} {bad}')
        for t in forms:
            cases.append(dict(op='compile', src=dict(text=t), meta=dict(family='twins')))
    # one, two or three leading `$`: only the single `$` form is the evaluated command; the others are unknown words
    for _ in range(count(tier, 60, 600)):
        cmd = r.choice(VALIDATED + ['STRING', 'STRINGLN', 'REM', 'ALTSTRING'])
        arg = r.choice(['5', 'a', '"a"', '', '1+1'])
        pre = r.choice(['$$', '$$$', '$ ', '$$ '])
        t = f'{pre}{cmd if g.chance(0.6) else cmd.lower()} {arg}'.rstrip()
        body = r.choice([t, f'REPEAT 2\n    {t}', f'FUNC f\n    {t}\nRUN f', f'{t}\n    {arg or "x"}'])
        cases.append(dict(op='compile', src=dict(text=body), meta=dict(family='dollars')))
    # random programs: no unknown warning + no IGNORE => no DucklingScript-only keyword in the output
    for i in range(count(tier, 400, 4000)):
        c = g.case_general(i)
        c['meta'] = dict(family='general')
        cases.append(c)
    cases += ast_cases(g, count(tier, 100, 1000), None, (6, 16), 4, 'ast')
    # what a compilation emits and warns about is its own business: the same Compiler object (built with an explicit options object, or
    # with none) compiled other things before — files whose STARTENV / START / STARTCODE import failed or succeeded, programs that warned,
    # programs that failed — and then a program with block keywords that have no block and `$$` names (warnings are due), or a plain one
    r_ = g.r
    LAST = ['FUNC greet\n$$STRING "n is "+3', 'IF a == 5\nWHILE (x<20) THEN\nSTRING x', 'ELSE\nDELAY 5', 'DELAY 5\nCTRL c\nSTRING plain', '$$DELAY 7\nIGNORED x']
    for _ in range(count(tier, 60, 400)):
        key = r_.choice(['k', 'k', None])
        opts = r_.choice([{}, dict(include_comments=True), None, dict(flipper_commands=True, stack_limit=30)])
        steps = []
        for j in range(r_.randint(1, 3)):
            kw = r_.choice(['STARTENV', 'STARTENV', 'START', 'STARTCODE'])
            lib = r_.choice(['VAR v 1\nGUI toolong', 'FUNC f\n    STRING x\n$STRING 1/0', 'VAR v 1\nSTRING fine', 'NOPE x\nVAR 1x 2', 'STRING a\n  STRING b'])
            if g.chance(0.7):
                steps.append(dict(op='compile_file', compiler=key, opts=opts, dir=f's{j}', file='proj/main.txt', files={'proj/main.txt': f'STRING before\n{kw} lib\nSTRING after', 'proj/lib.txt': lib}))
            else:
                steps.append(dict(op='compile', compiler=key, opts=opts, dir=f's{j}', src=dict(text=r_.choice(['HOLD a', 'GUI xx', '$DELAY 1/0', 'IGNORE\n    DELAY x']))))
        steps.append(dict(op='compile', compiler=key, opts=opts, dir='last', src=dict(text=r_.choice(LAST))))
        cases.append(dict(op='history', steps=steps, meta=dict(family='after-others', nocorr=True)))
    return cases


def ignore_bodies(text):
    """the (stripped) lines standing inside IGNORE blocks of the source: what IGNORE emits is not validated by DucklingScript"""
    out, stack = set(), []
    for raw in text.split('\n'):
        if not raw.strip(): continue
        ind = len(raw) - len(raw.lstrip(' \t'))
        while stack and ind <= stack[-1]: stack.pop()
        if stack: out.add(raw.strip())
        elif raw.strip().split()[0].upper().lstrip('$') == 'IGNORE': stack.append(ind)
    return out


def oracle(cases, results):
    fs = []
    for i, (c, r) in enumerate(zip(cases, results)):
        if c.get('op') == 'history':
            # the clauses are judged on the LAST compilation of the history, whatever was compiled before it in the process
            if r.get('kind') != 'history' or not r.get('results'):
                fs.append(fail(i, f'history did not run: {str(r)[:200]}', 'history:broken')); continue
            c, r = c['steps'][-1], r['results'][-1]
        if r.get('kind') != 'ok': continue
        verbatim = ignore_bodies(c['src'].get('text', '')) if 'text' in c.get('src', {}) else set()
        for l in r['out']:
            why = legal(l) if l.strip() not in verbatim else None
            if why:
                fs.append(fail(i, f'illegal output line {l!r}: {why}', f'illegal:{l.split(" ")[0]}')); break
        else:
            text = c['src'].get('text', '')
            unknown = any(w['kind'] == 'notExist' for w in r['warns'])
            has_ignore = re.search(r'(?im)^\s*\$?ignore\b', text) is not None
            suppressed = bool((c.get('opts') or {}).get('supress_command_not_exist'))
            if not unknown and not has_ignore and not suppressed:
                for l in r['out']:
                    w = l.split(' ')[0]
                    if w in DUCKLING_ONLY or w.startswith('$'):
                        # `"""` verbatim text and STRING arguments start with STRING etc., so the first word is a command word
                        fs.append(fail(i, f'DucklingScript-only word {w!r} emitted without a warning: {l!r}', f'keyword:{w}')); break
    return fs
