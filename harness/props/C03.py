"""C03 — indentation alone determines block structure."""
from .common import *
FIELDS = ('out', 'prints', 'tree', 'lineNo', 'cls')
RULE = 'random block trees (depth<=6, <=40 lines) rendered in 8+ indent units with blank lines anywhere, as text / list of lines / nested list; ill-indented variants; distinct (tree, unit, blank placement) with depth >= 2'
UNITS = ['\t', ' ', '  ', '   ', '    ', '     ', '        ', ' \t', '\t ', '  \t', '\t\t']


def rand_tree(g, depth, budget, tagc):
    """a tree: list of (text, children|None); semantics known by construction"""
    r = g.r
    out = []
    for _ in range(r.randint(1, 4)):
        if budget[0] <= 0: break
        budget[0] -= 1
        tagc[0] += 1
        if depth < 6 and g.chance(0.4):
            head = r.choice(['IF TRUE', 'IF FALSE', 'REPEAT 2', 'IF 1==1', 'FOR 1'])
            out.append((head, rand_tree(g, depth + 1, budget, tagc) or [(f'STRING t{tagc[0]}', None)]))
        else:
            t = r.choice([f'STRING t{tagc[0]}', f'STRINGLN  x{tagc[0]}  y', 'ENTER', f'DELAY {tagc[0]}', f'STRING """{tagc[0]}'])
            if out and t.startswith('STRING """'): pass
            out.append((t, None))
    return out


def expected_out(tree):
    out = []
    for text, ch in tree:
        if ch is None:
            w, _, a = text.partition(' ')
            out.append(w + (' ' + (a.lstrip(' \t') if w.startswith('STRING') else a.strip()) if a else ''))
        else:
            n = {'IF TRUE': 1, 'IF FALSE': 0, 'REPEAT 2': 2, 'IF 1==1': 1, 'FOR 1': 1}[text]
            for _ in range(n): out.extend(expected_out(ch))
    return out


def render_tree(tree, unit, depth, blank_p, g, lines, numbered):
    """appends physical lines; numbered mirrors the tree with 1-based line numbers"""
    for text, ch in tree:
        while g.chance(blank_p): lines.append(g.r.choice(['', ' ', '\t', '  ', unit, unit * (depth + 1), '\r', ' \r', '\x0c', '\t\x0c ', '\x0b', '\x1c', '\x1f']))
        lines.append(unit * depth + text)
        numbered.append([text, len(lines)])
        if ch is not None:
            sub = []
            render_tree(ch, unit, depth + 1, blank_p, g, lines, sub)
            numbered.append(sub)
    return lines


def to_nested(tree):
    out = []
    for text, ch in tree:
        out.append(text)
        if ch is not None: out.append(to_nested(ch))
    return out


def generate(g, tier):
    r = g.r
    cases = []
    for k in range(count(tier, 150, 1500)):
        tree = rand_tree(g, 0, [r.randint(3, 40)], [0])
        if tree and tree[0][0].startswith('STRING """'): tree[0] = ('STRING first', None)
        exp = expected_out(tree)
        for j in range(count(tier, 3, 4)):
            unit = r.choice(UNITS)
            blank_p = r.choice([0, 0, 0.1, 0.3])
            lines, numbered = [], []
            render_tree(tree, unit, 0, blank_p, g, lines, numbered)
            while g.chance(blank_p): lines.append(r.choice(['', '  ', '\t']))
            text = '\n'.join(lines)
            cases.append(dict(op='parse', src=dict(text=text), meta=dict(family='parse', tree=numbered, group=k)))
            form = r.choice(['text', 'lines'])
            src = dict(text=text) if form == 'text' else dict(lines=lines)
            cases.append(dict(op='compile', src=src, meta=dict(family='compile-' + form, exp=exp, group=k)))
        cases.append(dict(op='compile', src=dict(tree=to_nested(tree)), meta=dict(family='compile-tree', exp=exp, group=k)))
        # ill-indented variants: corrupt one line of a clean rendering in which the unit is already established
        unit = r.choice([u for u in UNITS if len(u) >= 2] if g.chance(0.5) else UNITS)
        lines, numbered = [], []
        render_tree([('IF TRUE', [('STRING est', None)])] + tree, unit, 0, 0, g, lines, numbered)
        depths = [(len(l) - len(l.lstrip(' \t'))) // len(unit) for l in lines]
        cand = list(range(2, len(lines)))
        if cand:
            i = r.choice(cand)
            d = depths[i]; prev = depths[i - 1]
            kind = r.choice(['overdeep', 'half', 'mixed'])
            body = lines[i].lstrip(' \t')
            if kind == 'overdeep': new = unit * (prev + 2) + body
            elif kind == 'half' and len(unit) >= 2: new = unit * d + unit[:len(unit) // 2] + body
            elif kind == 'mixed' and d >= 1: new = unit * (d - 1) + ('\t' if unit[0] == ' ' else ' ') + body
            else: new = unit * (prev + 2) + body; kind = 'overdeep'
            if new != lines[i] and not new.startswith(unit * d + unit) or kind == 'overdeep':
                bad = lines[:i] + [new] + lines[i + 1:]
                cases.append(dict(op='compile', src=dict(text='\n'.join(bad)), meta=dict(family='ill-' + kind, badline=i + 1)))
        # a whole well-indented script shifted to the right by one common margin (every line, or every code line): its first code line
        # is indented with no code line before it — a tab error naming that line, as a string, as a list of lines and as a file
        if g.chance(0.25):
            margin = r.choice([' ', '  ', '    ', '\t', unit])
            shifted = [(margin + l) if (l.strip() or g.chance(0.5)) else l for l in lines]
            first = next(i for i, l in enumerate(shifted) if l.strip())
            form = r.choice(['text', 'lines', 'file'])
            meta = dict(family='ill-margin', badline=first + 1, nocorr=(form == 'file'))
            if form == 'text': cases.append(dict(op='compile', src=dict(text='\n'.join(shifted)), meta=meta))
            elif form == 'lines': cases.append(dict(op='compile', src=dict(lines=shifted), meta=meta))
            else: cases.append(dict(op='compile_file', file='proj/main.txt', files={'proj/main.txt': '\n'.join(shifted)}, meta=meta))
        # indentation that only LOOKS like the unit: a no-break / ideographic / em space (white space to Python, not the unit)
        if len(unit) >= 2 and unit.strip(' ') == '':
            odd = r.choice(['\u00a0', '\u3000', '\u2003', '\x0c'])
            bad_unit = r.choice([unit[:-1] + odd, odd + unit[1:], unit + odd])
            bad = ['IF TRUE', unit + 'STRING a', bad_unit + 'STRING b', 'STRING c']
            cases.append(dict(op='compile', src=dict(text='\n'.join(bad)), meta=dict(family='ill-lookalike', badline=3)))
        # an indented first code line, after any number of blank lines
        nb = r.randint(0, 3)
        bad = [r.choice(['', ' ', '\t']) for _ in range(nb)] + [unit + 'STRING orphan', 'STRING next']
        cases.append(dict(op='compile', src=dict(text='\n'.join(bad)), meta=dict(family='ill-first', badline=nb + 1)))
    # a group belongs to the command line right above it — and to no other: a command whose own output is dropped (REM with
    # comments off), a bare command, an unknown command, each with a group, after lines with and without groups of their own
    for _ in range(count(tier, 60, 600)):
        unit = g.units()
        prev = r.choice([['STRING a'], ['STRING a', unit + 'a2'], ['ENTER'], ['IF TRUE', unit + 'STRING in-if'], ['HOLD x'], []])
        prev_out = {'STRING a': ['STRING a'], 'ENTER': ['ENTER'], 'IF TRUE': ['STRING in-if'], 'HOLD x': ['HOLD x']}.get(prev[0] if prev else '', [])
        if prev == ['STRING a', unit + 'a2']: prev_out = ['STRING a', 'STRING a2']
        owner = r.choice(['REM', 'rem', 'REM first', 'PRINT', 'PASS-LIKE'])
        comments = g.chance(0.4)
        body = [f'note {k}' for k in range(r.randint(1, 3))]
        if owner == 'PASS-LIKE':
            lines = prev + ['VAR q 1'] + ['STRING b']; out = prev_out + ['STRING b']
        else:
            lines = prev + [owner] + [unit + b for b in body] + ['STRING b']
            if owner.lower().startswith('rem'):
                first = ['REM first'] if owner == 'REM first' else []
                out = prev_out + ((first + ['REM ' + b for b in body]) if comments else []) + ['STRING b']
            else:
                out = prev_out + ['STRING b']
        cases.append(dict(op='compile', opts=dict(include_comments=True) if comments else (None if g.chance(0.5) else dict(include_comments=False)),
                          src=dict(text='\n'.join(lines)), meta=dict(family='group-owner', expout=out)))
    # blank and whitespace-only lines never matter — inside verbatim (`"""`) groups either, under any command and at any depth
    for _ in range(count(tier, 80, 800)):
        unit = g.units()
        depth = r.randint(0, 2)
        cmd = r.choice(['STRING', 'STRINGLN', 'HOLD', 'ALTSTRING', 'IGNORE'])
        base = unit * depth
        lines = [unit * d + 'IF TRUE' for d in range(depth)] + [base + cmd, base + unit + '"""']
        out = []
        for k in range(r.randint(1, 5)):
            if g.chance(0.4): lines.append(r.choice(['', ' ', '\t', base + unit, base + unit + '  ', unit * 5]))
            t = r.choice(['x', 'y z', '  deeper', 'IF q', '$v', '  """', ' """doc"""', '  """ tail', '\t"""']) + (str(k) if g.chance(0.7) else '')
            if t.strip() == '': t = 'x' + str(k)
            lines.append(base + unit + t)
            out.append(t if cmd == 'IGNORE' else f'{cmd} ' + (t.strip() if cmd in ('HOLD', 'ALTSTRING') else t))
        if g.chance(0.4): lines.append(r.choice(['', '  ', base + unit]))
        lines.append(base + unit + '"""')
        cases.append(dict(op='compile', src=dict(text='\n'.join(lines)), meta=dict(family='blank-in-verbatim', expout=out)))
    # the same rules hold inside a file that is pulled in with START / STARTENV / STARTCODE: an ill-indented imported file is a
    # tab error naming the line, exactly as when the file is compiled by itself
    for _ in range(count(tier, 60, 500)):
        unit = r.choice(UNITS)
        kw = r.choice(['START', 'STARTENV', 'STARTCODE'])
        kind = r.choice(['first', 'first-after-blank', 'all-indented', 'overdeep', 'half', 'good'])
        if kind == 'first': lib, bad = [unit + 'STRING orphan', 'STRING next'], 1
        elif kind == 'first-after-blank': lib, bad = ['', ' ', unit + 'STRING orphan', 'STRING next'], 3
        elif kind == 'all-indented': lib, bad = [unit + 'STRING a', unit + 'IF TRUE', unit * 2 + 'STRING b', unit + 'STRING c'], 1
        elif kind == 'overdeep': lib, bad = ['IF TRUE', unit + 'STRING a', unit * 3 + 'STRING b'], 3
        elif kind == 'half' and len(unit) >= 2: lib, bad = ['IF TRUE', unit + 'STRING a', unit[:len(unit) // 2] + 'STRING b'], 3
        else: lib, bad, kind = ['IF TRUE', unit + 'STRING a', 'STRING b'], None, 'good'
        where = r.choice(['top', 'block', 'func'])
        imp = f'{kw} lib'
        main = {'top': imp, 'block': 'REPEAT 1\n    ' + imp, 'func': 'FUNC ld\n    ' + imp + '\nRUN ld'}[where] + '\nSTRING end'
        files = {'proj/main.txt': 'STRING begin\n' + main, 'proj/lib.txt': '\n'.join(lib)}
        if bad is None:
            out = ['STRING begin'] + ([] if kw == 'STARTENV' else ['STRING a', 'STRING b']) + ['STRING end']
            cases.append(dict(op='compile_file', file='proj/main.txt', files=files, meta=dict(family='import-good', expout=out)))
        else:
            cases.append(dict(op='compile_file', file='proj/main.txt', files=files, meta=dict(family='ill-import-' + kind, badline=bad)))
    # a triple-quote region at the very top of the FILE: its lines are kept verbatim (their leading white space is text, not
    # indentation) and must not influence how the blocks after it are indented — any unit, whatever the region's lines begin with
    for _ in range(count(tier, 40, 400)):
        unit = g.units()
        reg = []
        for k in range(r.randint(1, 4)):
            reg.append(r.choice(['', '  ', '\t', ' \t', '    ', ' ', unit, unit + ' ']) + f'STRING r{k}')
        n1, n2 = r.randint(1, 3), r.randint(1, 2)
        lines = ['"""'] + reg + ['"""', f'REPEAT {n1}', unit + 'STRING c', unit + f'REPEAT {n2}', unit + unit + 'STRING d', 'STRING e']
        exp = [f'STRING r{k}' for k in range(len(reg))] + (['STRING c'] + ['STRING d'] * n2) * n1 + ['STRING e']
        cases.append(dict(op='compile', src=dict(text='\n'.join(lines)), meta=dict(family='file-region', expout=exp, nocorr=True)))
    # characters that some line-splitting routines treat as line ends (form feed, vertical tab, file/group/record separators, NEL,
    # LINE / PARAGRAPH SEPARATOR) are ordinary characters INSIDE a line — whether the text uses LF or CRLF line ends
    for ch in ['\x0b', '\x0c', '\x1c', '\x1d', '\x1e', '\x85', '\u2028', '\u2029']:
        for nl in ('\n', '\r\n'):
            n = r.randint(1, 3)
            lines = [f'REPEAT {n}', f'    STRING page one{ch}page two', '    STRING x', 'STRING end']
            cr = '\r' if nl == '\r\n' else ''
            exp = [f'STRING page one{ch}page two{cr}', f'STRING x{cr}'] * n + ['STRING end']
            cases.append(dict(op='compile', src=dict(text=nl.join(lines)), meta=dict(family='inline-separators', expout=exp, nocorr=True)))
    return cases


def oracle(cases, results):
    fs = []
    for i, (c, r) in enumerate(zip(cases, results)):
        m = c.get('meta', {})
        fam = m.get('family', '')
        if r.get('kind') == 'hang': continue
        if fam == 'parse':
            if r.get('kind') != 'ok':
                fs.append(fail(i, f'well-indented text rejected: {r.get("cls", r.get("exc"))} {r.get("msg", "")}', f'parse:rejected:{r.get("cls", r.get("exc"))}'))
            elif r['tree'] != m['tree']:
                fs.append(fail(i, f'parsed tree differs from the tree the indentation depicts: expected {json.dumps(m["tree"])[:300]} got {json.dumps(r["tree"])[:300]}', 'parse:tree'))
        elif fam.startswith('compile'):
            if r.get('kind') != 'ok':
                fs.append(fail(i, f'well-indented program rejected ({fam}): {r.get("cls", r.get("exc"))} {r.get("msg", "")}', f'{fam}:rejected:{r.get("cls", r.get("exc"))}'))
            elif r['out'] != m['exp']:
                fs.append(fail(i, f'output differs ({fam}): expected {m["exp"][:10]} got {r["out"][:10]}', f'{fam}:output'))
        elif 'expout' in m:
            if r.get('kind') != 'ok':
                fs.append(fail(i, f'well-indented program rejected ({fam}): {r.get("cls", r.get("exc"))} {r.get("msg", "")}', f'{fam}:rejected:{r.get("cls", r.get("exc"))}'))
            elif r['out'] != m['expout']:
                fs.append(fail(i, f'output differs ({fam}): expected {m["expout"][:10]} got {r["out"][:10]}', f'{fam}:output'))
        elif fam.startswith('ill'):
            if r.get('kind') != 'cerr' or r.get('cls') != 'InvalidTabError':
                fs.append(fail(i, f'ill-indented text ({fam}, line {m["badline"]}) not rejected with a tab error: {r.get("kind")} {r.get("cls", "")} out={r.get("out")}', f'{fam}:accepted'))
            elif r.get('lineNo') != m['badline']:
                fs.append(fail(i, f'tab error names line {r.get("lineNo")}, the ill-indented line is {m["badline"]}', f'{fam}:lineno'))
    return fs
