"""C04 — expressions evaluate with the documented precedence and typing."""
from .common import *
from refinterp import Lit, Var, Bin, Not, PREC, eval_expr, EvalError, norm, py_str
FIELDS = ('out', 'vars', 'cls', 'toks')
RULE = 'well-typed expression trees (depth<=6) over int/decimal/string/bool literals and variables, all 13 operators, !( ), random layout; thorough: all 169 operator pairs; distinct expressions with >= 2 operators'
ARITH = ['+', '-', '*', '/', '//', '%', '^']
CMP = ['==', '!=', '<', '>', '<=', '>=']
VARSETS = [{'True': 5, 'Falsey': 2, 'TrueCount': 3}, {'true': 4, 'tRUE': 6, 'false1': 1}, {'a': 2, 'ab': 3, 'abc': 5}, {'count1': 5, 'count': 2}, {'x': 7, 'xy': 1, 'y': 4}, {'n': 3}, {'v': 10, 'v1': 4, 'v12': 6, 'tr': 2, 'fals': 9}, {}]


def layout(g, e, parent=0, right=False):
    """render with random blanks and redundant parentheses; precedence-minimal otherwise"""
    r = g.r
    sp = lambda: r.choice(['', '', ' ', '  ', '\t'])
    if isinstance(e, Lit):
        v = e.v
        if isinstance(v, bool): s = 'TRUE' if v else 'FALSE'
        elif isinstance(v, int): s = (str(v) if v >= 0 else f'(0-{-v})') if not (v >= 0 and g.chance(0.1)) else r.choice([f'0{v}', f'{v}.'])
        elif isinstance(v, float): s = repr(v)
        else: s = '"' + v + '"'
    elif isinstance(e, Var): s = e.name
    elif isinstance(e, Not): return f'!{"" if g.chance(0.8) else ""}({sp()}{layout(g, e.e)}{sp()})'
    else:
        p = PREC[e.op]
        s = f'{layout(g, e.l, p, False)}{sp()}{e.op}{sp()}{layout(g, e.r, p, True)}'
        if p < parent or (p == parent and right): return f'({sp()}{s}{sp()})'
    if g.chance(0.12): s = f'({sp()}{s}{sp()})'
    return s


def gen_num(g, vars_, d, allow_float=True):
    r = g.r
    if d <= 0 or g.chance(0.3):
        if vars_ and g.chance(0.4): return Var(r.choice(sorted(vars_)))
        if allow_float and g.chance(0.15): return Lit(r.choice([0.5, 1.5, 2.5, 0.25, 3.75]))
        return Lit(r.choice([0, 1, 2, 3, 4, 5, 6, 7, 8, 9, 10, 12, 100]))
    op = r.choice(ARITH)
    a = gen_num(g, vars_, d - 1, allow_float)
    if op == '^': b = Lit(r.choice([0, 1, 2, 3]))
    elif op in ('/', '//', '%'):
        b = Lit(r.choice([1, 2, 4, 8, 5])) if g.chance(0.85) else gen_num(g, vars_, d - 1, allow_float)
    else: b = gen_num(g, vars_, d - 1, allow_float)
    return Bin(op, a, b)


def gen_bool(g, vars_, d):
    r = g.r
    c = r.random()
    if d <= 0 or c < 0.2: return Lit(r.choice([True, False]))
    if c < 0.4: return Not(gen_bool(g, vars_, d - 1))
    if c < 0.5: return Bin(r.choice(['==', '!=']), Lit(r.choice(['a', 'b', ''])), Lit(r.choice(['a', 'b', ''])))
    if c < 0.58: return Bin(r.choice(['==', '!=']), gen_bool(g, vars_, d - 1), gen_bool(g, vars_, d - 1))
    return Bin(r.choice(CMP), gen_num(g, vars_, d - 1), gen_num(g, vars_, d - 1))


def gen_str(g, vars_, d):
    r = g.r
    s = Lit(r.choice(['a', 'b c', '', 'x)', '(', 'q,r', '1+1', 'TRUE', 'é', '日本', 'ß+1', '\u212b', '\U0001f600', "it's", 'a\\b', '100%', '$x', '#', '  pad  ', 'a\u201c+\u201db', 'she said \u201chi\u201d', '\u201d', '\u2018x\u2019', '\u00abq\u00bb', '\u201ex\u201c', '`', "''", '\uff02']))
    if d <= 0: return s
    other = r.choice([gen_num(g, vars_, d - 1, g.chance(0.5)), gen_bool(g, vars_, d - 1), gen_str(g, vars_, d - 1)])
    return Bin('+', s, other) if g.chance(0.5) else Bin('+', other, s)


def safe_magnitude(e, vars_):
    try:
        v = eval_expr(e, lambda n: vars_[n])
    except EvalError: return True
    except Exception: return False
    def walk(x):
        if isinstance(x, (Lit, Var)): return True
        if isinstance(x, Not): return walk(x.e)
        try:
            val = eval_expr(x, lambda n: vars_[n])
        except EvalError: return walk(x.l) and walk(x.r)
        if isinstance(val, (int, float)) and not isinstance(val, bool):
            if abs(val) >= 10 ** 12: return False
            if isinstance(val, float):
                # keep floats exactly representable with few digits (dyadic with small exponent)
                if val != 0 and (val * 1024 != int(val * 1024) or abs(val) < 1e-3): return False
        return walk(x.l) and walk(x.r)
    return walk(e)


def walk_expr(e):
    yield e
    if isinstance(e, Not): yield from walk_expr(e.e)
    elif isinstance(e, Bin):
        yield from walk_expr(e.l); yield from walk_expr(e.r)


def mk_case(g, e, vars_, fam):
    pre = ''.join(f'VAR {k} {v}\n' for k, v in vars_.items())
    text = layout(g, e)
    form = g.r.choice(['string', 'string', 'var', 'if'])
    try:
        v = norm(eval_expr(e, lambda n: vars_[n]))
        exp = ('val', v)
    except EvalError:
        exp = ('div0',)
    meta = dict(family=fam, form=form)
    if exp[0] == 'div0': meta['div0'] = True
    else:
        meta['val'] = py_str(v); meta['ty'] = type(v).__name__; meta['truthy'] = bool(v)
    if form == 'string' or exp[0] == 'div0': src = pre + f'$STRING {text}'; meta['form'] = 'string'
    elif form == 'var': src = pre + f'VAR res {text}'
    else: src = pre + f'IF {text}\n    STRING yes\nELSE\n    STRING no'
    return dict(op='compile', src=dict(text=src), meta=meta)


def generate(g, tier):
    r = g.r
    cases = []
    n = count(tier, 1200, 12000)
    tries = 0
    while len(cases) < n and tries < n * 5:
        tries += 1
        vars_ = dict(r.choice(VARSETS))
        d = r.randint(1, 5)
        e = r.choice([gen_num, gen_num, gen_bool, gen_str])(g, vars_, d)
        if not safe_magnitude(e, vars_): continue
        cases.append(mk_case(g, e, vars_, 'tree'))
    # whole-valued decimal results and literals are integers wherever they occur: concatenated, compared, raised to large powers;
    # with and without redundant parentheses
    whole = [Bin('/', Lit(4), Lit(2)), Bin('*', Lit(1.5), Lit(2)), Bin('//', Lit(7.5), Lit(2)), Bin('%', Lit(7.5), Lit(2.5)), Lit(2.0),
             Bin('+', Lit(0.5), Lit(0.5)), Bin('^', Lit(2.5), Lit(0)), Bin('-', Lit(3.25), Lit(0.25)), Bin('/', Lit(9), Lit(3))]
    for w in whole:
        for ctx in range(6):
            e = [Bin('+', Lit('n='), w), Bin('+', w, Lit('=n')), Bin('^', Bin('^', Lit(3), w), Lit(30)), Bin('+', Bin('+', Lit('a'), w), w),
                 Bin('==', Bin('+', Lit(''), w), Bin('+', Lit(''), Lit(int(eval_expr(w, None))))), Bin('*', w, Lit(10 ** 17 + 1))][ctx]
            cases.append(mk_case(g, e, {}, 'whole'))
    # variables contribute their CURRENT value: the very same expression text evaluated again after its variables changed
    # (between statements, across loop iterations, across function calls), variables inside parentheses and `!( )` included
    for _ in range(count(tier, 150, 1500)):
        names = r.choice([['n'], ['a', 'ab'], ['_', 'x'], ['count1', 'count'], ['_1'], ['v', 'v1', 'v12']])
        vs = {k: r.randint(0, 9) for k in names}
        shape = r.choice(['paren', 'plain', 'not', 'concat', 'cmp'])
        k0 = names[0]
        e = {'paren': Bin('*', Bin('+', Var(k0), Lit(1)), Lit(2)), 'plain': gen_num(g, vs, 2, False), 'not': Not(Bin('>', Var(k0), Lit(4))),
             'concat': Bin('+', Lit('#='), Bin('+', Var(k0), Lit(1))), 'cmp': Bin('<', Var(k0), Lit(5))}[shape]
        if shape == 'plain' and not any(isinstance(x, Var) for x in walk_expr(e)): e = Bin('+', e, Var(k0))
        if not safe_magnitude(e, vs): continue
        text = layout(g, e)
        vals = [dict(vs)]
        for _k in range(r.randint(1, 3)):
            nv = dict(vals[-1]); nv[r.choice(names)] = r.randint(10, 60); vals.append(nv)
        how = r.choice(['seq', 'loop', 'func'])
        lines, exp = [], []
        def ev(env):
            try: return py_str(norm(eval_expr(e, lambda nm: env[nm])))
            except EvalError: return None
        if any(ev(v) is None for v in vals): continue
        if how == 'seq':
            for v in vals:
                lines += [f'VAR {k} {x}' for k, x in v.items()] + [f'$STRING {text}']; exp.append('STRING ' + ev(v))
        elif how == 'func':
            lines += ['FUNC show', f'    $STRING {text}']
            for v in vals:
                lines += [f'VAR {k} {x}' for k, x in v.items()] + ['RUN show']; exp.append('STRING ' + ev(v))
        else:
            lines += [f'VAR {k} {x}' for k, x in vals[0].items()] + [f'REPEAT {len(vals)}', f'    $STRING {text}', f'    VAR {k0} {k0}+7']
            env = dict(vals[0])
            loop_vals = []
            for _k in range(len(vals)):
                loop_vals.append(ev(env)); env[k0] += 7
            if any(x is None for x in loop_vals): continue        # a later pass would leave the exact-arithmetic domain: not this case
            exp += ['STRING ' + x for x in loop_vals]
        cases.append(dict(op='compile', src=dict(text='\n'.join(lines)), meta=dict(family='reeval', form='outs', expout=exp)))
    # ... and "current" means current at the moment THAT argument is evaluated: a VAR (or $STRING, DELAY ...) written with a group of
    # arguments defines / reads line by line — a later line of the group sees what an earlier line of the same group just defined
    for _ in range(count(tier, 60, 500)):
        n = r.randint(2, 5)
        names_ = r.sample(['a', 'b', 'c', 'acc', 'n', 'total', 'x1'], n)
        env, lines, exp = {}, [], []
        if g.chance(0.6):
            env[names_[0]] = r.randint(0, 9); lines.append(f'VAR {names_[0]} {env[names_[0]]}')
        lines.append(r.choice(['VAR', 'var', 'Var']))
        for k, nm in enumerate(names_):
            prev = r.choice([x for x in names_[:k + 1] if x in env] or [None])
            c_ = r.randint(1, 9)
            if prev is None: env[nm] = c_; lines.append(f'    {nm} {c_}')
            else:
                op = r.choice(['+', '*', '-'])
                env[nm] = {'+': env[prev] + c_, '*': env[prev] * c_, '-': env[prev] - c_}[op]
                lines.append(f'    {nm} {prev}{op}{c_}')
        lines.append('$STRING')
        for nm in names_:
            lines.append(f'    {nm}'); exp.append(f'STRING {env[nm]}')
        cases.append(dict(op='compile', src=dict(text='\n'.join(lines)), meta=dict(family='grouped-definitions', form='outs', expout=exp)))
    # ... also when the value was changed, or the variable created, by an IMPORTED file (START / STARTENV) and nothing at the importer's own
    # level assigned anything between two evaluations
    for _ in range(count(tier, 40, 300)):
        kw = r.choice(['START', 'STARTENV'])
        v0, v1 = r.sample(range(1, 90), 2)
        shape = r.choice(['reassign', 'create', 'in-block', 'twice'])
        if shape == 'reassign':
            main, lib, exp = f'VAR v {v0}\n$STRING v\n{kw} lib\n$STRING v\n$STRING v*2', f'VAR v {v1}', [f'STRING {v0}', f'STRING {v1}', f'STRING {v1 * 2}']
        elif shape == 'create':
            main, lib, exp = f'VAR a {v0}\n$STRING a\n{kw} lib\n$STRING made+a', f'VAR made {v1}', [f'STRING {v0}', f'STRING {v1 + v0}']
        elif shape == 'in-block':
            main, lib, exp = f'VAR v {v0}\nIF v == {v0}\n    $STRING v\n    {kw} lib\n    $STRING v\n$STRING v', f'VAR v v+{v1}', [f'STRING {v0}', f'STRING {v0 + v1}', f'STRING {v0 + v1}']
        else:
            main, lib, exp = f'VAR v {v0}\n$STRING v\n{kw} lib\n$STRING v\n{kw} lib\n$STRING v', 'VAR v v+1', [f'STRING {v0}', f'STRING {v0 + 1}', f'STRING {v0 + 2}']
        cases.append(dict(op='compile_file', file='proj/main.txt', files={'proj/main.txt': main, 'proj/lib.txt': lib}, meta=dict(family='value-after-import', form='outs', expout=exp)))
    # ... and their current TYPE: the same text after the variable went from 1 to TRUE, 0 to FALSE, to a decimal, to a string
    TYPED = [('1', '1'), ('TRUE', 'True'), ('0', '0'), ('FALSE', 'False'), ('2.5', '2.5'), ('"s"', 's'), ('2', '2'), ('""', ''), ('1.0', '1')]
    for _ in range(count(tier, 60, 600)):
        nm = r.choice(['flag', 'n', '_', 'True', 'x_1'])
        seq = [r.choice(TYPED) for _k in range(r.randint(2, 4))]
        if g.chance(0.6): seq = r.choice([[TYPED[0], TYPED[1]], [TYPED[1], TYPED[0]], [TYPED[2], TYPED[3]], [TYPED[3], TYPED[2], TYPED[0]], [TYPED[6], TYPED[8], TYPED[4]]])
        text = r.choice([f'"v=" + {nm}', f'"v="+({nm})', f'{nm} + ""', f'"" + {nm} + "|" + {nm}'])
        show = lambda v: {f'"v=" + {nm}': 'v=' + v, f'"v="+({nm})': 'v=' + v, f'{nm} + ""': v, f'"" + {nm} + "|" + {nm}': v + '|' + v}[text]
        how = r.choice(['seq', 'func', 'param'])
        lines, exp = [], []
        if how == 'seq':
            for lit, v in seq: lines += [f'VAR {nm} {lit}', f'$STRING {text}']; exp.append('STRING ' + show(v))
        elif how == 'func':
            lines += ['FUNC show', f'    $STRING {text}']
            for lit, v in seq: lines += [f'VAR {nm} {lit}', 'RUN show']; exp.append('STRING ' + show(v))
        else:
            lines += [f'FUNC show {nm}', f'    $STRING {text}']
            for lit, v in seq: lines += [f'RUN show {lit}']; exp.append('STRING ' + show(v))
        cases.append(dict(op='compile', src=dict(text='\n'.join(lines)), meta=dict(family='retyped', form='outs', expout=exp)))
    # decimals that are not exact in binary, quotients that do not terminate, large and tiny magnitudes: ordinary (IEEE double /
    # unbounded integer) arithmetic, as Python does it — outside the formal model's exact-arithmetic domain, judged by the oracle
    INEXACT = [Lit(0.1), Lit(0.2), Lit(0.3), Lit(0.7), Lit(1.1), Lit(2.675), Lit(0.0625), Lit(123456.789), Bin('/', Lit(1), Lit(3)), Bin('/', Lit(2), Lit(3)), Bin('/', Lit(10), Lit(7)),
               Lit(10 ** 20), Lit(2 ** 64 + 1), Bin('^', Lit(2), Lit(100)), Bin('^', Lit(7), Lit(40)), Lit(99999999999999.99), Bin('^', Lit(2), Lit(0.5)), Bin('^', Lit(10), Bin('-', Lit(0), Lit(3)))]
    for _ in range(count(tier, 200, 2000)):
        a, b = r.choice(INEXACT), r.choice(INEXACT + [Lit(3), Lit(0.5), Lit(10)])
        op = r.choice(['+', '-', '*', '/', '//', '%', '<', '>', '==', '!=', '<=', '>='])
        e = Bin(op, a, b)
        if op in ARITH and g.chance(0.4): e = Bin(r.choice(['+', '*', '-']), e, r.choice(INEXACT + [Lit(1)]))       # (well-typed: no arithmetic on a truth value)
        if g.chance(0.3): e = Bin('+', Lit('v='), e)
        try:
            v = eval_expr(e, None)
            if 'e' in repr(v) and isinstance(v, float): continue      # a value Python prints in exponent notation: no such literal/printing in the language to compare with
            if isinstance(v, float) and (v != v or v in (float('inf'), float('-inf'))): continue
            if isinstance(v, (int, float)) and not isinstance(v, bool) and abs(v) >= 10 ** 300: continue
        except (EvalError, OverflowError, ZeroDivisionError, TypeError): continue
        cases.append(mk_case(g, e, {}, 'inexact'))
    # integers are unbounded INSIDE an expression: an intermediate value of thousands of digits is fine as long as what is finally
    # written out is small (a comparison, a quotient, a remainder, a difference of two huge values) — also through a variable
    for _ in range(count(tier, 40, 400)):
        N = r.choice([320, 1000, 1500, 4299, 4301, 6000, 12000, 20000])
        b = r.choice([10, 2, 3, 7])
        k = r.randint(1, 3)
        shapes = [(f'{b}^{N} > 1', True), (f'{b}^{N} // {b}^{N - k}', b ** k), (f'{b}^{N} % 7', pow(b, N, 7)), (f'({b}^{N} - {b}^{N}) + 5', 5),
                  (f'{b}^{N} == {b}^{N}', True), (f'{b}^{N} < {b}^{N + 1}', True), (f'({b}^{N} + 7) % {b}', 7 % b), (f'{b}^{N} != {b}^{N} + 1', True),
                  (f'({b}^{N}) * 0', 0), (f'0 - {b}^{N} < 0', True), (f'({b}^{N} // {b}^{N - 1}) ^ 2', b * b), (f'2^{N} // 2^{N - 10} + 1', 1025)]
        txt, v = r.choice(shapes)
        if g.chance(0.5) or f'{b}^{N}' not in txt:
            lines = [f'$STRING {txt}']
        else:
            head, _, tail = txt.partition(f'{b}^{N}')
            lines = [f'VAR big {b}^{N}', f'$STRING {head}big{tail}']
        cases.append(dict(op='compile', timeout=30, src=dict(text='\n'.join(lines)), meta=dict(family='huge-intermediate', form='outs', expout=['STRING ' + str(v)], nocorr=True)))
    # the SCANNER'S TOKEN LIST itself (before tree building and evaluation) is compared with the model's `lex`, the function the
    # scanner theorems are about: structured expressions in random layouts, and token soup
    SOUP = ['1', '12', '007', '3.5', '.', '-', '-4', '+', '*', '/', '//', '%', '^', '==', '!=', '<', '<=', '>', '>=', ',', '(', ')', '!', '!(', '"', '"a b"', '""', 'TRUE', 'FALSE', 'TRU', 'Tab',
            'a', 'ab', 'abc', 'n', 'Fx', 'T', ' ', '  ', '\t', '$DEFAULT_DELAY', '=', '!!', '1.', '..']
    for _ in range(count(tier, 400, 4000)):
        vars_ = dict(r.choice(VARSETS))
        if g.chance(0.5):
            d = r.randint(1, 4)
            e = r.choice([gen_num, gen_num, gen_bool, gen_str])(g, vars_, d)
            text = layout(g, e)
        else:
            text = ''.join(r.choice(SOUP) + r.choice(['', '', ' ']) for _ in range(r.randint(1, 9)))
        vs = [[k, v] for k, v in vars_.items() if isinstance(v, int) and not isinstance(v, bool)]
        if len(vs) != len(vars_): continue
        cases.append(dict(op='lex', expr=text, vars=vs, meta=dict(family='tokens', form='tokens')))
    # division by zero in every position
    for op in ('/', '//', '%'):
        for _ in range(count(tier, 10, 60)):
            vars_ = dict(r.choice(VARSETS))
            z = r.choice([Lit(0), Bin('-', Lit(3), Lit(3)), Bin('*', Lit(0), gen_num(g, vars_, 1, False))])
            e = Bin(op, gen_num(g, vars_, 1, False), z)
            if g.chance(0.5): e = Bin(r.choice(['+', '*', '==']), e, Lit(1))
            if safe_magnitude(e, vars_): cases.append(mk_case(g, e, vars_, 'div0'))
    if tier == 'thorough':
        ops = ARITH + CMP
        for o1 in ops:
            for o2 in ops:
                for (a, b, c) in ((7, 3, 2), (2, 5, 3), (12, 4, 2)):
                    for lay in range(2):
                        # flat sequence a o1 b o2 c parsed by the documented precedence
                        if PREC[o1] >= PREC[o2]: e = Bin(o2, Bin(o1, Lit(a), Lit(b)), Lit(c))
                        else: e = Bin(o1, Lit(a), Bin(o2, Lit(b), Lit(c)))
                        try:
                            eval_expr(e, lambda n: 0)
                        except EvalError: pass
                        except Exception: continue
                        if not safe_magnitude(e, {}): continue
                        # well-typed only: comparisons yield bools; arithmetic on bools is not well-typed
                        def welltyped(x):
                            if isinstance(x, Lit): return 'n'
                            t1, t2 = welltyped(x.l), welltyped(x.r)
                            if t1 is None or t2 is None: return None
                            if x.op in ARITH: return 'n' if t1 == t2 == 'n' else None
                            if x.op in ('==', '!='): return 'b' if t1 == t2 else None
                            return 'b' if t1 == t2 == 'n' else None
                        if welltyped(e) is None: continue
                        cases.append(mk_case(g, e, {}, 'pairs'))
    return cases


def oracle(cases, results):
    fs = []
    for i, (c, r) in enumerate(zip(cases, results)):
        m = c.get('meta', {})
        if r.get('kind') == 'hang': continue
        if m.get('form') == 'tokens':
            if r.get('kind') == 'crash': fs.append(fail(i, f'the scanner raises {r.get("exc")} on {c.get("expr")!r}', f'tokens:crash:{r.get("exc")}'))
            continue
        if m.get('div0'):
            if r.get('kind') != 'cerr' or r.get('cls') != 'DivideByZeroError':
                fs.append(fail(i, f'division by zero not reported as DivideByZeroError: {r.get("kind")} {r.get("cls", r.get("exc", ""))} {r.get("out")}', 'div0'))
            continue
        if r.get('kind') != 'ok':
            fs.append(fail(i, f'well-typed expression rejected: {r.get("cls", r.get("exc"))} {r.get("msg", "")}', f'expr:rejected:{r.get("cls", r.get("exc"))}')); continue
        form = m['form']
        if form == 'outs':
            if r['out'] != m['expout']:
                fs.append(fail(i, f're-evaluated expression: expected {m["expout"]} got {r["out"]}', 'expr:reeval'))
        elif form == 'string':
            got = r['out'][-1] if r['out'] else None
            if got != 'STRING ' + m['val']:
                fs.append(fail(i, f'value differs: expected {m["val"]!r} ({m["ty"]}) got {got!r}', 'expr:value'))
        elif form == 'var':
            want = {'int': 'int:', 'float': 'flt:', 'str': 'str:', 'bool': 'bool:'}[m['ty']] + m['val']
            if r['vars'].get('res') != want:
                fs.append(fail(i, f'variable value differs: expected {want!r} got {r["vars"].get("res")!r}', 'expr:var'))
        else:
            want = ['STRING yes'] if m['truthy'] else ['STRING no']
            if r['out'] != want:
                fs.append(fail(i, f'condition truth differs: expected {want} got {r["out"]}', 'expr:cond'))
    return fs
