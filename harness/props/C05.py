"""C05 — an IF/ELIF/ELSE chain runs exactly its first true branch."""
from .common import *
from refinterp import *
FIELDS = ('out', 'cls')
RULE = 'structured programs rich in IF chains (1-6 arms, nested in branches/loops/functions, statements between arms); distinct texts containing at least one chain with 2+ arms'
W = dict(emit=5, assign=2, ifchain=7, repeat=2, whil=1, brk=0.5, func=1.2, call=2, ret=0.2, prnt=0.1, exist=0.1, between_p=0.5)


def generate(g, tier):
    cases = ast_cases(g, count(tier, 700, 8000), W, (6, 22), 5, 'chain')
    # all truth assignments of chains with literal conditions, two sibling chains, nested inner chain
    r = g.r
    for _ in range(count(tier, 300, 3000)):
        n1, n2 = r.randint(1, 4), r.randint(1, 4)
        def chain(pfx, n, depth, inner=None):
            ls, exp = [], []
            taken = False
            for i in range(n):
                t = r.choice([True, False])
                ls.append((depth, ('IF ' if i == 0 else 'ELIF ') + ('TRUE' if t else 'FALSE')))
                ls.append((depth + 1, f'STRING {pfx}{i}'))
                run = t and not taken
                if run: exp.append(f'STRING {pfx}{i}')
                if inner and i == 0:
                    il, ie = inner
                    ls.extend(il)
                    if run: exp.extend(ie)
                taken = taken or t
            if r.random() < 0.6:
                ls.append((depth, 'ELSE')); ls.append((depth + 1, f'STRING {pfx}e'))
                if not taken: exp.append(f'STRING {pfx}e')
            return ls, exp
        inner = chain('n', r.randint(1, 3), 1) if g.chance(0.6) else None
        a, ea = chain('a', n1, 0, inner)
        b, eb = chain('b', n2, 0)
        lines = a + ([(0, 'STRING mid')] if g.chance(0.5) else []) + b
        exp = ea + (['STRING mid'] if (0, 'STRING mid') in lines else []) + eb
        cases.append(dict(op='compile', src=dict(text='\n'.join(g.units() * 0 + '    ' * d + t for d, t in lines)),
                          meta=dict(family='truth-table', exp=['ok', exp, [], {}])))
    # a chain is not disturbed by what stands between its arms: an imported file (START / STARTENV / STARTCODE) with chains of its
    # own (taken or not), a loop, a call, a bare block-less keyword — for every truth assignment
    for _ in range(count(tier, 150, 1500)):
        n = r.randint(2, 4)
        truth = [r.choice([True, False]) for _ in range(n)]
        has_else = g.chance(0.6)
        lib_taken = r.choice([True, False])
        kw = r.choice(['START', 'STARTENV', 'STARTCODE'])
        lib = f'IF {"TRUE" if lib_taken else "FALSE"}\n    STRING lib-if\nELIF TRUE\n    STRING lib-elif\nSTRING lib-end'
        lib_out = [] if kw == 'STARTENV' else ['STRING lib-if' if lib_taken else 'STRING lib-elif', 'STRING lib-end']
        between_kind = r.choice(['import', 'import', 'loop', 'func'])
        where = r.randint(0, n - 1)       # after which arm
        lines, exp, taken = [], [], False
        pre = ['FUNC sub', '    IF TRUE', '        STRING sub-if', '    ELSE', '        STRING sub-else'] if between_kind == 'func' else []
        for i, t in enumerate(truth):
            lines += [('IF ' if i == 0 else 'ELIF ') + ('TRUE' if t else 'FALSE'), f'    STRING a{i}']
            if t and not taken: exp.append(f'STRING a{i}')
            taken = taken or t
            if i == where and (i < n - 1 or has_else):
                if between_kind == 'import': lines.append(f'{kw} lib'); exp += lib_out
                elif between_kind == 'loop': lines += ['REPEAT 2', '    IF TRUE', '        STRING in-loop']; exp += ['STRING in-loop'] * 2
                else: lines.append('RUN sub'); exp.append('STRING sub-if')
        if has_else:
            lines += ['ELSE', '    STRING a-else']
            if not taken: exp.append('STRING a-else')
        lines.append('STRING end'); exp.append('STRING end')
        cases.append(dict(op='compile_file', file='proj/main.txt', files={'proj/main.txt': '\n'.join(pre + lines), 'proj/lib.txt': lib},
                          meta=dict(family='between-' + between_kind, exp=['ok', exp, [], {}])))
    # recursion: every live call of a function decides its own chains — a call made from a taken branch, between two arms, or
    # after the chain, whose own last chain takes a branch or none; functions called between arms that RETURN a value.
    # (Nothing reads the parameter after the inner call returns: a parameter that shadows a visible name of the same name
    # overwrites it on exit — the quirk recorded in DESIGN.md §4 — so the callers' `n` is not what this family is about.)
    for _ in range(count(tier, 120, 1200)):
        n = Var('n')
        depth = r.randint(1, 3)
        rec = Call('walk', [Bin('-', n, Lit(1))])
        guarded = Repeat(Bin('>', n, Lit(0)), None, [rec])         # runs the call iff n > 0, without opening a chain
        where = r.choice(['branch', 'between', 'after', 'else'])
        # `gflag` is set by every call after its chain: a later arm that tests it is false in the innermost call (which so takes no
        # branch) and true in every outer call once the inner one has returned — where it must still be skipped
        arms = [(Bin('>', n, Lit(0)), [Emit('down', n)] + ([rec] if where == 'branch' else [])),
                (r.choice([Lit(True), Lit(False), Bin('==', Var('gflag'), Lit(1))]), [Emit('second')]),
                (r.choice([Lit(True), Lit(False), Bin('==', Var('gflag'), Lit(1))]), [Emit('third')])][:r.randint(1, 3)]
        between = [[] for _a in arms]
        if where == 'between': between[0] = [guarded]
        els = ([Emit('else')] + ([guarded] if where == 'else' else [])) if g.chance(0.7) else None
        if els is None and where == 'else': where = 'after'
        if els is None: between[-1] = []
        body = [IfChain(arms, els, between)] + ([guarded] if where == 'after' else []) + [Assign('gflag', Lit(1)), Emit('up')]
        helper = FuncDef('pick', [], [IfChain([(Lit(True), [Return('RETURN', Lit(5))])], None, [[]])])
        outer = IfChain([(Lit(r.choice([True, False])), [Emit('o1')]), (Lit(True), [Emit('o2')])], [Emit('o3')], [[Call('pick', [])], []])
        prog = [Assign('gflag', Lit(0)), FuncDef('walk', ['n'], body), helper, Call('walk', [Lit(depth)]), outer, Emit('end')]
        text, rd = render_ast(prog, g.units(), '', g.r if g.chance(0.3) else None)
        cases.append(dict(op='compile', src=dict(text=text), meta=dict(family='recursion', exp=list(expect_of(prog, rd)[:4]))))
    # an arm whose body holds nothing but comments is an arm like any other: if it is the first true one, no later arm of the chain
    # runs — with comments dropped (the default) and with comments kept, at top level, in a loop, in a function called from a loop
    r_ = g.r
    for _ in range(count(tier, 40, 300)):
        narms = r_.randint(2, 4)
        first_true = r_.randint(0, narms - 1)
        comment_arm = r_.randint(0, narms - 1)
        has_else = g.chance(0.6)
        comments = g.chance(0.4)
        lines, exp = ['VAR mode %d' % first_true], []
        for i in range(narms):
            kw = 'IF' if i == 0 else 'ELIF'
            lines.append(f'{kw} mode == {i}')
            if i == comment_arm:
                lines += ['    REM only a note', '    REM and another']
                if i == first_true and comments: exp += ['REM only a note', 'REM and another']
            else:
                lines.append(f'    STRING body-{i}')
                if i == first_true: exp.append(f'STRING body-{i}')
        if has_else:
            lines += ['ELSE', '    STRING body-else']
        lines.append('STRING after-chain'); exp.append('STRING after-chain')
        wrap = r_.choice(['top', 'loop', 'func'])
        if wrap == 'loop':
            lines = [lines[0], 'REPEAT 2'] + ['    ' + l for l in lines[1:]]; exp = exp * 2
        elif wrap == 'func':
            lines = [lines[0], 'FUNC chain'] + ['    ' + l for l in lines[1:]] + ['REPEAT 2', '    RUN chain']; exp = exp * 2
        cases.append(dict(op='compile', opts=dict(include_comments=comments), src=dict(text='\n'.join(lines)), meta=dict(family='comment-only-arm', exp=['ok', exp, [], None])))
    # chains in a text whose lines end in CR LF (one string, or a list of CR-terminated lines): the arms are the same arms — ELSE and
    # conditions followed by a carriage return included (bodies are DELAY lines, whose argument is stripped)
    for _ in range(count(tier, 40, 300)):
        narms = r_.randint(1, 4)
        first_true = r_.randint(0, narms)          # == narms: none of the conditions is true
        has_else = g.chance(0.7)
        lines, exp = ['VAR mode %d' % first_true], []
        for i in range(narms):
            lines += [f'{"IF" if i == 0 else "ELIF"} mode == {i}', f'    DELAY {i + 1}']
            if i == first_true: exp.append(f'DELAY {i + 1}')
        if has_else:
            lines += [r_.choice(['ELSE', 'else', 'ELSE ']), '    DELAY 99']
            if first_true == narms: exp.append('DELAY 99')
        lines.append('DELAY 7'); exp.append('DELAY 7')
        form = r_.choice(['crlf-text', 'cr-lines', 'mixed-text'])
        if form == 'crlf-text': src = dict(text='\r\n'.join(lines) + r_.choice(['', '\r\n']))
        elif form == 'cr-lines': src = dict(lines=[l + '\r' for l in lines])
        else: src = dict(text=''.join(l + r_.choice(['\n', '\r\n']) for l in lines))
        cases.append(dict(op='compile', src=src, meta=dict(family='chain-' + form, exp=['ok', exp, [], None], nocorr=True)))
    return cases


def oracle(cases, results):
    return ast_oracle(cases, results, ('out',), 'chain')
