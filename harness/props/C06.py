"""C06 — loops iterate exactly as written; BREAK/CONTINUE hit the innermost loop."""
from .common import *
from refinterp import *
FIELDS = ('out', 'vars', 'cls')
RULE = 'structured programs rich in REPEAT/FOR/WHILE nests with BREAK/CONTINUE (and aliases) under 0-3 IFs; distinct texts containing a loop'
W = dict(emit=5, assign=2, ifchain=2, repeat=5, whil=3, brk=4, func=0.8, call=1.5, ret=0.2, prnt=0.1, exist=0.8)


def generate(g, tier):
    cases = ast_cases(g, count(tier, 800, 8000), W, (6, 22), 5, 'loops')
    r = g.r
    # counted loops with larger counts and counter probes; last-iteration CONTINUE; output before break kept
    for _ in range(count(tier, 150, 1500)):
        n = r.choice([0, 1, 2, 5, 9, 12, 37])
        k = r.randint(0, max(0, n))
        kw = r.choice([Break('BREAKLOOP'), Break('BREAK_LOOP'), Continue('CONTINUELOOP'), Continue('CONTINUE'), Continue('CONTINUE_LOOP')])
        inner = IfChain([(Bin('==', Var('i'), Lit(k)), [Emit('pre', Var('i')), IfChain([(Lit(True), [Emit('pre2'), kw])], None, [[]])])], None, [[]])
        loop = Repeat(Lit(n), 'i', [Emit('a', Var('i')), inner, Emit('b', Var('i'))], r.choice(['REPEAT', 'FOR']))
        outer = Repeat(Lit(r.choice([1, 2, 3])), 'o', [Emit('o', Var('o')), loop, Emit('after', Var('o'))]) if g.chance(0.6) else loop
        body = [outer, Exist('i', neg=True), Emit('done')]
        text, rd = render_ast(body, g.units())
        exp = expect_of(body, rd)
        cases.append(dict(op='compile', src=dict(text=text), meta=dict(family='counted', exp=list(exp[:4]))))
    for _ in range(count(tier, 100, 1000)):
        lim = r.choice([0, 1, 3, 6])
        body = [Assign('x', Lit(0)),
                While('c', Bin('<', Var('x'), Lit(lim)), [Assign('x', Bin('+', Var('x'), Lit(1))),
                      IfChain([(Bin('==', Var('c'), Lit(r.randint(0, 4))), [Emit('s', Var('c')), r.choice([Continue(), Break(), Pass()])])], None, [[]]),
                      Emit('w', Var('c'))]),
                Emit('x', Var('x')), Exist('c', neg=True)]
        text, rd = render_ast(body, g.units())
        exp = expect_of(body, rd)
        cases.append(dict(op='compile', src=dict(text=text), meta=dict(family='while', exp=list(exp[:4]))))
    if tier == 'thorough':
        for n in (19999, 20000):
            cases.append(dict(op='compile', timeout=120, src=dict(text=f'VAR s 0\nREPEAT i,{n}\n    VAR s s+1\n$STRING s'),
                              meta=dict(family='big', exp=['ok', [f'STRING {n}'], [], {'s': n}])))
    return cases


def oracle(cases, results):
    return ast_oracle(cases, results, ('out', 'vars'), 'loops')
