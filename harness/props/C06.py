"""C06 — loops iterate exactly as written; BREAK/CONTINUE hit the innermost loop."""
from .common import *
from refinterp import *
FIELDS = ('out', 'vars', 'cls')
RULE = 'structured programs rich in REPEAT/FOR/WHILE nests with BREAK/CONTINUE (and aliases) under 0-3 IFs; distinct texts containing a loop'
W = dict(emit=5, assign=2, ifchain=2, repeat=5, whil=3, brk=4, func=0.8, call=1.5, ret=0.2, prnt=0.1, exist=0.8)


def generate(g, tier):
    cases = ast_cases(g, count(tier, 800, 8000), W, (6, 22), 5, 'loops')
    r = g.r
    # counted loops with larger counts and counter probes; last-iteration CONTINUE; output before break kept
    for _ in range(count(tier, 150, 1500)):
        n = r.choice([0, 1, 2, 5, 9, 12, 37])
        k = r.randint(0, max(0, n))
        kw = r.choice([Break('BREAKLOOP'), Break('BREAK_LOOP'), Continue('CONTINUELOOP'), Continue('CONTINUE'), Continue('CONTINUE_LOOP')])
        inner = IfChain([(Bin('==', Var('i'), Lit(k)), [Emit('pre', Var('i')), IfChain([(Lit(True), [Emit('pre2'), kw])], None, [[]])])], None, [[]])
        loop = Repeat(Lit(n), 'i', [Emit('a', Var('i')), inner, Emit('b', Var('i'))], r.choice(['REPEAT', 'FOR']))
        outer = Repeat(Lit(r.choice([1, 2, 3])), 'o', [Emit('o', Var('o')), loop, Emit('after', Var('o'))]) if g.chance(0.6) else loop
        body = [outer, Exist('i', neg=True), Emit('done')]
        text, rd = render_ast(body, g.units())
        exp = expect_of(body, rd)
        cases.append(dict(op='compile', src=dict(text=text), meta=dict(family='counted', exp=list(exp[:4]))))
    for _ in range(count(tier, 100, 1000)):
        lim = r.choice([0, 1, 3, 6])
        body = [Assign('x', Lit(0)),
                While('c', Bin('<', Var('x'), Lit(lim)), [Assign('x', Bin('+', Var('x'), Lit(1))),
                      IfChain([(Bin('==', Var('c'), Lit(r.randint(0, 4))), [Emit('s', Var('c')), r.choice([Continue(), Break(), Pass()])])], None, [[]]),
                      Emit('w', Var('c'))]),
                Emit('x', Var('x')), Exist('c', neg=True)]
        text, rd = render_ast(body, g.units())
        exp = expect_of(body, rd)
        cases.append(dict(op='compile', src=dict(text=text), meta=dict(family='while', exp=list(exp[:4]))))
    if tier == 'thorough':
        for n in (19999, 20000):
            cases.append(dict(op='compile', timeout=120, src=dict(text=f'VAR s 0\nREPEAT i,{n}\n    VAR s s+1\n$STRING s'),
                              meta=dict(family='big', exp=['ok', [f'STRING {n}'], [], {'s': n}])))
    # long loops (hundreds to thousands of iterations): every iteration really runs, in order, whatever state the body keeps —
    # a user variable, the $DEFAULT_DELAY system variable, the counter — with and without a counter, for every loop keyword
    for n in ([256, 300, 1000] if tier == 'quick' else [255, 256, 257, 300, 1000, 4096, 20000]):
        for kw in ('REPEAT', 'FOR'):
            cases.append(dict(op='compile', timeout=120, src=dict(text=f'{kw} {n}\n    DEFAULT_DELAY $DEFAULT_DELAY+1'),
                              meta=dict(family='long-loop', expout=[f'DEFAULT_DELAY {k}' for k in range(1, n + 1)])))
            cases.append(dict(op='compile', timeout=120, src=dict(text=f'VAR s 0\n{kw} {n}\n    VAR s s+2\n$STRING s'), meta=dict(family='long-loop', expout=[f'STRING {2 * n}'])))
            cases.append(dict(op='compile', timeout=120, src=dict(text=f'{kw} i,{n}\n    IF i%100==99\n        $STRING i'), meta=dict(family='long-loop', expout=[f'STRING {k}' for k in range(n) if k % 100 == 99])))
            cases.append(dict(op='compile', timeout=120, src=dict(text=f'VAR s 0\n{kw} {n}\n    IF s%2==0\n        STRING even\n    ELSE\n        STRING odd\n    VAR s s+1'),
                              meta=dict(family='long-loop', expout=['STRING even', 'STRING odd'] * (n // 2) + (['STRING even'] if n % 2 else []))))
        cases.append(dict(op='compile', timeout=120, src=dict(text=f'VAR s 0\nWHILE s<{n}\n    VAR s s+1\n$STRING s'), meta=dict(family='long-loop', expout=[f'STRING {n}'])))
    # every pass sees what the previous one left — also when a value only changed its TYPE (1 -> TRUE, 0 -> FALSE, 2 -> 2.5 -> "2")
    for head in ('REPEAT 3', 'FOR 3', 'REPEAT i,3', 'WHILE w,w<3'):
        for v0, v1, s0, s1 in (('1', 'TRUE', '1', 'True'), ('TRUE', '1', 'True', '1'), ('0', 'FALSE', '0', 'False'), ('FALSE', '0', 'False', '0'), ('2', '"2"', '2', '2'), ('""', 'FALSE', '', 'False')):
            t = f'VAR armed {v0}\n{head}\n    $STRING "armed="+armed\n    $PRINT armed\n    VAR armed {v1}\n$STRING armed'
            cases.append(dict(op='compile', src=dict(text=t), meta=dict(family='retyped-in-loop', expout=[f'STRING armed={s0}', f'STRING armed={s1}', f'STRING armed={s1}', f'STRING {s1}'])))
    # every pass of a loop body starts afresh at the body's OWN level: what the previous pass created there is gone, and a chain
    # begun in the previous pass is not continued (a body that opens with ELIF)
    for head, cvar in (('WHILE i,i<3', 'i'), ('REPEAT i,3', 'i'), ('FOR i,3', 'i')):
        t = f'{head}\n    NOT_EXIST seen\n    VAR seen {cvar}\n    $STRING seen'
        cases.append(dict(op='compile', src=dict(text=t), meta=dict(family='fresh-pass', expout=['STRING 0', 'STRING 1', 'STRING 2'])))
        t = f'{head}\n    ELIF {cvar} == 1\n        BREAKLOOP\n    $STRING {cvar}\n    IF {cvar} == 0\n        STRING zero'
        cases.append(dict(op='compile', src=dict(text=t), meta=dict(family='fresh-pass', expout=['STRING 0', 'STRING zero'])))
        t = f'{head}\n    ELSE\n        STRING else-{cvar}\n    IF TRUE\n        PASS'
        cases.append(dict(op='compile', src=dict(text=t), meta=dict(family='fresh-pass', expout=[f'STRING else-{cvar}'] * 3)))
    # what a loop's condition or count reads may be ANY state the body changes: the system variable $DEFAULT_DELAY (changed by the
    # DEFAULT_DELAY command, no user variable involved), and values that change only in TYPE (1 -> TRUE: equal as numbers, different
    # once concatenated to a string) — the condition is evaluated anew before every iteration
    for _ in range(count(tier, 30, 300)):
        a, step = r.choice([0, 5, 10]), r.choice([5, 10, 7])
        n = r.randint(0, 5)
        lim = a + n * step
        kw = r.choice(['WHILE', 'while'])
        form = r.choice(['sys-while', 'sys-while-counter', 'sys-repeat', 'type-only', 'sys-nested'])
        if form == 'sys-while':
            text = f'DEFAULT_DELAY {a}\n{kw} $DEFAULT_DELAY<{lim}\n    $STRING "d="+$DEFAULT_DELAY\n    DEFAULT_DELAY $DEFAULT_DELAY+{step}\nSTRING end'
            exp = [f'DEFAULT_DELAY {a}'] + [x for i in range(n) for x in (f'STRING d={a + i * step}', f'DEFAULT_DELAY {a + (i + 1) * step}')] + ['STRING end']
        elif form == 'sys-while-counter':
            text = f'DEFAULT_DELAY {a}\n{kw} c,$DEFAULT_DELAY<{lim}\n    $STRING "c="+c\n    DEFAULT_DELAY $DEFAULT_DELAY+{step}\nSTRING end'
            exp = [f'DEFAULT_DELAY {a}'] + [x for i in range(n) for x in (f'STRING c={i}', f'DEFAULT_DELAY {a + (i + 1) * step}')] + ['STRING end']
        elif form == 'sys-repeat':
            k = r.randint(1, 4)
            text = f'DEFAULT_DELAY {k}\nREPEAT $DEFAULT_DELAY\n    STRING r\n    DEFAULT_DELAY 1\nSTRING end'      # the count is re-read: one iteration
            exp = [f'DEFAULT_DELAY {k}', 'STRING r', 'DEFAULT_DELAY 1', 'STRING end']
        elif form == 'type-only':
            v0, v1, lit = r.choice([('1', 'TRUE', '"x1"'), ('0', 'FALSE', '"x0"'), ('TRUE', '1', '"xTrue"'), ('FALSE', '0', '"xFalse"')])
            text = f'VAR a {v0}\n{kw} ("x"+a)=={lit}\n    STRING it\n    VAR a {v1}\nSTRING end'
            exp = ['STRING it', 'STRING end']
        else:
            text = (f'DEFAULT_DELAY {a}\nREPEAT 2\n    {kw} $DEFAULT_DELAY<{lim}\n        DEFAULT_DELAY $DEFAULT_DELAY+{step}\n    STRING round\nSTRING end')
            exp = [f'DEFAULT_DELAY {a}'] + [f'DEFAULT_DELAY {a + (i + 1) * step}' for i in range(n)] + ['STRING round', 'STRING round', 'STRING end']
        cases.append(dict(op='compile', timeout=60, src=dict(text=text), meta=dict(family='loop-reads-other-state', expout=exp, nocorr=False)))
    # one execution of a loop in which DIFFERENT iterations end in different ways, in every order: a schedule assigns each
    # counter value one of pass / continue / break / return (the last inside a function), so a CONTINUE in an early iteration is
    # followed by a BREAK or RETURN in a later one, a CONTINUE by a CONTINUE, … — for REPEAT/FOR and for WHILE, with every alias
    for _ in range(count(tier, 60, 600)):
        n = r.randint(2, 6)
        sched = [r.choice(['pass', 'pass', 'cont', 'cont', 'brk', 'ret']) for _ in range(n)]
        if g.chance(0.5) and 'cont' not in sched[:-1]: sched[r.randrange(n - 1)] = 'cont'
        infunc = 'ret' in sched
        head = r.choice(['REPEAT i,{n}', 'FOR i,{n}', 'WHILE i,i<{n}']).format(n=n)
        lines, exp = [], []
        ind = '    ' if infunc else ''
        if infunc: lines.append('FUNCTION f')
        lines.append(ind + head)
        lines.append(ind + '    $STRING "top "+i')
        deep = g.chance(0.3)
        for k, s in enumerate(sched):
            if s == 'pass': continue
            word = dict(cont=r.choice(['CONTINUELOOP', 'CONTINUE', 'CONTINUE_LOOP']), brk=r.choice(['BREAKLOOP', 'BREAK_LOOP']), ret='RETURN')[s]
            lines.append(ind + f'    IF i=={k}')
            if deep:
                lines.append(ind + '        IF TRUE')
                lines.append(ind + '            ' + word)
            else:
                lines.append(ind + '        ' + word)
        lines.append(ind + '    $STRING "it "+i')
        if infunc:
            lines += ['    STRING fell-through', 'RUN f']
        lines.append('STRING after')
        stopped = None
        for k, s in enumerate(sched):
            exp.append(f'STRING top {k}')
            if s == 'pass': exp.append(f'STRING it {k}')
            elif s in ('brk', 'ret'): stopped = s; break
        if infunc and stopped != 'ret': exp.append('STRING fell-through')
        exp.append('STRING after')
        cases.append(dict(op='compile', timeout=60, src=dict(text='\n'.join(lines)), meta=dict(family='signal-schedule', expout=exp)))
    # the variables a loop condition reads may be changed by an IMPORTED file run in the body (START / STARTENV inside the body, in an IF
    # inside it, in a function called from it) while the body itself assigns nothing: the next evaluation still sees the change
    for _ in range(count(tier, 40, 300)):
        kw = r.choice(['START', 'STARTENV'])
        n = r.randint(2, 5)
        shape = r.choice(['while', 'while-if', 'while-func', 'repeat-read', 'while-counter'])
        bump = 'VAR n n+1' + ('\nSTRING bumped' if kw == 'START' else '')
        per = ['STRING bumped'] if kw == 'START' else []
        if shape == 'while': main, out = f'VAR n 0\nWHILE n < {n}\n    {kw} bump\n$STRING n', per * n + [f'STRING {n}']
        elif shape == 'while-if': main, out = f'VAR n 0\nWHILE n < {n}\n    IF TRUE\n        {kw} bump\n$STRING n', per * n + [f'STRING {n}']
        elif shape == 'while-func': main, out = f'VAR n 0\nFUNC step\n    {kw} bump\nWHILE n < {n}\n    RUN step\n$STRING n', per * n + [f'STRING {n}']
        elif shape == 'while-counter': main, out = f'VAR n 0\nWHILE c,n < {n}\n    {kw} bump\n    $STRING c\n$STRING n', sum([per + [f'STRING {i}'] for i in range(n)], []) + [f'STRING {n}']
        else: main, out = f'VAR n 0\nREPEAT {n}\n    {kw} bump\n    $STRING n', sum([per + [f'STRING {i + 1}'] for i in range(n)], [])
        cases.append(dict(op='compile_file', file='proj/main.txt', files={'proj/main.txt': main, 'proj/bump.txt': bump}, meta=dict(family='import-changes-loop-state', expout=out)))
    # loops written in an IMPORTED file behave like loops anywhere: counters and what the body created are gone after the loop — in the
    # file itself (NOTEXIST right after the loop) and in the importer afterwards
    for _ in range(count(tier, 30, 200)):
        kw = r.choice(['START', 'STARTENV', 'STARTCODE'])
        n = r.randint(1, 3)
        lib = (f'REPEAT i,{n}\n    $STRING "r"+i\n    VAR made i\nNOTEXIST i\nNOTEXIST made\n'
               f'WHILE c,c<{n}\n    VAR k c\n    $STRING "w"+c\nNOTEXIST c\nNOTEXIST k\n'
               f'FUNC f p\n    REPEAT j,1\n        $STRING "f"+p\nRUN f 7\nNOTEXIST j\nNOTEXIST p\nSTRING lib-end')
        main = f'VAR outer 1\n{kw} lib\nNOTEXIST i\nNOTEXIST c\nNOTEXIST k\nNOTEXIST made\nNOTEXIST j\nEXIST outer\nSTRING end'
        libout = [f'STRING r{x}' for x in range(n)] + [f'STRING w{x}' for x in range(n)] + ['STRING f7', 'STRING lib-end']
        out = ([] if kw == 'STARTENV' else libout) + ['STRING end']
        wrap = r.choice(['top', 'if', 'loop'])
        if wrap == 'if': main = main.replace(f'{kw} lib', f'IF TRUE\n    {kw} lib')
        elif wrap == 'loop':
            main = main.replace(f'{kw} lib', f'REPEAT 2\n    {kw} lib'); out = ([] if kw == 'STARTENV' else libout * 2) + ['STRING end']
        cases.append(dict(op='compile_file', file='proj/main.txt', files={'proj/main.txt': main, 'proj/lib.txt': lib}, meta=dict(family='loops-in-imported-file', expout=out)))
    return cases


def oracle(cases, results):
    extra = []
    for i, (c, r) in enumerate(zip(cases, results)):
        m = c.get('meta', {})
        if 'expout' in m and r.get('kind') != 'hang':
            if r.get('kind') != 'ok': extra.append(fail(i, f'{m["family"]}: rejected: {r.get("cls", r.get("exc"))} {r.get("msg", "")}', f'{m["family"]}:rejected:{r.get("cls", r.get("exc"))}'))
            elif r['out'] != m['expout']: extra.append(fail(i, f'{m["family"]}: {len(r["out"])} lines {r["out"][:4]}…{r["out"][-3:]}, expected {len(m["expout"])} lines {m["expout"][:4]}…{m["expout"][-3:]}', f'{m["family"]}:output'))
    return extra + _oracle(cases, results)


def _oracle(cases, results):
    return ast_oracle(cases, results, ('out', 'vars'), 'loops')
