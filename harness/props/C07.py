"""C07 — RUN binds arguments positionally; RETURN leaves exactly one function."""
from .common import *
from refinterp import *
FIELDS = ('out', 'vars', 'cls')
RULE = 'functions of arity 0-8 called with expression arguments (strings containing commas/parentheses, falsy values), RETURN at any depth of loops/IFs, arity/undefined/escape errors; distinct texts containing FUNC and RUN'
W = dict(emit=4, assign=2, ifchain=2, repeat=2, whil=1.5, brk=0.8, func=3, call=5, ret=1.5, prnt=0.1, exist=0.2, dead_call_p=0.15)
STRS = ['a', 'b,c', '(x)', 'p,(q', '', 'r)', '0', ', ']
FALSY = [Lit(0), Lit(''), Lit(False), Bin('-', Lit(5), Lit(5))]


def generate(g, tier):
    r = g.r
    cases = ast_cases(g, count(tier, 500, 5000), W, (8, 22), 4, 'calls')
    for _ in range(count(tier, 400, 4000)):
        ar = r.randint(0, 8)
        ps = [f'p{i}' for i in range(ar)]
        args = []
        for i in range(ar):
            c = r.random()
            args.append(Lit(r.choice(STRS)) if c < 0.35 else r.choice(FALSY) if c < 0.5 else Lit(r.randint(0, 50)) if c < 0.8 else Bin(r.choice(['+', '*', '-']), Lit(r.randint(1, 9)), Lit(r.randint(1, 9))))
        body = [Emit(f'a{i}', Var(p)) for i, p in enumerate(ps)] + [Emit('body')]
        # RETURN under loops and IFs inside the function: ends the function only
        if g.chance(0.5):
            st = Return(r.choice(['RETURN', 'RET']))
            for _ in range(r.randint(0, 3)):
                st = r.choice([IfChain([(Lit(True), [Emit('in'), st])], None, [[]]),
                               Repeat(Lit(2), None, [Emit('it'), st]),
                               While('w%d' % r.randint(0, 99), Lit(True), [st])])
            body += [st, Emit('unreachable')]
        prog = [FuncDef('f', ps, body)]
        call = Call('f', args)
        site = r.choice(['top', 'if', 'loop', 'func'])
        if site == 'top': prog += [call]
        elif site == 'if': prog += [IfChain([(Lit(False), [Emit('no')]), (Lit(True), [call])], None, [[], []])]
        elif site == 'loop': prog += [Repeat(Lit(2), 'k', [call, Emit('k', Var('k'))])]
        else: prog += [FuncDef('g', [], [call, Emit('g-after')]), Call('g', [])]
        prog += [Emit('after')]
        fam = 'arity'
        if g.chance(0.12):
            bad = r.choice(['arity', 'undefined', 'escape', 'redef', 'toplevel-return'])
            fam = bad
            if bad == 'arity':
                call.args = (call.args + [Lit(1)]) if g.chance(0.5) or not call.args else call.args[:-1]
            elif bad == 'undefined': call.name = 'nosuch'
            elif bad == 'escape':
                prog = [FuncDef('f', [], [Emit('x'), r.choice([Break(), Continue()])]), Repeat(Lit(2), None, [Call('f', [])])]
            elif bad == 'redef':
                prog = [FuncDef('f', ['a'], [Emit('old', Var('a'))]), Call('f', [Lit(1)]), FuncDef('f', ['a', 'b'], [Emit('new', Bin('+', Var('a'), Var('b')))]), Call('f', [Lit(1), Lit(2)])]
            else:
                prog = [Emit('one'), IfChain([(Lit(True), [Repeat(Lit(3), None, [Emit('two'), Return()])])], None, [[]]), Emit('never')]
        text, rd = render_ast(prog, g.units(), r.choice(['', ' ']))
        exp = expect_of(prog, rd)
        cases.append(dict(op='compile', src=dict(text=text), meta=dict(family=fam, exp=list(exp[:4]))))
    # which definition is visible: a FUNC inside a finished block (branch, loop body, function body) is gone afterwards;
    # inside the block it replaces the outer one only from its own line on and only until the block ends
    def wrap(kind, inner):
        if kind == 'if': return [IfChain([(Lit(True), inner)], None, [[]])]
        if kind == 'repeat': return [Repeat(Lit(r.choice([1, 2])), None, inner)]
        if kind == 'while': return [While('vw%d' % r.randint(0, 99), Bin('<', Lit(0), Lit(1)), inner + [Break()])]
        return [FuncDef('wrapf', [], inner), Call('wrapf', [])]
    for kind in ('if', 'repeat', 'while', 'func'):
        for shape in range(4):
            outer = [FuncDef('f', [], [Emit('outer')])]
            innerdef = FuncDef('f', [], [Emit('inner')])
            if shape == 0: prog = outer + wrap(kind, [innerdef, Call('f', [])]) + [Call('f', []), Emit('end')]
            elif shape == 1: prog = wrap(kind, [FuncDef('g', [], [Emit('inner')]), Call('g', [])]) + [Call('g', [])]
            elif shape == 2: prog = outer + wrap(kind, [Call('f', []), innerdef]) + [Call('f', []), Emit('end')]
            else: prog = outer + wrap(kind, wrap(r.choice(['if', 'repeat']), [innerdef, Call('f', [])]) + [Call('f', [])]) + [Call('f', [])]
            text, rd = render_ast(prog, g.units(), '')
            exp = expect_of(prog, rd)
            cases.append(dict(op='compile', src=dict(text=text), meta=dict(family='visible', exp=list(exp[:4]))))
    # several calls written as one grouped RUN run one after the other, each with the values current at ITS turn
    for _ in range(count(tier, 30, 300)):
        x0 = r.randint(0, 5)
        calls = [r.choice(['bump', 'show x', 'show x+1', 'twice x']) for _k in range(r.randint(2, 5))]
        pre = ['VAR x %d' % x0, 'FUNC bump', '    VAR x x+1', 'FUNC show v', '    $STRING "v="+v', 'FUNC twice w', '    VAR x w*2', '    $STRING "t="+w']
        exp, x = [], x0
        for c in calls:
            if c == 'bump': x += 1
            elif c == 'show x': exp.append(f'STRING v={x}')
            elif c == 'show x+1': exp.append(f'STRING v={x + 1}')
            else: exp.append(f'STRING t={x}'); x *= 2
        forms = ['RUN\n' + '\n'.join('    ' + c for c in calls), f'RUN {calls[0]}\n' + '\n'.join('    ' + c for c in calls[1:]), '\n'.join('RUN ' + c for c in calls)]
        for f in forms:
            cases.append(dict(op='compile', src=dict(text='\n'.join(pre) + '\n' + f + '\n$STRING "end="+x'),
                              meta=dict(family='grouped-run', exp=['ok', exp + [f'STRING end={x}'], [], None])))
    # arguments of any magnitude are bound as they are (an integer of thousands of digits that the body never prints)
    for big in ('7*10^5000', '10^4400', '2^20000', '0-10^5000'):
        for body, out in (('    STRING ok', ['STRING ok']), ('    IF a > 0\n        STRING pos\n    ELSE\n        STRING neg', ['STRING neg' if big.startswith('0-') else 'STRING pos']),
                          ('    $STRING b', ['STRING 1']), ('    VAR c a\n    STRING kept', ['STRING kept'])):
            t = f'FUNC f a,b\n{body}\nRUN f {big},1\nSTRING end'
            cases.append(dict(op='compile', src=dict(text=t), meta=dict(family='huge-arg', exp=['ok', out + ['STRING end'], [], None])))
    # a file imported inside a block: the functions it defines are visible in the block and gone after it, like any other
    # definition made there — whatever was defined before the block
    for kw in ('START', 'STARTENV'):
        for blk in ('IF TRUE', 'REPEAT 1', 'WHILE w7,w7<1', 'FUNC wrap'):
            for pre in ('', 'FUNC early\n    STRING early\n', 'FUNC f\n    STRING outer-f\n'):
                call = '\nRUN wrap' if blk.startswith('FUNC') else ''
                lib = 'FUNC f\n    STRING lib-f\nFUNC g\n    STRING lib-g'
                main = f'{pre}{blk}\n    {kw} lib\n    RUN f\n    RUN g{call}\nRUN f\nSTRING end'
                if 'outer-f' in pre: exp = ['ok', ['STRING lib-f', 'STRING lib-g', 'STRING outer-f', 'STRING end'], [], None]
                else: exp = ['err', 'undefined']
                cases.append(dict(op='compile_file', file='proj/main.txt', files={'proj/main.txt': main, 'proj/lib.txt': lib}, meta=dict(family='import-in-block', exp=exp)))
                main2 = f'{pre}{blk}\n    {kw} lib{call}\nRUN g\nSTRING end'
                cases.append(dict(op='compile_file', file='proj/main.txt', files={'proj/main.txt': main2, 'proj/lib.txt': lib}, meta=dict(family='import-in-block', exp=['err', 'undefined'])))
    # a parameter is bound to the ARGUMENT even when the calling scope has a variable of the same name with another value: a global, a
    # loop counter, the caller's own parameters handed on in another order
    for _ in range(count(tier, 40, 300)):
        a, b = r.sample(range(1, 50), 2)
        shape = r.choice(['global', 'counter', 'swap', 'nested-branch'])
        if shape == 'global':
            t, out = f'VAR x {a}\nFUNC show x\n    $STRING "x="+x\nRUN show {b}\nRUN show x+1', [f'STRING x={b}', f'STRING x={b + 1}']
        elif shape == 'counter':
            t, out = 'FUNC show i\n    $STRING "i="+i\nREPEAT i,3\n    RUN show (i+1)*10', ['STRING i=10', 'STRING i=20', 'STRING i=30']
        elif shape == 'swap':
            t, out = f'FUNC inner p,q\n    $STRING p+","+q\nFUNC outer p,q\n    RUN inner q,p\nRUN outer {a},{b}', [f'STRING {b},{a}']
        else:
            t, out = f'VAR v {a}\nFUNC f v\n    IF v == {b}\n        $STRING "arg "+v\n    ELSE\n        $STRING "stale "+v\nIF TRUE\n    REPEAT 1\n        RUN f {b}', [f'STRING arg {b}']
        cases.append(dict(op='compile', src=dict(text=t), meta=dict(family='param-name-clash', exp=['ok', out, [], None])))
    # the LATEST visible definition: a file brought in with START / STARTENV redefines a function the importer already has (no new
    # function name, another body, another parameter list) — calls after the import run the new one; STARTCODE keeps the old one;
    # a second library overrides a helper of the first
    for _ in range(count(tier, 30, 200)):
        kw = r.choice(['START', 'STARTENV', 'STARTCODE'])
        shape = r.choice(['importer-has', 'two-libs', 'same-arity'])
        if shape == 'importer-has':
            main = f'FUNC f a\n    $STRING "old "+a\nRUN f 1\n{kw} lib\n' + ('RUN f 1,2' if kw != 'STARTCODE' else 'RUN f 3')
            lib = 'FUNC f a,b\n    $STRING "new "+a+b'
            out = ['STRING old 1'] + (['STRING new 12'] if kw != 'STARTCODE' else ['STRING old 3'])
        elif shape == 'two-libs':
            main = f'START lib\nRUN helper\n{kw} lib2\nRUN helper'
            lib = 'FUNC helper\n    STRING from-lib1'
            out = ['STRING from-lib1'] + (['STRING from-lib2'] if kw != 'STARTCODE' else ['STRING from-lib1'])
        else:
            main = f'FUNC f a\n    $STRING "old "+a\n{kw} lib\nREPEAT 2\n    RUN f 7'
            lib = 'FUNC f a\n    $STRING "new "+a'
            out = (['STRING new 7'] if kw != 'STARTCODE' else ['STRING old 7']) * 2
        files = {'proj/main.txt': main, 'proj/lib.txt': lib, 'proj/lib2.txt': 'FUNC helper\n    STRING from-lib2'}
        cases.append(dict(op='compile_file', file='proj/main.txt', files=files, meta=dict(family='import-redefines', exp=['ok', out, [], None])))
    return cases


def oracle(cases, results):
    return ast_oracle(cases, results, ('out', 'vars'), 'calls')
