"""C08 — blocks see and update outer variables; what they create dies with them."""
from .common import *
from refinterp import *
FIELDS = ('out', 'vars', 'cls')
RULE = 'structured programs rich in reads, assignments, first definitions and EXIST/NOTEXIST probes at every block level, early exits after assigning; distinct texts with an assignment inside a block'
W = dict(emit=4, assign=7, ifchain=3, repeat=2.5, whil=1.5, brk=1.5, func=2.5, call=3.5, ret=0.6, prnt=0.1, exist=3, dead_call_p=0.3)
VALS = [Lit(0), Lit(1), Lit(True), Lit(False), Lit(''), Lit('s'), Lit(2), Lit('1'), Lit(10)]


def generate(g, tier):
    r = g.r
    cases = ast_cases(g, count(tier, 700, 7000), W, (8, 24), 5, 'scopes')
    # typed reassignment through levels (1 <-> TRUE, 0 <-> FALSE, "" ...), on every exit path
    for _ in range(count(tier, 300, 3000)):
        v0, v1 = r.choice(VALS), r.choice(VALS)
        exit_ = r.choice([None, Break(), Continue(), Return()])
        inner = [Assign('x', v1), Assign('fresh', Lit(5)), Emit('in', Var('x'))] + ([exit_] if exit_ is not None else []) + [Emit('tail')]
        levels = r.randint(1, 4)
        blk = inner
        for _ in range(levels - 1):
            blk = [r.choice([IfChain([(Lit(True), blk)], None, [[]]), Repeat(Lit(1), None, blk), IfChain([(Lit(False), [Pass()])], blk, [[]])])]
        if isinstance(exit_, (Break, Continue)):
            outer = Repeat(Lit(2), 'k', blk + [Emit('k-tail', Var('k'))])
            prog = [Assign('x', v0), outer]
        elif isinstance(exit_, Return):
            prog = [Assign('x', v0), FuncDef('f', [], blk + [Emit('f-tail')]), Call('f', [])]
        else:
            prog = [Assign('x', v0), IfChain([(Lit(True), blk)], None, [[]])]
        prog += [Emit('x', Var('x')), Exist('x'), Exist('fresh', neg=True)]
        text, rd = render_ast(prog, g.units())
        exp = expect_of(prog, rd)
        cases.append(dict(op='compile', src=dict(text=text), meta=dict(family='typed-exit', exp=list(exp[:4]))))
    # fresh iteration does not see what the previous one created; functions created in a block die with it
    for _ in range(count(tier, 50, 400)):
        prog = [Repeat(Lit(3), 'i', [Exist('made', neg=True), Assign('made', Var('i')), Emit('m', Var('made'))]),
                IfChain([(Lit(True), [FuncDef('inner', [], [Emit('inner')]), Call('inner', [])])], None, [[]]),
                Call('inner', [])]
        text, rd = render_ast(prog, g.units())
        exp = expect_of(prog, rd)
        cases.append(dict(op='compile', src=dict(text=text), meta=dict(family='dies', exp=list(exp[:4]))))
    # what one block created is not there for the NEXT block of the same parent either: a later sibling IF, the next loop
    # iteration, a second call of the enclosing function (variables and functions alike)
    def blockof(kind, inner):
        if kind == 'if': return [IfChain([(Lit(True), inner)], None, [[]])]
        if kind == 'else': return [IfChain([(Lit(False), [Pass()])], inner, [[]])]
        if kind == 'repeat': return [Repeat(Lit(1), None, inner)]
        return [While('sw%d' % r.randint(0, 99), Lit(True), inner + [Break()])]
    for k1 in ('if', 'else', 'repeat', 'while'):
        for k2 in ('if', 'else', 'repeat', 'while'):
            for what in ('func', 'var'):
                mk = [FuncDef('g', [], [Emit('from-g')]), Call('g', [])] if what == 'func' else [Assign('made', Lit(7)), Emit('m', Var('made'))]
                use = [Call('g', [])] if what == 'func' else [Exist('made', neg=True), Emit('second')]
                for wrap in (None, 'func', 'loop'):
                    core = blockof(k1, mk) + [Emit('mid')] + blockof(k2, use) + [Emit('end')]
                    if wrap == 'func': prog = [FuncDef('outerf', [], core), Call('outerf', [])]
                    elif wrap == 'loop': prog = [Repeat(Lit(1), None, core)]
                    else: prog = core
                    text, rd = render_ast(prog, g.units(), '', g.r if g.chance(0.5) else None)
                    cases.append(dict(op='compile', src=dict(text=text), meta=dict(family='sibling', exp=list(expect_of(prog, rd)[:4]))))
    for what in ('func', 'var'):
        mk = [FuncDef('g', [], [Emit('from-g')])] if what == 'func' else [Assign('made', Lit(7))]
        use = [Call('g', [])] if what == 'func' else [Exist('made', neg=True), Emit('fresh')]
        # next iteration / second call: the use comes first, so only a leak from the previous round could satisfy it
        for prog in ([Repeat(Lit(2), 'i', [IfChain([(Bin('==', Var('i'), Lit(1)), use)], None, [[]])] + mk)],
                     [Repeat(Lit(3), 'i', [IfChain([(Bin('>', Var('i'), Lit(0)), use)], None, [[]]), Emit('round', Var('i'))] + mk, 'FOR')],
                     [While('w', Bin('<', Var('w'), Lit(2)), [IfChain([(Bin('==', Var('w'), Lit(1)), use)], None, [[]])] + mk)],
                     [While(None, Bin('<', Var('cnt'), Lit(2)), [Assign('cnt', Bin('+', Var('cnt'), Lit(1))), IfChain([(Bin('==', Var('cnt'), Lit(2)), use)], None, [[]])] + mk)],
                     [Repeat(Lit(2), 'i', [IfChain([(Bin('==', Var('i'), Lit(1)), use)], None, [[]]), IfChain([(Lit(True), mk)], None, [[]])])],
                     [FuncDef('twice', [], [IfChain([(Lit(True), use)], None, [[]])] if what == 'var' else [IfChain([(Lit(False), use)], None, [[]]), IfChain([(Lit(True), mk)], None, [[]])]), Call('twice', []), Call('twice', [])],
                     [While('w', Bin('<', Var('w'), Lit(2)), [IfChain([(Bin('==', Var('w'), Lit(1)), use)], None, [[]]), IfChain([(Lit(True), mk)], None, [[]])])]):
            if any(isinstance(x, While) and x.var is None for x in prog): prog = [Assign('cnt', Lit(0))] + prog
            text, rd = render_ast(prog, g.units())
            exp = list(expect_of(prog, rd)[:4])
            for alias in ('FUNC ', 'FUNCTION ', 'function ', 'Func '):      # every spelling of the defining command
                cases.append(dict(op='compile', src=dict(text=text.replace('FUNC ', alias)), meta=dict(family='next-round', exp=exp)))
                if what == 'var': break
    # the same discipline inside a file pulled in with START / STARTENV (blocks of an imported file)
    from astgen import AstGen
    for _ in range(count(tier, 150, 1500)):
        ag = AstGen(g.r, W, 4)
        body, sc = ag.program(g.r.randint(6, 16))
        unit = g.units()
        text, rd = render_ast(body, unit)
        exp = expect_of(body, rd)
        if exp[0] != 'ok': continue
        dead = sorted(sc.all_names - set(exp[3]) - set(sc.funcs))[:4]
        main = 'START lib\n' + ''.join(f'NOTEXIST {d}\n' for d in dead) + 'STRING end'
        cases.append(dict(op='compile_file', file='proj/main.txt', files={'proj/main.txt': main, 'proj/lib.txt': text},
                          meta=dict(family='started', exp=['ok', exp[1] + ['STRING end'], [], exp[3]])))
    # an imported file that assigns an outer variable from inside a block that does nothing else: the assignment reaches the
    # enclosing code through every level (START / STARTENV / STARTCODE; IF, loop, function, two levels)
    for kw in ('START', 'STARTENV', 'STARTCODE'):
        for blk in ('if', 'repeat', 'while', 'func', 'if-if', 'repeat-if', 'func-if'):
            for extra in (False, True):
                inner = [f'{kw} lib'] + (['STRING also'] if extra else [])
                def wrap(k, lines):
                    head = {'if': 'IF TRUE', 'repeat': 'REPEAT 1', 'while': 'WHILE w9,w9<1'}.get(k)
                    if head: return [head] + ['    ' + l for l in lines]
                    return ['FUNC ld'] + ['    ' + l for l in lines] + ['RUN ld']
                lines = inner
                for k in reversed(blk.split('-')): lines = wrap(k, lines)
                main = ['VAR x 1', 'VAR y 5'] + lines + ['$STRING "out="+x+","+y', 'NOTEXIST fresh']
                lib = 'VAR x 42\nVAR y y+1\nVAR fresh 9\n$STRING "in="+x'
                out = ([] if kw == 'STARTENV' else ['STRING in=42']) + (['STRING also'] if extra else []) + ['STRING out=42,6']
                cases.append(dict(op='compile_file', file='proj/main.txt', files={'proj/main.txt': '\n'.join(main), 'proj/lib.txt': lib},
                                  meta=dict(family='import-assigns', exp=['ok', out, [], {'x': 42, 'y': 6}])))
    # what an imported file creates inside a block dies with the block too — variables AND functions — whatever the enclosing
    # code or the block itself defined before the import, for every block kind and import command; the next iteration / the
    # next call does not see it either (a file is only a way of writing the block's statements somewhere else)
    def wrapk(k, lines, n=1):
        head = {'if': 'IF TRUE', 'else': 'IF FALSE\n    PASS\nELSE', 'repeat': f'REPEAT {n}', 'while': f'WHILE w8,w8<{n}'}.get(k)
        if head: return head.split('\n') + ['    ' + l for l in lines]
        return ['FUNC ld'] + ['    ' + l for l in lines] + ['RUN ld'] * n
    lib = 'VAR born 9\nFUNC helper\n    STRING helper-ran\nFUNC greet2 who\n    $STRING "lib-greets "+who\nSTRING lib-ran'
    for kw in ('START', 'STARTENV', 'STARTCODE'):
        for blk in ('if', 'else', 'repeat', 'while', 'func', 'if-if', 'func-if', 'repeat-func'):
            for prior in ('none', 'func', 'var', 'both', 'same'):
                for own_first in (False, True):
                    for probe in ('func', 'var', 'round2'):
                        pre = []
                        if prior in ('func', 'both'): pre += ['FUNC greet', '    STRING hi']
                        if prior in ('var', 'both'): pre += ['VAR seen 1']
                        if prior == 'same': pre += ['FUNC greet2 who', '    $STRING "main-greets "+who']
                        inner = (['FUNC own', '    STRING own-ran', 'RUN own'] if own_first else [])
                        usable = kw != 'STARTCODE'
                        if probe == 'round2':
                            # two rounds of the innermost block: the second must not see what the first imported
                            inner = ['NOTEXIST born'] + inner + [f'{kw} lib'] + (['RUN helper'] if usable else [])
                            lines = inner; ks = blk.split('-')
                            for j, k in enumerate(reversed(ks)): lines = wrapk(k, lines, 2 if j == len(ks) - 1 and k in ('repeat', 'while', 'func') else 1)
                            rounds = 2 if ks[0] in ('repeat', 'while', 'func') else 1
                            one = (['STRING own-ran'] if own_first else []) + ([] if kw == 'STARTENV' else ['STRING lib-ran']) + (['STRING helper-ran'] if usable else [])
                            main = pre + lines + ['NOTEXIST born', 'STRING end']
                            exp = ['ok', one * rounds + ['STRING end'], [], None]
                        else:
                            inner = inner + [f'{kw} lib'] + (['RUN helper', 'RUN greet2 "x"'] if usable else [])
                            lines = inner
                            for k in reversed(blk.split('-')): lines = wrapk(k, lines)
                            out = (['STRING own-ran'] if own_first else []) + ([] if kw == 'STARTENV' else ['STRING lib-ran']) + (['STRING helper-ran', 'STRING lib-greets x'] if usable else [])
                            main = pre + lines
                            if probe == 'var':
                                main += ['NOTEXIST born', 'STRING end'] + (['RUN greet2 "y"'] if prior == 'same' else [])
                                exp = ['ok', out + ['STRING end'] + (['STRING main-greets y'] if prior == 'same' else []), [], None]
                            else:
                                main += ['RUN helper']
                                exp = ['err', 'VarIsNonExistentError']
                        cases.append(dict(op='compile_file', file='proj/main.txt', files={'proj/main.txt': '\n'.join(main), 'proj/lib.txt': lib},
                                          meta=dict(family='import-in-block-dies', exp=exp)))
    return cases


def oracle(cases, results):
    return ast_oracle(cases, results, ('out', 'vars'), 'scopes')
