"""C08 — blocks see and update outer variables; what they create dies with them."""
from .common import *
from refinterp import *
FIELDS = ('out', 'vars', 'cls')
RULE = 'structured programs rich in reads, assignments, first definitions and EXIST/NOTEXIST probes at every block level, early exits after assigning; distinct texts with an assignment inside a block'
W = dict(emit=4, assign=7, ifchain=3, repeat=2.5, whil=1.5, brk=1.5, func=1.5, call=2.5, ret=0.6, prnt=0.1, exist=3)
VALS = [Lit(0), Lit(1), Lit(True), Lit(False), Lit(''), Lit('s'), Lit(2), Lit('1'), Lit(10)]


def generate(g, tier):
    r = g.r
    cases = ast_cases(g, count(tier, 700, 7000), W, (8, 24), 5, 'scopes')
    # typed reassignment through levels (1 <-> TRUE, 0 <-> FALSE, "" ...), on every exit path
    for _ in range(count(tier, 300, 3000)):
        v0, v1 = r.choice(VALS), r.choice(VALS)
        exit_ = r.choice([None, Break(), Continue(), Return()])
        inner = [Assign('x', v1), Assign('fresh', Lit(5)), Emit('in', Var('x'))] + ([exit_] if exit_ is not None else []) + [Emit('tail')]
        levels = r.randint(1, 4)
        blk = inner
        for _ in range(levels - 1):
            blk = [r.choice([IfChain([(Lit(True), blk)], None, [[]]), Repeat(Lit(1), None, blk), IfChain([(Lit(False), [Pass()])], blk, [[]])])]
        if isinstance(exit_, (Break, Continue)):
            outer = Repeat(Lit(2), 'k', blk + [Emit('k-tail', Var('k'))])
            prog = [Assign('x', v0), outer]
        elif isinstance(exit_, Return):
            prog = [Assign('x', v0), FuncDef('f', [], blk + [Emit('f-tail')]), Call('f', [])]
        else:
            prog = [Assign('x', v0), IfChain([(Lit(True), blk)], None, [[]])]
        prog += [Emit('x', Var('x')), Exist('x'), Exist('fresh', neg=True)]
        text, rd = render_ast(prog, g.units())
        exp = expect_of(prog, rd)
        cases.append(dict(op='compile', src=dict(text=text), meta=dict(family='typed-exit', exp=list(exp[:4]))))
    # fresh iteration does not see what the previous one created; functions created in a block die with it
    for _ in range(count(tier, 50, 400)):
        prog = [Repeat(Lit(3), 'i', [Exist('made', neg=True), Assign('made', Var('i')), Emit('m', Var('made'))]),
                IfChain([(Lit(True), [FuncDef('inner', [], [Emit('inner')]), Call('inner', [])])], None, [[]]),
                Call('inner', [])]
        text, rd = render_ast(prog, g.units())
        exp = expect_of(prog, rd)
        cases.append(dict(op='compile', src=dict(text=text), meta=dict(family='dies', exp=list(exp[:4]))))
    # the same discipline inside a file pulled in with START / STARTENV (blocks of an imported file)
    from astgen import AstGen
    for _ in range(count(tier, 150, 1500)):
        ag = AstGen(g.r, W, 4)
        body, sc = ag.program(g.r.randint(6, 16))
        unit = g.units()
        text, rd = render_ast(body, unit)
        exp = expect_of(body, rd)
        if exp[0] != 'ok': continue
        dead = sorted(sc.all_names - set(exp[3]) - set(sc.funcs))[:4]
        main = 'START lib\n' + ''.join(f'NOTEXIST {d}\n' for d in dead) + 'STRING end'
        cases.append(dict(op='compile_file', file='proj/main.txt', files={'proj/main.txt': main, 'proj/lib.txt': text},
                          meta=dict(family='started', exp=['ok', exp[1] + ['STRING end'], [], exp[3]])))
    return cases


def oracle(cases, results):
    return ast_oracle(cases, results, ('out', 'vars'), 'scopes')
