"""C09 — every failure is a compile error, never a crash."""
import json
from pathlib import Path
from .common import *
FIELDS = ('cls',)      # outcome kind (ok / compile error / crash) and error class
LEVEL = 'proof'
RULE = 'grammar-aware fuzzing: random programs with planted faults, token soup expressions, every palette command x argument kind x block shape, truncations and mis-indentations, option settings, Unicode edge characters; distinct texts'
TABLES = Path(__file__).resolve().parents[1] / 'tables.current.json'
SOUP_ATOMS = ['1', '2', '10', '0', '007', '5.', '.5', '-3', '-', '.', '-.', '"a"', '"b c"', '""', '"', 'TRUE', 'FALSE', 'TRU', 'FALS', 'ab', 'abc', 'a', 'n', 'x', '(', ')', '!', '$', '!(1)',
              '!(FALSE)', '( 2 )', '((3))', '(1,2)', '()', '( )', '$DEFAULT_DELAY', '$IF_SUCCESS', '$', '1e5', '0x1', '²', '½', '٣', 'é', '1_0', '+5', '1.2.3', '10^400', '2^0.5', '(0-8)^0.5']
SOUP_OPS = ['+', '-', '*', '/', '//', '%', '^', '==', '!=', '<', '>', '<=', '>=', ',', '=', '!', '<>', ' ', '  ', '&&', '**']
ARGS = ['', 'x', 'xx', '5', '0-1', '1.5', 'TRUE', '"s"', '1,2', 'a b', 'ESC', '.', '..', 'a..b', '.a', 'a.', 'f 1,2', 'f', 'i,3', 'i,', ',3', 'c,c<2', '1x,2', '$x 1', 'x 1', '(', '"', '日', '1/0', '10^10', '9999', '12345', '""']


def palette_names():
    try:
        t = json.loads(TABLES.read_text())['tables']
        return [n for c in t['palette'] for n in c['names']]
    except Exception:
        return ['STRING', 'DELAY', 'IF', 'REPEAT', 'WHILE', 'FUNC', 'RUN', 'VAR', 'START']


def soup(g):
    r = g.r
    out = []
    for _ in range(r.randint(1, 7)):
        out.append(r.choice(SOUP_ATOMS) if g.chance(0.55) else r.choice(SOUP_OPS))
        if g.chance(0.3): out.append(' ')
    return ''.join(out)


def generate(g, tier):
    r = g.r
    names = palette_names()
    cases = []
    n = count(tier, 1500, 20000)
    for i in range(n):
        c = r.random()
        if c < 0.35:
            case = g.case_general(i); case['meta'] = dict(family='general')
        elif c < 0.55:
            pre = 'VAR ab 2\nVAR abc 3\nVAR n 0-7\nVAR s "t"\n' if g.chance(0.6) else ''
            cmd = r.choice(['$STRING', 'VAR v', 'IF', 'WHILE', 'REPEAT', 'DELAY', '$ENTER', 'RUN f', '$PRINT', 'WHITESPACE', 'REPEAT i,', 'WHILE c,', '$FOO', 'RETURN'])
            body = ('\n    STRING a\n    BREAKLOOP' if cmd.split()[0] == 'WHILE' else '\n    STRING a') if cmd.split()[0] in ('IF', 'WHILE', 'REPEAT') else ''
            case = dict(op='compile', src=dict(text=pre + f'{cmd} {soup(g)}{body}'), meta=dict(family='soup'))
        elif c < 0.8:
            # every command x argument kind x block shape
            nm = r.choice(names)
            if g.chance(0.2): nm = '$' + nm
            if g.chance(0.2): nm = nm.lower()
            arg = r.choice(ARGS)
            shape = r.choice(['none', 'none', 'block', 'nested', 'quoted', 'blank-block', 'deep'])
            t = f'{nm} {arg}'.rstrip() if arg else nm
            if shape == 'block': t += f'\n    {r.choice(ARGS) or "x"}\n    {r.choice(ARGS) or "y"}'
            elif shape == 'nested': t += '\n    a\n        b\n    c'
            elif shape == 'quoted': t += '\n    """\n    q\n      r\n    """'
            elif shape == 'blank-block': t += '\n\n    x\n\n'
            elif shape == 'deep': t += '\n    IF TRUE\n        STRING d'
            pre = r.choice(['', '', 'FUNC f a,b\n    STRING in\n', 'VAR x 1\n', 'IF FALSE\n    PASS\n'])
            case = dict(op='compile', opts=g.options(), src=dict(text=pre + t), meta=dict(family='matrix'))
        else:
            # truncations / mis-indentations / character edits of a valid program
            prog, sc = g.program(r.randint(3, 10))
            text = render_lines(prog, g.units())
            k = r.random()
            if k < 0.3 and len(text) > 2: text = text[:r.randint(1, len(text) - 1)]
            elif k < 0.6:
                ls = text.split('\n'); j = r.randrange(len(ls)); ls[j] = r.choice([' ', '\t', '  ', '     ']) + ls[j]; text = '\n'.join(ls)
            else:
                j = r.randrange(len(text)); text = text[:j] + r.choice(['"', '(', ')', '$', ',', '\t', '"""', '\n', ' ', '²', ' ', '\r', '\x0c']) + text[j:]
            case = dict(op='compile', opts=g.options(), src=dict(text=text), meta=dict(family='edited'))
        cases.append(case)
    # document shapes: verbatim regions (`"""`) opened on the first line of the file or of a group, closed or not, with blank and
    # whitespace-only lines before, inside and after them; blank lines at every position of a block
    BL = ['', ' ', '\t', '    ', '        ']
    for _ in range(count(tier, 150, 1500)):
        inner = []
        for _k in range(r.randint(0, 5)):
            inner.append(r.choice(BL) if g.chance(0.4) else r.choice(['STRING a', '  STRING b', 'x', 'IF TRUE', '    deeper', '$STRING 1+', 'DELAY 5', 'REM c']))
        close = ['"""'] if g.chance(0.8) else []
        tail = [r.choice(BL + ['STRING after', 'ENTER', '"""', '    STRING indented'])] if g.chance(0.6) else []
        where = r.choice(['file', 'file-after-blank', 'group', 'group', 'nested-group'])
        if where == 'file': ls = ['"""'] + inner + close + tail
        elif where == 'file-after-blank': ls = [r.choice(BL)] + ['"""'] + inner + close + tail
        elif where == 'group':
            cmd = r.choice(['STRING', 'STRINGLN', '$STRING', 'REM', 'DELAY', 'CTRL', 'IGNORE', 'FOO', 'PRINT', 'IF TRUE', 'REPEAT 2', 'FUNC f'])
            ls = [cmd] + ['    ' + x for x in ['"""'] + inner + close] + tail
        else:
            ls = ['IF TRUE', '    STRING'] + ['        ' + x for x in ['"""'] + inner + close] + tail
        cases.append(dict(op='compile', opts=g.options(), src=dict(text='\n'.join(ls)), meta=dict(family='shape')))
    # a fixed set of edge expressions in every evaluating context (always run)
    EDGE = ['()', '( )', '(())', '((', '))', '(', ')', '', ' ', '!', '!()', '!( )', '""', '"', '"' * 3, '-', '.', '-.', '1 +', '+ 1', '1 + + 2', ',', '1,', ',1', '1,,2',
            '(1,2),', 'TRUE FALSE', '1 2', 'a b', '$', '$$', '1 ==', '== 1', '<', '<=', '//', '^', '1 ^ ^ 2', '(1)(2)', '()()', '1()', '"a""b"', '"a" "b"', '5.5.5', '..', '1..2',
            '0-', '-(1)', '!1', '!"a"', 'TRUE(1)', '((((((((((1))))))))))', '( 1 , 2 ) + 1', '(1,2)*2', '2*(1,2)', '(1,2)==(1,2)', '(1,2)<(1,3)', '"a"*3', '3*"a"', '"a"*"b"', 'TRUE+TRUE',
            'TRUE*2', '2*TRUE', '1/TRUE', '1/FALSE', '1%FALSE', '1//FALSE', '2^"a"', '"a"^2', '2^(1,2)', '0^0', '0^(0-1)', '(0-8)^0.5', '10^400', '10.0^400', '2^0.5',
            '1.5*10^308*1.5', '1.5*10^308*1.5 // 1', '1.5*10^308*1.5 % 2', '(1.5*10^308*1.5) - (1.5*10^308*1.5)', '0 * (1.5*10^308*1.5)', '1 / (1.5*10^308*1.5)', '(1.5*10^308*1.5) ^ 0', '(1.5*10^308*1.5) > 1',
            '"x" + 1.5*10^308*1.5', '1.5*10^308*1.5 == 1.5*10^308*1.5', '(0 - 1.5*10^308*1.5) // 3', '2.5 // (1.5*10^308*1.5)', '7*10^5000', '(7*10^5000) > 1', '(7*10^5000) // 10^4990', '0.1 ^ 400', '5 % 0.1 ^ 400',
            # values that cannot be written out, INSIDE other values (a rejected argument is usually quoted in the message)
            '10^5000,1', '1,7*10^5000', '(10^5000,1),2', '"a",10^5000', '10^5000,10^5000', '1.5*10^308*1.5,1', '(1,2),(3,10^5000)']
    CTX = ['$STRING {}', 'VAR v {}', 'IF {}\n    STRING a', 'ELIF {}\n    STRING a', 'WHILE {}\n    BREAKLOOP', 'WHILE i,{}\n    BREAKLOOP', 'REPEAT {}\n    STRING a',
           'REPEAT i,{}\n    STRING a', 'DELAY {}', '$ENTER {}', 'FUNC f a\n    STRING x\nRUN f {}', 'RETURN {}', '$PRINT {}', '$HOLD {}', 'WHITESPACE {}', '$GUI {}',
           'DEFAULT_DELAY {}', '$ALTCHAR {}']
    for e in EDGE:
        for cx in CTX:
            if cx.startswith('$ENTER') and any(k in e for k in ('10^400', '10.0^400', '10^5000', '10^308', '10^4990')): continue      # the D19 probe below covers huge counts
            cases.append(dict(op='compile', src=dict(text=cx.format(e)), meta=dict(family='edge')))
    # the START family with every kind of argument, inside a real file (so that the path is resolved), and comma lists that
    # are stored, extended, nested and compared
    for kw in ('START', 'STARTENV', 'STARTCODE', '$START'):
        for a in ['/', './', '//', '.', '..', '...', 'a/', '""', '" "', 'a.', '.a', 'a..b', 'x' * 300, 'a/b', '~', 'a b', '-', 'lib', 'lib.', '.lib', 'LIB', 'lib.txt', '"lib"', '"l"+"ib"',
                  'p.lib', '..p.lib', 'main', '\u65e5', '1', '0-1', 'TRUE', '(', ',', '1,2', 'lib lib', '\t', '\\', 'con', 'a' * 60 + '.' + 'b' * 60]:
            files = {'p/main.txt': f'{kw} {a}\nSTRING after', 'p/lib.txt': 'STRING lib'}
            cases.append(dict(op='compile_file', file='p/main.txt', files=files, meta=dict(family='start-args', nocorr=True)))
    for t in ['VAR big 10^5000\nDELAY big,1', 'VAR big 10^5000\n$ENTER big,big', 'VAR big 10^5000\nWHITESPACE 1,big', 'VAR big 7*10^5000\nFUNC f a\n    DELAY a\nRUN f (big,1)',
              'VAR big 10^5000\nVAR l big,1\nDEFAULT_DELAY l', 'VAR big 10^5000\nVAR l 1,big\n$GUI l', 'VAR big 10^5000\nREPEAT big,1\n    STRING a', 'VAR big 10^5000\nRETURN big,1',
              'VAR a 1,2\nVAR a a,a\n$STRING a', 'VAR a 1,2\nVAR a a,a\n$STRING a==a', 'VAR a 1,2\nVAR b a,3\n$STRING a==b', 'VAR a 1,2\nVAR a a,a\nIF a\n    STRING x',
              'VAR a 1,2\nREPEAT 5\n    VAR a a,a\n$STRING a', 'VAR a 1,2\nFUNC f p,q\n    $STRING p\nRUN f a,a', '$STRING (1,2),(1,2)', 'VAR a (1,2)\nVAR a a,a,a\n$PRINT a']:
        cases.append(dict(op='compile', src=dict(text=t), meta=dict(family='lists', nocorr=True)))
    # several stacks of one compilation that end through a top-level BREAKLOOP / CONTINUE / RETURN (the importer and imported
    # files, the same file twice, a file started in a loop)
    for sig in ('BREAKLOOP', 'BREAK_LOOP', 'CONTINUE', 'CONTINUELOOP', 'RETURN'):
        for sig2 in ('BREAKLOOP', 'CONTINUE', 'RETURN'):
            for shape in range(4):
                lib = f'STRING lib\n{sig}'
                main = [f'START lib\n{sig2}', f'START lib\nSTARTENV lib\nSTARTCODE lib\n{sig2}', f'REPEAT 2\n    START lib\n{sig2}', f'FUNC f\n    START lib\nRUN f\nRUN f\n{sig2}'][shape]
                cases.append(dict(op='compile_file', file='p/main.txt', files={'p/main.txt': main, 'p/lib.txt': lib}, meta=dict(family='exit-signals')))
    # runaway recursion and the deepest legal chains at the largest stack limits the CLI accepts: the stack limit must answer
    # before the host stack does (StackOverflowError, never RecursionError)
    for L in (150, 180, 200):
        for t in ('FUNC f\n    RUN f\nRUN f', 'FUNC a\n    RUN b\nFUNC b\n    RUN a\nRUN a', 'FUNC f n\n    IF n>=0\n        RUN f n+1\nRUN f 0',
                  'FUNC f n\n    REPEAT 1\n        WHILE w,w<1\n            RUN f n+1\nRUN f 0'):
            cases.append(dict(op='compile', opts=dict(stack_limit=L), src=dict(text=t), meta=dict(family='host-stack', expect_cls='StackOverflowError')))
        chain = '\n'.join([f'FUNC g{k}\n    RUN g{k + 1}' for k in range(L - 2)] + [f'FUNC g{L - 2}\n    STRING bottom', 'RUN g0'])
        cases.append(dict(op='compile', opts=dict(stack_limit=L), src=dict(text=chain), meta=dict(family='host-stack', expect_ok=True)))
    # long FLAT expressions (hundreds to thousands of operands, no parentheses) in every evaluating context: the parse tree of a chain of
    # equal-rank operators is as deep as the chain is long — a result or a compile error, never the host's RecursionError
    for n in ((300, 990, 1200, 5000) if tier == 'quick' else (300, 600, 900, 990, 1000, 1010, 1200, 2500, 5000, 20000)):
        for op in r.sample(['+', '*', '-', ',', '==', '+"a"+'], 3):
            chain = op.join(['1'] * n)
            for cx in r.sample(['$STRING {}', 'VAR x {}', 'IF {}\n    STRING y', 'REPEAT {}\n    STRING y', 'WHILE {}\n    BREAKLOOP', 'FUNC f a\n    STRING x\nRUN f {}', 'DELAY {}',
                                '$STRING ({})', 'VAR v 1\n$STRING v+{}', 'RETURN {}', 'FUNC g\n    $STRING {}\nRUN g'], 3):
                cases.append(dict(op='compile', timeout=60, src=dict(text=cx.format(chain)), meta=dict(family='long-flat', nocorr=True)))
    # `$` forms whose expression evaluates to an empty, blank or otherwise odd STRING, for every command of the palette (and through a
    # variable): what a command does with an argument is checked on the evaluated text, not only on the written one
    ODD = ['""', '" "', '"  "', '"\t"', '" x"', '"x "', '"a b"', '"a,b"', '","', '"$"', '"$x"', '"."', '".."', '"\""'.replace('\\"', "'"), '"1x"', '"-"', '"TRUE"']
    for nm in sorted(set(palette_names())):
        for o in r.sample(ODD, 4 if tier == 'quick' else len(ODD)):
            body = '\n    STRING b' if nm in ('IF', 'ELIF', 'ELSE', 'WHILE', 'REPEAT', 'FOR', 'FUNC', 'FUNCTION', 'IGNORE') and g.chance(0.5) else ''
            cases.append(dict(op='compile', src=dict(text=f'${nm} {o}{body}'), meta=dict(family='dollar-odd-string')))
            cases.append(dict(op='compile', src=dict(text=f'VAR s {o}\n${nm} s{body}'), meta=dict(family='dollar-odd-string')))
    # the nested-list input form with EMPTY nested blocks at any depth, and blocks that follow one another
    for tree in ([['STRING a', [], 'STRING b']], [[[], 'STRING a']], [['IF TRUE', ['STRING x', []], 'STRING b']], [['REPEAT 2', [[], 'STRING y', []]]],
                 [['STRING a', [[]], 'STRING b']], [[]], [['FUNC f', [], 'RUN f']], [['STRING a', [], [], 'STRING b']], [['IF TRUE', [[], []], 'ELSE', []]]):
        cases.append(dict(op='compile', src=dict(tree=tree[0]), meta=dict(family='tree-empty-blocks')))
    # the same unknown line reached again and again along DIFFERENT call paths and at different depths (warnings are de-duplicated by
    # comparing traces of different lengths)
    for body in ('FOO 1', '$FOO 1+1', 'FOO\n        a\n        b'):
        t = f'FUNC f\n    {body}\nRUN f\nREPEAT 2\n    RUN f\nIF TRUE\n    REPEAT 1\n        RUN f\nFUNC g\n    RUN f\nRUN g\nRUN f'
        cases.append(dict(op='compile', src=dict(text=t), meta=dict(family='unknown-at-several-depths')))
        cases.append(dict(op='compile_file', file='p/main.txt', files={'p/main.txt': 'START lib\nRUN f\nIF TRUE\n    START lib\n    RUN f', 'p/lib.txt': f'FUNC f\n    {body}\nRUN f\n{body.splitlines()[0]}'},
                          meta=dict(family='unknown-at-several-depths')))
    # known-finding probes (each costs a timeout or a deep recursion): a few per run
    cases.append(dict(op='compile', src=dict(text='$STRING 10^5000'), meta=dict(family='probe', probe='huge-int-str', nocorr=True)))
    cases.append(dict(op='compile', src=dict(text='$STRING ²'), meta=dict(family='probe', nocorr=True)))
    cases.append(dict(op='compile', src=dict(text='$STRING ½+1'), meta=dict(family='probe', nocorr=True)))
    cases.append(dict(op='compile', timeout=3, src=dict(text='$ENTER 10^10'), meta=dict(family='probe', probe='enter-huge', nocorr=True)))
    deep = '\n'.join('    ' * i + 'IF TRUE' for i in range(1100)) + '\n' + '    ' * 1100 + 'STRING x'
    cases.append(dict(op='compile', opts=dict(stack_limit=2000), src=dict(text=deep), meta=dict(family='probe', probe='deep-indent', nocorr=True)))
    return cases


def render_lines(prog, unit):
    return '\n'.join(unit * d + t for d, t in prog)


def oracle(cases, results):
    fs = []
    for i, (c, r) in enumerate(zip(cases, results)):
        k = r.get('kind')
        if k == 'crash':
            fs.append(fail(i, f'a non-compile exception escapes: {r.get("exc")} at {r.get("where")}: {r.get("msg", "")[:120]}', f'crash:{r.get("exc")}:{r.get("where")}'))
        elif k == 'hang':
            where = r.get('where') or '?'
            fs.append(fail(i, f'compilation does not finish within the per-case timeout (busy in {where})',
                           'hang:' + (where if where != '?' else c.get('meta', {}).get('probe', c.get('meta', {}).get('family', '?')))))
        elif c.get('meta', {}).get('expect_cls') and (k != 'cerr' or r.get('cls') != c['meta']['expect_cls']):
            fs.append(fail(i, f'runaway recursion at stack limit {c["opts"]["stack_limit"]} should end in {c["meta"]["expect_cls"]}: {k} {r.get("cls", r.get("exc"))}', f'host-stack:{k}:{r.get("cls", r.get("exc"))}'))
        elif c.get('meta', {}).get('expect_ok') and k != 'ok':
            fs.append(fail(i, f'a legal call chain of depth {c["opts"]["stack_limit"] - 1} under stack limit {c["opts"]["stack_limit"]} fails: {k} {r.get("cls", r.get("exc"))}', f'host-stack-legal:{k}:{r.get("cls", r.get("exc"))}'))
        elif k == 'cerr' and r.get('trace_limit_bad'):
            fs.append(fail(i, f'stack_traceback(n) is not the n innermost entries: {r["trace_limit_bad"][:2]}', 'trace-limit'))
    return fs
