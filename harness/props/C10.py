"""C10 — errors point at the right file and line."""
from .common import *
FIELDS = ('cls', 'trace', 'lineNo')
RULE = 'a single faulty command planted under a random chain of enclosing constructs (IF, REPEAT, WHILE, FUNC+RUN, START import, grouped argument), after blank lines and verbatim regions, in random filler; distinct (chain, fault, position) with chain length >= 1'
FAULTS = [  # (lines relative to the fault's depth, innermost line offset, line_2 offset or None/'same')
    (['GUI xx'], 0, 'same'), (['$STRING (1'], 0, 'same'), (['RUN nosuch'], 0, 'same'), (['$STRING 1/0'], 0, 'same'),
    (['VAR 1x 5'], 0, 'same'), (['EXIST nosuch'], 0, 'same'), (['TAB x'], 0, None), (['DELAY "a"'], 0, 'same'),
    (['IF (1', '    STRING a'], 0, None), (['WHILE c,c<(', '    STRING a'], 0, None), (['REPEAT "a"', '    STRING a'], 0, None),
    (['WHILE 1x,TRUE', '    STRING a'], 0, None), (['ELSE x', '    STRING a'], 0, None), (['FUNC 1f', '    STRING a'], 0, None),
    (['DELAY', '    5', '    "a"', '    7'], 0, 2), (['$STRING', '    1+1', '    2+', '    3'], 0, 2), (['ALT', '    a', '    F4', '    xx'], 0, 3),
    (['STRING', '    """', '    v1', '      v2', '    """', 'GUI yy'], 5, 'same'),
    (['', '  ', 'SHIFT q'], 2, 'same'),
]


def build(g):
    """returns (files, entry, expected frames [(file, line, line2|'any')], fault kind)"""
    r = g.r
    unit = '    '
    chain = [r.choice(['if', 'repeat', 'while', 'func', 'start', 'else', 'group-run', 'libfunc']) for _ in range(r.randint(0, 5))]
    files = {}
    cur_file = 'proj/main.txt'
    lines = {cur_file: []}
    depth = {cur_file: 0}
    frames = []
    nfile = [0]
    pending_close = []     # (file, lines to append after the body at given depth)

    def add(f, text):
        lines[f].append(unit * depth[f] + text)
        return len(lines[f])

    def filler(f):
        for _ in range(r.randint(0, 3)):
            c = r.random()
            if c < 0.3: lines[f].append(r.choice(['', ' ', '\t']))
            elif c < 0.7: add(f, r.choice(['STRING fill', 'ENTER', 'VAR q 1', 'PASS', 'REM c']))
            elif c < 0.85:
                add(f, 'STRING'); depth[f] += 1; add(f, '"""'); add(f, 'verb'); lines[f].append(''); add(f, '"""'); depth[f] -= 1
            else:
                add(f, 'IF FALSE'); depth[f] += 1; add(f, 'STRING skipped'); depth[f] -= 1

    tails = []
    for k in chain:
        filler(cur_file)
        if k == 'if':
            n = add(cur_file, r.choice(['IF TRUE', 'IF 1==1', 'if TRUE']))
            frames.append((cur_file, n, None)); depth[cur_file] += 1
        elif k == 'else':
            add(cur_file, 'IF FALSE'); depth[cur_file] += 1; add(cur_file, 'STRING no'); depth[cur_file] -= 1
            n = add(cur_file, 'ELSE')
            frames.append((cur_file, n, None)); depth[cur_file] += 1
        elif k == 'repeat':
            n = add(cur_file, r.choice(['REPEAT 1', 'REPEAT i%d,2' % len(frames), 'FOR 3']))
            frames.append((cur_file, n, None)); depth[cur_file] += 1
        elif k == 'while':
            n = add(cur_file, 'WHILE w%d,w%d<2' % (len(frames), len(frames)))
            frames.append((cur_file, n, None)); depth[cur_file] += 1
        elif k in ('func', 'group-run'):
            # FUNC fN / <body...> ; the RUN comes after the body: we must close the body later.
            # Simpler: define the function whose body is *everything that follows*, and call it at the end of the file.
            fn = 'f%d' % len(frames)
            d0 = depth[cur_file]
            n_def = add(cur_file, f'FUNC {fn}')
            depth[cur_file] += 1
            tails.append((cur_file, d0, fn, k, len(frames)))
            frames.append(('RUN', cur_file, fn, k))       # placeholder, resolved when the call line is written
        elif k == 'libfunc':
            # the function is defined in an imported file and run from the importing one
            nfile[0] += 1
            target = 'proj/' + (r.choice(['flib%d', 'inc/flib%d']) % nfile[0]) + '.txt'
            add(cur_file, f'{r.choice(["START", "STARTENV"])} {import_name(cur_file, target)}')
            fn = 'lf%d' % len(frames)
            tails.append((cur_file, depth[cur_file], fn, 'func', len(frames)))
            frames.append(('RUN', cur_file, fn, k))
            lines[target] = []; depth[target] = 0
            cur_file = target
            filler(cur_file)
            add(cur_file, f'FUNC {fn}'); depth[cur_file] += 1
        elif k == 'start':
            nfile[0] += 1
            sub = r.choice(['lib%d', 'sub/m%d', 'sub/deep/x%d'])
            sub = sub % nfile[0]
            target = 'proj/' + sub + '.txt'
            kw = r.choice(['START', 'STARTCODE', 'STARTENV', 'start'])
            n = add(cur_file, f'{kw} {import_name(cur_file, target)}')
            frames.append((cur_file, n, n))
            lines[target] = []; depth[target] = 0
            cur_file_prev = cur_file
            cur_file = target
    filler(cur_file)
    fl, inner_off, l2 = r.choice(FAULTS)
    base = len(lines[cur_file])
    for t in fl:
        lines[cur_file].append((unit * depth[cur_file] + t) if t.strip() else t)
    fline = base + 1 + inner_off
    frames.append((cur_file, fline, fline if l2 == 'same' else (None if l2 is None else base + 1 + l2)))
    # trailing filler in the innermost block, then close functions by calling them
    for (f, d0, fn, k, idx) in reversed(tails):
        depth[f] = d0
        if k == 'group-run':
            n = add(f, 'RUN'); depth[f] += 1; n2 = add(f, fn); depth[f] -= 1
            call = (f, n, n2)
        else:
            n = add(f, f'RUN {fn}')
            call = (f, n, n)
        frames[idx] = call
    for f in lines:
        files[f] = '\n'.join(lines[f])
    return files, 'proj/main.txt', frames, fl[0]


def generate(g, tier):
    cases = []
    for _ in range(count(tier, 600, 6000)):
        files, entry, frames, kind = build(g)
        if len(files) == 1 and g.chance(0.5):
            cases.append(dict(op='compile', src=dict(text=files[entry]), meta=dict(family='planted-text', frames=[[None, a, b] for (_, a, b) in frames], fault=kind)))
        else:
            cases.append(dict(op='compile_file', file=entry, files=files, meta=dict(family='planted-files', frames=[list(f) for f in frames], fault=kind)))
    # a failure that follows a WARNING raised from the same command line (which dumped the trace once already): grouped arguments
    # of an unknown command, of DEFAULT_DELAY given several times, a grouped RUN whose first call warned — the innermost entry
    # names the argument line that failed, at every depth
    for _ in range(count(tier, 60, 400)):
        depth = g.r.randint(0, 2)
        ind = '    ' * depth
        pre = [('    ' * d) + 'IF TRUE' for d in range(depth)]
        kind = g.r.choice(['unknown', 'ddelay', 'run', 'unknown-inline'])
        nok = g.r.randint(1, 3)
        head = ['FUNC warnf', '    HOLD x', 'FUNC badf', '    $STRING 1/0']
        if kind == 'unknown': body = [ind + '$HOLD'] + [ind + '    ' + '1+1'] * nok + [ind + '    1/0']; off = 0
        elif kind == 'ddelay': body = [ind + 'DEFAULT_DELAY'] + [ind + '    5'] * (nok + 1) + [ind + '    1/0']; off = 1; nok += 1
        elif kind == 'unknown-inline': body = [ind + '$HOLD 1+1'] + [ind + '    2'] * (nok - 1) + [ind + '    1/0']; off = -1
        else: body = [ind + 'RUN'] + [ind + '    warnf'] * nok + [ind + '    badf']; off = 0
        lines = head + pre + body
        cmd_line = len(head) + depth + 1
        bad_line = len(lines)
        frames = [[None, len(head) + d + 1, None] for d in range(depth)] + [[None, cmd_line, bad_line]]
        if kind == 'run': frames.append([None, 4, 4])
        cases.append(dict(op='compile', src=dict(text='\n'.join(lines)), meta=dict(family='after-warning', frames=frames, fault=kind, strict_line2=True)))
    # the iteration limit of WHILE: the error is located at the WHILE line (no entry for the body that ran last)
    for t, fr in (('STRING a\nWHILE TRUE\n    PASS', [[None, 2, None]]), ('IF TRUE\n    WHILE n,n>=0\n        STRING x\n        PASS', [[None, 1, None], [None, 2, None]])):
        cases.append(dict(op='compile', timeout=120, src=dict(text=t), meta=dict(family='while-limit', frames=fr, fault='limit', strict_line2=True)))
    # a loop condition / count that is fine at first and faulty at a LATER evaluation (after the body has run once or more): the
    # error is located at the loop line, with no entry for the body that ran last — at every depth, in functions too
    for _ in range(count(tier, 40, 300)):
        depth = g.r.randint(0, 2)
        passes = g.r.randint(1, 3)
        ind = '    ' * depth
        pre = [('    ' * d) + 'IF TRUE' for d in range(depth)]
        shape = g.r.choice(['while', 'while-counter', 'repeat', 'while-type'])
        if shape == 'while': body = [ind + f'VAR n {passes}', ind + 'WHILE 4/n > 0', ind + '    STRING x', ind + '    VAR n n-1']; loop_at = 2
        elif shape == 'while-counter': body = [ind + f'VAR n {passes}', ind + 'WHILE c,10/(n-c) > 0', ind + '    STRING x', ind + '    PASS']; loop_at = 2
        elif shape == 'repeat': body = [ind + 'VAR n 1', ind + 'REPEAT 4/n', ind + '    STRING x', ind + '    VAR n n-1']; loop_at = 2
        else: body = [ind + 'VAR n 3', ind + 'WHILE n-1 >= 0', ind + '    STRING x', ind + '    VAR n "s"']; loop_at = 2
        infunc = g.chance(0.3)
        if infunc:
            lines = ['FUNC lp'] + ['    ' + l for l in pre + body] + ['STRING before', 'RUN lp']
            frames = [[None, len(lines), len(lines)]] + [[None, 1 + d + 1, None] for d in range(depth)] + [[None, 1 + depth + loop_at, None]]
        else:
            lines = pre + body
            frames = [[None, d + 1, None] for d in range(depth)] + [[None, depth + loop_at, None]]
        cases.append(dict(op='compile', src=dict(text='\n'.join(lines)), meta=dict(family='late-condition', frames=frames, fault=shape)))
    # a function declared more than once with the SAME text on different lines: the declaration in force is the latest one, and an
    # error inside the body names ITS lines
    for _ in range(count(tier, 30, 200)):
        gap = g.r.randint(0, 3)
        decl = ['FUNC f a', '    STRING in-f', '    $STRING 10/a']
        filler = [f'STRING fill{k}' for k in range(gap)]
        ndecl = g.r.randint(2, 3)
        lines = []
        last_start = 0
        for k in range(ndecl):
            last_start = len(lines) + 1
            lines += decl + filler
        if g.chance(0.4): lines += ['RUN f 5']
        lines += ['RUN f 0']
        frames = [[None, len(lines), len(lines)], [None, last_start + 2, last_start + 2]]
        cases.append(dict(op='compile', src=dict(text='\n'.join(lines)), meta=dict(family='redeclared', frames=frames, fault='div0')))
    # tab errors name an ill-indented line (also covered by C03)
    for _ in range(count(tier, 40, 300)):
        n = g.r.randint(1, 8)
        ls = ['STRING l%d' % i for i in range(n)] + ['IF TRUE', '    STRING a', '  STRING half']
        cases.append(dict(op='compile', src=dict(text='\n'.join(ls)), meta=dict(family='tab', badline=n + 3)))
    return cases


def oracle(cases, results):
    fs = []
    for i, (c, r) in enumerate(zip(cases, results)):
        m = c.get('meta', {})
        if r.get('kind') == 'hang': continue
        if m.get('family') == 'tab':
            if r.get('kind') != 'cerr' or r.get('lineNo') != m['badline']:
                fs.append(fail(i, f'tab error should name line {m["badline"]}: got {r.get("kind")} {r.get("cls")} line {r.get("lineNo")}', 'tab:lineno'))
            continue
        if 'frames' not in m: continue
        if r.get('kind') == 'crash':
            fs.append(fail(i, f'crash instead of a located compile error: {r.get("exc")} {r.get("msg", "")[:100]}', f'planted:crash:{r.get("exc")}')); continue
        if r.get('kind') != 'cerr' or r.get('trace') is None:
            fs.append(fail(i, f'planted fault {m["fault"]!r} did not produce a located compile error: {r.get("kind")} {r.get("out")}', 'planted:no-error')); continue
        got = r['trace']
        want = m['frames']
        if [f[:2] for f in got] != [f[:2] for f in want]:
            fs.append(fail(i, f'trace (file, line) entries differ: expected {want} got {got}', 'planted:path')); continue
        if m.get('strict_line2') and [f[2] for f in got[:-1]] + [got[-1][2]] != [f[2] if f[2] is not None or k == len(want) - 1 else got[k][2] for k, f in enumerate(want)][:len(got)] and got[-1][2] != want[-1][2]:
            fs.append(fail(i, f'innermost entry should name argument line {want[-1][2]}, names {got[-1][2]}', 'planted:line2')); continue
        if got[-1][2] != want[-1][2] and want[-1][2] != want[-1][1]:
            fs.append(fail(i, f'innermost entry should name grouped-argument line {want[-1][2]}, names {got[-1][2]}', 'planted:line2')); continue
        if r.get('trace_limit_bad'):
            fs.append(fail(i, f'stack_traceback(n) is not the n innermost entries: {r["trace_limit_bad"][:2]} of {got}', 'planted:limit'))
    return fs
