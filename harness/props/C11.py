"""C11 — grouped, triple-quoted, `$` and counted forms equal their expansion."""
import json
from pathlib import Path
from .common import *
FIELDS = ('out', 'prints', 'vars', 'cls')
RULE = 'every simple command (known and unknown) x argument lists (valid and invalid) in three spellings (group / separate lines / first + group); verbatim bodies with random relative indentation; $CMD values; counts 0..99,100,-1; distinct (command, argument list) pairs'
TABLES = Path(__file__).resolve().parents[1] / 'tables.current.json'
CONTROL = {'BREAK_LOOP', 'BREAKLOOP', 'CONTINUE_LOOP', 'CONTINUELOOP', 'CONTINUE', 'RETURN', 'RET', 'START', 'STARTENV', 'STARTCODE'}
TEXTS = ['x\u3000', 'a', 'xx', 'F4', 'esc', 'TAB', 'hello world', '5', '007', '12345', '9999', 'x y', 'DELETE', '"q"', '1+1', 'TRUE', 'k 1', 'v 2+2', 'f', 'f 1,2', 'z', '$', '日', 'a,b', '(', '0-1', '100', '99', '1.5']
EXPRS = ['1', '1+1', '2*3', '"a"', '"a"+1', 'TRUE', '10-3', '7//2', '"x y"', '0', '0-1', '100', '99', '(1', '1/0', 'q', '4/2', '1.5', '""']


def simple_names():
    try:
        t = json.loads(TABLES.read_text())['tables']
        return [n for c in t['palette'] if not c['isBlock'] for n in c['names'] if n not in CONTROL]
    except Exception:
        return ['STRING', 'STRINGLN', 'DELAY', 'ALT', 'CTRL', 'GUI', 'REM', 'PRINT', 'VAR', 'ENTER', 'TAB', 'RUN', 'EXIST', 'NOTEXIST', 'WHITESPACE', 'ALTCHAR']


def spellings(cmd, args, unit='    ', depth=0):
    ind = unit * depth
    a = '\n'.join([ind + cmd] + [ind + unit + x for x in args])
    b = '\n'.join(ind + cmd + ' ' + x for x in args)
    c = '\n'.join([ind + cmd + ' ' + args[0]] + [ind + unit + x for x in args[1:]])
    return [a, b, c]


def generate(g, tier):
    r = g.r
    names = simple_names() + ['HOLD', 'RELEASE', 'FOOBAR', 'STRINGG']
    cases = []
    gid = 0
    for _ in range(count(tier, 500, 5000)):
        cmd = r.choice(names)
        dollar = g.chance(0.25)
        pool = EXPRS if (dollar or cmd in ('DELAY', 'DEFAULT_DELAY', 'DEFAULTDELAY', 'WHITESPACE')) else TEXTS
        args = [r.choice(pool) for _ in range(r.randint(1, 4))]
        if cmd == 'VAR' and g.chance(0.5): args = ['k 1', 'j k+1', 'k j*3']      # later arguments see what earlier ones did
        if cmd == 'RUN' and g.chance(0.5): args = ['z', 'f 1,2', 'z']
        if cmd in ('DEFAULT_DELAY', 'DEFAULTDELAY') and g.chance(0.05):
            args = ['5', '$DEFAULT_DELAY+1']          # the known evaluation-order finding
        if g.chance(0.25):      # trailing blanks are part of the line in every spelling alike
            args = [a + r.choice(['', ' ', '  ', '\t', ' \t']) for a in args]
        word = ('$' if dollar else '') + (cmd if g.chance(0.8) else cmd.lower())
        pre = 'VAR q 3\nFUNC f a,b\n    $STRING a+b\nFUNC z\n    STRING z\n' if g.chance(0.7) else ''
        wrap = r.choice([None, None, 'IF TRUE', 'REPEAT 2'])
        gid += 1
        unit = g.units()
        # the same three spellings in a text whose lines end in CR LF (given as one string, or as a list of lines that still carry
        # their carriage return): whatever a carriage return at the end of an argument means, it means the same in every spelling
        crlf = r.choice([None, None, None, None, None, None, 'text', 'lines'])
        for k, sp in enumerate(spellings(word, args, unit, 1 if wrap else 0)):
            text = pre.replace('    ', unit) + ((wrap + '\n') if wrap else '') + sp + '\n$STRING "end"'
            if crlf == 'text':
                cases.append(dict(op='compile', src=dict(text=text.replace('\n', '\r\n')), meta=dict(family='spelling', group=gid, form=k, cmd=cmd, args=args, nocorr=True)))
            elif crlf == 'lines':
                cases.append(dict(op='compile', src=dict(lines=[l + '\r' for l in text.split('\n')]), meta=dict(family='spelling', group=gid, form=k, cmd=cmd, args=args, nocorr=True)))
            else:
                cases.append(dict(op='compile', src=dict(text=text), meta=dict(family='spelling', group=gid, form=k, cmd=cmd, args=args)))
    # verbatim text keeps its indentation relative to the quotes
    for _ in range(count(tier, 200, 2000)):
        unit = g.units()
        depth = r.randint(0, 2)
        cmd = r.choice(['STRING', 'STRINGLN', 'IGNORE', 'ALTSTRING', 'HOLD', 'REM', 'PRINT'])
        body = []
        for _ in range(r.randint(1, 5)):
            if g.chance(0.15): body.append(None)       # blank line inside the region
            else: body.append((r.choice(['', '', ' ', '  ', '   ', '\t', ' \t', unit, unit + ' ']), r.choice(['x', 'if y:', 'a  b', '"quoted"', '$v', 'REM t', 'z ']) + str(r.randint(0, 99))))
        if g.chance(0.25):      # a line that is nothing but three quotes, indented DEEPER than the quotes that opened the text (a nested docstring): text, not the end
            body.insert(r.randint(0, len(body)), (r.choice([' ', '  ', '\t', unit, unit + ' ', unit * 2]), '"""'))
        if all(b is None for b in body): body.append(('', 'solid'))
        lines = []
        for d in range(depth): lines.append(unit * d + 'IF TRUE')
        base = unit * depth
        lines.append(base + cmd)
        lines.append(base + unit + '"""')
        for b in body:
            lines.append('' if b is None else base + unit + b[0] + b[1])
        lines.append(base + unit + '"""')
        strip_cmd = cmd not in ('STRING', 'STRINGLN', 'IGNORE')
        exp = []
        for b in body:
            if b is None: continue
            content = (b[0] + b[1])
            if cmd == 'IGNORE': exp.append(content)
            elif cmd == 'PRINT': pass
            elif cmd == 'REM': pass
            else: exp.append(cmd + ' ' + (content.strip() if strip_cmd else content))
        cases.append(dict(op='compile', src=dict(text='\n'.join(lines)), meta=dict(family='verbatim', expout=exp)))
    # a block keyword written without a block is an unknown word: plain it passes its text through, with `$` its expression is evaluated —
    # whichever of the two spellings (or the real construct) the same compilation has met before
    for _ in range(count(tier, 60, 600)):
        w = r.choice(['REPEAT', 'FOR', 'WHILE', 'IF', 'FUNC', 'IGNORE', 'ELIF'])
        e, v = r.choice([('n-1', '2'), ('n*2', '6'), ('1+1', '2'), ('"a"+n', 'a3')])
        legacy = w in ('REPEAT', 'FOR')
        plain_out = (f'REPEAT {e}' if legacy else f'{w} {e}')
        plain = (f'{w} {e}', plain_out)
        dollar = (f'${w} {e}', f'{w} {v}')
        real = {'REPEAT': ('REPEAT 1\n    STRING body', 'STRING body'), 'FOR': ('FOR 1\n    STRING body', 'STRING body'), 'WHILE': ('WHILE k,k<1\n    STRING body', 'STRING body'),
                'IF': ('IF TRUE\n    STRING body', 'STRING body'), 'FUNC': ('FUNC ff\n    STRING body\nRUN ff', 'STRING body'), 'IGNORE': ('IGNORE\n    raw line', 'raw line'),
                'ELIF': ('IF FALSE\n    STRING no\nELIF TRUE\n    STRING body', 'STRING body')}[w]
        parts = [plain, dollar, real]
        r.shuffle(parts)
        parts = parts[:r.randint(2, 3)]
        if g.chance(0.3): parts = [(('IF TRUE\n' + '\n'.join('    ' + l for l in t.split('\n'))), o) for t, o in parts]
        text = 'VAR n 3\n' + '\n'.join(t for t, _ in parts)
        cases.append(dict(op='compile', src=dict(text=text), meta=dict(family='keyword-spellings', expout=[o for _, o in parts])))
    # $CMD expr gives CMD v ; $ENTER n ; WHITESPACE n
    for _ in range(count(tier, 150, 1500)):
        k = r.random()
        if k < 0.4:
            cmd = r.choice(['STRING', 'STRINGLN', 'HOLD', 'ALTSTRING', 'REM2'])
            e, v = r.choice([('1+1', '2'), ('"a"+1', 'a1'), ('2*3+1', '7'), ('"x"', 'x'), ('7//2', '3'), ('1==1', 'True'), ('"a b"', 'a b'), ('10-20', '-10'), ('(4/2)', '2'), ('!(FALSE)', 'True'),
                                 ('0.1+0.2', '0.30000000000000004'), ('1/3', '0.3333333333333333'), ('2/3', '0.6666666666666666'), ('1.1*1.1', '1.2100000000000002'), ('0.1*3', '0.30000000000000004'),
                                 ('100/7', '14.285714285714286'), ('123456789.123456789', '123456789.12345679'), ('1,2', '[1, 2]'), ('"a",1', "['a', 1]"), ('(1,2),3', '[1, 2, 3]'), ('1,(2,3)', '[1, [2, 3]]'), ('TRUE,""', "[True, '']")])
            cases.append(dict(op='compile', src=dict(text=f'${cmd} {e}'), meta=dict(family='dollar', expout=[f'{cmd} {v}'])))
        elif k < 0.7:
            n = r.choice([0, 1, 2, 5, 17, 99, 100, 250, 100050, 250000]) if g.chance(0.9) else 1000000
            cases.append(dict(op='compile', src=dict(text=f'$ENTER {n}'), meta=dict(family='enter', expout=['ENTER'] * n)))
        else:
            n = r.choice([0, 1, 2, 5, 50, 98, 99, 100, 101, -1, -5])
            e = str(n) if n >= 0 else f'0-{-n}'
            cases.append(dict(op='compile', src=dict(text=f'WHITESPACE {e}'), meta=dict(family='whitespace', expout=([''] * n if 0 <= n < 100 else None))))
    # a top-level group whose first line has white space of another kind after its indentation (ideographic, no-break, em space,
    # form feed …): the line is the same argument as when it is written after the command
    for ws in ['\u3000', '\u00a0', '\u2003', '\x0b', '\x0c', '\x1c']:
        for cmd, arg in (('STRING', '\u3053\u3093'), ('HOLD', 'k'), ('CTRL', 'c'), ('STRINGLN', 'two words'), ('REM', 'note')):
            gid += 1
            # (a single-line group: the white space a group's FIRST line begins with is what the group's indentation unit is read from)
            for k, text in enumerate([f'{cmd}\n    {ws}{arg}', f'{cmd} {ws}{arg}']):
                cases.append(dict(op='compile', opts=dict(include_comments=True), src=dict(text=text + '\n$STRING "end"'), meta=dict(family='spelling', group=gid, form=k, cmd=cmd, args=[ws + arg])))
    # a comma list is ONE value: one line for `$CMD a,b`, and no count for ENTER / WHITESPACE
    for t in ['$ENTER 2,1', 'WHITESPACE 1,2', '$ENTER (1,2)', 'WHITESPACE (3),4', '$DELAY 1,2']:
        cases.append(dict(op='compile', src=dict(text=t), meta=dict(family='list-count', expout=None)))
    # the `$`, counted ENTER and WHITESPACE forms follow the CURRENT value of their expression: loop counters and reassigned
    # variables of every identifier shape (no letter at all, one character, prefixes of one another)
    for nm in ['_', '_1', '__', 'i', 'n', 'nn', 'Ab', 'x_9']:
        n = r.randint(2, 4)
        lines = [f'REPEAT {nm},{n}', f'    $STRING {nm}', f'    $ENTER {nm}', f'    WHITESPACE {nm}', f'    $HOLD "k"+{nm}']
        exp = []
        for k in range(n): exp += [f'STRING {k}'] + ['ENTER'] * k + [''] * k + [f'HOLD k{k}']
        cases.append(dict(op='compile', src=dict(text='\n'.join(lines)), meta=dict(family='current-value', expout=exp)))
        a, b = r.randint(0, 5), r.randint(6, 20)
        lines = [f'VAR {nm} {a}', f'$STRING {nm}+1', f'$ENTER {nm}', f'VAR {nm} {b}', f'$STRING {nm}+1', f'WHITESPACE {nm}']
        exp = [f'STRING {a + 1}'] + ['ENTER'] * a + [f'STRING {b + 1}'] + [''] * b
        cases.append(dict(op='compile', src=dict(text='\n'.join(lines)), meta=dict(family='current-value', expout=exp)))
    return cases


def oracle(cases, results):
    fs = []
    groups = {}
    for i, (c, r) in enumerate(zip(cases, results)):
        m = c.get('meta', {})
        if r.get('kind') == 'hang': continue
        if m.get('family') == 'spelling':
            groups.setdefault(m['group'], []).append(i)
        elif 'expout' in m:
            if m['expout'] is None:
                if r.get('kind') != 'cerr':
                    fs.append(fail(i, f'{c["src"]["text"]!r} should be rejected, got {r.get("kind")} {r.get("out")}', f'{m["family"]}:accepted'))
            elif r.get('kind') != 'ok':
                fs.append(fail(i, f'{m["family"]} form rejected: {r.get("cls", r.get("exc"))} {r.get("msg", "")}', f'{m["family"]}:rejected:{r.get("cls", r.get("exc"))}'))
            elif r['out'] != m['expout']:
                fs.append(fail(i, f'{m["family"]} form: expected {m["expout"][:8]} got {r["out"][:8]}', f'{m["family"]}:output'))
    for gid, idxs in groups.items():
        def key(r):
            if r.get('kind') == 'ok': return ('ok', json.dumps(r['out']), json.dumps(r['prints']), json.dumps(r['vars'], sort_keys=True))
            return (r.get('kind') if r.get('kind') != 'cerr' else 'cerr',)
        ks = [key(results[i]) for i in idxs]
        # prints carry line numbers that differ between spellings: compare their texts only
        def soften(k):
            if k[0] != 'ok': return k
            return (k[0], k[1], json.dumps([p[0] for p in json.loads(k[2])]), k[3])
        ks = [soften(k) for k in ks]
        if len(set(ks)) > 1:
            m = cases[idxs[0]]['meta']
            sig = f'spelling:{m["cmd"]}'
            if m['cmd'] in ('DEFAULT_DELAY', 'DEFAULTDELAY') and any('$DEFAULT_DELAY' in a for a in m['args']): sig = 'spelling:D18-default-delay-order'
            fs.append(fail(idxs, f'spellings of {m["cmd"]} {m["args"]} disagree: ' + ' | '.join(str(k)[:160] for k in ks), sig))
    return fs
