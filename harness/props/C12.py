"""C12 — START pastes a file; STARTCODE keeps its code, STARTENV its definitions."""
from .common import *
from refinterp import *
from astgen import AstGen
FIELDS = ('out', 'vars', 'cls')
RULE = 'random splits of generated single-file programs into files along statement boundaries (chains, nested imports, imports inside blocks and functions), random directory trees and relative path shapes, STARTCODE/STARTENV contracts, bad paths; distinct file trees with >= 2 files'
W = dict(emit=5, assign=4, ifchain=2, repeat=1.5, whil=1, brk=0.8, func=1.5, call=2.5, ret=0, prnt=0.3, exist=1)
DIRS = ['proj', 'proj/src', 'proj/lib', 'proj/lib/util', 'proj/a/b/c', 'proj/src/x-1', 'proj/d_2']


def split_program(g, body, fname, files, depth=0):
    """move a random contiguous run of top-level statements of `body` into a new file; returns the text of `fname`"""
    r = g.r
    unit = '    '
    if len(body) >= 2 and depth < 3 and g.chance(0.8 if depth == 0 else 0.4):
        i = r.randint(0, len(body) - 1)
        j = r.randint(i + 1, len(body))
        chunk = body[i:j]
        nm = f'{r.choice(DIRS)}/m{len(files)}.txt'
        files[nm] = None
        files[nm] = split_program(g, chunk, nm, files, depth + 1)
        kw = r.choice(['START', 'start', 'START'])
        imp = Raw([(0, f'{kw} {import_name(fname, nm)}')])
        body = body[:i] + [('import', imp, chunk)] + body[j:]
    rd = Renderer(r.choice(['', ' ']))
    for s in body:
        if isinstance(s, tuple): rd.stmt(s[1], 0)
        else: rd.stmt(s, 0)
    if not rd.lines: rd.emit(0, 'PASS')
    return '\n'.join(unit * d + t for d, t in rd.lines)


def generate(g, tier):
    r = g.r
    cases = []
    for _ in range(count(tier, 400, 4000)):
        ag = AstGen(g.r, W, 3)
        body, sc = ag.program(r.randint(6, 18))
        text, rd = render_ast(body)
        exp = expect_of(body, rd)
        if exp[0] == 'err' and exp[1] == 'too-long': continue
        files = {}
        main = f'{r.choice(DIRS)}/main.txt'
        files[main] = None
        files[main] = split_program(g, body, main, files)
        if len(files) < 2: continue
        cases.append(dict(op='compile_file', file=main, files=files, meta=dict(family='paste', exp=list(exp[:4]))))
    # contracts of the three commands, RETURN inside a file, imports inside blocks and functions,
    # functions defined in another folder importing relative to *their* file
    for _ in range(count(tier, 200, 2000)):
        d1, d2 = r.choice(DIRS), r.choice(DIRS)
        main, lib = f'{d1}/main.txt', f'{d2}/tools.txt'
        data = f'{d2}/data.txt'
        decoy = f'{d1}/data.txt'
        kw = r.choice(['START', 'STARTCODE', 'STARTENV'])
        v0 = r.randint(1, 9)
        libtext = f'VAR shared shared+1\nVAR made {v0}\nSTRING lib-out\nFUNC emit\n    START data\n    STRING emitted\nIF TRUE\n    STRING lib-if\n    RETURN\nSTRING lib-unreached'
        datatext = 'STRING data-ok\nVAR fromdata 1'
        files = {main: '', lib: libtext, data: datatext}
        if d1 != d2 and g.chance(0.5): files[decoy] = 'STRING decoy'
        where = r.choice(['top', 'if', 'func', 'loop'])
        imp = f'{kw} {import_name(main, lib)}'
        # every spelling of the command: letter case, and the `$` form whose argument is an expression that evaluates to the name
        sp = r.random()
        nm_ = import_name(main, lib)
        if sp < 0.2: imp = f'${kw} "{nm_}"'
        elif sp < 0.3: imp = f'${kw.lower()} "{nm_[:len(nm_) // 2]}"+"{nm_[len(nm_) // 2:]}"'
        elif sp < 0.4: imp = f'{kw.capitalize()} {nm_}'
        pre = 'VAR shared 10\n'
        if where == 'top': body = imp + '\n'; reps = 1
        elif where == 'if': body = f'IF TRUE\n    {imp}\n    $STRING "in="+shared\n'; reps = 1
        elif where == 'func': body = f'FUNC load\n    {imp}\nRUN load\n'; reps = 1
        else: body = f'REPEAT 2\n    {imp}\n'; reps = 2
        out = []
        for k in range(reps):
            if kw != 'STARTENV': out += ['STRING lib-out', 'STRING lib-if']
            if where == 'if': out.append(f'STRING in={11}')
        tail = ''
        # after the block/function the names made inside an imported file at block level are gone again
        visible = (kw in ('START', 'STARTENV')) and where == 'top'
        tail += ('EXIST made\n' if visible else 'NOTEXIST made\n')
        shared_after = 10 + reps
        tail += '$STRING "shared="+shared\n'
        out.append(f'STRING shared={shared_after}')
        if visible:
            tail += 'RUN emit\n'; out += ['STRING data-ok', 'STRING emitted']
        files[main] = pre + body + tail + 'STRING end'
        out.append('STRING end')
        vars_ = {'shared': shared_after}
        if visible: vars_['made'] = v0
        cases.append(dict(op='compile_file', file=main, files=files, meta=dict(family='contract-' + kw + '-' + where, exp=['ok', out, [], vars_])))
    # the same dotted name used from files of different folders names different files (resolution is relative to the file the
    # command stands in, every time)
    for _ in range(count(tier, 40, 400)):
        folders = r.sample(['proj', 'proj/sub', 'proj/lib', 'proj/sub/deep', 'proj/x-1'], r.randint(2, 4))
        nm = r.choice(['util', 'common', 'm0'])
        kw = r.choice(['START', 'START', 'STARTCODE'])
        files, out = {}, []
        main = f'{folders[0]}/main.txt'
        body = []
        order = list(range(len(folders))); r.shuffle(order)
        for k in order:
            d = folders[k]
            files[f'{d}/{nm}.txt'] = f'STRING {nm}-of-{d}\nVAR who "{d}"'
            if k == 0:
                body.append(f'{kw} {nm}'); out.append(f'STRING {nm}-of-{d}')
            else:
                missing = g.chance(0.15)
                if missing: del files[f'{d}/{nm}.txt']
                files[f'{d}/a.txt'] = f'{kw} {nm}\n$STRING "a-saw-"+who' if kw == 'START' else f'{kw} {nm}\nSTRING a-of-{d}'
                body.append(f'START {import_name(main, d + "/a.txt")}')
                if missing: out = None; break
                out += [f'STRING {nm}-of-{d}', f'STRING a-saw-{d}' if kw == 'START' else f'STRING a-of-{d}']
        files[main] = '\n'.join(body + ['STRING end'])
        exp = ['ok', out + ['STRING end'], [], None] if out is not None else ['err', 'path']
        cases.append(dict(op='compile_file', file=main, files=files, meta=dict(family='same-name', exp=exp)))
    # an imported file that defines a function the importer already has replaces it (START / STARTENV paste definitions), also
    # through nested imports and after a local redefinition
    for _ in range(count(tier, 40, 400)):
        kw = r.choice(['START', 'STARTENV'])
        d1, d2 = r.choice(DIRS), r.choice(DIRS)
        main, theme, mid = f'{d1}/main.txt', f'{d2}/theme.txt', f'{d2}/mid.txt'
        nested = g.chance(0.4)
        files = {theme: 'FUNC greet\n    STRING themed\nSTRING theme-loaded'}
        if nested: files[mid] = f'{kw} {import_name(mid, theme)}\nSTRING mid-loaded'
        tgt = mid if nested else theme
        shape = r.choice(['override', 'reimport', 'twice'])
        loaded = ([] if kw == 'STARTENV' else (['STRING theme-loaded'] + (['STRING mid-loaded'] if nested else [])))
        if shape == 'override':
            text = f'FUNC greet\n    STRING default\nRUN greet\n{kw} {import_name(main, tgt)}\nRUN greet'
            out = ['STRING default'] + loaded + ['STRING themed']
        elif shape == 'reimport':
            text = f'{kw} {import_name(main, tgt)}\nRUN greet\nFUNC greet\n    STRING local\nRUN greet\n{kw} {import_name(main, tgt)}\nRUN greet'
            out = loaded + ['STRING themed', 'STRING local'] + loaded + ['STRING themed']
        else:
            text = f'FUNC greet\n    STRING default\nIF TRUE\n    {kw} {import_name(main, tgt)}\n    RUN greet\nRUN greet'
            out = loaded + ['STRING themed', 'STRING default']
        files[main] = text
        cases.append(dict(op='compile_file', file=main, files=files, meta=dict(family='override-' + shape, exp=['ok', out, [], None])))
    # a pasted file runs under the SAME options as the program it is pasted into, however deep the import sits (second-level
    # imports, imports inside blocks and functions, long chains under a raised stack limit)
    for _ in range(count(tier, 40, 300)):
        where = r.choice(['chain', 'block', 'func', 'loop'])
        opt = r.choice(['comments', 'flipper-off', 'limit', 'suppress'])
        libdir = r.choice(['proj', 'proj/lib'])
        main, a, b = 'proj/main.txt', 'proj/a.txt', f'{libdir}/b.txt'
        btext = 'REM from b\nSTRING b-out\nALTCHAR 65\nHOLD k'
        imp_b = f'START {import_name(a, b)}'
        atext = {'chain': f'REM from a\n{imp_b}\nSTRING a-out', 'block': f'IF TRUE\n    {imp_b}\nSTRING a-out',
                 'func': f'FUNC ld\n    {imp_b}\nRUN ld\nSTRING a-out', 'loop': f'REPEAT 1\n    IF TRUE\n        {imp_b}\nSTRING a-out'}[where]
        files = {main: 'REM top\nSTART a\nSTRING end', a: atext, b: btext}
        if opt == 'comments':
            opts = dict(include_comments=True)
            out = ['REM top'] + (['REM from a'] if where == 'chain' else []) + ['REM from b', 'STRING b-out', 'ALTCHAR 65', 'HOLD k', 'STRING a-out', 'STRING end']
            exp = ['ok', out, [], None]
        elif opt == 'flipper-off':
            opts = dict(flipper_commands=False); exp = ['err', 'flipper']
        elif opt == 'suppress':
            opts = dict(supress_command_not_exist=True); exp = ['ok', ['STRING b-out', 'ALTCHAR 65', 'HOLD k', 'STRING a-out', 'STRING end'], [], None]
        else:
            n = r.randint(22, 30)
            files = {main: 'START c0\nSTRING end'}
            for k in range(n): files[f'proj/c{k}.txt'] = (f'START c{k + 1}' if k + 1 < n else 'STRING deep')
            opts = dict(stack_limit=n + 5); exp = ['ok', ['STRING deep', 'STRING end'], [], None]
        cases.append(dict(op='compile_file', file=main, files=files, opts=opts, meta=dict(family='options-depth-' + opt, exp=exp)))
    # a grouped START (one name per line) resolves EVERY name from the folder of the file the command stands in, exactly like
    # the same names on separate START lines — whatever an earlier name of the group climbed
    for _ in range(count(tier, 40, 300)):
        names = r.sample(['.up', 'side', '..top', 'sub.inner', '.up2', 'side2'], r.randint(2, 4))
        files = {'proj/a/b/up.txt': 'STRING up', 'proj/a/b/up2.txt': 'STRING up2', 'proj/a/b/c/side.txt': 'STRING side-here', 'proj/a/b/side.txt': 'STRING side-parent',
                 'proj/a/b/c/side2.txt': 'STRING side2-here', 'proj/a/side2.txt': 'STRING side2-far', 'proj/a/top.txt': 'STRING top', 'proj/a/b/c/sub/inner.txt': 'STRING inner',
                 'proj/a/b/sub/inner.txt': 'STRING inner-parent'}
        expect = {'.up': 'STRING up', '.up2': 'STRING up2', 'side': 'STRING side-here', 'side2': 'STRING side2-here', '..top': 'STRING top', 'sub.inner': 'STRING inner'}
        kw = r.choice(['START', 'STARTCODE'])
        for form in range(3):
            main = [f'{kw}\n' + '\n'.join('    ' + n for n in names), '\n'.join(f'{kw} {n}' for n in names), f'{kw} {names[0]}\n' + '\n'.join('    ' + n for n in names[1:])][form]
            cases.append(dict(op='compile_file', file='proj/a/b/c/main.txt', files=dict(files, **{'proj/a/b/c/main.txt': main + '\nSTRING end'}),
                              meta=dict(family='grouped-start', exp=['ok', [expect[n] for n in names] + ['STRING end'], [], None])))
    # the same function text defined by files of different folders: each definition imports relative to ITS file
    for _ in range(count(tier, 20, 150)):
        kw = r.choice(['START', 'STARTENV'])
        body = 'FUNC load\n    START data\n'
        files = {'proj/main.txt': f'{kw} lib1.tools\nRUN load\n{kw} lib2.tools\nRUN load\n{kw} lib1.tools\nRUN load\nSTRING end',
                 'proj/lib1/tools.txt': body, 'proj/lib2/tools.txt': body, 'proj/lib1/data.txt': 'STRING data-1', 'proj/lib2/data.txt': 'STRING data-2'}
        cases.append(dict(op='compile_file', file='proj/main.txt', files=files, meta=dict(family='same-function-text', exp=['ok', ['STRING data-1', 'STRING data-2', 'STRING data-1', 'STRING end'], [], None])))
    # START reads the file as it is NOW: the same paths compiled again in the same process after the imported file changed
    from . import C17
    cases += [c for c in C17.revisit_histories(g, count(tier, 40, 300)) if c['meta']['family'] in ('revisit-import-content', 'revisit-mixed')]
    # path shapes
    for _ in range(count(tier, 150, 1000)):
        d1 = r.choice(DIRS)
        main = f'{d1}/main.txt'
        tname = r.choice(['t', 't', 'T', '1t', 't-1', 't_x', 'tT', 'x' * 40, '\u00e9', 'data2', 'Start', 'txt'])
        tgt = f'{r.choice(DIRS)}/{tname}.txt'
        good = import_name(main, tgt)
        k = r.choice(['good', 'good', 'missing', 'trail', 'double', 'root', 'dir', 'case'])
        arg = {'good': good, 'missing': good + 'x', 'trail': good + '.', 'double': good.replace('.' + tname, '..' + tname) if ('.' + tname) in good else 'a..b',
               'case': good.swapcase() if good.swapcase() != good else good + 'Q', 'root': '.' * 60 + 'etc', 'dir': import_name(main, tgt).rsplit('.', 1)[0] if '.' in good.lstrip('.') else good + 'q'}[k]
        files = {main: f'STRING a\nSTART {arg}\nSTRING b', tgt: 'STRING target'}
        exp = ['ok', ['STRING a', 'STRING target', 'STRING b'], [], {}] if k == 'good' else ['err', 'path']
        cases.append(dict(op='compile_file', file=main, files=files, meta=dict(family='path-' + k, exp=exp)))
        if g.chance(0.4):    # the entry file named relative to the working directory: imports resolve exactly the same
            cases.append(dict(op='compile_file', entry='relative', file=main, files=files, meta=dict(family='path-rel-' + k, exp=exp, nocorr=True)))
    # climbing as far as the folders named in a relative entry path go, and one further; file and folder names that look like
    # extensions or keywords
    for _ in range(count(tier, 40, 300)):
        depth = r.randint(0, 3)
        folders = ['p%d' % i for i in range(depth)]
        main = '/'.join(folders + ['main.txt'])
        up = r.randint(0, depth)
        tgt_dir = folders[:depth - up]
        nm = r.choice(['x', 'txt', 'yaml', 'config', 'main', 'START', 'lib'])
        tgt = '/'.join(tgt_dir + [nm + '.txt'])
        if tgt == main: continue
        files = {main: f'STRING a\nSTART {"." * up}{nm}\nSTRING b', tgt: 'STRING target'}
        for sp in (None, 'relative', 'relative-leaf'):
            cases.append(dict(op='compile_file', entry=sp, file=main, files=files,
                              meta=dict(family='climb-' + (sp or 'abs'), exp=['ok', ['STRING a', 'STRING target', 'STRING b'], [], {}], nocorr=sp is not None)))
    for nm in ['txt', 'yaml', 'txt.txt'.replace('.txt', ''), 'a_txt']:
        files = {'proj/main.txt': f'START lib.{nm}\nSTRING b', f'proj/lib/{nm}.txt': 'STRING inner', f'proj/lib.txt': 'STRING decoy'}
        cases.append(dict(op='compile_file', file='proj/main.txt', files=files, meta=dict(family='odd-names', exp=['ok', ['STRING inner', 'STRING b'], [], {}])))
    # a file is pasted into the state as it is: the SYSTEM variable $DEFAULT_DELAY the importer has set is what the imported file
    # reads, and what the file sets is what the importer reads afterwards (all three commands; imports inside blocks and functions)
    for kw in ('START', 'STARTENV', 'STARTCODE'):
        for where in ('top', 'if', 'func', 'repeat'):
            for setin in (True, False):
                a, b = r.choice([75, 20, 5]), r.choice([30, 40, 1])
                lib = '$STRING "lib sees "+$DEFAULT_DELAY' + (f'\nDEFAULT_DELAY {b}\n$STRING "lib now "+$DEFAULT_DELAY' if setin else '')
                imp = {'top': [f'{kw} lib'], 'if': ['IF TRUE', f'    {kw} lib'], 'func': ['FUNC ld', f'    {kw} lib', 'RUN ld'], 'repeat': ['REPEAT 1', f'    {kw} lib']}[where]
                main = [f'DEFAULT_DELAY {a}'] + imp + ['$STRING "main sees "+$DEFAULT_DELAY']
                libout = [f'STRING lib sees {a}'] + ([f'DEFAULT_DELAY {b}', f'STRING lib now {b}'] if setin else [])
                out = [f'DEFAULT_DELAY {a}'] + ([] if kw == 'STARTENV' else libout) + [f'STRING main sees {b if setin else a}']
                cases.append(dict(op='compile_file', file='proj/main.txt', files={'proj/main.txt': '\n'.join(main), 'proj/lib.txt': lib},
                                  meta=dict(family='sysvar-across-import', exp=['ok', out, [], None])))
    return cases


def oracle(cases, results):
    from . import C17
    return ast_oracle(cases, results, ('out', 'vars'), 'paste') + C17.oracle(cases, results)
