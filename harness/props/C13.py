"""C13 — import cycles are rejected; shared imports are not."""
from .common import *
FIELDS = ('out', 'cls', 'trace')
RULE = 'quick: ALL directed import graphs over <= 3 files (exhaustive, 512 graphs) plus sampled graphs over 4-7 files with function-mediated edges, block-nested imports, repeated imports and climbing path spellings; distinct graphs'
NAMES = ['proj/a.txt', 'proj/b.txt', 'proj/sub/c.txt', 'proj/sub/d.txt', 'proj/e.txt', 'proj/Sub/c.txt', 'proj/x/y/g.txt']


def spell(g, frm, to):
    """a dotted name for `to` seen from `frm`, sometimes climbing out further than needed and back in"""
    nm = import_name(frm, to)
    if g is not None and g.chance(0.3):
        fd = frm.split('/')[:-1]
        up = len(nm) - len(nm.lstrip('.'))
        if up < len(fd):
            # climb one more folder and come back through it
            extra = fd[len(fd) - up - 1]
            nm = '.' * (up + 1) + extra + '.' + nm.lstrip('.')
    return nm


def simulate(edges, kinds, n):
    """expected outcome by DFS over the import graph from file 0: ('ok', out) | ('cycle', chain of files)"""
    out = []

    class Cycle(Exception):
        def __init__(self, chain): self.chain = chain

    def visit(i, live):
        out.append(f'STRING pre{i}')
        for (j, kw, via) in edges[i]:
            if j in live: raise Cycle(live + [j])
            mark = len(out)
            visit(j, live + [j])
            if kw == 'STARTENV': del out[mark:]
        out.append(f'STRING post{i}')
    try:
        visit(0, [0])
        return ('ok', out)
    except Cycle as c:
        return ('cycle', c.chain)


def build_files(g, edges, n, names):
    files = {}
    for i in range(n):
        ls = [f'STRING pre{i}']
        for k, (j, kw, via) in enumerate(edges[i]):
            imp = f'{kw} {spell(g, names[i], names[j])}'
            if via == 'plain': ls.append(imp)
            elif via == 'block': ls += ['IF TRUE', '    ' + imp]
            elif via == 'loop': ls += ['REPEAT 1', '    ' + imp]
            else: ls += [f'FUNC imp{i}_{k}', '    ' + imp, f'RUN imp{i}_{k}']
        ls.append(f'STRING post{i}')
        if g is not None and g.chance(0.35):
            # blocks of the file's own that emit nothing — a loop that ends by its condition, then other blocks — before and after the
            # imports: what a finished block leaves behind must not make the file look live later
            quiet = [f'VAR w{i} 0', f'WHILE w{i} < {g.r.randint(1, 2)}', f'    VAR w{i} w{i}+1', 'IF TRUE', f'    VAR z{i} 1', 'REPEAT 1', '    PASS',
                     f'WHILE c{i},c{i} < 1', '    PASS', f'FUNC q{i}', '    PASS', f'RUN q{i}']
            where = g.r.choice(['front', 'back', 'both'])
            if where in ('front', 'both'): ls = ls[:1] + quiet + ls[1:]
            if where in ('back', 'both'): ls = ls + quiet
        files[names[i]] = '\n'.join(ls)
    return files


def generate(g, tier):
    r = g.r
    cases = []
    nmax = 3 if tier == 'quick' else 4
    # exhaustive over all graphs with <= nmax files (edge sets as bit masks; self-loops included)
    names = NAMES[:nmax]
    total = 1 << (nmax * nmax)
    step = 1 if nmax == 3 else 1
    for mask in range(0, total, step):
        edges = [[(j, 'START', 'plain') for j in range(nmax) if mask >> (i * nmax + j) & 1] for i in range(nmax)]
        exp = simulate(edges, None, nmax)
        cases.append(dict(op='compile_file', file=names[0], files=build_files(None, edges, nmax, names),
                          meta=dict(family='exhaustive', exp=list(exp), names=names)))
        if mask % 7 == 3:
            # the same graph with the entry path spelled another way: relative to the working directory, or through a folder
            # and back out of it — the files are the same files
            for sp in ('relative', 'relative-leaf', 'dotdot'):
                cases.append(dict(op='compile_file', entry=sp, file=names[0], files=build_files(None, edges, nmax, names),
                                  meta=dict(family='entry-' + sp, exp=list(exp), names=names, nocorr=True)))
    # sampled richer graphs
    for _ in range(count(tier, 300, 3000)):
        n = r.randint(2, 7)
        names = NAMES[:n]
        p = r.choice([0.15, 0.25, 0.4])
        edges = []
        for i in range(n):
            es = []
            for j in range(n):
                if g.chance(p) and (j != i or g.chance(0.2)):
                    es.append((j, r.choice(['START', 'START', 'STARTCODE', 'STARTENV']), r.choice(['plain', 'plain', 'block', 'loop', 'func'])))
                    if g.chance(0.15): es.append(es[-1])       # the same file imported twice in a row
            r.shuffle(es)
            edges.append(es)
        exp = simulate(edges, None, n)
        cases.append(dict(op='compile_file', file=names[0], files=build_files(g, edges, n, names),
                          meta=dict(family='sampled', exp=list(exp), names=names)))
    # a cycle that closes only through a function defined in another file
    for _ in range(count(tier, 30, 200)):
        files = {'proj/main.txt': 'START lib\nRUN f\nSTRING end', 'proj/lib.txt': 'FUNC f\n    START helper\nSTRING lib', 'proj/helper.txt': 'STRING helper\nSTART lib'}
        cases.append(dict(op='compile_file', file='proj/main.txt', files=files,
                          meta=dict(family='via-function', exp=['cycle', None], names=None, chainfiles=['proj/main.txt', 'proj/lib.txt', 'proj/helper.txt'])))
        break
    # cycles that depend on the history of the compilation: the closing START line has already run harmlessly once (through a
    # function called again from the file it imported, or guarded by a condition that changes), so nothing about the line itself
    # says it is cyclic — only the files live on the pile do
    for kw in ('START', 'STARTCODE', 'STARTENV'):
        for d in ('proj', 'proj/sub'):
            P = lambda n: f'{d}/{n}.txt'
            files = {P('main'): 'START util\nRUN load\nSTRING end', P('util'): f'FUNC load\n    {kw} data\nSTRING util', P('data'): 'STRING data\nRUN load'}
            cases.append(dict(op='compile_file', file=P('main'), files=files,
                              meta=dict(family='history-func', exp=['cycle', None], names=None, chainfiles=[P('main'), P('util'), P('data'), P('util')])))
            files = {P('main'): f'VAR mode 1\n{kw} b\nVAR mode 2\n{kw} a\nSTRING end', P('a'): f'STRING in-a\nIF mode == 2\n    VAR mode 3\n    {kw} b', P('b'): f'STRING in-b\n{kw} a'}
            cases.append(dict(op='compile_file', file=P('main'), files=files,
                              meta=dict(family='history-cond', exp=['cycle', None], names=None, chainfiles=[P('main'), P('a'), P('b')])))
            files = {P('main'): f'REPEAT i,3\n    VAR mode i\n    {kw} a\nSTRING end', P('a'): f'STRING in-a\nIF mode == 2\n    {kw} b', P('b'): f'STRING in-b\n{kw} a'}
            cases.append(dict(op='compile_file', file=P('main'), files=files,
                              meta=dict(family='history-loop', exp=['cycle', None], names=None, chainfiles=[P('main'), P('a'), P('b')])))
            # the same line run twice without ever closing a cycle is fine
            files = {P('main'): f'REPEAT 2\n    START a\nSTART a\nSTRING end', P('a'): 'START b\nSTRING in-a', P('b'): 'STRING in-b'}
            cases.append(dict(op='compile_file', file=P('main'), files=files,
                              meta=dict(family='history-none', exp=['ok', ['STRING in-b', 'STRING in-a'] * 3 + ['STRING end']], names=None)))
    # files with NO code at all (zero bytes, blank lines, white space only) are files like any other: imported again and again, reached
    # along two paths, imported in a loop — never a cycle; and a file that has nothing but an import of such a file
    for empty in ('', '\n', '\n\n\n', '   \n\t\n', ' '):
        for kw1 in ('START', 'STARTENV', 'STARTCODE'):
            kw2 = r.choice(['START', 'STARTENV', 'STARTCODE'])
            files = {P('main'): f'STRING m0\n{kw1} e\nSTRING m1\n{kw2} e\nSTRING m2\n{kw1} e\nSTRING end', P('e'): empty}
            cases.append(dict(op='compile_file', file=P('main'), files=files, meta=dict(family='empty-file-twice', exp=['ok', ['STRING m0', 'STRING m1', 'STRING m2', 'STRING end']], names=None)))
            files = {P('main'): f'{kw1} a\n{kw2} b\nSTRING end', P('a'): f'STRING in-a\n{kw1} e', P('b'): f'STRING in-b\n{kw2} e\n{kw1} e', P('e'): empty}
            outs = (['STRING in-a'] if kw1 != 'STARTENV' else []) + (['STRING in-b'] if kw2 != 'STARTENV' else []) + ['STRING end']
            cases.append(dict(op='compile_file', file=P('main'), files=files, meta=dict(family='empty-file-diamond', exp=['ok', outs], names=None)))
            files = {P('main'): f'REPEAT 3\n    {kw1} e\n    STRING it\nFUNC f\n    {kw2} only\nRUN f\nRUN f\nSTRING end', P('e'): empty, P('only'): f'{kw1} e'}
            cases.append(dict(op='compile_file', file=P('main'), files=files, meta=dict(family='empty-file-loop', exp=['ok', ['STRING it'] * 3 + ['STRING end']], names=None)))
    # functions that cross files: a function of a file that is still being compiled, called to completion from a file it
    # imported, leaves that first file live; a function body runs as the file that DEFINED it (the latest definition's file)
    for d in ('proj', 'proj/sub'):
        P = lambda n: f'{d}/{n}.txt'
        files = {P('a'): 'FUNC hello\n    STRING hi\nSTART b', P('b'): 'RUN hello\nSTART a'}
        cases.append(dict(op='compile_file', file=P('a'), files=files, meta=dict(family='func-live', exp=['cycle', None], names=None, chainfiles=[P('a'), P('b')])))
        files = {P('a'): 'FUNC hello\n    STRING hi\nVAR n 0\nSTART b', P('b'): 'RUN hello\nRUN hello\nIF n == 0\n    VAR n 1\n    START a'}
        cases.append(dict(op='compile_file', file=P('a'), files=files, meta=dict(family='func-live-guarded', exp=['cycle', None], names=None, chainfiles=[P('a'), P('b')])))
        base = {P('main'): 'START a\nSTART b\nRUN go\nSTRING end', P('a'): 'FUNC go\n    STRING a-go\nSTRING a-top', P('b'): 'FUNC go\n    START c\nSTRING b-top'}
        cases.append(dict(op='compile_file', file=P('main'), files=dict(base, **{P('c'): 'START a\nSTRING c-top'}),
                          meta=dict(family='func-file-diamond', exp=['ok', ['STRING a-top', 'STRING b-top', 'STRING a-top', 'STRING c-top', 'STRING end']], names=None)))
        cases.append(dict(op='compile_file', file=P('main'), files=dict(base, **{P('c'): 'START b\nSTRING c-top'}),
                          meta=dict(family='func-file-cycle', exp=['cycle', None], names=None, chainfiles=[P('main'), P('b'), P('c')])))
        # the same name defined in two files with the same parameters; called after each import
        files = {P('main'): 'START a\nRUN go\nSTART b\nRUN go\nSTRING end', P('a'): 'FUNC go\n    START leaf\nSTRING a-top', P('b'): 'FUNC go\n    START main2\nSTRING b-top',
                 P('leaf'): 'STRING leaf', P('main2'): 'STRING main2\nSTART a'}
        cases.append(dict(op='compile_file', file=P('main'), files=files,
                          meta=dict(family='func-file-twice', exp=['ok', ['STRING a-top', 'STRING leaf', 'STRING b-top', 'STRING main2', 'STRING a-top', 'STRING end']], names=None)))
    return cases


def oracle(cases, results):
    fs = []
    for i, (c, r) in enumerate(zip(cases, results)):
        m = c.get('meta', {})
        exp = m.get('exp')
        if exp is None or r.get('kind') == 'hang': continue
        fam = m['family']
        if exp[0] == 'ok':
            if r.get('kind') != 'ok':
                fs.append(fail(i, f'acyclic import graph rejected: {r.get("cls", r.get("exc"))} {r.get("msg", "")}', f'{fam}:false-cycle:{r.get("cls", r.get("exc"))}'))
            elif r['out'] != exp[1]:
                fs.append(fail(i, f'output of the unfolded import graph differs: expected {exp[1][:12]} got {r["out"][:12]}', f'{fam}:output'))
        else:
            if r.get('kind') != 'cerr':
                fs.append(fail(i, f'import cycle accepted: {r.get("kind")} out={r.get("out", [])[:8]}', f'{fam}:cycle-accepted'))
            elif r.get('cls') != 'CircularStructureError':
                fs.append(fail(i, f'import cycle reported as {r.get("cls")}: {r.get("msg", "")}', f'{fam}:cycle-class:{r.get("cls")}'))
            else:
                want = [m['names'][k] for k in exp[1][:-1]] if exp[1] is not None else m.get('chainfiles')
                got = []
                import os.path
                for f in (r.get('trace') or []):
                    fn = os.path.normpath(f[0]) if f[0] else f[0]
                    if not got or got[-1] != fn: got.append(fn)
                if want is not None and got != want:
                    fs.append(fail(i, f'the error does not show the import chain: expected files {want} got {got}', f'{fam}:chain'))
    return fs
