"""C14 — depth and iteration limits are exact and end in compile errors."""
from .common import *
FIELDS = ('out', 'cls')
RULE = 'for stack limits L (quick: 5,6,7,20,50,100,200 and a random one; thorough: all 5..200) and every way of reaching depth k (IF, REPEAT, WHILE, RUN chain, direct/mutual recursion, START chain, mixtures) the cases k=L-1 and k=L; loop counts around 20000 (thorough), parenthesis depth 99..102, thousands of sequential blocks; distinct (construct, L, k)'
ASSUMPTIONS = ['host-stack cost per level is measured on these chains, not proved (DESIGN.md C14)']


def nest(kind, k, unit='  '):
    """k nested blocks of one kind around STRING x ; returns (files, entry|None, text)"""
    if kind in ('if', 'repeat', 'while', 'mix'):
        ls = []
        for d in range(k):
            kk = kind if kind != 'mix' else ['if', 'repeat', 'while'][d % 3]
            head = {'if': 'IF TRUE', 'repeat': 'REPEAT 1', 'while': f'WHILE w{d},w{d}<1'}[kk]
            ls.append(unit * d + head)
        ls.append(unit * k + 'STRING x')
        return None, None, '\n'.join(ls)
    if kind in ('while0', 'whileplain', 'repeat0', 'iffalse'):
        # the innermost block never runs its body (or is a counter-less WHILE): it is a level all the same
        ls = [unit * d + 'IF TRUE' for d in range(k - 1)]
        head = {'while0': 'WHILE FALSE', 'whileplain': 'WHILE go', 'repeat0': 'REPEAT 0', 'iffalse': 'IF FALSE'}[kind]
        ls = ['VAR go FALSE'] + ls + [unit * (k - 1) + head, unit * k + 'STRING never', 'STRING x']
        return None, None, '\n'.join(ls)
    if kind == 'run':
        ls = []
        for d in range(k):
            ls += [f'FUNC f{d}', f'    RUN f{d + 1}' if d + 1 < k else '    STRING x']
        ls.append('RUN f0')
        return None, None, '\n'.join(ls)
    if kind == 'runmix':
        ls = []
        for d in range(0, k, 2):
            if d + 1 < k: ls += [f'FUNC f{d}', '    IF TRUE', f'        RUN f{d + 2}' if d + 2 < k else '        STRING x']
            else: ls += [f'FUNC f{d}', '    STRING x']
        ls.append('RUN f0')
        return None, None, '\n'.join(ls)
    if kind == 'start':
        files = {}
        for d in range(k + 1):
            files[f'p/m{d}.txt'] = (f'START m{d + 1}' if d < k else 'STRING x')
        return files, 'p/m0.txt', None
    raise ValueError(kind)


def generate(g, tier):
    r = g.r
    cases = []
    limits = [5, 6, 7, 20, 50, 100, 200, r.randint(5, 200)] if tier == 'quick' else list(range(5, 201))
    for L in limits:
        for kind in ('if', 'repeat', 'while', 'mix', 'run', 'runmix', 'start', 'while0', 'whileplain'):
            for k in (L - 1, L):
                if kind == 'start' and k > 150: continue      # host recursion: probed separately (known finding)
                files, entry, text = nest(kind, k)
                exp = 'ok' if k < L else 'overflow'
                meta = dict(family=f'nest-{kind}', L=L, k=k, exp=exp)
                if files: cases.append(dict(op='compile_file', file=entry, files=files, opts=dict(stack_limit=L), meta=meta))
                else: cases.append(dict(op='compile', src=dict(text=text), opts=dict(stack_limit=L), meta=meta))
        # unbounded recursion always ends in the overflow error
        for t, fam in (('FUNC f\n    RUN f\nRUN f', 'rec-direct'), ('FUNC a\n    RUN b\nFUNC b\n    RUN a\nRUN a', 'rec-mutual'),
                       ('FUNC f n\n    IF n>=0\n        RUN f n+1\nRUN f 0', 'rec-if')):
            cases.append(dict(op='compile', src=dict(text=t), opts=dict(stack_limit=L), meta=dict(family=fam, L=L, exp='overflow')))
        cases.append(dict(op='compile_file', file='p/a.txt', files={'p/a.txt': 'FUNC f\n    START b\nRUN f', 'p/b.txt': 'STRING b\nRUN f'},
                          opts=dict(stack_limit=L), meta=dict(family='rec-start', L=L, exp='overflow-or-cycle')))
    # blocks that follow one another consume no depth
    for n in ([300, 3000] if tier == 'quick' else [300, 3000, 10000]):
        text = '\n'.join(f'IF TRUE\n    REPEAT 1\n        STRING s{i}' for i in range(n))
        cases.append(dict(op='compile', timeout=120, src=dict(text=text), opts=dict(stack_limit=5), meta=dict(family='sequential', exp='ok', nlines=n)))
    # loops of every kind in a row, finishing in every way (condition false at once, after iterations, by BREAKLOOP), at top level
    # and inside a block followed by another block
    for L in (5, 6, 20):
        n = L + 4
        for shape in ('while-false', 'while-runs', 'while-break', 'repeat-0', 'mixed', 'in-block'):
            ls = []
            for i in range(n):
                if shape == 'while-false': ls += [f'WHILE FALSE', '    STRING never']
                elif shape == 'while-runs': ls += [f'WHILE w{i},w{i}<2', '    STRING x']
                elif shape == 'while-break': ls += ['WHILE TRUE', '    BREAKLOOP']
                elif shape == 'repeat-0': ls += ['REPEAT 0', '    STRING never']
                elif shape == 'mixed': ls += [['WHILE FALSE', f'WHILE m{i},m{i}<1', 'REPEAT 1', 'IF TRUE'][i % 4], '    PASS']
                else: ls += ['IF TRUE', f'    WHILE b{i},b{i}<1', '        PASS', '    IF TRUE', '        PASS']
            _, _, deep = nest('if', L - 1, '    ')
            cases.append(dict(op='compile', src=dict(text='\n'.join(ls) + '\n' + deep), opts=dict(stack_limit=L), meta=dict(family='sequential-' + shape, L=L, exp='ok-tail')))
        files = {'p/main.txt': ('START empty\nSTARTENV empty\n' * n) + nest('if', L - 1, '    ')[2], 'p/empty.txt': ''}
        cases.append(dict(op='compile_file', file='p/main.txt', files=files, opts=dict(stack_limit=L), meta=dict(family='sequential-empty-import', L=L, exp='ok-tail')))
    # imports and calls that follow one another consume no depth either: L+3 of them, then a nest of the deepest legal depth
    for L in ([5, 6, 20] if tier == 'quick' else [5, 6, 7, 20, 50, 200]):
        for kw in ('START', 'STARTENV', 'STARTCODE', 'RUN'):
            n = L + 3
            _, _, deep = nest('if', L - 1, '    ')
            if kw == 'RUN':
                text = 'FUNC lib\n    IF TRUE\n        STRING in-lib\n' + 'RUN lib\n' * n + deep
                cases.append(dict(op='compile', src=dict(text=text), opts=dict(stack_limit=L), meta=dict(family='sequential-run', L=L, exp='ok-tail')))
            else:
                files = {'p/main.txt': (f'{kw} lib\n' * n) + deep, 'p/lib.txt': 'IF TRUE\n    STRING in-lib\nVAR libvar 1'}
                cases.append(dict(op='compile_file', file='p/main.txt', files=files, opts=dict(stack_limit=L), meta=dict(family='sequential-' + kw.lower(), L=L, exp='ok-tail')))
    # the iteration bound is checked every time it is evaluated: a body that moves the bound out of 0..20000 ends in the error, it
    # neither runs on past 20,000 iterations nor silently stops
    for t in ('VAR n 2\nREPEAT n\n    VAR n 20001\nSTRING after', 'VAR n 2\nREPEAT i,n\n    VAR n 20000+i+1\nSTRING after', 'VAR n 2\nREPEAT n\n    VAR n 0-1\nSTRING after',
              'VAR n 1\nFOR k,n*2\n    IF k==1\n        VAR n 10001\nSTRING after'):
        cases.append(dict(op='compile', src=dict(text=t), meta=dict(family='moving-bound', exp='error')))
    cases.append(dict(op='compile', src=dict(text='VAR n 2\nREPEAT n\n    VAR n 20000\n    BREAKLOOP\nSTRING after'), meta=dict(family='moving-bound-ok', exp='ok')))
    if tier == 'thorough':
        cases.append(dict(op='compile', timeout=600, src=dict(text='VAR n 1\nREPEAT n\n    VAR n n+1\nSTRING after'), meta=dict(family='growing-bound', exp='error')))
    # both limits near their maximum together: the deepest call chain the stack limit allows, each level evaluating an expression
    # nested as deep as the parenthesis limit allows — the limits answer, not the host stack
    for L in (150, 200):
        par = '(' * 99 + 'a' + ')' * 99
        cases.append(dict(op='compile', timeout=120, opts=dict(stack_limit=L), src=dict(text=f'FUNC f a\n    $STRING {par}\n    RUN f a+1\nRUN f 0'),
                          meta=dict(family='both-limits', L=L, exp='overflow')))
        cases.append(dict(op='compile', timeout=120, opts=dict(stack_limit=L), src=dict(text=f'FUNC f a\n    IF {par} < {(L - 4) // 2}\n        RUN f a+1\n    ELSE\n        STRING x\nRUN f 0'),
                          meta=dict(family='both-limits-legal', L=L, exp='ok-tail')))      # 1 + 2 stacks per call: the deepest chain that fits
        cases.append(dict(op='compile', timeout=120, opts=dict(stack_limit=L), src=dict(text=f'FUNC f a\n    IF {par} < {(L - 4) // 2 + 1}\n        RUN f a+1\n    ELSE\n        STRING x\nRUN f 0'),
                          meta=dict(family='both-limits-over', L=L, exp='overflow')))
    # parenthesis depth
    for d in (1, 50, 99, 100, 101, 102, 150):
        e = '(' * d + '1' + ')' * d
        cases.append(dict(op='compile', src=dict(text=f'$STRING {e}'), meta=dict(family='parens', exp='ok' if d <= 100 else 'error', d=d)))
        cases.append(dict(op='compile', src=dict(text=f'IF {"(" * d}1==1{")" * d}\n    STRING y'), meta=dict(family='parens', exp='ok' if d <= 100 else 'error', d=d)))
    # the parenthesis limit is the same at EVERY stack limit and at every nesting depth of the program, also when every level of
    # the expression carries an operator (each level then costs the host more than a bare pair of parentheses): small stack limits,
    # at top level, under the deepest legal IF nest, at the bottom of the deepest legal call chain
    def opnest(d, shape):
        if shape == 0: return '(1+' * d + '1' + ')' * d
        if shape == 1: return '(' * d + '1' + ')*1' * d
        if shape == 2: return '(2*(1+' * (d // 2) + '1' + '))' * (d // 2) + ('' if d % 2 == 0 else '')
        return '!(' * min(d, 100) + 'TRUE' + ')' * min(d, 100)
    for L in ((5, 6, 9, 14, 20, 50) if tier == 'quick' else tuple(range(5, 60))):
        for d in (70, 99, 100, 101):
            for shape in (0, 1, 2, 3):
                e = opnest(d, shape)
                depth = e.count('(') if shape != 2 else 2 * (d // 2)
                exp = 'ok' if depth <= 100 else 'error'
                where = r.choice(['top', 'ifs', 'calls'])
                if where == 'top': text = f'VAR a {e}\nSTRING done'
                elif where == 'ifs':
                    k = L - 2
                    text = '\n'.join('    ' * j + 'IF TRUE' for j in range(k)) + '\n' + '    ' * k + f'VAR a {e}\n' + '    ' * k + 'STRING done'
                else:
                    k = L - 2
                    text = '\n'.join([f'FUNC g{j}\n    RUN g{j + 1}' for j in range(k - 1)] + [f'FUNC g{k - 1}\n    VAR a {e}\n    STRING done', 'RUN g0'])
                cases.append(dict(op='compile', timeout=60, opts=dict(stack_limit=L), src=dict(text=text), meta=dict(family='parens', exp=exp, d=depth, L=L, where=where)))
    # iteration limits (each costs seconds): thorough tier, plus the D19 probe
    if tier == 'thorough':
        for n, exp in ((20000, 'ok'), (20001, 'error')):
            cases.append(dict(op='compile', timeout=300, src=dict(text=f'REPEAT {n}\n    PASS'), meta=dict(family='repeat-limit', exp=exp)))
            cases.append(dict(op='compile', timeout=300, src=dict(text=f'VAR a 0\nWHILE a<{n}\n    VAR a a+1'), meta=dict(family='while-limit', exp=exp)))
        cases.append(dict(op='compile', timeout=300, src=dict(text='WHILE TRUE\n    PASS'), meta=dict(family='while-true', exp='limit')))
        cases.append(dict(op='compile', timeout=300, src=dict(text='WHILE TRUE\n    CONTINUE'), meta=dict(family='while-true', exp='limit')))
        cases.append(dict(op='compile', timeout=300, src=dict(text='VAR a 0\nWHILE c,a<20001\n    VAR a a+1\n    CONTINUELOOP'), meta=dict(family='while-continue', exp='limit')))
    else:
        cases.append(dict(op='compile', timeout=120, src=dict(text='WHILE TRUE\n    CONTINUE'), meta=dict(family='while-true', exp='limit')))
        cases.append(dict(op='compile', src=dict(text='REPEAT 20001\n    PASS'), meta=dict(family='repeat-limit', exp='error')))
    # host stack: deepest START chain at the largest CLI limit (known finding when it escapes as RecursionError)
    files, entry, _ = nest('start', 199)
    cases.append(dict(op='compile_file', file=entry, files=files, opts=dict(stack_limit=200), meta=dict(family='host-stack-start', exp='ok', nocorr=True)))
    # the limit in force is the one of the project the file was OPENED in: an entry file that is a symbolic link into another folder, with
    # a config.yaml next to the link (a small limit) and possibly another next to the target
    for L in (6, 9):
        for depth, exp in ((L - 1, 'ok'), (L, 'overflow'), (L + 3, 'overflow')):
            body = '\n'.join('    ' * i + 'IF TRUE' for i in range(depth)) + '\n' + '    ' * depth + 'STRING x'
            for target_cfg in (None, dict(stack_limit=50)):
                cfgs = {'project': dict(stack_limit=L)}
                if target_cfg: cfgs['shared'] = target_cfg
                cases.append(dict(op='compile_file', file='project/deep.txt', files={'shared/deep.txt': body}, symlinks={'project/deep.txt': 'shared/deep.txt'}, cfgs=cfgs,
                                  meta=dict(family='nest-symlinked-entry', L=L, k=depth, exp=exp, nocorr=True)))
    return cases


def oracle(cases, results):
    fs = []
    for i, (c, r) in enumerate(zip(cases, results)):
        m = c.get('meta', {})
        exp = m.get('exp')
        fam = m.get('family')
        if exp is None: continue
        k = r.get('kind')
        if k == 'hang':
            fs.append(fail(i, f'{fam}: compilation hangs (limit {m.get("L")})', f'hang:{fam}')); continue
        if k == 'crash':
            fs.append(fail(i, f'{fam} (L={m.get("L")}, k={m.get("k")}): host-language failure {r.get("exc")} at {r.get("where")}', f'crash:{r.get("exc")}:{fam}')); continue
        if exp == 'ok':
            if k != 'ok': fs.append(fail(i, f'{fam}: depth {m.get("k")} under limit {m.get("L")} rejected: {r.get("cls")} {r.get("msg", "")}', f'{fam}:rejected:{r.get("cls")}'))
            elif fam.startswith('nest') and r['out'] != ['STRING x']: fs.append(fail(i, f'{fam}: wrong output {r["out"][:5]}', f'{fam}:output'))
            elif fam == 'sequential' and len(r['out']) != m['nlines']: fs.append(fail(i, f'sequential blocks: {len(r["out"])} lines, expected {m["nlines"]}', 'sequential:output'))
        elif exp == 'ok-tail':
            if k != 'ok': fs.append(fail(i, f'{fam}: {m.get("L") + 3} imports/calls in a row then depth {m.get("L") - 1} under limit {m.get("L")} rejected: {r.get("cls")} {r.get("msg", "")}', f'{fam}:rejected:{r.get("cls")}'))
            elif r['out'][-1:] != ['STRING x']: fs.append(fail(i, f'{fam}: wrong output tail {r["out"][-3:]}', f'{fam}:output'))
        elif exp == 'overflow':
            if k != 'cerr' or r.get('cls') != 'StackOverflowError':
                fs.append(fail(i, f'{fam}: depth {m.get("k")} at limit {m.get("L")} should be a StackOverflowError: {k} {r.get("cls")} {r.get("out", [])[:3]}', f'{fam}:no-overflow'))
        elif exp == 'overflow-or-cycle':
            if k != 'cerr' or r.get('cls') not in ('StackOverflowError', 'CircularStructureError'):
                fs.append(fail(i, f'{fam}: expected a compile error, got {k} {r.get("cls")}', f'{fam}:no-error'))
        elif exp == 'error':
            if k != 'cerr': fs.append(fail(i, f'{fam}: one over the limit accepted ({k})', f'{fam}:accepted'))
        elif exp == 'limit':
            if k != 'cerr' or r.get('cls') != 'ExceededLimitError':
                fs.append(fail(i, f'{fam}: a never-false WHILE should end in ExceededLimitError: {k} {r.get("cls")}', f'{fam}:no-limit'))
    return fs
