"""C15 — options do what they say through every entry point."""
from .common import *
from refinterp import *
from astgen import AstGen
FIELDS = ('out', 'warnkinds', 'vars', 'cls', 'cfgAfter')
RULE = 'programs mixing REM, Flipper-only, unknown and ordinary commands at any nesting x all 16 boolean option combinations x stack limits x {no project file, project files over the same fields} x both API entry points; distinct (program, options, entry point)'
W = dict(emit=4, assign=1.5, ifchain=2.5, repeat=1.5, whil=0.8, brk=0.5, func=1.2, call=2, ret=0.1, prnt=0.1, exist=0.1, rawkw=0)      # (the unknown lines of these programs are tracked one by one)
FLIPPER = ['ALTCHAR 65', 'ALTSTRING hi', 'ALTCODE x', 'SYSRQ k', 'CTRL-ALT t', 'GUI-SHIFT']
UNKNOWN = ['HOLD a', 'RELEASE', 'WAIT_FOR_BUTTON_PRESS', 'LED_G']
OPTKEYS = ['include_comments', 'flipper_commands', 'supress_command_not_exist', 'use_project_config']
DEFAULTS = dict(stack_limit=20, include_comments=False, flipper_commands=True, supress_command_not_exist=False, use_project_config=True)


def sprinkle(g, body, marks, depth=0):
    """insert REM / Flipper / unknown Raw statements at random positions (recursively); marks collects the Raw nodes by kind"""
    r = g.r
    out = []
    for s in body:
        if isinstance(s, IfChain):
            s.arms = [(c, sprinkle(g, b, marks, depth + 1)) for c, b in s.arms]
            if s.els is not None: s.els = sprinkle(g, s.els, marks, depth + 1)
        elif isinstance(s, (Repeat, While, FuncDef)):
            s.body = sprinkle(g, s.body, marks, depth + 1)
        out.append(s)
        if g.chance(0.3):
            k = r.choice(['rem', 'rem', 'flipper', 'unknown'])
            n = len(marks['rem']) + len(marks['flipper']) + len(marks['unknown'])
            if k == 'rem':
                t = f'REM c{n}' if g.chance(0.85) else 'REM'
                raw = Raw([(0, r.choice(['REM', 'rem', 'Rem']) + t[3:])], [t])
            elif k == 'flipper':
                t = r.choice(FLIPPER); raw = Raw([(0, t)], [t])
            else:
                t = r.choice(UNKNOWN); raw = Raw([(0, t)], [t])
            raw.kind = k
            marks[k].append(raw)
            out.append(raw)
    return out


class Tracker(Interp):
    """reference interpreter that records which Raw nodes were executed"""
    def __init__(self, *a, comments=True, **k):
        super().__init__(*a, **k); self.executed = []; self.comments = comments
    def stmt(self, s):
        if isinstance(s, Raw) and hasattr(s, 'kind'):
            self.executed.append(s)
            if s.kind == 'rem' and not self.comments: return
        super().stmt(s)


def effective(glob, proj):
    g = dict(DEFAULTS); g.update(glob or {})
    if proj is None or not g['use_project_config']: return g, False
    p = dict(DEFAULTS); p.update(proj)
    if not p['use_project_config']: return g, False
    return p, True


def generate(g, tier):
    r = g.r
    cases = []
    gid = 0
    for _ in range(count(tier, 120, 1200)):
        ag = AstGen(g.r, W, 4)
        body, sc = ag.program(r.randint(5, 14))
        marks = dict(rem=[], flipper=[], unknown=[])
        body = sprinkle(g, body, marks)
        text, rd = render_ast(body, g.units())
        gid += 1
        combos = [dict(zip(OPTKEYS[:3], [(m >> b) & 1 == 1 for b in range(3)])) for m in range(8)]
        r.shuffle(combos)
        for o in combos[:count(tier, 4, 8)]:
            it = Tracker(rd.line_of, None, comments=o['include_comments'])
            exp = it.program(body)
            if exp[0] != 'ok': continue
            ran_flipper = any(x.kind == 'flipper' for x in it.executed)
            ran_unknown = sorted({rd.line_of[id(x)] for x in it.executed if x.kind == 'unknown'})
            if not o['flipper_commands'] and ran_flipper:
                meta = dict(family='opts', group=gid, o=o, exp=['err', 'flipper'])
            else:
                meta = dict(family='opts', group=gid, o=o, exp=['ok', exp[1], [], exp[3]], unknown_lines=([] if o['supress_command_not_exist'] else ran_unknown))
            entry = r.choice(['text', 'file', 'file-project'])
            if entry == 'text':
                cases.append(dict(op='compile', opts=o, src=dict(text=text), meta=meta))
            elif entry == 'file':
                cases.append(dict(op='compile_file', opts=o, file='proj/main.txt', files={'proj/main.txt': text}, meta=meta))
            else:
                # the project file says `o`; the global options say something else
                glob = {k: r.choice([True, False]) for k in OPTKEYS}
                glob['stack_limit'] = r.choice([20, 30])
                proj = dict(o); proj['use_project_config'] = r.choice([True, True, False])
                if g.chance(0.3):
                    for kk in r.sample(list(proj), r.randint(1, 2)): proj.pop(kk)
                eff, used = effective(glob, proj)
                it2 = Tracker(rd.line_of, None, comments=eff['include_comments'])
                e2 = it2.program(body)
                if e2[0] != 'ok': continue
                rf = any(x.kind == 'flipper' for x in it2.executed)
                ru = sorted({rd.line_of[id(x)] for x in it2.executed if x.kind == 'unknown'})
                if not eff['flipper_commands'] and rf: m2 = dict(family='project', exp=['err', 'flipper'])
                else: m2 = dict(family='project', exp=['ok', e2[1], [], e2[3]], unknown_lines=([] if eff['supress_command_not_exist'] else ru))
                m2['cfg_after'] = eff if used else None
                m2['cfg_before'] = proj
                cases.append(dict(op='compile_file', opts=glob, file='proj/main.txt', files={'proj/main.txt': text}, cfgs={'proj': proj}, meta=m2))
    # the same options object through both entry points, one after the other (a project config must not leak)
    for _ in range(count(tier, 40, 300)):
        o = dict(include_comments=r.choice([True, False]), flipper_commands=r.choice([True, False]), stack_limit=r.choice([20, 9]))
        proj = dict(include_comments=not o['include_comments'], flipper_commands=not o['flipper_commands'], stack_limit=7)
        if g.chance(0.5): proj.pop(r.choice(list(proj)))
        t = 'REM a comment\nSTRING hello\nALTCHAR 65\nIF TRUE\n    REM inner\n    HOLD x'
        steps = [dict(op='compile', compiler='K', opts=o, dir='s0', src=dict(text=t)),
                 dict(op='compile_file', compiler='K', opts=o, dir='s1', file='proj/main.txt', files={'proj/main.txt': t}, cfgs={'proj': proj}),
                 dict(op='compile', compiler='K', opts=o, dir='s2', src=dict(text=t)),
                 dict(op='compile_file', compiler='K', opts=o, dir='s3', file='other/main.txt', files={'other/main.txt': t})]
        if g.chance(0.6):
            # the caller gives the SAME Compiler object other options (assigns its compile_options) and compiles again, from a string
            # and from a file: both entry points follow the options the object has now
            o2 = dict(include_comments=not o['include_comments'], flipper_commands=r.choice([True, False]), supress_command_not_exist=r.choice([True, False]), stack_limit=20)
            steps += [dict(op='compile', compiler='K', opts=o2, reassign=True, dir='s4', src=dict(text=t)),
                      dict(op='compile_file', compiler='K', opts=o2, reassign=True, dir='s5', file='third/main.txt', files={'third/main.txt': t}),
                      dict(op='compile', compiler='K', opts=o2, reassign=True, dir='s6', src=dict(lines=t.split('\n')))]
        cases.append(dict(op='history', steps=steps, meta=dict(family='entry-history', nocorr=True)))
    # one compilation, one set of options: a config.yaml lying in the folder of an IMPORTED file (or in any folder other than the
    # entry file's) is not consulted — whatever it says, however the import is reached
    for _ in range(count(tier, 80, 600)):
        glob = {k: r.choice([True, False]) for k in OPTKEYS}
        glob['stack_limit'] = 20
        entry_cfg = r.choice([None, None, {k: r.choice([True, False]) for k in OPTKEYS if k != 'use_project_config'}])
        decoy = {k: r.choice([True, False]) for k in OPTKEYS}
        decoy['stack_limit'] = r.choice([3, 20, 200])
        eff, _used = effective(glob, entry_cfg)
        kw = r.choice(['START', 'STARTENV', 'STARTCODE'])
        libdir = r.choice(['proj/lib', 'proj/lib/deep', 'other'])
        helper = 'REM from helper\nALTCODE 65\nFOO x\nIF TRUE\n    REM inner\n    STRING h'
        where = r.choice(['top', 'block', 'func'])
        imp = f'{kw} {import_name("proj/main.txt", libdir + "/helper.txt")}'
        main = {'top': imp, 'block': 'IF TRUE\n    ' + imp, 'func': 'FUNC ld\n    ' + imp + '\nRUN ld'}[where] + '\nREM after\nSTRING end'
        files = {'proj/main.txt': main, libdir + '/helper.txt': helper}
        cfgs = {libdir: decoy}
        if entry_cfg is not None: cfgs['proj'] = entry_cfg
        C = eff['include_comments']
        lib_out = ([] if kw == 'STARTENV' else (['REM from helper'] if C else []) + ['ALTCODE 65', 'FOO x'] + (['REM inner'] if C else []) + ['STRING h'])
        if not eff['flipper_commands']: exp = ['err', 'flipper']
        else: exp = ['ok', lib_out + (['REM after'] if C else []) + ['STRING end'], [], None]
        cases.append(dict(op='compile_file', opts=glob, file='proj/main.txt', files=files, cfgs=cfgs,
                          meta=dict(family='foreign-config', exp=exp, nwarn=(0 if eff['supress_command_not_exist'] or not eff['flipper_commands'] else 1))))
    # the project file that counts is the one beside the path the caller NAMED — also when that path is a symbolic link to a file
    # kept in another folder (with another config.yaml, or none)
    for _ in range(count(tier, 40, 300)):
        glob = dict(include_comments=r.choice([True, False]), supress_command_not_exist=r.choice([True, False]))
        beside = r.choice([None, dict(include_comments=r.choice([True, False]), flipper_commands=r.choice([True, False]), supress_command_not_exist=r.choice([True, False]))])
        far = r.choice([None, dict(include_comments=r.choice([True, False]), flipper_commands=r.choice([True, False]))])
        eff, _u = effective(glob, beside)
        text = 'REM note\nALTCODE 65\nHOLD k\nSTRING end'
        cfgs = {}
        if beside is not None: cfgs['proj'] = beside
        if far is not None: cfgs['vault/scripts'] = far
        if not eff['flipper_commands']: exp = ['err', 'flipper']
        else: exp = ['ok', (['REM note'] if eff['include_comments'] else []) + ['ALTCODE 65', 'HOLD k', 'STRING end'], [], None]
        cases.append(dict(op='compile_file', opts=glob, file='proj/main.txt', files={'vault/scripts/payload.txt': text}, symlinks={'proj/main.txt': 'vault/scripts/payload.txt'}, cfgs=cfgs,
                          meta=dict(family='symlinked-entry', exp=exp, nocorr=True, nwarn=(0 if eff['supress_command_not_exist'] or not eff['flipper_commands'] else 1))))
    # options follow what the caller and the project file say NOW: the same Compiler object and the same folder, with the
    # options reassigned or config.yaml added / edited between two compilations
    from . import C17
    cases += [c for c in C17.revisit_histories(g, count(tier, 60, 400)) if c['meta']['family'] in ('revisit-config-change', 'revisit-config-appears', 'revisit-reassign-options', 'revisit-mixed')]
    return cases


def oracle(cases, results):
    from . import C17
    fs = ast_oracle(cases, results, ('out', 'vars'), 'opts') + C17.oracle(cases, results)
    for i, (c, r) in enumerate(zip(cases, results)):
        m = c.get('meta', {})
        if r.get('kind') == 'ok' and 'unknown_lines' in m:
            got = sorted({w['arg'] for w in r['warns'] if w['kind'] == 'notExist'})
            if got != m['unknown_lines']:
                fs.append(fail(i, f'unknown-command warnings: expected for lines {m["unknown_lines"]} got {got} (options {c.get("opts")})', f'{m["family"]}:warnings'))
        if 'nwarn' in m and r.get('kind') == 'ok':
            nw = len({json.dumps(w.get('trace')) for w in r['warns'] if w['kind'] == 'notExist'})
            if nw != m['nwarn']:
                fs.append(fail(i, f'{m["family"]}: {nw} unknown-command warnings, expected {m["nwarn"]} (options {c.get("opts")})', f'{m["family"]}:warnings'))
        if m.get('exp', [None])[0] == 'err' and r.get('kind') == 'cerr' and r.get('cls') != 'InvalidCommand':
            fs.append(fail(i, f'Flipper-only command with Flipper disabled should fail with InvalidCommand, got {r.get("cls")}', f'{m["family"]}:flipper-class'))
        if m.get('family') == 'project' and r.get('kind') in ('ok', 'cerr') and 'cfgNow' in r:
            now = r['cfgNow']
            # the file's meaning (the options it denotes) must be unchanged
            def denote(cfg):
                d = dict(DEFAULTS); d.update(cfg or {}); return d
            if now is None or not isinstance(now, dict) or denote(now) != denote(m['cfg_before']):
                fs.append(fail(i, f'project config.yaml changed meaning: before {m["cfg_before"]} now {now}', 'project:config-meaning'))
    return fs
