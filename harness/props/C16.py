"""C16 — unknown commands and IGNORE blocks pass through."""
import json
from pathlib import Path
from .common import *
from refinterp import *
from astgen import AstGen
FIELDS = ('out', 'warns', 'cls')
RULE = 'command words not in the current palette (edit-distance-1 neighbours of known names, Ducky 3 keywords, block keywords without a block, random words) with every argument text at every position of generated programs; IGNORE bodies with random relative indentation; distinct (word, argument, position)'
TABLES = Path(__file__).resolve().parents[1] / 'tables.current.json'
DUCKY3 = ['ATTACKMODE', 'HOLD', 'RELEASE', 'WAIT_FOR_BUTTON_PRESS', 'BUTTON_DEF', 'LED_R', 'LED_G', 'LED_OFF', 'INJECT_MOD', 'RANDOM_LOWERCASE_LETTER', 'RESTART_PAYLOAD',
          'STOP_PAYLOAD', 'DEFINE', 'END_IF', 'END_WHILE', 'THEN', 'JITTER', 'VID_0000', 'HIDE_PAYLOAD', 'SAVE_HOST_KEYBOARD_LOCK_STATE', 'EXFIL', 'STRING_POWERSHELL', 'END_STRING']
W = dict(emit=4, assign=2, ifchain=2.5, repeat=2, whil=1, brk=0.5, func=1.2, call=2, ret=0.1, prnt=0.1, exist=0.1, rawkw=0)      # (the known-only family must contain no unknown line)


def known_names():
    try:
        t = json.loads(TABLES.read_text())['tables']
        return {n for c in t['palette'] for n in c['names']}, {n for c in t['palette'] if c['isBlock'] and c['blockRequired'] for n in c['names']}
    except Exception:
        return {'STRING', 'DELAY'}, {'IF'}


def unknown_word(g, known, blockkw):
    r = g.r
    while True:
        c = r.random()
        if c < 0.3: w = r.choice(DUCKY3)
        elif c < 0.6:
            k = r.choice(sorted(known)); j = r.randrange(len(k) + 1)
            w = r.choice([k[:j] + r.choice('XQZ_') + k[j:], k[:j] + k[j + 1:], k + r.choice('SXY2'), k[:max(1, j)]])
        elif c < 0.75: w = r.choice(sorted(blockkw))              # block keyword used without a block
        else: w = ''.join(r.choice('ABCDEFGHJKLMNPQRSTUVWXYZ_0123456789') for _ in range(r.randint(1, 10)))
        if not w or w[0] in '$"' or w.strip() != w: continue
        up = w.upper()
        if up in known and up not in blockkw: continue
        if up.startswith('$'): continue
        if g.chance(0.4): w = ''.join(ch.lower() if g.chance(0.5) else ch for ch in w)
        return w


def sprinkle(g, body, known, blockkw, marks):
    r = g.r
    out = []
    for s in body:
        if isinstance(s, IfChain):
            s.arms = [(c, sprinkle(g, b, known, blockkw, marks)) for c, b in s.arms]
            if s.els is not None: s.els = sprinkle(g, s.els, known, blockkw, marks)
        elif isinstance(s, (Repeat, While, FuncDef)):
            s.body = sprinkle(g, s.body, known, blockkw, marks)
        out.append(s)
        if g.chance(0.25):
            w = unknown_word(g, known, blockkw)
            k = r.random()
            if k < 0.25: line, exp = w, w.upper()
            elif k < 0.75:
                arg = r.choice(['x', 'a b  c', '1+1', '"q"', 'F4', '$v', 'é', 'TRUE', '(', 'x,y'])
                line, exp = f'{w}{r.choice([" ", "  ", chr(9)])}{arg}{r.choice(["", " ", "  "])}', f'{w.upper()} {arg}'
            else:
                e, v = r.choice([('1+1', '2'), ('"a"+"b"', 'ab'), ('2*(3+1)', '8'), ('"x y"', 'x y'), ('5', '5'), ('1<2', 'True')])
                line, exp = f'${w} {e}', f'{w.upper()} {v}'
            raw = Raw([(0, line)], [exp]); marks.append(raw); out.append(raw)
    return out


class Tracker(Interp):
    def __init__(self, *a, **k):
        super().__init__(*a, **k); self.executed = []
    def stmt(self, s):
        if isinstance(s, Raw): self.executed.append(s)
        super().stmt(s)


def generate(g, tier):
    r = g.r
    known, blockkw = known_names()
    cases = []
    for _ in range(count(tier, 500, 5000)):
        ag = AstGen(g.r, W, 4)
        body, sc = ag.program(r.randint(3, 14))
        marks = []
        body = sprinkle(g, body, known, blockkw, marks)
        if g.chance(0.3) or not marks:
            # the nested unknown command is the first warning of the whole compile
            w = unknown_word(g, known, blockkw)
            raw = Raw([(0, w + ' z')], [w.upper() + ' z']); marks.append(raw)
            body = [Emit('hi'), Repeat(Lit(2), None, [IfChain([(Lit(True), [raw])], None, [[]])])] + body
        text, rd = render_ast(body, g.units())
        it = Tracker(rd.line_of, None)
        exp = it.program(body)
        if exp[0] != 'ok': continue
        lines = sorted({rd.line_of[id(x)] for x in it.executed})
        opts = None if g.chance(0.8) else dict(include_comments=True)
        cases.append(dict(op='compile', opts=opts, src=dict(text=text), meta=dict(family='unknown', exp=list(exp[:4]), unknown_lines=lines)))
    # several leading `$`: only one is the evaluation prefix — `$$WORD` is the unknown word `$WORD`, evaluated, emitted with its
    # `$`, and warned about (known command names included)
    for _ in range(count(tier, 60, 600)):
        w = r.choice([unknown_word(g, known, blockkw), 'string', 'STRING', 'hold', 'DELAY', 'gui', 'STRINGLN'])
        pre = r.choice(['$$', '$$', '$$$'])
        e, v = r.choice([('1+1', '2'), ('"a"+"b"', 'ab'), ('n+1', '4'), ('"x"', 'x')])
        line = f'{pre}{w} {e}'
        expw = (pre[1:] + w).upper()
        body = r.choice([f'VAR n 3\n{line}', f'VAR n 3\nREPEAT 1\n    {line}', f'VAR n 3\nFUNC f\n    {line}\nRUN f'])
        nline = body.split('\n').index([l for l in body.split('\n') if l.strip() == line][0]) + 1
        cases.append(dict(op='compile', src=dict(text=body), meta=dict(family='dollars', exp=['ok', [f'{expw} {v}'], [], None], unknown_lines=[nline])))
    # unknown commands in several files at the same line numbers, entered from the same importing line (a grouped START, a START
    # in a loop): one warning per file and line, each naming its own file
    for _ in range(count(tier, 40, 400)):
        nf = r.randint(2, 4)
        names = [f'part{k}' for k in range(nf)]
        files = {}
        pad = r.randint(0, 2)
        same = g.chance(0.5)        # the very same text on the same line of every file: still one located warning per file
        w0 = r.choice(DUCKY3)
        for k, nm in enumerate(names):
            files[f'proj/{nm}.txt'] = '\n'.join(['STRING pad'] * pad + [f'{w0} same' if same else f'{r.choice(DUCKY3)} a{k}', 'STRING tail'])
        how = r.choice(['group', 'group', 'lines', 'func', 'loop'])
        if how == 'group': main = 'START\n' + '\n'.join('    ' + nm for nm in names)
        elif how == 'lines': main = '\n'.join(f'START {nm}' for nm in names)
        elif how == 'loop': main = f'REPEAT i,{nf}\n    $START "part"+i'
        else: main = 'FUNC ld which\n    IF which == 0\n        START part0\n    ELSE\n        START part1\nREPEAT i,2\n    RUN ld i'; nf = 2
        files['proj/main.txt'] = main
        cases.append(dict(op='compile_file', file='proj/main.txt', files=files, meta=dict(family='multi-file', nwarn=nf)))
    # an unknown word is passed through even when the program has given that very word another meaning: the name of a function,
    # of a parameter, of a variable (functions are only ever called with RUN)
    for _ in range(count(tier, 40, 400)):
        nm = r.choice(['hold', 'release', 'attackmode', 'HOLD', 'Release', 'my_fn', 'x1', 'inject_mod', 'WAIT_FOR_BUTTON_PRESS'])
        arg = r.choice(['"b"', 'HID STORAGE', 'k', '1+1', ''])
        use = (nm + ' ' + arg).rstrip()
        out_use = (nm.upper() + ' ' + arg).rstrip()
        shape = r.choice(['func', 'func-param', 'var', 'func-loop'])
        if shape == 'func':
            lines = [f'FUNC {nm} key', '    $STRING "holding "+key', f'RUN {nm} "a"', use, 'STRING end']
            exp, unk = ['STRING holding a', out_use, 'STRING end'], [4]
        elif shape == 'func-param':
            lines = [f'FUNC press {nm}', f'    $STRING "p="+{nm}', f'    {use}', 'RUN press 7']
            exp, unk = ['STRING p=7', out_use], [3]
        elif shape == 'var':
            lines = [f'VAR {nm} 5', use, f'$STRING {nm}+1']
            exp, unk = [out_use, 'STRING 6'], [2]
        else:
            lines = [f'FUNC {nm}', '    STRING body', 'REPEAT 2', f'    {use}', f'RUN {nm}']
            exp, unk = [out_use, out_use, 'STRING body'], [4]
        cases.append(dict(op='compile', src=dict(text='\n'.join(lines)), meta=dict(family='word-with-another-meaning', exp=['ok', exp, [], None], unknown_lines=unk)))
    # only known commands: no such warning
    cases += [dict(c, meta=dict(c['meta'], unknown_lines=[], family='known-only')) for c in ast_cases(g, count(tier, 150, 1500), W, (5, 16), 4, 'known-only')]
    # IGNORE bodies
    for _ in range(count(tier, 150, 1500)):
        unit = g.units()
        depth = r.randint(0, 2)
        quoted = g.chance(0.6)
        body = [(r.choice(['', ' ', '  ', '\t', '   ']) if quoted else '', r.choice(['WHATEVER x', 'IF TRUE', 'string  y ', '$notevaluated 1+1', 'DELAY abc', 'REM r', 'END_IF', '"']) ) for _ in range(r.randint(1, 4))]
        # inside the quoted region a line that merely CONTAINS the quotes — indented deeper than the delimiters, possibly followed
        # by blanks or text — is content like any other
        if quoted:
            body = [(ind, r.choice(['"""', '"""  ', '""" doc', '"""\t'])) if ind != '' and g.chance(0.3) else (ind, t) for ind, t in body]
        ls = [unit * d + 'IF TRUE' for d in range(depth)]
        base = unit * depth
        ls.append(base + r.choice(['IGNORE', 'ignore']))
        if quoted: ls.append(base + unit + '"""')
        for ind, t in body: ls.append(base + unit + ind + t)
        if quoted: ls.append(base + unit + '"""')
        ls.append('STRING after')
        exp = [(ind + t) for ind, t in body] + ['STRING after']
        cases.append(dict(op='compile', src=dict(text='\n'.join(ls)), meta=dict(family='ignore', exp=['ok', exp, [], {}], unknown_lines=[])))
    # the warnings of a compilation are ITS warnings: the same Compiler object (or a new one) compiled programs before that met unknown
    # commands and then failed, or met them and succeeded; then a program of known commands only (no warning is due), or one whose
    # unknown lines are known
    BEFORE = ['ATTACKMODE HID\nINJECT_MOD x\n$STRING 1/0', 'HOLD a\nRELEASE a', 'WAIT_FOR_BUTTON_PRESS\nGUI toolong', 'IF TRUE\n    NOPE 1\n    VAR 1x 2',
              'FOO\nFUNC f\n    BAR\n    RUN f\nRUN f', 'STRING fine', '$STRING (1']
    for _ in range(count(tier, 60, 500)):
        key = r.choice(['k', 'k', None])
        steps = []
        for j in range(r.randint(1, 3)):
            if g.chance(0.2):
                steps.append(dict(op='compile_file', compiler=key, dir=f's{j}', file='proj/main.txt', files={'proj/main.txt': 'WHATNOT 1\nSTART lib', 'proj/lib.txt': 'LIBWORD x\n' + r.choice(['GUI toolong', 'STRING ok'])}))
            else:
                steps.append(dict(op='compile', compiler=key, dir=f's{j}', src=dict(text=r.choice(BEFORE))))
        if g.chance(0.5):
            last, unk = 'STRING hello\nENTER\nDELAY 5\nIF TRUE\n    CTRL c', []
        else:
            last, unk = 'STRING hello\nNEWWORD a b\nENTER\n$OTHERWORD 1+1', [2, 4]
        steps.append(dict(op='compile', compiler=key, dir='last', src=dict(text=last)))
        cases.append(dict(op='history', steps=steps, meta=dict(family='warnings-after-others', unknown_lines=unk, nocorr=True)))
    return cases


def oracle(cases, results):
    fs = ast_oracle(cases, results, ('out',), 'unknown')
    for i, (c, r) in enumerate(zip(cases, results)):
        m = c.get('meta', {})
        if 'nwarn' in m and r.get('kind') == 'ok':
            ws = [w for w in r['warns'] if w['kind'] == 'notExist']
            files = {tuple(w['trace'][-1][:2]) for w in ws if w.get('trace')}
            if len(files) != m['nwarn']:
                fs.append(fail(i, f'{m["nwarn"]} unknown commands in {m["nwarn"]} files ran, the warnings locate {sorted(files)}', 'multi-file:warnings'))
    for i, (c, r) in enumerate(zip(cases, results)):
        m = c.get('meta', {})
        if c.get('op') == 'history':
            if r.get('kind') != 'history' or not r.get('results'):
                fs.append(fail(i, f'history did not run: {str(r)[:200]}', 'warnings-after-others:broken')); continue
            r = r['results'][-1]
            if r.get('kind') != 'ok':
                fs.append(fail(i, f'the last compilation of the history should succeed: {r.get("kind")} {r.get("cls", r.get("exc"))}', 'warnings-after-others:kind')); continue
        if r.get('kind') != 'ok' or 'unknown_lines' not in m: continue
        got = sorted({w['arg'] for w in r['warns'] if w['kind'] == 'notExist'})
        located = sorted({w['trace'][-1][1] for w in r['warns'] if w['kind'] == 'notExist' and w.get('trace')})
        if got != m['unknown_lines'] or located != m['unknown_lines']:
            fs.append(fail(i, f'unknown-command warnings should locate lines {m["unknown_lines"]}: messages name {got}, traces end at {located}', f'{m["family"]}:warnings'))
    return fs
