"""C17 — compilations are independent of one another."""
from .common import *
FIELDS = ('out', 'warns', 'prints', 'vars', 'cls', 'trace')
RULE = 'histories of 2-12 compilations in one process (succeeding and failing programs, $-evaluated and plain uses of the same command, block keywords with and without a block, different options, reused and new Compiler objects, project configs) each step compared with the same compilation in a fresh process, and interpreter settings plus every module-/class-level attribute of the package compared before/after each history; distinct histories'
ASSUMPTIONS = ['a freshly forked child of a parent that has imported the package but never compiled stands for a fresh process; a sample is re-run in a newly started interpreter in the thorough tier']
SNIPPETS = [
    'GUI r', '$GUI "r"', 'HOLD a', '$HOLD 1+1', 'RELEASE a+b', 'STRING x', '$STRING 1+1', 'DELAY 5', 'ALT F4', '$ALT "F"+"4"',
    'IF TRUE\n    STRING a\nELSE\n    STRING b', 'STRING before\nIF TRUE\nSTRING after', 'WHILE a<3', 'IGNORE', 'ELSE', 'FUNC f\n    STRING in\nRUN f', 'FUNC',
    'VAR a 1\n$STRING a', '$STRING a', 'REM note\nSTRING y', 'ALTCHAR 65', 'REPEAT i,2\n    $STRING i', 'PRINT p\nSTRING q', 'DEFAULT_DELAY 5\nDELAY 1', '$DELAY 2*3',
    'GUI xx', '$STRING (1', 'RUN nosuch', 'STRING a\n  STRING b', 'EXIST a', 'VAR TRUE 1', 'CTRL c\n$CTRL "v"\nCTRL x', 'ENTER\n$ENTER 2\nENTER', 'WHITESPACE 2',
    'FOO\n    a\n    b', '$FOO\n    1\n    2', 'FOO 1+1', 'STRINGLN z z ', 'FUNC g a\n    $STRING a*2\nRUN g 4', 'WHILE c,c<2\n    $STRING c',
    # loops left or skipped before anything was output, followed by commands whose result is a plain list of lines (IGNORE bodies, the
    # old block-less REPEAT n line), and loops left after some output
    'REPEAT 3\n    BREAKLOOP\nIGNORE\n    raw line\nSTRING after', 'WHILE TRUE\n    BREAK_LOOP\nSTRING a\nREPEAT 2', 'REPEAT 2\n    CONTINUE\nIGNORE\n    """\n    kept\n    """',
    'REPEAT 2\n    STRING in\n    BREAKLOOP\nSTRING out', 'FUNC f\n    REPEAT 1\n        CONTINUELOOP\n    IGNORE\n        x y\nRUN f\nRUN f', 'WHILE w,w<2\n    IF w==1\n        BREAKLOOP\n    STRING t',
]
OPTS = [None, {}, dict(include_comments=True), dict(flipper_commands=False), dict(supress_command_not_exist=True), dict(stack_limit=5), dict(include_comments=True, stack_limit=7)]


def generate(g, tier):
    r = g.r
    cases = []
    for _ in range(count(tier, 120, 1200)):
        n = r.randint(2, 12)
        steps = []
        keys = ['A', 'B', None, None]
        kopts = {k: r.choice(OPTS) for k in keys if k}
        for s in range(n):
            key = r.choice(keys)
            text = r.choice(SNIPPETS) if g.chance(0.8) else g.case_general(0)['src']['text']
            opts = kopts[key] if key else r.choice(OPTS)
            if g.chance(0.2):
                # a project compile next to a config.yaml that differs from the caller's options
                cfg = dict(include_comments=r.choice([True, False]), stack_limit=r.choice([7, 20, 9]), flipper_commands=r.choice([True, False]))
                steps.append(dict(op='compile_file', compiler=key, opts=opts, dir=f's{s}', file='proj/main.txt', files={'proj/main.txt': text}, cfgs={'proj': cfg}))
            else:
                steps.append(dict(op='compile', compiler=key, opts=opts, dir=f's{s}', src=dict(text=text)))
        cases.append(dict(op='history', steps=steps, meta=dict(family='history', nocorr=True)))
    cases += revisit_histories(g, count(tier, 40, 400))
    # programs whose outcome depends on how much of the HOST's resources is left (a flat expression of about a thousand operands, the
    # deepest legal call chain at a large stack limit) after compilations that failed or succeeded under large stack limits: interpreter-
    # level settings (recursion limit, digit limit, working directory, environment) are process state too
    SENSITIVE = ['$STRING ' + '+'.join(['1'] * n) for n in (900, 1100, 1200, 1500, 3000)] + \
                ['\n'.join([f'FUNC g{k}\n    RUN g{k + 1}' for k in range(L - 2)] + [f'FUNC g{L - 2}\n    STRING bottom', 'RUN g0']) for L in (150, 199)]
    FAILING = ['GUI xx', '$STRING 1/0', 'FUNC f\n    RUN f\nRUN f', 'RUN nosuch', 'STRING a\n  STRING b', '$STRING ' + '+'.join(['1'] * 1300),
               '$STRING 10^5000', 'VAR big 7*10^4400\nDELAY big', '$STRING "n="+10^5000']
    SENSITIVE += ['$STRING 10^5000', '$STRING "n="+10^4999', '$STRING ' + '9' * 5000, 'VAR v 10^4300\n$STRING v']
    for _ in range(count(tier, 24, 120)):
        steps = []
        key = r.choice(['H', None])
        hopts = dict(stack_limit=r.choice([63, 100, 150, 200, 400, 1000]))      # a reused Compiler keeps the options it was built with
        for s in range(r.randint(1, 3)):
            k = r.choice([key, None])
            big = hopts if k else dict(stack_limit=r.choice([63, 100, 150, 200, 400, 1000]))
            steps.append(dict(op='compile', compiler=k, opts=big, dir=f's{s}', src=dict(text=r.choice(FAILING + SNIPPETS[:6]))))
        sens = r.choice(SENSITIVE)
        steps.append(dict(op='compile', compiler=None, opts=(dict(stack_limit=200) if sens.startswith('FUNC') else r.choice([None, dict(stack_limit=200)])), dir='last', src=dict(text=sens)))
        cases.append(dict(op='history', steps=steps, timeout=120, meta=dict(family='host-resources', nocorr=True)))
    return cases


def revisit_histories(g, n):
    """histories that come back to the SAME place: the same folder and file paths with other contents (imported files, the entry
    file, config.yaml), the same Compiler object given other options — each step must still equal the same step in a fresh process"""
    r = g.r
    out = []
    for _ in range(n):
        kind = r.choice(['import-content', 'entry-content', 'config-change', 'config-appears', 'reassign-options', 'mixed'])
        comp = r.choice(['R', 'R', None])
        kw = r.choice(['START', 'STARTENV', 'STARTCODE'])
        steps = []
        main = f'{kw} lib\nRUN show\nREM note\nALTCHAR 65\nSTRING end' if kw != 'STARTCODE' else f'{kw} lib\nREM note\nALTCHAR 65\nSTRING end'
        for k in range(r.randint(2, 4)):
            lib = f'STRING lib-v{k}\nFUNC show\n    STRING shown-v{k}\nVAR made {k}'
            st = dict(op='compile_file', compiler=comp, opts=dict(include_comments=True), dir='same', file='proj/main.txt',
                      files={'proj/main.txt': main, 'proj/lib.txt': lib if kind in ('import-content', 'mixed') or k == 0 else f'STRING lib-v0\nFUNC show\n    STRING shown-v0\nVAR made 0'})
            if kind in ('entry-content', 'mixed'): st['files']['proj/main.txt'] = main + f'\nSTRING round-{k}'
            if kind in ('config-change', 'mixed'): st['cfgs'] = {'proj': dict(include_comments=(k % 2 == 0), flipper_commands=(k % 3 != 1), stack_limit=20 + k)}
            if kind == 'config-appears' and k >= 1: st['cfgs'] = {'proj': dict(include_comments=False, flipper_commands=False)}
            if kind == 'reassign-options' and comp:
                st['opts'] = dict(include_comments=(k % 2 == 0), flipper_commands=(k != 1), supress_command_not_exist=(k == 2)); st['reassign'] = k > 0
                st['files']['proj/main.txt'] = main + '\nHOLD x'
            steps.append(st)
        out.append(dict(op='history', steps=steps, meta=dict(family='revisit-' + kind, nocorr=True)))
    return out


def oracle(cases, results):
    """each step of each history against the same step alone in a fresh process"""
    import impl
    fs = []
    singles, where = [], []
    for i, (c, r) in enumerate(zip(cases, results)):
        if c.get('op') != 'history' or r.get('kind') != 'history': 
            if c.get('op') == 'history': fs.append(fail(i, f'history did not run: {r}', 'history:broken'))
            continue
        if r.get('procDiff'):
            fs.append(fail(i, f'the history left process-level state changed: {r["procDiff"][:3]}', 'history:process-state:' + r['procDiff'][0].split(':')[0]))
        for j, st in enumerate(c['steps']):
            single = {k: v for k, v in st.items() if k not in ('compiler', 'dir', 'reassign')}
            singles.append(single); where.append((i, j))
    fresh = impl.run_cases(singles, fresh=True)
    def key(r):
        r = {k: v for k, v in r.items() if k not in ('id', 'msg', 'cfgNow', 'cfgAfter', 'slow')}
        return json.dumps(r, sort_keys=True, default=str)
    seen = set()
    for (i, j), fr in zip(where, fresh):
        hr = results[i]['results'][j]
        if key(hr) != key(fr) and i not in seen:
            seen.add(i)
            st = cases[i]['steps'][j]
            fs.append(fail(i, f'step {j} of the history ({st.get("src", st.get("files"))!r} with {st.get("opts")}) gives {json.dumps(hr)[:300]} but alone in a fresh process {json.dumps(fr)[:300]}',
                           f'history:{hr.get("kind")}:{hr.get("exc", hr.get("cls", ""))}-vs-{fr.get("kind")}:{fr.get("exc", fr.get("cls", ""))}'))
    return fs
