"""C18 — PRINT is a side channel: ordered, located, invisible in the output."""
from .common import *
from refinterp import *
import copy
FIELDS = ('out', 'prints', 'errprints', 'vars')
RULE = 'structured programs rich in PRINT/$PRINT at every nesting, plus PRINT->PASS metamorphic twins and failing variants; distinct texts with at least one PRINT'
W = dict(emit=4, assign=2, ifchain=2, repeat=2, whil=1, brk=1, func=1.2, call=2, ret=0.3, prnt=6, exist=0.1)


def strip_prints(body):
    out = []
    for s in body:
        s = copy.copy(s)
        if isinstance(s, Print): out.append(Pass()); continue
        if isinstance(s, IfChain):
            s.arms = [(c, strip_prints(b)) for c, b in s.arms]
            s.els = strip_prints(s.els) if s.els is not None else None
            s.between = [strip_prints(b) for b in s.between]
        elif isinstance(s, (Repeat, While, FuncDef)):
            s.body = strip_prints(s.body)
        out.append(s)
    return out


def generate(g, tier):
    from astgen import AstGen
    cases = []
    for k in range(count(tier, 500, 5000)):
        ag = AstGen(g.r, W, 4)
        body, _ = ag.program(g.r.randint(6, 20))
        unit = g.units()
        text, rd = render_ast(body, unit)
        it = Interp(rd.line_of, None)
        exp = it.program(body)
        if exp[0] != 'ok': continue
        # grouped PRINT forms and an empty-string $PRINT
        cases.append(dict(op='compile', src=dict(text=text), meta=dict(family='prints', exp=list(exp[:4]), group=k)))
        b2 = strip_prints(body)
        t2, rd2 = render_ast(b2, unit)
        cases.append(dict(op='compile', src=dict(text=t2), meta=dict(family='print->pass', exp=['ok', exp[1], [], exp[3]], group=k)))
        # a failure planted at the end: prints before it are still available
        # (a failure of every error class, raised at top level, inside a block, inside a function body)
        FAILS = ['$STRING 1/0', 'VAR 1x 5', 'FUNC 2bad\n{u}PASS', 'REPEAT 9i,3\n{u}PASS', 'WHILE 8w,TRUE\n{u}PASS', 'RUN nosuchfunc_zz', '$STRING nosuchvar_zz', 'DELAY "x"',
                 'GUI toolong', '$STRING (1', 'EXIST nosuchvar_zz', 'VAR zz9', 'FUNC okname 1bad,b\n{u}PASS', 'BREAKLOOP 1', '$STRING "a"-1', 'START nosuch', 'ALTCHAR 123456']
        fl = g.r.choice(FAILS).replace('{u}', unit)
        wrap = g.r.choice(['top', 'top', 'block', 'func', 'loop', 'import', 'import'])
        ind = lambda t, k: '\n'.join(unit * k + l for l in t.split('\n'))
        if wrap == 'top': planted = fl
        elif wrap == 'block': planted = 'IF TRUE\n' + ind(fl, 1)
        elif wrap == 'loop': planted = 'REPEAT 1\n' + unit + 'IF TRUE\n' + ind(fl, 2)
        else: planted = 'FUNC planted_f\n' + ind(fl, 1) + '\nRUN planted_f'
        if wrap == 'import':
            # the failure is raised while an imported file runs, after the importer and the file itself printed
            kw = g.r.choice(['START', 'STARTENV', 'STARTCODE'])
            files = {'proj/main.txt': text + f'\n{kw} failing\nPRINT never', 'proj/failing.txt': 'PRINT in-lib\nIF TRUE\n' + unit + 'PRINT in-lib-block\n' + fl}
            cases.append(dict(op='compile_file', file='proj/main.txt', files=files,
                              meta=dict(family='before-failure', errprints=exp[2] + [['in-lib', 1, None], ['in-lib-block', 3, None]], returns=it.ended_by_return)))
            continue
        t3 = text + '\n' + planted
        cases.append(dict(op='compile', src=dict(text=t3), meta=dict(family='before-failure', errprints=exp[2], returns=it.ended_by_return)))
    r = g.r
    # the print log of a compilation holds ITS prints: the same Compiler object (or a new one) used before for programs that printed and
    # then failed, or printed and succeeded, or failed inside an imported file
    STALE = ['PRINT stale\n$STRING 1/0', 'PRINT stale1\nPRINT stale2\nGUI toolong', 'PRINT fine\nSTRING a', 'FUNC f\n    PRINT deep\n    RUN f\nRUN f',
             'REPEAT i,3\n    $PRINT "it "+i\nVAR 1x 2', 'PRINT only']
    for k in range(count(tier, 60, 500)):
        ag = AstGen(g.r, W, 3)
        body, _ = ag.program(g.r.randint(3, 10))
        text, rd = render_ast(body, '    ')
        it = Interp(rd.line_of, None)
        exp = it.program(body)
        if exp[0] != 'ok': continue
        key = r.choice(['k', 'k', None])
        steps = []
        for j in range(r.randint(1, 3)):
            if g.chance(0.25):
                steps.append(dict(op='compile_file', compiler=key, dir=f's{j}', file='proj/main.txt',
                                  files={'proj/main.txt': 'PRINT importer\nSTART lib\nPRINT never', 'proj/lib.txt': 'PRINT in-lib\n' + r.choice(['GUI toolong', '  STRING misindented', 'STRING fine'])}))
            else:
                steps.append(dict(op='compile', compiler=key, dir=f's{j}', src=dict(text=r.choice(STALE))))
        if g.chance(0.5) or it.ended_by_return:
            steps.append(dict(op='compile', compiler=key, dir='last', src=dict(text=text)))
            cases.append(dict(op='history', steps=steps, meta=dict(family='prints-after-others', exp_last=list(exp[:4]), nocorr=True)))
        else:
            steps.append(dict(op='compile', compiler=key, dir='last', src=dict(text=text + '\n$STRING 1/0')))
            cases.append(dict(op='history', steps=steps, meta=dict(family='prints-after-others', errprints_last=exp[2], nocorr=True)))
    # a PRINT text may contain characters that some text-splitting routines treat as line boundaries (form feed, vertical tab, the
    # information separators, NEL, the Unicode line / paragraph separators, a bare carriage return): the line is one line, the text is
    # kept, the line numbers of later prints do not move
    for ch in ['\x0b', '\x0c', '\x1c', '\x1d', '\x1e', '\x85', '\u2028', '\u2029', '\r']:
        for shape in ('top', 'block'):
            if shape == 'top':
                t, pr = f'PRINT page one{ch}page two\nSTRING typed\nPRINT second', [[f'page one{ch}page two', 1, None], ['second', 3, None]]
            else:
                t, pr = f'REPEAT 2\n    PRINT a {ch} b\nSTRING typed\nPRINT last', [[f'a {ch} b', 2, None], [f'a {ch} b', 2, None], ['last', 4, None]]
            cases.append(dict(op='compile', src=dict(text=t), meta=dict(family='separator-chars', exp=['ok', ['STRING typed'], pr, {}], nocorr=True)))
    # an entry file opened through a symbolic link into another folder: imports are relative to the folder it was opened in
    for kw in ('START', 'STARTENV', 'STARTCODE'):
        files = {'shared/entry.txt': f'PRINT top\n{kw} helper\nPRINT bottom', 'shared/helper.txt': 'PRINT shared helper\nSTRING from-shared', 'proj/helper.txt': 'PRINT project helper\nSTRING from-proj'}
        out = [] if kw == 'STARTENV' else ['STRING from-proj']
        cases.append(dict(op='compile_file', file='proj/main.txt', files=files, symlinks={'proj/main.txt': 'shared/entry.txt'},
                          meta=dict(family='symlinked-entry', exp=['ok', out, [['top', 1, None], ['project helper', 1, None], ['bottom', 3, None]], None], nocorr=True)))
    for _ in range(count(tier, 100, 600)):
        # grouped and empty prints, inside a function called in a loop
        lines = ['FUNC show p', '    $PRINT p', '    PRINT', '        one', '        two', '    $PRINT', '        ""', '        "x"+p',
                 'REPEAT i,%d' % r.randint(1, 3), '    RUN show i', '    RUN show ""', 'PRINT end']
        n = int(lines[8].split(',')[1])
        pr = []
        for i in range(n):
            for p in (str(i), ''):
                pr += [[p, 2], ['one', 4], ['two', 5], ['', 7], ['x' + p, 8]]
        pr.append(['end', 12])
        cases.append(dict(op='compile', src=dict(text='\n'.join(lines)), meta=dict(family='grouped', exp=['ok', [], [p + [None] for p in pr], {}])))
        # overflow after prints: the prints must still be reachable from the error
        lim = r.choice([5, 6, 8])
        t = 'FUNC dive d\n    $PRINT "depth "+d\n    RUN dive d+1\nRUN dive 0'
        cases.append(dict(op='compile', opts=dict(stack_limit=lim), src=dict(text=t),
                          meta=dict(family='overflow', errprints=[[f'depth {i}', 2, None] for i in range(lim - 1)])))
    return cases


def oracle(cases, results):
    fs = ast_oracle(cases, results, ('out', 'prints', 'vars'), 'prints')
    for i, (c, r) in enumerate(zip(cases, results)):
        m = c.get('meta', {})
        if c.get('op') == 'history' and r.get('kind') != 'hang':
            if r.get('kind') != 'history' or not r.get('results'):
                fs.append(fail(i, f'history did not run: {str(r)[:200]}', 'prints-after-others:broken')); continue
            last = r['results'][-1]
            if 'exp_last' in m:
                if last.get('kind') != 'ok':
                    fs.append(fail(i, f'the last compilation of the history should succeed: {last.get("kind")} {last.get("cls", last.get("exc"))}', 'prints-after-others:kind')); continue
                got = [p[:2] for p in (last.get('prints') or [])]
                if got != [list(p[:2]) for p in m['exp_last'][2]] or last.get('out') != m['exp_last'][1]:
                    fs.append(fail(i, f'after other compilations the print log / output of a program is not its own: prints expected {m["exp_last"][2][:5]} got {(last.get("prints") or [])[:5]}', 'prints-after-others:prints'))
            else:
                got = [p[:2] for p in (last.get('prints') or [])]
                if last.get('kind') != 'cerr' or got != [list(p[:2]) for p in m['errprints_last']]:
                    fs.append(fail(i, f'after other compilations the prints reported with a failure are not that compilation\'s own: expected {m["errprints_last"][:5]} got {last.get("kind")} {(last.get("prints") or [])[:5]}', 'prints-after-others:errprints'))
            continue
        if 'errprints' in m and r.get('kind') != 'hang':
            if m.get('returns'): continue
            if r.get('kind') == 'crash':
                fs.append(fail(i, f'prints before a failure are not available: {r}', f'{m["family"]}:crash:{r.get("exc")}')); continue
            if r.get('kind') != 'cerr': 
                fs.append(fail(i, f'expected a compile error, got {r.get("kind")}', f'{m["family"]}:no-error')); continue
            got = [p[:2] for p in (r.get('prints') or [])]
            if got != [p[:2] for p in m['errprints']]:
                fs.append(fail(i, f'prints executed before the failure: expected {m["errprints"][:6]} got {(r.get("prints") or [])[:6]}', f'{m["family"]}:errprints'))
    return fs
