"""C19 — the CLI writes its output file all-or-nothing and touches nothing else."""
import yaml
from .common import *
from refinterp import *
from astgen import AstGen
FIELDS = ()
LEVEL = 'proof'
FRESH = True     # the CLI caches its configuration per process: every case runs in a freshly forked process
RULE = 'the real cli.compile.compile / cli.new.new in a scratch HOME and cwd (fresh process each): sources succeeding / failing at any point (after output was produced, inside imported files) x prior output state (absent, stale) x project/global configs x sequences of 1-4 invocations; byte-level snapshot of the whole tree before/after, YAML compared by meaning; every sequence in the domain of the CLI model (configuration given by meaning, compile / new / edit-the-project-file invocations) is also run through Model/Cli.lean (driver op cli) and compared step by step; distinct invocation sequences'
ASSUMPTIONS = ['atomicity of Path.write_text against a crash of the process mid-write is OS behaviour outside the model']
W = dict(emit=5, assign=2, ifchain=2, repeat=1.5, whil=0.5, brk=0.3, func=1, call=1.5, ret=0, prnt=1.5, exist=0.1)
DEFAULTS = dict(stack_limit=20, include_comments=False, flipper_commands=True, supress_command_not_exist=False, use_project_config=True)


def denote(text):
    try:
        d = yaml.safe_load(text) or {}
        o = dict(DEFAULTS); o.update(d); return o
    except Exception as ex:
        return 'unreadable'


def generate(g, tier):
    r = g.r
    cases = []
    for _ in range(count(tier, 120, 1200)):
        invs, files, metas = [], {}, []
        home_cfg = r.choice([None, None, dict(DEFAULTS), dict(stack_limit=150), dict(include_comments=True, stack_limit=30), dict(use_project_config=False, stack_limit=9), dict(stack_limit=3), dict(stack_limit=500), dict(stack_limit=0, include_comments=True)])
        cfgs = {}
        if g.chance(0.4): cfgs['proj'] = r.choice([dict(include_comments=True), dict(DEFAULTS), dict(stack_limit=7, use_project_config=True), dict(use_project_config=False, include_comments=True), dict(flipper_commands=False), dict(stack_limit=1000), dict(stack_limit=4, include_comments=True), dict(stack_limit=201)])
        pre = {}
        for k in range(r.randint(1, 4)):
            ag = AstGen(g.r, W, 3)
            body, sc = ag.program(r.randint(1, 10))
            kind = r.choice(['ok', 'ok', 'fail-end', 'fail-import', 'ok-import', 'empty'])
            src = f'proj/s{k}.txt'
            out = r.choice(['a.txt', f'out/o{k}.txt' if False else f'o{k}.txt', 'proj/build.txt'])
            if kind == 'empty': body = [Assign('greeting', Lit('hello')), FuncDef('greet', ['name'], [Emit('never')])]
            text, rd = render_ast(body)
            it = Interp(rd.line_of, None); exp = it.program(body)
            if exp[0] != 'ok': continue
            exp_out, exp_prints = exp[1], [p[0] for p in exp[2]]
            inv_limit = r.choice([5, 20, 200]) if g.chance(0.3) else None
            # the expectation below is that of the program itself: keep every stack limit that may be in force
            # (command line, project file, home file, default) clear of the program's own nesting
            # (a project file that applies replaces ALL options, a limit given on the command line included)
            in_force = [inv_limit, DEFAULTS['stack_limit'], (home_cfg or {}).get('stack_limit'), cfgs.get('proj', {}).get('stack_limit')]
            tight = any(l is not None and it.max_depth + 3 > l for l in in_force)
            if kind == 'fail-end':
                text += '\n$STRING 1/0'; nlines = text.count('\n') + 1
                m = dict(expect='fail', cls='DivideByZeroError', line=nlines, prints=exp_prints)
            elif kind == 'fail-import':
                files[f'proj/bad{k}.txt'] = 'STRING from-lib\nPRINT libprint\nGUI toolong'
                text += f'\nSTART bad{k}'
                m = dict(expect='fail', cls='InvalidArgumentsError', line=3, prints=exp_prints + ['libprint'])
            elif kind == 'ok-import':
                files[f'proj/lib{k}.txt'] = 'STRING from-lib'
                text += f'\nSTART lib{k}'
                m = dict(expect='ok', out=exp_out + ['STRING from-lib'])
            else:
                m = dict(expect='ok', out=exp_out)
            if tight: m = dict(expect='either')     # a limit near the program's own nesting: only the side effects are judged
            files[src] = text
            if m.get('expect') == 'fail' and g.chance(0.35): out = r.choice(['newdir/o.txt', 'build/deep/er/payload.txt', 'proj/out/o.txt'])
            # files that merely sit next to the output path (a backup, a temporary name, an editor's swap file) are none of the command's business
            if g.chance(0.5):
                stem = out.rsplit('.', 1)[0]
                for sib in r.sample([stem + '.tmp', out + '.tmp', out + '.bak', out + '~', stem + '.part', '.' + out.split('/')[-1] + '.swp', stem, stem + '.txt.new'], 2):
                    if sib not in pre and sib != out and not any(i['output'] == sib for i in invs): pre[sib] = 'SIBLING ' + sib
            stale = r.choice([None, 'STALE PAYLOAD\n', ''])
            if g.chance(0.45):
                # what lies at the output path may be ANY bytes: the payload this very compilation produces (nothing to change), the
                # same lines with other line endings or a final newline, a prefix or an extension of it, bytes that are no text at all
                want = '\n'.join(m['out']) if m.get('expect') == 'ok' else 'STRING old\nENTER'
                stale = r.choice([want, want + '\n', dict(hex=want.replace('\n', '\r\n').encode().hex()), dict(hex=want.replace('\n', '\r').encode().hex()),
                                  dict(hex=(want + '\r\n').encode().hex()), want + '\nSTRING more', want[:max(0, len(want) // 2)], dict(hex='fffe8000ff41'),
                                  dict(hex=want.encode('utf-16').hex()), dict(hex=('\ufeff' + want).encode().hex()), ' ' + want, want.lower()])
            if stale is not None and out not in pre and not any(i['output'] == out for i in invs): pre[out] = stale
            inv = dict(cmd='compile', file=src, output=out)
            if inv_limit is not None: inv['stack_limit'] = inv_limit
            if g.chance(0.3): inv['comments'] = r.choice([True, False])
            invs.append(inv); metas.append(m)
        if invs:
            cases.append(dict(op='cli', home_cfg=home_cfg, files=files, cfgs=cfgs, pre_files=pre, invocations=invs, meta=dict(family='compile', steps=metas, nocorr=True)))
    # every well-formed way of writing the project file: comments, yes/no/on/off, flow style, document markers, a repeated key,
    # an empty file — the compile follows what the file MEANS, and rewriting it keeps that meaning
    YAML_FORMS = [('# my project\ninclude_comments: yes\n', True), ('---\ninclude_comments: true\n...\n', True), ('{include_comments: true, stack_limit: 30}\n', True),
                  ('include_comments: on\nflipper_commands: on\n', True), ('include_comments: true # trailing\n', True), ('', False), ('# only a comment\n', False),
                  ('include_comments: true\ninclude_comments: false\n', False), ('include_comments: no\nstack_limit: 0x1E\n', False), ('include_comments: True\n', True),
                  ('include_comments:   true\n\n\nstack_limit:    25\n', True), ('"include_comments": true\n', True), ('include_comments: TRUE\n', True)]
    for form, comments in YAML_FORMS:
        for homeflag in (None, dict(include_comments=not comments)):
            out = (['REM note'] if comments else []) + ['STRING body']
            cases.append(dict(op='cli', home_cfg=homeflag, files={'proj/s.txt': 'REM note\nSTRING body'}, cfgs={'proj': form}, pre_files={},
                              invocations=[dict(cmd='compile', file='proj/s.txt', output='o.txt'), dict(cmd='compile', file='proj/s.txt', output='o2.txt')],
                              meta=dict(family='compile', steps=[dict(expect='ok', out=out), dict(expect='ok', out=out)], nocorr=True)))
    # source lines, messages and PRINT texts that look like console markup are reported literally (and never make the command raise)
    MARK = ['[/]', '[red]', '[/b] x', '[bold]t[/bold]', '[link=y]', '[#ff0000]z', '\\[x]', '[[a]]', '[/red', 'a\\']
    for mk in MARK:
        for shape in ('print-ok', 'print-fail', 'warn', 'fail-line', 'fail-import'):
            files = {}
            if shape == 'print-ok': text, m = f'PRINT {mk}\nSTRING a', dict(expect='ok', out=['STRING a'])
            elif shape == 'print-fail': text, m = f'PRINT {mk}\n$STRING 1/0', dict(expect='fail', cls='DivideByZeroError', line=2, prints=[mk.strip()])
            elif shape == 'warn': text, m = f'STRING ok\nFOO {mk}', dict(expect='ok', out=['STRING ok', f'FOO {mk.strip()}'])
            elif shape == 'fail-line': text, m = f'PRINT p\nGUI {mk} long', dict(expect='fail', cls='InvalidArgumentsError', line=2, prints=['p'])
            else:
                files['proj/lib.txt'] = f'PRINT {mk}\nGUI {mk} long'
                text, m = 'PRINT before\nSTART lib', dict(expect='fail', cls='InvalidArgumentsError', line=2, prints=['before', mk.strip()])
            files['proj/s.txt'] = text
            cases.append(dict(op='cli', home_cfg=None, files=files, cfgs={}, pre_files={}, invocations=[dict(cmd='compile', file='proj/s.txt', output='o.txt')],
                              meta=dict(family='compile', steps=[m], nocorr=True)))
    for _ in range(count(tier, 30, 250)):
        text = 'REM note\nSTRING body\nALTCHAR 65'
        c1 = dict(include_comments=r.choice([True, False]), flipper_commands=True, stack_limit=r.choice([20, 30]))
        c2 = dict(include_comments=not c1['include_comments'], flipper_commands=r.choice([True, True, False]), stack_limit=r.choice([50, 7]))
        def expect(cfg):
            if not cfg['flipper_commands']: return dict(expect='fail', cls='InvalidCommand', line=3, prints=[])
            return dict(expect='ok', out=(['REM note'] if cfg['include_comments'] else []) + ['STRING body', 'ALTCHAR 65'])
        import yaml as _y
        where = 'proj'       # (the global file is read once per process — one CLI run; only the project file is re-read by every compile)
        invs = [dict(cmd='compile', file='proj/s.txt', output='o1.txt'),
                dict(cmd='write', path=('proj/config.yaml' if where == 'proj' else '../home/.duckling/config.yaml'), content=_y.dump(dict(DEFAULTS, **c2) if where == 'home' else c2), dir='proj', cfg=c2),
                dict(cmd='compile', file='proj/s.txt', output='o2.txt')]
        steps = [expect(c1), dict(expect='write'), expect(c2)]
        cases.append(dict(op='cli', home_cfg=(dict(DEFAULTS, **c1) if where == 'home' else None), files={'proj/s.txt': text}, cfgs=({'proj': c1} if where == 'proj' else {}),
                          pre_files={}, invocations=invs, meta=dict(family='compile', steps=steps, nocorr=True)))
    # the deepest programs the command line can be asked for: runaway and deepest-legal recursion at the largest stack limits it accepts
    # (a limit given on the command line, in the project file or in the home file) end in a REPORTED StackOverflowError / succeed —
    # the command never raises, the output path keeps what it held, the prints made on the way are in the report
    DEEP = [('FUNC f\n    RUN f\nPRINT going\nRUN f', 2), ('FUNC f n\n    IF n >= 0\n        RUN f n+1\nPRINT going\nRUN f 0', 3),
            ('FUNC f\n    REPEAT 1\n        RUN f\nPRINT going\nRUN f', 3), ('FUNC f n\n    IF n < 0\n        STRING never\n    ELSE\n        RUN f n+1\nPRINT going\nRUN f 0', 5)]
    for text, line in DEEP:
        for lim, via in ((200, 'cmd'), (200, 'proj'), (150, 'cmd'), (199, 'home')) if tier != 'quick' else ((200, r.choice(['cmd', 'proj'])), (r.choice([150, 199]), r.choice(['cmd', 'home']))):
            inv = dict(cmd='compile', file='proj/s.txt', output='o.txt')
            if via == 'cmd': inv['stack_limit'] = lim
            cases.append(dict(op='cli', home_cfg=(dict(DEFAULTS, stack_limit=lim) if via == 'home' else None), files={'proj/s.txt': text},
                              cfgs=({'proj': dict(stack_limit=lim)} if via == 'proj' else {}), pre_files={'o.txt': 'STALE PAYLOAD\n'}, invocations=[inv],
                              meta=dict(family='compile', steps=[dict(expect='fail', cls='StackOverflowError', line=line, prints=['going'])], nocorr=True, slow=True)))
    for lim in (200, 150):
        # the deepest legal chain: one call per level, lim - 2 levels below the program's own stack
        text = f'FUNC f n\n    $STRING n\n    IF n < {lim // 2 - 2}\n        RUN f n+1\nRUN f 0'
        cases.append(dict(op='cli', home_cfg=None, files={'proj/s.txt': text}, cfgs={}, pre_files={},
                          invocations=[dict(cmd='compile', file='proj/s.txt', output='o.txt', stack_limit=lim)],
                          meta=dict(family='compile', steps=[dict(expect='ok', out=[f'STRING {i}' for i in range(lim // 2 - 1)])], nocorr=True, slow=True)))
    # the same unchanged source compiled again to the SAME output path with other options: the file holds what THIS compilation produced
    for _ in range(count(tier, 20, 120)):
        text = 'REM note\nSTRING body\nIF TRUE\n    IF TRUE\n        IF TRUE\n            IF TRUE\n                IF TRUE\n                    STRING deep'
        c1, c2 = r.sample([dict(comments=True), dict(comments=False), dict(stack_limit=5), dict(stack_limit=50, comments=True), dict()], 2)
        def expect2(o):
            if o.get('stack_limit') == 5: return dict(expect='fail', cls='StackOverflowError', line=7, prints=[])
            return dict(expect='ok', out=(['REM note'] if o.get('comments') else []) + ['STRING body', 'STRING deep'])
        invs = [dict(cmd='compile', file='proj/s.txt', output='out.txt', **c1), dict(cmd='compile', file='proj/s.txt', output='out.txt', **c2)]
        if g.chance(0.4): invs.append(dict(cmd='compile', file='proj/s.txt', output='out.txt', **c1))
        steps = [expect2(c1), expect2(c2)] + ([expect2(c1)] if len(invs) == 3 else [])
        cases.append(dict(op='cli', home_cfg=None, files={'proj/s.txt': text}, cfgs={}, pre_files={}, invocations=invs, meta=dict(family='compile', steps=steps, nocorr=True)))
    for _ in range(count(tier, 30, 200)):
        name = r.choice(['demo', 'My Project', 'x1', 'a-b', 'UPPER', 'bad_name', 'é'])
        path = r.choice([None, 'sub', 'deep/er'])
        invs = [dict(cmd='new', name=name, path=path)]
        if g.chance(0.6): invs.append(dict(cmd='new', name=name, path=path))
        canon = name.strip().lower().replace(' ', '-')
        valid = all(ch in 'abcdefghijklmnopqrstuvwxyz1234567890-' for ch in canon)
        base = (path + '/' if path else '') + canon
        pre = {base + '/keep.txt': 'mine'} if g.chance(0.2) and valid else {}
        if valid and not pre: invs.append(dict(cmd='compile', file=base + '/main.txt', output='hello.txt'))
        cases.append(dict(op='cli', home_cfg=None, invocations=invs, pre_files=pre,
                          meta=dict(family='new', base=base, valid=valid, nocorr=True)))
    for c in cases:
        if eligible(c): c['meta']['clicorr'] = True
    return cases


def eligible(c):
    """cases the CLI model (Model/Cli.lean: cliCompile over an abstract file system) can be asked about: compile invocations and edits
    of the project file, configuration files given by their meaning"""
    if c.get('op') != 'cli' or c.get('meta', {}).get('family') not in ('compile', 'new'): return False
    if not all(isinstance(v, dict) for v in (c.get('cfgs') or {}).values()): return False
    if c.get('home_cfg') is not None and not isinstance(c['home_cfg'], dict): return False
    return all(i['cmd'] in ('compile', 'new') or (i['cmd'] == 'write' and 'cfg' in i) for i in c['invocations'])


def model_view(c):
    pre = {p: (t if isinstance(t, str) else '<bytes>') for p, t in (c.get('pre_files') or {}).items()}
    invs, made = [], set()
    for i in c['invocations']:
        if i['cmd'] == 'new':
            canon = i['name'].strip().lower().replace(' ', '-')
            d = ((i['path'] + '/') if i.get('path') else '') + canon
            ex = d in made or any(p.startswith(d + '/') for p in pre)
            i = dict(i, dir=d, canon=canon, exists=ex)
            if not ex and all(ch in 'abcdefghijklmnopqrstuvwxyz1234567890-' for ch in canon): made.add(d)
        invs.append(i)
    return dict(op='cli', id=c.get('id'), files=c.get('files') or {}, cfgs=c.get('cfgs') or {}, home_cfg=c.get('home_cfg'), pre_files=pre, invocations=invs)


def model_diff(c, r, m):
    """where the real command line and the CLI model (the function the C19 theorems are about) differ on one sequence of invocations:
    success / failure, the bytes at the output path, which files changed, error class, innermost lines, prints, what the project
    and global configuration files denote afterwards"""
    if r.get('kind') != 'cli' or m is None or m.get('kind') != 'cli': return None
    for k, (inv, st, ms) in enumerate(zip(c['invocations'], r['steps'], m['steps'])):
        if inv['cmd'] == 'new':
            if st['raised']: return dict(step=k, impl='raised ' + st['raised'], model='new')
            b, a = st['before'], st['after']
            made_i = sorted(p for p in a if p not in b and not p.endswith('/') and not p.startswith('home/'))
            made_m = sorted(['work/' + p for p in ms.get('created') or []] + (['work/' + ms['created'][0].rsplit('/', 1)[0] + '/config.yaml'] if ms.get('cfgCreated') is not None and ms.get('created') else []))
            if made_i != made_m: return dict(step=k, what='files created by new', impl=made_i, model=made_m)
            if ms.get('created'):
                base = 'work/' + ms['created'][0].rsplit('/', 1)[0]
                if a.get(base + '/main.txt') != ms.get('mainText'): return dict(step=k, what='main file', impl=a.get(base + '/main.txt'), model=ms.get('mainText'))
                if denote(a.get(base + '/config.yaml', '')) != ms.get('cfgCreated'): return dict(step=k, what='new project config', impl=a.get(base + '/config.yaml'), model=ms.get('cfgCreated'))
            continue
        if inv['cmd'] != 'compile': continue
        if ms.get('kind') in ('oom', 'unsupported', 'crash'): return None       # the model declines; the state afterwards is unknown to it
        if st['raised']: return dict(step=k, impl='raised ' + st['raised'], model=ms.get('kind'))
        b, a, so = st['before'], st['after'], st['stdout']
        outp = 'work/' + inv.get('output', 'a.txt')
        was_pre = isinstance((c.get('pre_files') or {}).get(inv.get('output', 'a.txt')), dict)
        ok_i, fail_i = 'Compilation complete!' in so, 'Compile failed with an error.' in so
        if ms['kind'] == 'success':
            if not ok_i: return dict(step=k, impl='no success report', model='success', stdout=so[-200:])
            if a.get(outp) != ms['outText']: return dict(step=k, what='output file', impl=a.get(outp, '<absent>')[:200], model=(ms['outText'] or '')[:200])
            # (the number of warnings is not comparable: the implementation de-duplicates them by object identity, the model by value)
            if bool(ms.get('warnings')) != ('(with ' in so and ' warning' in so): return dict(step=k, what='warnings reported', impl=so[-200:], model=ms.get('warnings'))
        else:
            if not fail_i: return dict(step=k, impl='no failure report', model=ms.get('cls'), stdout=so[-200:])
            if ms['cls'] + ':' not in so: return dict(step=k, what='error class', impl=so[-300:], model=ms['cls'])
            if a.get(outp) != b.get(outp): return dict(step=k, what='output path on failure', impl='changed', model='untouched')
            for f in ms.get('trace') or []:
                if f'n line {f[1]}' not in so: return dict(step=k, what='trace line', impl=so[-400:], model=ms['trace'])
        for pr in ms.get('prints') or []:
            if pr[0] and pr[0] not in so: return dict(step=k, what='prints', impl=so[-300:], model=ms['prints'])
        changed_i = sorted(p for p in set(a) | set(b) if a.get(p) != b.get(p) and not p.endswith('config.yaml') and not p.endswith('/'))
        changed_m = sorted('work/' + p for p in ms.get('changed') or [])
        if not was_pre and changed_i != changed_m: return dict(step=k, what='files changed', impl=changed_i, model=changed_m)
        pdir = '/'.join(inv['file'].split('/')[:-1])
        pc = a.get('work/' + (pdir + '/' if pdir else '') + 'config.yaml')
        if (pc is None) != (ms['projAfter'] is None): return dict(step=k, what='project file exists', impl=pc, model=ms['projAfter'])
        if pc is not None and denote(pc) != ms['projAfter']: return dict(step=k, what='project file meaning', impl=denote(pc), model=ms['projAfter'])
        gc = a.get('home/.duckling/config.yaml')
        if gc is not None and ms['globalAfter'] is not None and denote(gc) != ms['globalAfter']: return dict(step=k, what='global file meaning', impl=denote(gc), model=ms['globalAfter'])
    return None


def cfg_paths(snap):
    return {p for p in snap if p.endswith('config.yaml')}


def oracle(cases, results):
    fs = []
    for i, (c, r) in enumerate(zip(cases, results)):
        m = c.get('meta', {})
        if r.get('kind') == 'hang': continue
        if r.get('kind') != 'cli':
            fs.append(fail(i, f'CLI harness failed: {r}', f'cli:{r.get("kind")}:{r.get("exc")}')); continue
        for k, st in enumerate(r['steps']):
            inv = c['invocations'][k]
            b, a = st['before'], st['after']
            if inv['cmd'] == 'write': continue
            if st['raised']:
                fs.append(fail(i, f'invocation {k} {inv} raised {st["raised"]} instead of reporting', f'cli:raised:{st["raised"].split(":")[0]}')); break
            changed = {p for p in set(a) | set(b) if a.get(p) != b.get(p)}
            # config files may be rewritten, never with another meaning
            bad = None
            for p in sorted(changed):
                if p.endswith('config.yaml') and (p.startswith('home/.duckling/') or True):
                    if p in b and denote(a.get(p, '')) != denote(b[p]): bad = f'{p} changed meaning: {b[p]!r} -> {a.get(p)!r}'
                    if p not in b and p.startswith('home/') and denote(a[p]) != DEFAULTS: bad = f'{p} created with non-default meaning'
            if bad:
                fs.append(fail(i, f'invocation {k}: {bad}', 'cli:config-meaning')); break
            others = {p for p in changed if not p.endswith('config.yaml')}
            if m['family'] == 'compile':
                sm = m['steps'][k]
                outp = 'work/' + inv['output']
                if sm['expect'] == 'either':
                    if (others - {outp}) if outp in changed else others:
                        fs.append(fail(i, f'invocation {k}: other files touched: {sorted(others - {outp})}', 'cli:other-files')); break
                elif sm['expect'] == 'ok':
                    want = '\n'.join(sm['out'])
                    if a.get(outp) != want:
                        fs.append(fail(i, f'invocation {k}: output file should hold {want[:80]!r}, holds {a.get(outp, "<absent>")[:80]!r}', 'cli:output-content')); break
                    if others - {outp}:
                        fs.append(fail(i, f'invocation {k}: other files touched: {sorted(others - {outp})}', 'cli:other-files')); break
                else:
                    if outp in changed:
                        fs.append(fail(i, f'invocation {k}: compile failed but the output path changed: {b.get(outp, "<absent>")!r} -> {a.get(outp, "<absent>")!r}', 'cli:output-on-failure')); break
                    if others:
                        fs.append(fail(i, f'invocation {k}: files touched on failure: {sorted(others)}', 'cli:other-files')); break
                    so = st['stdout']
                    if sm['cls'] not in so or f'line {sm["line"]}' not in so:
                        fs.append(fail(i, f'invocation {k}: the report lacks the error class {sm["cls"]} / location line {sm["line"]}: {so[-300:]!r}', 'cli:report')); break
                    if any(p not in so for p in sm['prints']):
                        fs.append(fail(i, f'invocation {k}: captured prints {sm["prints"]} missing from the report', 'cli:report-prints')); break
            else:
                base = 'work/' + m['base']
                if inv['cmd'] == 'new':
                    existed = any(p.startswith(base + '/') for p in b)
                    if not m['valid'] or existed:
                        if changed - cfg_paths(changed):
                            fs.append(fail(i, f'new on an existing/invalid project changed files: {sorted(changed)}', 'cli:new-touched')); break
                    else:
                        made = {p for p in a if p not in b and not p.endswith('/')}
                        if made - {p for p in made if p.startswith('home/')} != {base + '/config.yaml', base + '/main.txt'}:
                            fs.append(fail(i, f'new created {sorted(made)}', 'cli:new-files')); break
                        if denote(a[base + '/config.yaml']) != DEFAULTS:
                            fs.append(fail(i, f'new project config is not the defaults: {a[base + "/config.yaml"]!r}', 'cli:new-config')); break
                else:
                    if a.get('work/hello.txt') != 'STRING Hello, World!':
                        fs.append(fail(i, f'the new project does not compile to the hello-world line: {a.get("work/hello.txt")!r} {st["stdout"][-200:]!r}', 'cli:new-hello')); break
    return fs
