"""C20 — identifier rules are enforced uniformly and accepted names are usable."""
import re, itertools
from .common import *
FIELDS = ('out', 'vars', 'cls')
RULE = 'quick: all strings of length <= 2 (thorough: <= 3) over {a b T 1 _ $ - . 日 é} at each of the five defining constructs; random sets of 1-6 simultaneously defined names closed under prefixes (in every definition order), each read by $STRING and tested by EXIST; distinct (name, construct) / name sets'
IDENT = re.compile(r'^[A-Za-z_][A-Za-z0-9_]*$')
ALPHA = ['a', 'b', 'T', '1', '_', '$', '-', '.', '日', 'é']
CONSTRUCTS = ['var', 'func', 'param', 'repeat', 'while']
RESERVED = ('TRUE', 'FALSE')


def reserved_clash(n):
    """names that are a proper prefix of, equal to, or an extension of TRUE/FALSE (known finding D14)"""
    return any(k.startswith(n) or n.startswith(k) for k in RESERVED)


def define(construct, name, count0=False):
    """program text defining `name` with the construct and then probing that nothing was stored on rejection"""
    if construct == 'var': return f'VAR {name} 7\nSTRING defined'
    if construct == 'func': return f'FUNC {name}\n    STRING body\nSTRING defined'
    if construct == 'param': return (f'FUNC f {name}\n    STRING body\nSTRING defined' if name else 'FUNC f a,,b\n    STRING body\nSTRING defined')
    if construct == 'repeat': return f'REPEAT {name},{0 if count0 else 2}\n    STRING it\nSTRING defined'
    if construct == 'while': return f'WHILE {name},{name}<2\n    STRING it\nSTRING defined' if IDENT.match(name) and not reserved_clash(name) else f'WHILE {name},FALSE\n    STRING it\nSTRING defined'


def generate(g, tier):
    r = g.r
    cases = []
    maxlen = 2 if tier == 'quick' else 3
    names = ['']
    for n in range(1, maxlen + 1):
        names += [''.join(t) for t in itertools.product(ALPHA, repeat=n)]
    names += ['abc', 'a1_', '_1', 'A9', 'x' * 30, 'a b', 'a,b', 'TRUE', 'FALSE', 'TRUEX', 'T', 'F', 'FA', 'TR', 'true', 'Tx', '$a', '$DEFAULT_DELAY', 'a$', '1a', 'ａ', 'a\t']
    for nm in names:
        for c in CONSTRUCTS:
            if any(ch in nm for ch in ' \t,') and c != 'var': continue
            if ' ' in nm or '\t' in nm: continue
            if nm == '' and c in ('var', 'func'): continue
            cases.append(dict(op='compile', src=dict(text=define(c, nm)), meta=dict(family='define-' + c, name=nm, valid=bool(IDENT.match(nm)))))
        cases.append(dict(op='compile', src=dict(text=define('repeat', nm, True)), meta=dict(family='define-repeat0', name=nm, valid=bool(IDENT.match(nm)))))
    # the rules hold the SECOND time too: the same construct (for functions: the same function name) was used validly earlier in the
    # compilation — at top level, in a block, in a function that is run twice, in a file imported twice
    AGAIN = ['1b', '$x', 'a-b', '$DEFAULT_DELAY', 'a.b', '日', '9', 'ok_1', 'B2', '_']
    PRE = {'var': ['VAR good 1\n', 'VAR good 1\nVAR good 2\n'],
           'func': ['FUNC good\n    PASS\n', 'FUNC f\n    PASS\nRUN f\n'],
           'param': ['FUNC f a\n    STRING first\n', 'FUNC f a\n    STRING first\nRUN f 1\n', 'FUNC f\n    STRING first\nFUNC f b\n    STRING second\n'],
           'repeat': ['REPEAT i,1\n    PASS\n', 'REPEAT i,2\n    REPEAT j,1\n        PASS\n'],
           'while': ['WHILE w,w<1\n    PASS\n']}
    for nm in AGAIN:
        for c in CONSTRUCTS:
            for pre in PRE[c]:
                cases.append(dict(op='compile', src=dict(text=pre + define(c, nm)), meta=dict(family='define-again-' + c, name=nm, valid=bool(IDENT.match(nm)))))
            body = '\n'.join('    ' + l for l in define(c, nm).split('\n'))
            cases.append(dict(op='compile', src=dict(text='FUNC outer\n' + body + '\nRUN outer\nRUN outer'), meta=dict(family='define-again-' + c, name=nm, valid=bool(IDENT.match(nm)))))
            lib = PRE[c][0] + ('FUNC libf\n    PASS\n')
            cases.append(dict(op='compile_file', file='p/main.txt', files={'p/main.txt': 'START lib\nSTART lib\n' + define(c, nm), 'p/lib.txt': lib},
                              meta=dict(family='define-again-' + c, name=nm, valid=bool(IDENT.match(nm)))))
    # a program given as a LIST of lines may hold a line break inside one element: a name followed by a line break is not a name
    for nm in ('f', 'i', 'ok_1'):
        for brk in ('\n', '\r', '\n ', '\x0b', '\x1c'):
            cases.append(dict(op='compile', src=dict(lines=[f'FUNC {nm}{brk}a', '    STRING body', 'STRING defined']), meta=dict(family='define-func-linebreak', name=nm + brk, valid=False, nocorr=True)))
            cases.append(dict(op='compile', src=dict(lines=[f'REPEAT {nm}{brk},2', '    STRING it', 'STRING defined']), meta=dict(family='define-repeat-linebreak', name=nm + brk, valid=False, nocorr=True)))
            cases.append(dict(op='compile', src=dict(lines=[f'WHILE {nm}{brk},FALSE', '    STRING it', 'STRING defined']), meta=dict(family='define-while-linebreak', name=nm + brk, valid=False, nocorr=True)))
    # accepted names are readable and testable whatever else is defined
    pool = ['a', 'ab', 'abc', 'abcd', 'b', 'ba', 'x', 'x1', 'x12', '_', '_a', 'i', 'ii', 'count', 'count1', 'n', 'nn', 'Ab', 'AB', 'tr', 'fa', 'v_1', 'v_', 't', 'f', 'T', 'TR', 'F', 'FALS', 'TRUEX', 'FALSEY', 'Tx']
    for _ in range(count(tier, 400, 4000)):
        ns = r.sample(pool, r.randint(1, 6))
        if g.chance(0.5):
            # close under taking prefixes that are identifiers
            ns = sorted({n[:k] for n in ns for k in range(1, len(n) + 1) if IDENT.match(n[:k])}, key=lambda _: r.random())[:7]
        how = r.choice(['var', 'param', 'counter'])
        vals = {n: i + 1 for i, n in enumerate(ns)}
        probe = r.choice(ns)
        tail = r.choice(['', '+0', ' + 0', '*1', ' ', '==' + str(vals[probe]), ',0'])
        if how == 'var':
            text = ''.join(f'VAR {n} {vals[n]}\n' for n in ns) + f'$STRING {probe}{tail}\nEXIST {probe}\n' + ''.join(f'EXIST {n}\n' for n in ns)
        elif how == 'param':
            text = f'FUNC f {",".join(ns)}\n    $STRING {probe}{tail}\n    EXIST {probe}\nRUN f {",".join(str(vals[n]) for n in ns)}\n'
        else:
            others = [n for n in ns if n != probe]
            text = ''.join(f'VAR {n} {vals[n]}\n' for n in others) + f'REPEAT {probe},{vals[probe] + 1}\n    IF {probe}=={vals[probe]}\n        $STRING {probe}{tail}\n        EXIST {probe}\n'
        v = vals[probe]
        exp = {'': str(v), '+0': str(v), ' + 0': str(v), '*1': str(v), ' ': str(v), '==' + str(v): 'True', ',0': f'[{v}, 0]'}[tail]
        cases.append(dict(op='compile', src=dict(text=text), meta=dict(family='readable-' + how, names=ns, probe=probe, expline='STRING ' + exp,
                                                                     clash=reserved_clash(probe))))
    # user code cannot assign $-prefixed system variables
    for t in ['VAR $DEFAULT_DELAY 5', 'VAR $x 1', 'FUNC $f\n    STRING a', 'FUNC f $p\n    STRING a', 'REPEAT $i,2\n    STRING a', 'WHILE $c,FALSE\n    STRING a', 'VAR $IF_SUCCESS TRUE']:
        cases.append(dict(op='compile', src=dict(text=t + '\nSTRING defined'), meta=dict(family='define-sys', name=t, valid=False)))
    return cases


def oracle(cases, results):
    fs = []
    for i, (c, r) in enumerate(zip(cases, results)):
        m = c.get('meta', {})
        fam = m.get('family', '')
        if r.get('kind') == 'hang': continue
        if fam.startswith('define'):
            if m['valid']:
                if r.get('kind') != 'ok':
                    sig = f'{fam}:valid-rejected' + (':reserved' if reserved_clash(m['name']) else '')
                    fs.append(fail(i, f'valid name {m["name"]!r} rejected at {fam}: {r.get("cls", r.get("exc"))} {r.get("msg", "")}', sig))
            else:
                if r.get('kind') != 'cerr':
                    fs.append(fail(i, f'invalid name {m["name"]!r} accepted at {fam}: {r.get("kind")} {r.get("exc", "")} out={r.get("out")}', f'{fam}:invalid-accepted'))
        elif fam.startswith('readable'):
            ok = r.get('kind') == 'ok' and r['out'] and r['out'][-1] == m['expline']
            if not ok:
                sig = f'{fam}:unreadable' + (':reserved' if m['clash'] else '')
                fs.append(fail(i, f'accepted name {m["probe"]!r} not usable among {m["names"]}: {r.get("kind")} {r.get("cls", "")} {r.get("out")} (expected last line {m["expline"]!r})', sig))
    return fs
