"""helpers shared by the per-property modules"""
from __future__ import annotations
import json, re
from refinterp import Renderer, Interp, show_val


import os
THOROUGH_SCALE = int(os.environ.get('VERIF_THOROUGH_SCALE', '4'))


QUICK_SCALE = float(os.environ.get('VERIF_QUICK_SCALE', '1'))


def count(tier, quick, thorough):
    """number of generated cases of one family: the quick tier multiplies its base count by VERIF_QUICK_SCALE (set per property by
    decide.py so that every quick check stays well under a minute), the thorough tier by VERIF_THOROUGH_SCALE (default 4)"""
    return max(1, int(quick * QUICK_SCALE)) if tier == 'quick' else thorough * THOROUGH_SCALE


def fail(idx, msg, sig):
    return dict(idx=idx, msg=msg, sig=sig)


def kind(r):
    return r.get('kind')


def render_ast(body, unit='    ', sp='', rnd=None):
    rd = Renderer(sp, rnd)
    rd.block(body, 0) if body else rd.emit(0, 'PASS')
    text = '\n'.join(unit * d + t for d, t in rd.lines)
    return text, rd


def expect_of(body, rd, file=None):
    return Interp(rd.line_of, file).program(body)


def check_expected(i, case, r, exp, what=('out', 'prints', 'vars'), fam='prog'):
    """compare an implementation result with the reference interpreter's expectation"""
    if exp[0] == 'ok':
        _, out, prints, vars_ = exp
        if r.get('kind') != 'ok':
            return fail(i, f'expected success, got {r.get("kind")} {r.get("cls", r.get("exc", ""))}: {r.get("msg", "")}', f'{fam}:unexpected-{r.get("kind")}:{r.get("cls", r.get("exc", ""))}')
        if 'out' in what and r['out'] != out:
            return fail(i, f'output differs: expected {out[:12]} got {r["out"][:12]}', f'{fam}:output')
        if 'prints' in what and [p[:2] for p in r['prints']] != [p[:2] for p in prints]:
            return fail(i, f'prints differ: expected {prints[:8]} got {r["prints"][:8]}', f'{fam}:prints')
        if 'vars' in what and vars_ is not None:
            ev = {k: show_val(v) for k, v in vars_.items()}
            if r['vars'] != ev:
                return fail(i, f'final variables differ: expected {ev} got {r["vars"]}', f'{fam}:vars')
    else:
        if r.get('kind') != 'cerr':
            return fail(i, f'expected a compile error ({exp[1]}), got {r.get("kind")} {r.get("exc", "")} out={r.get("out")}', f'{fam}:expected-error:{exp[1]}:{r.get("kind")}')
    return None


def ast_cases(g, n, weights=None, size=(6, 18), max_depth=4, family='ast', opts=None, units=True):
    """n cases generated from random structured programs, with the reference expectation in meta"""
    from astgen import AstGen
    out = []
    for _ in range(n):
        ag = AstGen(g.r, weights, max_depth)
        body, _ = ag.program(g.r.randint(*size))
        unit = g.units() if units else '    '
        text, rd = render_ast(body, unit, g.r.choice(['', '', ' ']), g.r if g.chance(0.4) else None)
        it = Interp(rd.line_of, None)
        exp = it.program(body)
        if exp[0] == 'err' and exp[1] == 'too-long': continue
        meta = dict(family=family, exp=list(exp[:4]) if exp[0] == 'ok' else [exp[0], exp[1], exp[2], exp[3]])
        o = opts
        if o is None and g.chance(0.3):
            # options that must not change what these programs do (they contain no REM, no unknown and no Flipper command);
            # a stack limit is only drawn well clear of the program's own nesting
            o = g.r.choice([dict(include_comments=True), dict(supress_command_not_exist=True), dict(flipper_commands=False),
                            dict(include_comments=True, stack_limit=max(60, it.max_depth + 10))])
        out.append(dict(op='compile', opts=o, src=dict(text=text), meta=meta))
    return out


def ast_oracle(cases, results, what=('out', 'prints', 'vars'), fam='ast'):
    fs = []
    for i, (c, r) in enumerate(zip(cases, results)):
        exp = c.get('meta', {}).get('exp')
        if exp is None: continue
        if r.get('kind') == 'hang': continue
        if exp[0] == 'ok':
            e = ('ok', exp[1], exp[2], exp[3])
        else:
            e = ('err', exp[1])
        f = check_expected(i, c, r, e, what, c.get('meta', {}).get('family', fam))
        if f: fs.append(f)
    return fs


def import_name(from_file: str, to_file: str) -> str:
    """the dotted name that makes START in `from_file` resolve to `to_file` (both relative paths with .txt)"""
    fd = from_file.split('/')[:-1]
    tp = to_file[:-4].split('/')
    k = 0
    while k < len(fd) and k < len(tp) - 1 and fd[k] == tp[k]: k += 1
    return '.' * (len(fd) - k) + '.'.join(tp[k:])
