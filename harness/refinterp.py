"""refinterp.py — a small structured-program AST, its renderer to DucklingScript text, and a
reference interpreter with *scoped* environments (a stack of frames, no copying).

This is the construction-side oracle of the control-flow properties (C05–C08, C18, C10 paths):
expected output / prints / final variables are computed from the AST, never from the compiler
under test nor from the Lean model.
"""
from __future__ import annotations
from dataclasses import dataclass, field
from typing import Any


# ---------------- expressions ----------------
@dataclass
class Lit:
    v: Any                      # int | str | bool

@dataclass
class Var:
    name: str

@dataclass
class Bin:
    op: str
    l: Any
    r: Any

@dataclass
class Not:
    e: Any


PREC = {'^': 4, '*': 3, '/': 3, '//': 3, '%': 3, '+': 2, '-': 2, '==': 1, '!=': 1, '<': 1, '>': 1, '<=': 1, '>=': 1}


def render_expr(e, parent_prec=0, right=False, sp='') -> str:
    if isinstance(e, Lit):
        if isinstance(e.v, bool): return 'TRUE' if e.v else 'FALSE'
        if isinstance(e.v, int): return str(e.v) if e.v >= 0 else f'(0-{-e.v})'
        if isinstance(e.v, str): return '"' + e.v + '"'
        if isinstance(e.v, float): return repr(e.v)
    if isinstance(e, Var): return e.name
    if isinstance(e, Not): return f'!({render_expr(e.e, 0, False, sp)})'
    p = PREC[e.op]
    s = f'{render_expr(e.l, p, False, sp)}{sp}{e.op}{sp}{render_expr(e.r, p, True, sp)}'
    if p < parent_prec or (p == parent_prec and right): s = f'({s})'
    return s


class EvalError(Exception):
    pass


def py_str(v):
    return str(v)


def norm(v):
    if isinstance(v, float) and v.is_integer(): return int(v)
    return v


def eval_expr(e, lookup):
    """ordinary arithmetic; integral results (and literals) are integers at every step"""
    return norm(_eval_expr(e, lookup))


def _eval_expr(e, lookup):
    if isinstance(e, Lit): return e.v
    if isinstance(e, Var): return lookup(e.name)
    if isinstance(e, Not): return not eval_expr(e.e, lookup)
    a, b = eval_expr(e.l, lookup), eval_expr(e.r, lookup)
    op = e.op
    if op == '+':
        if isinstance(a, str) or isinstance(b, str): return py_str(a) + py_str(b)
        return a + b
    if op in ('/', '//', '%') and b == 0: raise EvalError('div0')
    if op == '-': return a - b
    if op == '*': return a * b
    if op == '/': return a / b
    if op == '//': return a // b
    if op == '%': return a % b
    if op == '^': return a ** b
    if op == '==': return a == b
    if op == '!=': return a != b
    if op == '<': return a < b
    if op == '>': return a > b
    if op == '<=': return a <= b
    if op == '>=': return a >= b
    raise ValueError(op)


# ---------------- statements ----------------
@dataclass
class Emit:                      # STRING tag   /  $STRING "tag:"+expr
    tag: str
    expr: Any = None

@dataclass
class Assign:                    # VAR name expr
    name: str
    expr: Any

@dataclass
class IfChain:
    arms: list                   # [(cond_expr, body)]
    els: Any = None              # body | None
    between: list = field(default_factory=list)   # between[i] = statements written after arm i (before the next arm)

@dataclass
class Repeat:
    count: Any                   # expr
    var: str | None
    body: list
    kw: str = 'REPEAT'

@dataclass
class While:
    var: str | None              # counter name
    cond: Any                    # expr (may mention var)
    body: list

@dataclass
class Break:
    kw: str = 'BREAKLOOP'

@dataclass
class Continue:
    kw: str = 'CONTINUELOOP'

@dataclass
class Return:
    kw: str = 'RETURN'
    value: Any = None            # RETURN <expr>: the expression is evaluated, its value is not used by anything

@dataclass
class FuncDef:
    name: str
    params: list
    body: list

@dataclass
class Call:
    name: str
    args: list                   # exprs

@dataclass
class Print:
    text: str | None = None      # PRINT text
    expr: Any = None             # $PRINT expr

@dataclass
class Exist:
    name: str
    neg: bool = False

@dataclass
class Raw:                       # arbitrary line(s) with declared effect: list of output lines
    lines: list                  # [(relative depth, text)]
    out: list = field(default_factory=list)

@dataclass
class Pass:
    pass


class Renderer:
    ALIASES = {'FUNC': ['FUNC', 'FUNCTION'], 'NOTEXIST': ['NOTEXIST', 'NOT_EXIST']}

    def __init__(self, sp='', rnd=None):
        self.lines = []          # (depth, text)
        self.sp = sp
        self.line_of = {}        # id(stmt) -> 1-based line number
        self.rnd = rnd           # when given: command names are written with their aliases and in any letter case, and
                                 # parameter / argument lists with blanks around the commas

    def kw(self, word):
        r = self.rnd
        if r is None: return word
        dollar = word.startswith('$')
        w = word[1:] if dollar else word
        if r.random() < 0.35: w = r.choice(self.ALIASES.get(w, [w]))
        c = r.random()
        if c < 0.12: w = w.lower()
        elif c < 0.2: w = w.capitalize()
        elif c < 0.26: w = ''.join(ch.upper() if r.random() < 0.5 else ch.lower() for ch in w)
        return ('$' if dollar else '') + w

    def comma(self):
        r = self.rnd
        if r is None or r.random() < 0.7: return ','
        return r.choice([', ', ' ,', ' , ', ',  ', '\t,'])

    def r(self, e): return render_expr(e, 0, False, self.sp)

    def emit(self, d, t, st=None):
        self.lines.append((d, t))
        if st is not None: self.line_of[id(st)] = len(self.lines)

    def block(self, body, d):
        if not body: self.emit(d, 'PASS')
        for s in body: self.stmt(s, d)

    def stmt(self, s, d):
        if isinstance(s, Emit):
            if s.expr is None: self.emit(d, f'{self.kw("STRING")} {s.tag}', s)
            elif self.rnd is not None and self.rnd.random() < 0.15:
                # the grouped spelling: the expression on an indented line under the command (the same line object is evaluated
                # again at every execution of the line — in a loop, in a function run twice)
                self.emit(d, self.kw("$STRING"), s)
                self.emit(d + 1, f'"{s.tag}="+({self.r(s.expr)})')
            else: self.emit(d, f'{self.kw("$STRING")} "{s.tag}="+({self.r(s.expr)})', s)
        elif isinstance(s, Assign): self.emit(d, f'{self.kw("VAR")} {s.name} {self.r(s.expr)}', s)
        elif isinstance(s, IfChain):
            for i, (c, body) in enumerate(s.arms):
                self.emit(d, f'{self.kw("IF" if i == 0 else "ELIF")} {self.r(c)}', s if i == 0 else None)
                self.block(body, d + 1)
                for b in (s.between[i] if i < len(s.between) else []): self.stmt(b, d)
            if s.els is not None:
                self.emit(d, self.kw('ELSE')); self.block(s.els, d + 1)
        elif isinstance(s, Repeat):
            head = f'{self.kw(s.kw)} ' + (f'{s.var},' if s.var else '') + self.r(s.count)
            self.emit(d, head, s); self.block(s.body, d + 1)
        elif isinstance(s, While):
            self.emit(d, self.kw('WHILE') + ' ' + (f'{s.var},' if s.var else '') + self.r(s.cond), s); self.block(s.body, d + 1)
        elif isinstance(s, Break): self.emit(d, self.kw(s.kw), s)
        elif isinstance(s, Continue): self.emit(d, self.kw(s.kw), s)
        elif isinstance(s, Return): self.emit(d, self.kw(s.kw) + ('' if s.value is None else ' ' + self.r(s.value)), s)
        elif isinstance(s, FuncDef):
            self.emit(d, f'{self.kw("FUNC")} {s.name}' + ((' ' + self.comma().join(s.params)) if s.params else ''), s); self.block(s.body, d + 1)
        elif isinstance(s, Call):
            self.emit(d, f'{self.kw("RUN")} {s.name}' + ((' ' + self.comma().join(self.r(a) for a in s.args)) if s.args else ''), s)
        elif isinstance(s, Print):
            if s.text is not None: self.emit(d, f'{self.kw("PRINT")} {s.text}', s)
            else: self.emit(d, f'{self.kw("$PRINT")} {self.r(s.expr)}', s)
        elif isinstance(s, Exist): self.emit(d, f'{self.kw("NOTEXIST" if s.neg else "EXIST")} {s.name}', s)
        elif isinstance(s, Raw):
            first = True
            for rd, t in s.lines:
                self.emit(d + rd, t, s if first else None); first = False
        elif isinstance(s, Pass): self.emit(d, self.kw('PASS'), s)
        else: raise TypeError(s)


class Signal(Exception):
    def __init__(self, kind): self.kind = kind


class ProgError(Exception):
    """the program is expected to end in a compile error (of the given family)"""
    def __init__(self, family, stmt=None):
        self.family = family; self.stmt = stmt


class Interp:
    """scoped reference semantics"""

    def __init__(self, line_of=None, file=None, max_steps=200000):
        self.frames = [{}]
        self.fframes = [{}]
        self.out = []
        self.prints = []
        self.line_of = line_of or {}
        self.file = file
        self.steps = 0
        self.max_steps = max_steps
        self.depth = 1
        self.max_depth = 1       # deepest nesting reached (one level per block entered or function called)
        self.ended_by_return = False

    def lookup(self, name):
        for f in reversed(self.frames):
            if name in f: return f[name]
        raise ProgError('undefined-var')

    def assign(self, name, v):
        for f in reversed(self.frames):
            if name in f:
                f[name] = v; return
        self.frames[-1][name] = v

    def visible(self, name): return any(name in f for f in self.frames)

    def func(self, name):
        for f in reversed(self.fframes):
            if name in f: return f[name]
        return None

    def ev(self, e):
        try:
            return norm(eval_expr(e, self.lookup))
        except EvalError:
            raise ProgError('div0')

    def push(self):
        self.frames.append({}); self.fframes.append({}); self.depth += 1
        self.max_depth = max(self.max_depth, self.depth)
    def pop(self): self.frames.pop(); self.fframes.pop(); self.depth -= 1

    def block(self, body):
        self.push()
        try:
            self.run(body)
        finally:
            self.pop()

    def run(self, body):
        for s in body: self.stmt(s)

    def stmt(self, s):
        self.steps += 1
        if self.steps > self.max_steps: raise ProgError('too-long')
        if isinstance(s, Emit):
            if s.expr is None: self.out.append(f'STRING {s.tag}')
            else: self.out.append(f'STRING {s.tag}=' + py_str(self.ev(s.expr)))
        elif isinstance(s, Assign): self.assign(s.name, self.ev(s.expr))
        elif isinstance(s, IfChain):
            taken = False
            for i, (c, body) in enumerate(s.arms):
                cv = self.ev(c)         # every condition is evaluated (an erroring one is an error)
                if not taken and cv:
                    taken = True
                    self.block(body)
                for b in (s.between[i] if i < len(s.between) else []): self.stmt(b)
            if s.els is not None and not taken: self.block(s.els)
        elif isinstance(s, Repeat):
            i = 0
            while True:
                n = self.ev(s.count)
                if not (i < n): break
                self.push()
                try:
                    if s.var: self.frames[-1][s.var] = i     # generators use counter names not visible outside
                    try: self.run(s.body)
                    except Signal as sg:
                        if sg.kind == 'break': break
                        if sg.kind == 'return': raise
                finally: self.pop()
                i += 1
        elif isinstance(s, While):
            i = 0
            while True:
                self.push()
                try:
                    if s.var: self.frames[-1][s.var] = i
                    if not self.ev(s.cond): break
                    try: self.run(s.body)
                    except Signal as sg:
                        if sg.kind == 'break': break
                        if sg.kind == 'return': raise
                finally: self.pop()
                i += 1
        elif isinstance(s, Break): raise Signal('break')
        elif isinstance(s, Continue): raise Signal('continue')
        elif isinstance(s, Return):
            if s.value is not None: self.ev(s.value)
            raise Signal('return')
        elif isinstance(s, FuncDef): self.fframes[-1][s.name] = s
        elif isinstance(s, Call):
            f = self.func(s.name)
            if f is None: raise ProgError('undefined-func', s)
            vals = [self.ev(a) for a in s.args]
            if len(vals) != len(f.params): raise ProgError('arity', s)
            self.push()
            try:
                for p, v in zip(f.params, vals): self.frames[-1][p] = v
                try: self.run(f.body)
                except Signal as sg:
                    if sg.kind in ('break', 'continue'): raise ProgError('escape', s)
            finally: self.pop()
        elif isinstance(s, Print):
            t = s.text if s.text is not None else py_str(self.ev(s.expr))
            self.prints.append([t, self.line_of.get(id(s)), self.file])
        elif isinstance(s, Exist):
            if self.visible(s.name) == s.neg: raise ProgError('exist', s)
        elif isinstance(s, Raw):
            for o in s.out:
                if isinstance(o, tuple) and o[0] == 'RAWEVAL': self.out.append(o[1] + ' ' + py_str(self.ev(o[2])))     # `$WORD expr`: evaluated pass-through
                else: self.out.append(o)
        elif isinstance(s, Pass): pass
        else: raise TypeError(s)

    def program(self, body):
        """returns ('ok', out, prints, vars) or ('err', family, out-so-far, prints-so-far)"""
        try:
            try:
                self.run(body)
            except Signal as sg:
                self.ended_by_return = True      # RETURN (or a stray BREAK/CONTINUE) ended the program early
            return ('ok', self.out, self.prints, dict(self.frames[0]))
        except ProgError as e:
            return ('err', e.family, self.out, self.prints, e.stmt)


def show_val(v):
    if isinstance(v, bool): return 'bool:True' if v else 'bool:False'
    if isinstance(v, int): return 'int:%d' % v
    if isinstance(v, float): return 'flt:' + repr(v)
    if isinstance(v, str): return 'str:' + v
    return 'other'
