#!/venv/bin/python
"""seedtest.py — confirm a seeded change (suite passes, demo fails with it and passes without) in a scratch
worktree, then run the property's check against that worktree (VERIF_REPO) and report whether it alarms.

usage: seedtest.py <seeded dir or id>... [--tier quick|thorough] [--props C01,C05]   (run from anywhere)
Nothing is written to /repo; evidence files are restored afterwards.
"""
import json, os, shutil, subprocess, sys, tempfile
from pathlib import Path
VERIF = Path(__file__).resolve().parents[1]


def sh(cmd, cwd=None, env=None, timeout=3600):
    p = subprocess.run(cmd, cwd=cwd, env=env, capture_output=True, text=True, timeout=timeout)
    return p.returncode, p.stdout + p.stderr


def main(argv):
    tier = 'quick'
    props = None
    ids = []
    i = 0
    while i < len(argv):
        if argv[i] == '--tier': tier = argv[i + 1]; i += 2
        elif argv[i] == '--props': props = argv[i + 1].split(','); i += 2
        else: ids.append(argv[i]); i += 1
    if not ids: ids = sorted(p.name for p in (VERIF / 'seeded').iterdir() if p.is_dir())
    wt = Path(tempfile.mkdtemp(prefix='seedwt-'))
    shutil.rmtree(wt)
    rc, out = sh(['git', '-C', '/repo', 'worktree', 'add', '-q', '--detach', str(wt), 'HEAD'])
    assert rc == 0, out
    results = {}
    try:
        for sid in ids:
            d = Path(sid) if '/' in sid else VERIF / 'seeded' / sid
            meta = json.loads((d / 'meta.json').read_text()) if (d / 'meta.json').exists() else {}
            prop = meta.get('property') or d.name.split('-')[0]
            sh(['git', 'checkout', '-q', '--', '.'], cwd=wt); sh(['git', 'clean', '-fdq'], cwd=wt)
            rc, out = sh(['git', 'apply', str(d / 'patch.diff')], cwd=wt)
            if rc != 0:
                results[d.name] = dict(error='patch does not apply: ' + out[-200:]); print(d.name, 'PATCH FAILS'); continue
            rc_t, out_t = sh(['/venv/bin/python', '-m', 'pytest', '-q', '-p', 'no:cacheprovider'], cwd=wt)
            suite = out_t.strip().split('\n')[-1]
            rc_d, out_d = sh(['/venv/bin/python', str(d / 'demo.py')], cwd=wt, timeout=600, env=dict(os.environ, PYTHONPATH=str(wt)))
            res = dict(property=prop, suite=suite, suite_ok=rc_t == 0, demo_exit_with_change=rc_d, checks={})
            for p in (props or [prop]):
                env = dict(os.environ, VERIF_REPO=str(wt), VERIF_SEED=os.environ.get('VERIF_SEED', '0'))
                rc_c, out_c = sh([str(VERIF / 'check'), p, tier], cwd=VERIF, env=env)
                viol = [l for l in out_c.split('\n') if l.startswith('VIOLATION')]
                res['checks'][p] = dict(exit=rc_c, violation=viol[0] if viol else None, summary=out_c.strip().split('\n')[-1][:300])
            sh(['git', 'checkout', '-q', '--', '.'], cwd=wt); sh(['git', 'clean', '-fdq'], cwd=wt)
            rc_d0, _ = sh(['/venv/bin/python', str(d / 'demo.py')], cwd=wt, timeout=600, env=dict(os.environ, PYTHONPATH=str(wt)))
            res['demo_exit_without_change'] = rc_d0
            results[d.name] = res
            caught = [p for p, c in res['checks'].items() if c['exit'] == 1]
            print(f"{d.name}: suite_ok={res['suite_ok']} demo {rc_d}/{rc_d0} caught_by={caught or 'NONE'}", flush=True)
    finally:
        sh(['git', '-C', '/repo', 'worktree', 'remove', '--force', str(wt)])
        sh(['git', 'checkout', '-q', '--', 'evidence', 'lean/Duckling/Generated'], cwd=VERIF)
    print(json.dumps(results, indent=1))


if __name__ == '__main__':
    main(sys.argv[1:])
