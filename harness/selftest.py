#!/venv/bin/python
"""harness self-test: the model driver and the implementation runner answer, and agree on a handful of fixed programs"""
import sys
sys.path.insert(0, __file__.rsplit('/', 1)[0])
import impl, corr
cases = [
    dict(id=0, op='compile', src=dict(text='STRING hello\nVAR a 5\nIF a == 5\n    $STRING a*2\nELSE\n    STRING no\nREPEAT i,3\n    $STRING "i="+i\nFOO bar')),
    dict(id=1, op='compile', src=dict(text='FUNC f a,b,c\n    $STRING a+b+c\n    PRINT hi\nRUN f 1,2,3\n$STRING 7/2')),
    dict(id=2, op='compile', src=dict(text='WHILE x\n    STRING a')),
    dict(id=3, op='compile_file', file='p/main.txt', files={'p/main.txt': 'START lib\nRUN g 2', 'p/lib.txt': 'FUNC g n\n    $STRING 8/n\n    RUN g n-1'}, opts=dict(stack_limit=5)),
]
ir = impl.run_cases(cases)
mr = corr.run_model(cases)
bad = [(c, a, b) for c, a, b in zip(cases, ir, mr) if corr.diff(a, b)]
if bad or any(r is None for r in mr):
    print('SELFTEST FAILED', bad)
    sys.exit(1)
# the frozen Lean specification mirrors spec/tables.json (both are hand-frozen documents; neither is regenerated from the code)
import json, re
from pathlib import Path
V = Path(__file__).resolve().parents[1]
T = json.loads((V / 'spec' / 'tables.json').read_text())
L = (V / 'lean' / 'Duckling' / 'Spec' / 'Ducky.lean').read_text()


def lean_list(name):
    m = re.search(r'def ' + name + r' : List String :=\s*\[(.*?)\]', L, re.S)
    return [x.strip().strip('"') for x in m.group(1).replace('\n', ' ').split(',')]


mirror = [(lean_list('noArgKeys'), T['noarg_keys'] + T['enter']), (lean_list('delayNames'), T['delay'] + T['default_delay']),
          (lean_list('oneCharOrBare'), T['flipper']['one_char_or_bare']), (lean_list('dsOnly'), T['duckling_only']),
          (['ALTCHAR', 'ALTSTRING', 'ALTCODE'] + lean_list('oneCharOrBare'), T['flipper']['altchar'] + T['flipper']['text'] + T['flipper']['one_char_or_bare'])]
for a, b in mirror:
    if sorted(a) != sorted(b):
        print('SELFTEST FAILED: Spec/Ducky.lean and spec/tables.json disagree:', sorted(set(a) ^ set(b)))
        sys.exit(1)
# every property module imports and its generator runs in both tiers (a generator that raises would make its check unusable)
import importlib, os, gen
os.environ.setdefault('VERIF_QUICK_SCALE', '1')
for k in range(1, 21):
    pid = 'C%02d' % k
    try:
        mod = importlib.import_module('props.' + pid)
        n = len(mod.generate(gen.Gen(0), 'quick'))
        assert n > 0 and callable(mod.oracle)
    except Exception as ex:
        print('SELFTEST FAILED: generator of', pid, 'raises', type(ex).__name__, ex)
        sys.exit(1)
print('selftest ok: model and implementation agree on', len(cases), 'fixed programs; 20 generators run')
