#!/venv/bin/python
"""dev helper: run a property module's generator, oracle and model diff without the build step"""
import sys, json, time, importlib
sys.path.insert(0, '/verif/harness')
import gen, impl, corr
prop, seed, tier = sys.argv[1], int(sys.argv[2]) if len(sys.argv) > 2 else 0, sys.argv[3] if len(sys.argv) > 3 else 'quick'
mod = importlib.import_module('props.' + prop)
g = gen.Gen(seed)
cases = mod.generate(g, tier)
for i, c in enumerate(cases): c['id'] = i
t = time.time(); ir = impl.run_cases(cases, fresh=getattr(mod, 'FRESH', False)); t1 = time.time() - t
t = time.time(); mr = corr.run_model(cases); t2 = time.time() - t
fs = mod.oracle(cases, ir)
fields = getattr(mod, 'FIELDS', corr.ALL_FIELDS)
nd = 0; oom = 0; kinds = {}
for c, a, b in zip(cases, ir, mr):
    k = c.get('meta', {}).get('family', '?') + ':' + a['kind'] + (':' + a.get('cls', '') if a['kind'] == 'cerr' else '') + (':' + str(a.get('exc')) if a['kind'] == 'crash' else '')
    kinds[k] = kinds.get(k, 0) + 1
    if b.get('kind') == 'oom': oom += 1; continue
    if a.get('kind') == 'hang' or c.get('meta', {}).get('nocorr'): continue
    d = corr.diff(a, b, c.get('meta', {}).get('fields', fields))
    if d:
        nd += 1
        if nd <= 3:
            print('--- DIFF', c.get('meta', {}).get('family')); print(json.dumps({k: v for k, v in c.items() if k != 'meta'})[:1500]); print('IMPL ', json.dumps(d['impl'])[:700]); print('MODEL', json.dumps(d['model'])[:700])
print(f'{prop}: cases {len(cases)} impl {t1:.1f}s model {t2:.1f}s oom {oom} diffs {nd} oracle-failures {len(fs)}')
print(dict(sorted(kinds.items())))
seen = set()
for f in fs:
    if f['sig'] in seen: continue
    seen.add(f['sig'])
    if len(seen) > 4: break
    i = f['idx'] if not isinstance(f['idx'], list) else f['idx'][0]
    print('--- FAIL', f['sig'], f['msg'][:400]); print(json.dumps({k: v for k, v in cases[i].items() if k != 'meta'})[:1200])
