#!/venv/bin/python
"""translate.py — the translator (DESIGN.md §2.4).

Re-extracts from /repo's CURRENT working tree, on every run:
  * Tables  : command palette, operator tables, limits, defaults      (import-time introspection + AST)
  * Effects : (a) writes to process-level state, (b) loops / recursive cycles, (c) raise sites
and writes  lean/Duckling/Generated/{Tables,Effects}.lean  and  harness/tables.current.json.

Usage: translate.py [--repo /repo] [--out /verif/lean/Duckling/Generated] [--json path]
The Lean files are only rewritten when their content changes (keeps `lake build` incremental).
"""
from __future__ import annotations
import ast, hashlib, importlib, inspect, json, os, sys, types
from pathlib import Path

HERE = Path(__file__).resolve().parent
VERIF = HERE.parent


def lean_str(s: str) -> str:
    out = ['"']
    for ch in s:
        if ch == '"': out.append('\\"')
        elif ch == '\\': out.append('\\\\')
        elif ch == '\n': out.append('\\n')
        elif ch == '\t': out.append('\\t')
        elif 32 <= ord(ch) < 127: out.append(ch)
        else: out.append('\\u{%x}' % ord(ch))
    out.append('"')
    return ''.join(out)


def lean_list(xs, f=lean_str) -> str:
    return '[' + ', '.join(f(x) for x in xs) + ']'


def lean_bool(b) -> str:
    return 'true' if b else 'false'


# ---------------------------------------------------------------------------------------------
# Tables: import the package from the given repo path in THIS process (translate.py is always run
# as a subprocess by the check, with HOME pointing at a scratch directory).
# ---------------------------------------------------------------------------------------------
def extract_tables(repo: Path) -> dict:
    sys.path.insert(0, str(repo))
    for m in [m for m in sys.modules if m == 'ducklingscript' or m.startswith('ducklingscript.')]:
        del sys.modules[m]
    comp = importlib.import_module('ducklingscript.compiler')
    commands = importlib.import_module('ducklingscript.compiler.commands')
    bases = importlib.import_module('ducklingscript.compiler.commands.bases')
    tokens = importlib.import_module('ducklingscript.compiler.tokenization.tokens')
    venv = importlib.import_module('ducklingscript.compiler.environments.variable_environment')
    copts = importlib.import_module('ducklingscript.compiler.compile_options')
    start = importlib.import_module('ducklingscript.compiler.commands.start')
    assert Path(comp.__file__).resolve().is_relative_to(repo.resolve()), comp.__file__

    SimpleCommand, BlockCommand, BaseCommand = bases.SimpleCommand, bases.BlockCommand, bases.BaseCommand
    ArgReqType = bases.ArgReqType
    hook_names = ['verify_args', 'verify_arg', 'format_args', 'format_arg', 'run_compile', 'init_env',
                  'isThisCommand', 'compile', 'initialize', 'check_flipper', '__init__', 'listify_args',
                  'evaluate_args']

    def argreq(x):
        return {ArgReqType.REQUIRED: 'required', ArgReqType.ALLOWED: 'allowed',
                ArgReqType.NOTALLOWED: 'notAllowed'}[x]

    def argtype(x):
        if x is str: return 'str'
        if x is int: return 'int'
        if isinstance(x, str): return 'doc'
        return 'other:' + repr(x)

    palette = []
    for cls in commands.command_palette:
        is_block = issubclass(cls, BlockCommand)
        base = BlockCommand if is_block else SimpleCommand
        hooks = []
        for h in hook_names:
            for k in cls.__mro__:
                if k in (SimpleCommand, BlockCommand, BaseCommand) or k.__module__.endswith('doc_command'):
                    break
                if h in k.__dict__:
                    hooks.append(h); break
        src = inspect.getsource(cls)
        palette.append(dict(
            cname=cls.__name__, isBlock=is_block, names=list(cls.names), argReq=argreq(cls.arg_req),
            strip=bool(getattr(cls, 'strip_args', getattr(cls, 'strip_arg', True))),
            tokenize=bool(getattr(cls, 'tokenize_args', False)),
            argType=argtype(cls.arg_type), flipperOnly=bool(cls.flipper_only),
            params=list(cls.parameters or []),
            blockRequired=bool(getattr(cls, 'code_block_required', False)),
            hooks=hooks, src_sha=hashlib.sha256(src.encode()).hexdigest()[:16],
            sysVar=getattr(cls, 'sys_var', None),
        ))
    generic = dict(argReq=argreq(SimpleCommand.arg_req), strip=bool(SimpleCommand.strip_args),
                   tokenize=bool(SimpleCommand.tokenize_args), argType=argtype(SimpleCommand.arg_type),
                   flipperOnly=bool(SimpleCommand.flipper_only))
    opclasses = [dict(cname=c.__name__, operators=list(c.operators), precedence=[list(p) for p in c.precedence])
                 for c in tokens.operands]
    value_types = [c.__name__ for c in tokens.value_types]
    d = copts.CompileOptions()
    defaults = dict(stackLimit=d.stack_limit, includeComments=d.include_comments,
                    flipperCommands=d.flipper_commands, suppressNotExist=d.supress_command_not_exist,
                    useProjectConfig=d.use_project_config)
    option_fields = list(copts.CompileOptions.__dataclass_fields__.keys())

    # literal limits by AST pattern
    def find_ints(path: Path, func: str) -> list[int]:
        tree = ast.parse(path.read_text())
        out = []
        for node in ast.walk(tree):
            if isinstance(node, (ast.FunctionDef,)) and node.name == func:
                for n in ast.walk(node):
                    if isinstance(n, ast.Compare):
                        for c in n.comparators:
                            if isinstance(c, ast.Constant) and isinstance(c.value, int) and not isinstance(c.value, bool):
                                out.append((type(n.ops[0]).__name__, c.value))
        return out
    cdir = repo / 'ducklingscript' / 'compiler'
    rep = find_ints(cdir / 'commands' / 'repeat.py', 'tokenize_count')
    whl = find_ints(cdir / 'commands' / 'while_loop.py', 'run_compile')
    par = find_ints(cdir / 'tokenization' / 'tokenizer.py', 'addCharToToken')
    limits = dict(repeat=rep, while_=whl, paren=par)
    # cli stack limit bounds
    cli_src = (repo / 'ducklingscript' / 'cli' / 'compile.py').read_text()
    cli_bounds = {}
    for node in ast.walk(ast.parse(cli_src)):
        if isinstance(node, ast.Call) and getattr(node.func, 'attr', '') == 'Option':
            for kw in node.keywords:
                if kw.arg in ('min', 'max') and isinstance(kw.value, ast.Constant):
                    cli_bounds[kw.arg] = kw.value.value
    if_src = importlib.import_module('ducklingscript.compiler.commands.if_command')
    return dict(palette=palette, generic=generic, opclasses=opclasses, value_types=value_types,
                acceptable_vars=venv.VariableEnvironment.acceptable_vars, defaults=defaults,
                option_fields=option_fields, limits=limits, cli_bounds=cli_bounds,
                script_extension=start.script_extension, if_success=if_src.IF_SUCCESS,
                config_name=importlib.import_module('ducklingscript.compiler.environments.project_environment').ProjectEnvironment.config_name)


def pick_limit(pairs, op, default):
    for o, v in pairs:
        if o == op: return v
    return default


def render_tables(t: dict) -> str:
    L = []
    L.append('-- GENERATED by harness/translate.py from /repo — do not edit; regenerated on every check.')
    L.append('import Duckling.Model.TableTypes')
    L.append('namespace Duckling.Generated')
    L.append('open Duckling')
    L.append('')
    L.append('def palette : List ClsDesc := [')
    rows = []
    for c in t['palette']:
        at = c['argType'] if c['argType'] in ('str', 'int', 'doc') else 'doc'
        rows.append('  { cname := %s, isBlock := %s, names := %s, argReq := .%s, strip := %s, tokenize := %s,\n'
                    '    argType := .%s, flipperOnly := %s, params := %s, blockRequired := %s, hooks := %s }' % (
            lean_str(c['cname']), lean_bool(c['isBlock']), lean_list(c['names']), c['argReq'],
            lean_bool(c['strip']), lean_bool(c['tokenize']), at, lean_bool(c['flipperOnly']),
            lean_list(c['params']), lean_bool(c['blockRequired']), lean_list(c['hooks'])))
    L.append(',\n'.join(rows))
    L.append(']')
    L.append('')
    g = t['generic']
    L.append('/-- the plain `SimpleCommand` used for unknown command words -/')
    L.append('def generic : ClsDesc :=\n  { cname := "SimpleCommand", isBlock := false, names := [], argReq := .%s, strip := %s, tokenize := %s,\n'
             '    argType := .%s, flipperOnly := %s, params := [], blockRequired := false, hooks := [] }' % (
        g['argReq'], lean_bool(g['strip']), lean_bool(g['tokenize']),
        g['argType'] if g['argType'] in ('str', 'int', 'doc') else 'doc', lean_bool(g['flipperOnly'])))
    L.append('')
    L.append('def opClasses : List OpClass := [')
    L.append(',\n'.join('  { cname := %s, operators := %s, precedence := %s }' % (
        lean_str(o['cname']), lean_list(o['operators']), lean_list(o['precedence'], lean_list)) for o in t['opclasses']))
    L.append(']')
    L.append('')
    L.append('def valueTypes : List String := %s' % lean_list(t['value_types']))
    L.append('def acceptableVars : String := %s' % lean_str(t['acceptable_vars']))
    d = t['defaults']
    L.append('def optDefaults : OptDefaults := { stackLimit := %d, includeComments := %s, flipperCommands := %s, suppressNotExist := %s, useProjectConfig := %s }' % (
        d['stackLimit'], lean_bool(d['includeComments']), lean_bool(d['flipperCommands']),
        lean_bool(d['suppressNotExist']), lean_bool(d['useProjectConfig'])))
    L.append('def optionFields : List String := %s' % lean_list(t['option_fields']))
    lim = t['limits']
    L.append('/-- `Repeat.tokenize_count`: counts above this are rejected -/')
    L.append('def repeatLimit : Nat := %d' % pick_limit(lim['repeat'], 'Gt', 0))
    L.append('/-- `While.run_compile`: an iteration index above this is rejected -/')
    L.append('def whileLimit : Nat := %d' % pick_limit(lim['while_'], 'Gt', 0))
    L.append('/-- `Tokenizer.addCharToToken`: a parenthesis depth above this is rejected -/')
    L.append('def parenLimit : Nat := %d' % pick_limit(lim['paren'], 'Gt', 0))
    L.append('def cliStackMin : Nat := %d' % t['cli_bounds'].get('min', 0))
    L.append('def cliStackMax : Nat := %d' % t['cli_bounds'].get('max', 0))
    L.append('def scriptExtension : String := %s' % lean_str(t['script_extension']))
    L.append('def ifSuccess : String := %s' % lean_str(t['if_success']))
    L.append('def configName : String := %s' % lean_str(t['config_name']))
    L.append('')
    L.append('end Duckling.Generated')
    return '\n'.join(L) + '\n'


# ---------------------------------------------------------------------------------------------
# Effects: syntactic inventories over ducklingscript/compiler (+ cli/utils/config.py for the cache)
# ---------------------------------------------------------------------------------------------
MUTATORS = {'append', 'extend', 'insert', 'pop', 'remove', 'clear', 'update', 'setdefault', 'add',
            'discard', 'sort', 'reverse', 'popitem', '__setitem__', '__delitem__'}


class EffectVisitor(ast.NodeVisitor):
    """Finds writes to process-level state in one module."""

    def __init__(self, modname: str, module_names: set[str], class_names: set[str]):
        self.modname = modname
        self.module_names = module_names      # names bound at module level to mutable literals / objects
        self.class_names = class_names        # class names known in the package
        self.scope: list[str] = []
        self.cls_stack: list[str] = []
        self.class_level_names: list[set[str]] = []
        self.local_names: list[set[str]] = []
        self.writes: list[dict] = []
        self.in_classmethod: list[bool] = []

    def where(self, node):
        return f"{self.modname}:{'.'.join(self.scope) or '<module>'}"

    def is_class_ref(self, node) -> str | None:
        """cls / ClassName / type(self) / self.__class__ expressions → a description"""
        if isinstance(node, ast.Name):
            if node.id == 'cls': return 'cls'
            if node.id in self.class_names and not self._is_local(node.id): return node.id
        if isinstance(node, ast.Call) and isinstance(node.func, ast.Name) and node.func.id == 'type' and node.args:
            return 'type(...)'
        if isinstance(node, ast.Attribute) and node.attr == '__class__':
            return '__class__'
        return None

    def _is_local(self, name):
        return any(name in s for s in self.local_names)

    def record(self, node, kind, target):
        self.writes.append(dict(where=self.where(node), kind=kind, target=target))

    def visit_ClassDef(self, node):
        self.scope.append(node.name); self.cls_stack.append(node.name)
        names = set()
        for st in node.body:
            if isinstance(st, (ast.Assign, ast.AnnAssign)):
                tg = st.targets if isinstance(st, ast.Assign) else [st.target]
                for t in tg:
                    if isinstance(t, ast.Name): names.add(t.id)
        self.class_level_names.append(names)
        for st in node.body:
            # class-level statements executed at import time are not per-compilation effects,
            # except that we still look inside methods
            if isinstance(st, (ast.FunctionDef, ast.AsyncFunctionDef, ast.ClassDef)):
                self.visit(st)
        self.class_level_names.pop()
        self.cls_stack.pop(); self.scope.pop()

    def visit_FunctionDef(self, node):
        self.scope.append(node.name)
        locs = {a.arg for a in node.args.args + node.args.kwonlyargs}
        if node.args.vararg: locs.add(node.args.vararg.arg)
        if node.args.kwarg: locs.add(node.args.kwarg.arg)
        for n in ast.walk(node):
            if isinstance(n, ast.Name) and isinstance(n.ctx, ast.Store): locs.add(n.id)
            if isinstance(n, ast.Global):
                for g in n.names:
                    self.record(n, 'global', g)
        # names declared global are not local
        for n in ast.walk(node):
            if isinstance(n, ast.Global):
                for g in n.names: locs.discard(g)
        self.local_names.append(locs)
        for st in node.body:
            self.visit(st)
        self.local_names.pop()
        self.scope.pop()
    visit_AsyncFunctionDef = visit_FunctionDef

    def _target(self, t, node, kind):
        if isinstance(t, ast.Attribute):
            c = self.is_class_ref(t.value)
            if c: self.record(node, kind, f'{c}.{t.attr}')
            # module-level object attribute: NAME.attr = ... where NAME is module-level
            elif isinstance(t.value, ast.Name) and t.value.id in self.module_names and not self._is_local(t.value.id):
                self.record(node, kind, f'{t.value.id}.{t.attr}')
        elif isinstance(t, ast.Subscript):
            v = t.value
            if isinstance(v, ast.Name) and v.id in self.module_names and not self._is_local(v.id):
                self.record(node, kind + '-item', v.id)
            elif isinstance(v, ast.Attribute) and self.is_class_ref(v.value):
                self.record(node, kind + '-item', f'{self.is_class_ref(v.value)}.{v.attr}')
        elif isinstance(t, (ast.Tuple, ast.List)):
            for e in t.elts: self._target(e, node, kind)

    def visit_Assign(self, node):
        if self.local_names:
            for t in node.targets: self._target(t, node, 'assign')
        self.generic_visit(node)

    def visit_AugAssign(self, node):
        if self.local_names: self._target(node.target, node, 'augassign')
        self.generic_visit(node)

    def visit_AnnAssign(self, node):
        if self.local_names and node.value is not None: self._target(node.target, node, 'assign')
        self.generic_visit(node)

    def visit_Delete(self, node):
        if self.local_names:
            for t in node.targets: self._target(t, node, 'del')
        self.generic_visit(node)

    def visit_Call(self, node):
        if self.local_names:
            f = node.func
            if isinstance(f, ast.Name) and f.id in ('setattr', 'delattr') and node.args:
                c = self.is_class_ref(node.args[0])
                if c: self.record(node, f.id, c)
            if isinstance(f, ast.Attribute) and f.attr in MUTATORS:
                v = f.value
                if isinstance(v, ast.Name) and v.id in self.module_names and not self._is_local(v.id):
                    self.record(node, 'mutate:' + f.attr, v.id)
                elif isinstance(v, ast.Attribute):
                    c = self.is_class_ref(v.value)
                    if c: self.record(node, 'mutate:' + f.attr, f'{c}.{v.attr}')
                    # self.<class-level mutable attr>.append(...)  (aliasing of a class attribute through self)
                    elif isinstance(v.value, ast.Name) and v.value.id == 'self' and self.class_level_names \
                            and v.attr in self.class_level_names[-1]:
                        self.record(node, 'mutate-via-self:' + f.attr, f'self.{v.attr}')
        self.generic_visit(node)


def extract_effects(repo: Path) -> dict:
    pkg = repo / 'ducklingscript'
    files = sorted(list((pkg / 'compiler').rglob('*.py')) + [pkg / 'cli' / 'utils' / 'config.py',
                                                           pkg / 'cli' / 'compile.py', pkg / 'cli' / 'new.py'])
    trees = {}
    class_names, module_level = set(), {}
    for f in files:
        tree = ast.parse(f.read_text())
        mod = str(f.relative_to(repo))[:-3].replace('/', '.')
        trees[mod] = tree
        names = set()
        for st in tree.body:
            if isinstance(st, ast.ClassDef): class_names.add(st.name)
            if isinstance(st, (ast.Assign, ast.AnnAssign)):
                tg = st.targets if isinstance(st, ast.Assign) else [st.target]
                for t in tg:
                    if isinstance(t, ast.Name): names.add(t.id)
            if isinstance(st, (ast.ImportFrom,)):
                for a in st.names: names.add(a.asname or a.name)
        module_level[mod] = names
    writes, loops, raises, funcs = [], [], [], {}
    # exception classes deriving from CompilationError
    err_tree = trees.get('ducklingscript.compiler.errors')
    comp_errs = {'CompilationError'}
    changed = True
    while changed and err_tree is not None:
        changed = False
        for st in err_tree.body:
            if isinstance(st, ast.ClassDef) and st.name not in comp_errs:
                if any(isinstance(b, ast.Name) and b.id in comp_errs for b in st.bases):
                    comp_errs.add(st.name); changed = True
    for mod, tree in trees.items():
        # names that are classes or plain functions/imports are not "mutable module state" for the mutate rule
        mutable_module_names = {n for n in module_level[mod]}
        v = EffectVisitor(mod, mutable_module_names, class_names)
        v.visit(tree)
        writes.extend(v.writes)
        # loops + raises, per function
        class FV(ast.NodeVisitor):
            def __init__(s): s.scope = []
            def visit_ClassDef(s, n):
                s.scope.append(n.name); s.generic_visit(n); s.scope.pop()
            def visit_FunctionDef(s, n):
                s.scope.append(n.name)
                q = '.'.join(s.scope)
                calls = set()
                for m in ast.walk(n):
                    if isinstance(m, (ast.While, ast.For)):
                        kind = 'while' if isinstance(m, ast.While) else 'for'
                        loops.append(dict(where=f'{mod}:{q}', kind=kind))
                    if isinstance(m, ast.Raise) and m.exc is not None:
                        e = m.exc
                        name = None
                        if isinstance(e, ast.Call): e = e.func
                        if isinstance(e, ast.Name): name = e.id
                        elif isinstance(e, ast.Attribute): name = e.attr
                        raises.append(dict(where=f'{mod}:{q}', exc=name or '?', compile=bool(name in comp_errs)))
                    if isinstance(m, ast.Call):
                        f = m.func
                        if isinstance(f, ast.Name): calls.add(f.id)
                        elif isinstance(f, ast.Attribute): calls.add(f.attr)
                funcs[f'{mod}:{q}'] = (n.name, calls)
                s.generic_visit(n); s.scope.pop()
            visit_AsyncFunctionDef = visit_FunctionDef
        FV().visit(tree)
    # recursion: name-based call graph, SCCs that contain a cycle
    byname = {}
    for q, (name, calls) in funcs.items(): byname.setdefault(name, []).append(q)
    graph = {q: sorted({t for c in calls for t in byname.get(c, [])}) for q, (name, calls) in funcs.items()}
    # direct self-recursion only + mutual cycles of length 2 by qualified name (name-based graphs over-approximate)
    rec = sorted(q for q, ts in graph.items() if q in ts)
    loops_agg = {}
    for l in loops:
        k = f"{l['where']}#{l['kind']}"
        loops_agg[k] = loops_agg.get(k, 0) + 1
    loops_list = sorted(f'{k}x{v}' for k, v in loops_agg.items())
    raises_nc = sorted({f"{r['where']}#{r['exc']}" for r in raises if not r['compile']})
    raises_c = sorted({f"{r['where']}#{r['exc']}" for r in raises if r['compile']})
    return dict(sharedWrites=sorted({f"{w['where']}#{w['kind']}#{w['target']}" for w in writes}),
                loops=loops_list, selfRecursive=rec, raisesNonCompile=raises_nc, raisesCompile=raises_c)


def render_effects(e: dict) -> str:
    L = ['-- GENERATED by harness/translate.py from /repo — do not edit; regenerated on every check.',
         'namespace Duckling.Generated.Effects', '']
    def lst(name, xs, doc):
        L.append(f'/-- {doc} -/')
        L.append(f'def {name} : List String := [')
        L.append(',\n'.join('  ' + lean_str(x) for x in xs))
        L.append(']'); L.append('')
    lst('sharedWrites', e['sharedWrites'], 'writes to process-level state reachable from a method body (module:function:line#kind#target)')
    lst('loops', e['loops'], 'every `while`/`for` statement, per function')
    lst('selfRecursive', e['selfRecursive'], 'functions that (by name) call themselves')
    lst('raisesNonCompile', e['raisesNonCompile'], 'explicit `raise` of an exception class outside the CompilationError family')
    lst('raisesCompile', e['raisesCompile'], 'explicit `raise` of a CompilationError subclass')
    L.append('end Duckling.Generated.Effects')
    return '\n'.join(L) + '\n'


def write_if_changed(path: Path, text: str) -> bool:
    if path.exists() and path.read_text() == text:
        return False
    path.parent.mkdir(parents=True, exist_ok=True)
    path.write_text(text)
    return True


def main(argv):
    repo = Path('/repo'); out = VERIF / 'lean' / 'Duckling' / 'Generated'; js = HERE / 'tables.current.json'
    i = 0
    while i < len(argv):
        if argv[i] == '--repo': repo = Path(argv[i + 1]); i += 2
        elif argv[i] == '--out': out = Path(argv[i + 1]); i += 2
        elif argv[i] == '--json': js = Path(argv[i + 1]); i += 2
        else: raise SystemExit('unknown arg ' + argv[i])
    t = extract_tables(repo)
    e = extract_effects(repo)
    c1 = write_if_changed(out / 'Tables.lean', render_tables(t))
    c2 = write_if_changed(out / 'Effects.lean', render_effects(e))
    write_if_changed(js, json.dumps(dict(tables=t, effects=e), indent=1, sort_keys=True))
    print(json.dumps(dict(tables_changed=c1, effects_changed=c2, palette=len(t['palette']),
                          sharedWrites=len(e['sharedWrites']), loops=len(e['loops']))))


if __name__ == '__main__':
    main(sys.argv[1:])
