import Lean.Data.Json
import Duckling.Model.Compile
import Duckling.Model.Cli
/-
  dmodel — JSON-lines driver of the executable model (DESIGN.md §2.5).
  One request per line on stdin, one response per line on stdout.
-/
open Lean Duckling

def strOf (s : Str) : String := String.ofList s

def pathStr (p : Path) : String := "/".intercalate p
def pathOf (s : String) : Path := (s.splitOn "/").filter (· ≠ "")

def jOptPath : Option Path → Json
  | some p => Json.str (pathStr p)
  | none => Json.null

def jOptNat : Option Nat → Json
  | some n => toJson n
  | none => Json.null

partial def showVal : Val → String
  | .int i => s!"int:{i}"
  | .flt m k => match Val.reprFlt m k with
    | .ok s => "flt:" ++ strOf s
    | _ => if m == 0 then "flt:0.0" else "flt:?"
  | .str s => "str:" ++ strOf s
  | .bool b => if b then "bool:True" else "bool:False"
  | .list l => "list:[" ++ ",".intercalate (l.map showVal) ++ "]"

def jFrame (f : Frame) : Json := Json.arr #[jOptPath f.file, toJson f.line, jOptNat f.line2]
def jTrace : Option (List Frame) → Json
  | some t => Json.arr (t.map jFrame).toArray
  | none => Json.null

def jWarn (w : Warn) : Json :=
  let (k, n) : String × Json := match w.kind with
    | .notExist l => ("notExist", toJson l)
    | .defaultDelayMulti => ("defaultDelayMulti", Json.null)
    | .exitedUsing s => ("exitedUsing", Json.str s.name)
  Json.mkObj [("kind", Json.str k), ("arg", n), ("trace", jTrace w.trace)]

def jPrint (p : Print) : Json := Json.arr #[Json.str (strOf p.text), toJson p.line, jOptPath p.file]

def jResult : Result → Json
  | .ok out warns prints vars => Json.mkObj [
      ("kind", "ok"), ("out", Json.arr (out.map (fun s => Json.str (strOf s))).toArray),
      ("warns", Json.arr (warns.map jWarn).toArray),
      ("prints", Json.arr (prints.map jPrint).toArray),
      ("vars", Json.mkObj (vars.map fun (k, v) => (strOf k, Json.str (showVal v))))]
  | .err e => Json.mkObj [
      ("kind", "cerr"), ("cls", Json.str e.k.name), ("trace", jTrace e.trace),
      ("prints", match e.prints with | some ps => Json.arr (ps.map jPrint).toArray | none => Json.null),
      ("lineNo", jOptNat e.lineNo)]
  | .crash e => Json.mkObj [("kind", "crash"), ("exc", Json.str e)]
  | .oom w => Json.mkObj [("kind", "oom"), ("why", Json.str w)]

def getBool (j : Json) (k : String) (d : Bool) : Bool :=
  match j.getObjVal? k with | .ok (Json.bool b) => b | _ => d
def getNat (j : Json) (k : String) (d : Nat) : Nat :=
  match j.getObjVal? k with | .ok v => (v.getNat?.toOption).getD d | _ => d
def getStr? (j : Json) (k : String) : Option String :=
  match j.getObjVal? k with | .ok (Json.str s) => some s | _ => none

def parseOpts (j : Json) : Opts :=
  let d : Opts := {}
  match j.getObjVal? "opts" with
  | .ok o => { stackLimit := getNat o "stack_limit" d.stackLimit, comments := getBool o "include_comments" d.comments,
               flipper := getBool o "flipper_commands" d.flipper, suppress := getBool o "supress_command_not_exist" d.suppress,
               useProject := getBool o "use_project_config" d.useProject }
  | _ => d

def parseCfg (o : Json) : ProjCfg :=
  let b := fun k => match o.getObjVal? k with | .ok (Json.bool b) => some b | _ => none
  { stackLimit := match o.getObjVal? "stack_limit" with | .ok v => v.getNat?.toOption | _ => none,
    comments := b "include_comments", flipper := b "flipper_commands",
    suppress := b "supress_command_not_exist", useProject := b "use_project_config" }

def parseFiles (j : Json) : FS :=
  match j.getObjVal? "files" with
  | .ok (Json.obj kvs) => kvs.toList.filterMap fun (k, v) =>
      match v with | Json.str t => some (pathOf k, t.toList) | _ => none
  | _ => []

def parseCfgs (j : Json) : List (Path × ProjCfg) :=
  match j.getObjVal? "cfgs" with
  | .ok (Json.obj kvs) => kvs.toList.map fun (k, v) => (pathOf k, parseCfg v)
  | _ => []

partial def parseTree : Json → Option (List RawTree)
  | Json.arr xs => xs.toList.mapM fun x =>
      match x with
      | Json.str s => some (RawTree.s s.toList)
      | Json.arr _ => (parseTree x).map RawTree.l
      | _ => none
  | _ => none

def parseSource (j : Json) : Option Source :=
  match j.getObjVal? "src" with
  | .ok s =>
    match s.getObjVal? "text" with
    | .ok (Json.str t) => some (.text t.toList)
    | _ =>
      match s.getObjVal? "lines" with
      | .ok (Json.arr xs) => (xs.toList.mapM fun x => match x with | Json.str t => some t.toList | _ => none).map Source.lines
      | _ =>
        match s.getObjVal? "tree" with
        | .ok t => (parseTree t).map Source.tree
        | _ => none
  | _ => none

def allTexts (fs : FS) (src : Option Source) : List Str :=
  fs.map (·.2) ++ (match src with
    | some (.text t) => [t]
    | some (.lines ls) => ls
    | _ => [])

/-- no line longer than 1500 characters: an expression of about a thousand operands is as deep a parse tree, which the implementation
    solves recursively on the host stack and reports as ExceededLimitError (fix 2643731) — where exactly depends on CPython's recursion
    limit and on how deep the compiler already is, which the model does not represent -/
def shortLines (s : Str) : Bool := (splitChar '\n' s).all (fun l => l.length ≤ 1500)

def inDomainText (s : Str) : Bool := s.all (fun c => inDomainC c || c == '\n') && shortLines s

partial def treeInDomain : List RawTree → Bool
  | [] => true
  | .s x :: r => inDomain x && treeInDomain r
  | .l xs :: r => treeInDomain xs && treeInDomain r

def jNode : Node → Json
  | .line l => Json.arr #[Json.str (strOf l.content), toJson l.num]
  | .block ns => Json.arr (ns.attach.map (fun ⟨n, _⟩ => jNode n)).toArray

def handle (j : Json) : Json :=
  let op := (getStr? j "op").getD "compile"
  let fs := parseFiles j
  let src := parseSource j
  let dom := (allTexts fs src).all inDomainText &&
             (match src with | some (.tree t) => treeInDomain t | _ => true)
  if !dom then Json.mkObj [("kind", "oom"), ("why", "text outside the modelled alphabet")] else
  match op with
  | "compile" =>
    match src with
    | none => Json.mkObj [("kind", "bad-request")]
    | some s =>
      let file := (getStr? j "file").map pathOf
      if (parseOpts j).stackLimit == 0 then Json.mkObj [("kind", "oom"), ("why", "a stack limit of 0 disables the limit")] else
      jResult (compile (parseOpts j) fs file s)
  | "compile_file" =>
    match (getStr? j "file").map pathOf with
    | none => Json.mkObj [("kind", "bad-request")]
    | some f =>
      let cfgs := parseCfgs j
      let (r, wr) := compileFile (parseOpts j) fs cfgs f
      let base := jResult r
      let jo := fun (o : Opts) => Json.mkObj [
          ("stack_limit", toJson o.stackLimit), ("include_comments", toJson o.comments),
          ("flipper_commands", toJson o.flipper), ("supress_command_not_exist", toJson o.suppress),
          ("use_project_config", toJson o.useProject)]
      -- the options the project file denotes after the call (null when there is no project file)
      let after : Json := match wr with
        | some (_, c) => jo c.toOpts
        | none => match cfgs.find? (·.1 == parentDir f) with
          | some (_, c) => jo c.toOpts
          | none => Json.null
      base.setObjVal! "cfgAfter" after
  | "parse" =>
    match src with
    | none => Json.mkObj [("kind", "bad-request")]
    | some s =>
      match prepare s with
      | .ok nodes => Json.mkObj [("kind", "ok"), ("tree", Json.arr (nodes.map jNode).toArray)]
      | .error (.tab n) => Json.mkObj [("kind", "cerr"), ("cls", "InvalidTabError"), ("lineNo", toJson n)]
      | .error (.quote n) => Json.mkObj [("kind", "cerr"), ("cls", "UnclosedQuotationsError"), ("lineNo", toJson n)]
  | "tokenize" =>
    match getStr? j "expr" with
    | none => Json.mkObj [("kind", "bad-request")]
    | some e =>
      if !inDomain e.toList then Json.mkObj [("kind", "oom"), ("why", "text outside the modelled alphabet")] else
      match tokenize [] e.toList with
      | .ok v => Json.mkObj [("kind", "ok"), ("val", Json.str (showVal v))]
      | .cerr k => Json.mkObj [("kind", "cerr"), ("cls", Json.str k.name)]
      | .crash x => Json.mkObj [("kind", "crash"), ("exc", Json.str x)]
      | .oom w => Json.mkObj [("kind", "oom"), ("why", Json.str w)]
  | "lex" =>
    -- the token list of the character scanner: classes, operator texts, values of the leaves, inner text of groups
    match getStr? j "expr" with
    | none => Json.mkObj [("kind", "bad-request")]
    | some e =>
      if !inDomain e.toList then Json.mkObj [("kind", "oom"), ("why", "text outside the modelled alphabet")] else
      let vars : VarEnv := match j.getObjVal? "vars" with
        | .ok (.arr a) => a.toList.filterMap fun x => match x with
          | .arr #[.str n, v] => (match v.getInt? with | .ok i => some (n.toList, Val.int i) | _ => none)
          | _ => none
        | _ => []
      let clsName : Cls → String
        | .str => "String" | .num => "Number" | .bool => "Boolean" | .var => "Variable" | .grp => "Tokenizer"
        | .math => "MathOperator" | .cond => "ConditionalOperator" | .comma => "CommaOperator"
      let jTok : Tok → Json := fun t =>
        match t.cls with
        | .grp => Json.arr #[Json.str "Tokenizer", Json.str (strOf (stripParens t.text)), toJson t.opp]
        | .math | .cond | .comma => Json.arr #[Json.str (clsName t.cls), Json.str (strOf t.text)]
        | _ => match evalTok vars 1 t with
          | .ok v => Json.arr #[Json.str (clsName t.cls), Json.str (showVal v)]
          | _ => Json.arr #[Json.str (clsName t.cls), Json.str "?"]
      match lex (vars.map (·.1)) e.toList with
      | .ok toks =>
        if toks.any (fun t => t.cls == .num && (match evalTok vars 1 t with | .ok _ => false | _ => true)) then
          Json.mkObj [("kind", "oom"), ("why", "a number literal outside the exact-arithmetic domain")]
        else Json.mkObj [("kind", "ok"), ("toks", Json.arr (toks.map jTok).toArray)]
      | .cerr k => Json.mkObj [("kind", "cerr"), ("cls", Json.str k.name)]
      | .crash x => Json.mkObj [("kind", "crash"), ("exc", Json.str x)]
      | .oom w => Json.mkObj [("kind", "oom"), ("why", Json.str w)]
  | "cli" =>
    -- a sequence of command-line invocations on an abstract file system: `compile` (cliCompile) and edits of the project file
    let strFiles := fun (key : String) => match j.getObjVal? key with
      | .ok (Json.obj kvs) => kvs.toList.filterMap fun (k, v) => match v with | Json.str t => some (pathOf k, t.toList) | _ => none
      | _ => []
    let jo := fun (o : Opts) => Json.mkObj [
        ("stack_limit", toJson o.stackLimit), ("include_comments", toJson o.comments),
        ("flipper_commands", toJson o.flipper), ("supress_command_not_exist", toJson o.suppress),
        ("use_project_config", toJson o.useProject)]
    let g : Option Opts := match j.getObjVal? "home_cfg" with
      | .ok (Json.obj o) => some (parseOpts (Json.mkObj [("opts", Json.obj o)]))
      | _ => none
    let fs0 : CliFS := { files := strFiles "pre_files" ++ fs, projCfgs := parseCfgs j, globalCfg := g }
    let invs : List Json := match j.getObjVal? "invocations" with | .ok (Json.arr a) => a.toList | _ => []
    let step := fun (acc : CliFS × List Json) (inv : Json) =>
      let (cfs, outs) := acc
      match getStr? inv "cmd" with
      | some "compile" =>
        let file := pathOf ((getStr? inv "file").getD "")
        let output := pathOf ((getStr? inv "output").getD "a.txt")
        let sl : Option Nat := match inv.getObjVal? "stack_limit" with | .ok v => v.getNat?.toOption | _ => none
        let cm : Option Bool := match inv.getObjVal? "comments" with | .ok (Json.bool b) => some b | _ => none
        let (cfs', o) := cliCompile cfs file output sl cm
        let changed := (cfs'.files.filter fun kv => cfs.files.read kv.1 != some kv.2).map fun kv => Json.str (pathStr kv.1)
        let projAfter : Json := match cfs'.projCfgs.find? (·.1 == parentDir file) with | some (_, c) => jo c.toOpts | none => Json.null
        let globalAfter : Json := match cfs'.globalCfg with | some o => jo o | none => Json.null
        let common : List (String × Json) := [("changed", Json.arr changed.toArray), ("projAfter", projAfter), ("globalAfter", globalAfter),
          ("outText", match cfs'.files.read output with | some t => Json.str (strOf t) | none => Json.null)]
        let r : Json := match o with
          | .success w ps => Json.mkObj (([("kind", Json.str "success"), ("warnings", toJson w), ("prints", Json.arr (ps.map jPrint).toArray)] : List (String × Json)) ++ common)
          | .failure rep => Json.mkObj (([("kind", Json.str "failure"), ("cls", Json.str rep.cls.name), ("trace", Json.arr (rep.trace.map jFrame).toArray),
              ("prints", Json.arr (rep.prints.map jPrint).toArray)] : List (String × Json)) ++ common)
          | .crash x => Json.mkObj (([("kind", Json.str "crash"), ("exc", Json.str x)] : List (String × Json)) ++ common)
          | .oom w => Json.mkObj (([("kind", Json.str "oom"), ("why", Json.str w)] : List (String × Json)) ++ common)
        (cfs', outs ++ [r])
      | some "new" =>
        -- `new NAME`: `dir` = the folder the project goes to, `exists` = whether it is there already, `canon` = the name as the
        -- command canonicalises it (lower case, blanks to dashes)
        let dir := pathOf ((getStr? inv "dir").getD "")
        let ex := getBool inv "exists" false
        let canon := ((getStr? inv "canon").getD "").toList
        let cfs' := cliNew cfs dir ex canon
        let created := (cfs'.files.filter fun kv => cfs.files.read kv.1 != some kv.2).map fun kv => Json.str (pathStr kv.1)
        let cfg : Json := match cfs'.projCfgs.find? (·.1 == dir), cfs.projCfgs.find? (·.1 == dir) with
          | some (_, c), none => jo c.toOpts
          | _, _ => Json.null
        (cfs', outs ++ [Json.mkObj [("kind", Json.str "new"), ("created", Json.arr created.toArray), ("cfgCreated", cfg),
          ("mainText", match cfs'.files.read (dir ++ ["main.txt"]) with | some t => Json.str (strOf t) | none => Json.null)]])
      | some "write" =>
        -- the user edits the project file between two invocations (`cfg` = what the new text denotes)
        match inv.getObjVal? "cfg", getStr? inv "dir" with
        | .ok c, some d =>
          let dir := pathOf d
          ({ cfs with projCfgs := (cfs.projCfgs.filter (·.1 != dir)) ++ [(dir, parseCfg c)] }, outs ++ [Json.mkObj [("kind", "write")]])
        | _, _ => (cfs, outs ++ [Json.mkObj [("kind", "unsupported")]])
      | _ => (cfs, outs ++ [Json.mkObj [("kind", "unsupported")]])
    let (_, outs) := invs.foldl step (fs0, [])
    Json.mkObj [("kind", "cli"), ("steps", Json.arr outs.toArray)]
  | _ => Json.mkObj [("kind", "bad-request")]

partial def loop (hin : IO.FS.Stream) (hout : IO.FS.Stream) : IO Unit := do
  let line ← hin.getLine
  if line.isEmpty then return ()
  let resp := match Json.parse line with
    | .ok j =>
      let r := handle j
      match j.getObjVal? "id" with
      | .ok i => r.setObjVal! "id" i
      | _ => r
    | .error e => Json.mkObj [("kind", "bad-json"), ("msg", Json.str e)]
  hout.putStrLn resp.compress
  loop hin hout

def main : IO Unit := do
  let hin ← IO.getStdin
  let hout ← IO.getStdout
  loop hin hout
  hout.flush
