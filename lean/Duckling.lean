import Duckling.Model.Compile
