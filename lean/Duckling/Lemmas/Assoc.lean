import Duckling.Model.Env
/-
  Association lists as Python dictionaries: lookup / update laws.
-/
namespace Duckling
variable {β : Type}

@[simp] theorem assocGet_nil (k : Str) : assocGet ([] : List (Str × β)) k = none := rfl

theorem assocGet_assocSet_same (l : List (Str × β)) (k : Str) (v : β) : assocGet (assocSet l k v) k = some v := by
  induction l with
  | nil => simp [assocSet, assocGet]
  | cons kv rest ih =>
    obtain ⟨k', v'⟩ := kv
    by_cases h : (k' == k) = true
    · simp [assocSet, assocGet, h]
    · have h' : (k' == k) = false := by simpa using h
      simp [assocSet, assocGet, h', ih]

theorem assocGet_assocSet_other (l : List (Str × β)) (k k2 : Str) (v : β) (hne : k2 ≠ k) :
    assocGet (assocSet l k v) k2 = assocGet l k2 := by
  induction l with
  | nil =>
    have : (k == k2) = false := by simpa using (Ne.symm hne)
    simp [assocSet, assocGet, this]
  | cons kv rest ih =>
    obtain ⟨k', v'⟩ := kv
    by_cases h : (k' == k) = true
    · have hk : k' = k := by simpa using h
      have : (k == k2) = false := by simpa using (Ne.symm hne)
      subst hk
      simp [assocSet, assocGet, this]
    · have h' : (k' == k) = false := by simpa using h
      simp only [assocSet, h', Bool.false_eq_true, if_false, assocGet]
      by_cases h2 : (k' == k2) = true
      · simp [h2]
      · have h2' : (k' == k2) = false := by simpa using h2
        simp [h2', ih]

theorem assocHas_assocSet (l : List (Str × β)) (k k2 : Str) (v : β) :
    assocHas (assocSet l k v) k2 = (k2 == k || assocHas l k2) := by
  by_cases h : k2 = k
  · subst h; simp [assocHas, assocGet_assocSet_same]
  · have : (k2 == k) = false := by simpa using h
    simp [assocHas, assocGet_assocSet_other _ _ _ _ h, this]

/-- keys of a dictionary -/
def keys (l : List (Str × β)) : List Str := l.map (·.1)

theorem assocGet_isSome_iff_mem_keys (l : List (Str × β)) (k : Str) : (assocGet l k).isSome = true ↔ k ∈ keys l := by
  induction l with
  | nil => simp [keys]
  | cons kv rest ih =>
    obtain ⟨k', v'⟩ := kv
    by_cases h : (k' == k) = true
    · have : k' = k := by simpa using h
      simp [assocGet, h, keys, this]
    · have h' : (k' == k) = false := by simpa using h
      have hne : ¬ k = k' := by intro e; subst e; simp at h'
      simp only [assocGet, h', Bool.false_eq_true, if_false, ih, keys, List.map_cons, List.mem_cons, hne, false_or]

theorem assocSet_idem (l : List (Str × β)) (k : Str) (v w : β) : assocSet (assocSet l k v) k w = assocSet l k w := by
  induction l with
  | nil => simp [assocSet]
  | cons kv rest ih =>
    obtain ⟨k', v'⟩ := kv
    by_cases h : (k' == k) = true
    · simp [assocSet, h]
    · have h' : (k' == k) = false := by simpa using h
      simp [assocSet, h', ih]

/-- `update_from_env` restricted to one dictionary -/
def copyBack (p c : List (Str × β)) : List (Str × β) :=
  p.filterMap (fun kv => (assocGet c kv.1).map (fun v => (kv.1, v)))

theorem keys_copyBack_subset (p c : List (Str × β)) : ∀ k ∈ keys (copyBack p c), k ∈ keys p := by
  intro k hk
  simp only [keys, copyBack, List.mem_map, List.mem_filterMap] at hk ⊢
  obtain ⟨⟨k1, v1⟩, ⟨⟨k0, v0⟩, hmem, hsome⟩, rfl⟩ := hk
  cases hg : assocGet c k0 with
  | none => simp [hg] at hsome
  | some v =>
    simp only [hg, Option.map_some, Option.some.injEq, Prod.mk.injEq] at hsome
    exact ⟨(k0, v0), hmem, hsome.1⟩

end Duckling

namespace Duckling
variable {β : Type}

/-- after `update_from_env` a name the parent had carries the child's value; other names are absent -/
theorem assocGet_copyBack (p c : List (Str × β)) (k : Str) :
    assocGet (copyBack p c) k = bif assocHas p k then assocGet c k else none := by
  induction p with
  | nil => simp [copyBack, assocHas]
  | cons kv rest ih =>
    obtain ⟨k', v'⟩ := kv
    have ih' : assocGet (List.filterMap (fun kv => (assocGet c kv.1).map (fun v => (kv.1, v))) rest) k
        = bif assocHas rest k then assocGet c k else none := ih
    by_cases h : (k' == k) = true
    · have hk : k' = k := by simpa using h
      subst hk
      cases hc : assocGet c k' with
      | none =>
        simp only [copyBack, List.filterMap_cons, hc, Option.map_none]
        rw [ih']
        simp [assocHas, assocGet, hc]
      | some v =>
        simp [copyBack, List.filterMap_cons, hc, assocGet, assocHas]
    · have h' : (k' == k) = false := by simpa using h
      cases hc : assocGet c k' with
      | none =>
        simp only [copyBack, List.filterMap_cons, hc, Option.map_none]
        rw [ih']
        simp [assocHas, assocGet, h']
      | some v =>
        simp only [copyBack, List.filterMap_cons, hc, Option.map_some, assocGet, h', Bool.false_eq_true, if_false]
        rw [ih']
        simp [assocHas, assocGet, h']

theorem assocGet_append (l m : List (Str × β)) (k : Str) :
    assocGet (l ++ m) k = (match assocGet l k with | some v => some v | none => assocGet m k) := by
  induction l with
  | nil => simp
  | cons kv rest ih =>
    obtain ⟨k', v'⟩ := kv
    by_cases h : (k' == k) = true
    · simp [assocGet, h]
    · have h' : (k' == k) = false := by simpa using h
      simp [assocGet, h', ih]

/-- lookup in `d.update(e)`: the last entry of `e` for the key wins, else `d` -/
theorem assocGet_assocUpdate (d e : List (Str × β)) (k : Str) :
    assocGet (assocUpdate d e) k = (match assocGet e.reverse k with | some v => some v | none => assocGet d k) := by
  induction e generalizing d with
  | nil => simp [assocUpdate]
  | cons kv rest ih =>
    obtain ⟨k', v'⟩ := kv
    have : assocUpdate d ((k', v') :: rest) = assocUpdate (assocSet d k' v') rest := rfl
    rw [this, ih]
    simp only [List.reverse_cons, assocGet_append]
    cases hr : assocGet rest.reverse k with
    | some v => rfl
    | none =>
      by_cases h : k = k'
      · subst h; simp [assocGet_assocSet_same, assocGet]
      · have h' : (k' == k) = false := by simpa using (Ne.symm h)
        simp [assocGet_assocSet_other _ _ _ _ h, assocGet, h']

theorem assocHas_assocUpdate (d e : List (Str × β)) (k : Str) :
    assocHas (assocUpdate d e) k = (assocHas e k || assocHas d k) := by
  have hrev : ∀ l : List (Str × β), (assocGet l.reverse k).isSome = (assocGet l k).isSome := by
    intro l
    have h1 := assocGet_isSome_iff_mem_keys l.reverse k
    have h2 := assocGet_isSome_iff_mem_keys l k
    have : k ∈ keys l.reverse ↔ k ∈ keys l := by simp [keys]
    rw [Bool.eq_iff_iff, h1, h2, this]
  simp only [assocHas, assocGet_assocUpdate]
  cases hr : assocGet e.reverse k with
  | some v =>
    have := hrev e; rw [hr] at this
    simp [← this]
  | none =>
    have := hrev e; rw [hr] at this
    simp [← this]
end Duckling
