import Duckling.Model.Compile
import Duckling.Lemmas.RBasic
import Duckling.Lemmas.Assoc
/-
  IF / ELIF / ELSE chains as a whole (C05): a chain of any length, run by `Stack.run` through the temp variable `$IF_SUCCESS`,
  is the chain run with an explicit boolean "a branch of this chain has run": a body runs iff that boolean is clear and the arm's
  condition is true, and running it sets the boolean for the rest of the chain.
-/
namespace Duckling

/-- one arm of a chain: its line (split into keyword and condition text) and its body -/
structure Arm where
  l : PreLine
  word : Str
  arg : Option Str
  body : List Node

def Arm.Ok (a : Arm) : Prop :=
  splitWs1 a.l.content = some (a.word, a.arg) ∧ hasBlockOf (some a.body) = true ∧
  (upper a.word = "IF".toList ∨ upper a.word = "ELIF".toList ∨ upper a.word = "ELSE".toList)

def armNodes (a : Arm) : List Node := [.line a.l, .block a.body]

def ifRow : ClsDesc := (Generated.palette.find? (fun c => c.cname == "If")).getD Generated.generic

def ifTableOk : Bool :=
  ifRow.cname == "If" && ifRow.isBlock && !ifRow.flipperOnly && ifRow.strip && ifRow.argReq == .allowed

theorem ifTable_facts : ifTableOk = true := by decide

theorem dispatch_if (word : Str)
    (hw : upper word = "IF".toList ∨ upper word = "ELIF".toList ∨ upper word = "ELSE".toList) : dispatch word true = some ifRow := by
  unfold dispatch
  rcases hw with hw | hw | hw
  · have h : ∀ c, isThisCommand c word true =
        (if c.isBlock then
          (if (startsWith ['$'] word && c.names.contains "F") || (c.blockRequired && false) then false else c.names.contains "IF")
         else c.names.contains "IF") := by
      intro c; unfold isThisCommand; rw [hw]; rfl
    simp only [h]
    cases startsWith ['$'] word <;> decide
  · have h : ∀ c, isThisCommand c word true =
        (if c.isBlock then
          (if (startsWith ['$'] word && c.names.contains "LIF") || (c.blockRequired && false) then false else c.names.contains "ELIF")
         else c.names.contains "ELIF") := by
      intro c; unfold isThisCommand; rw [hw]; rfl
    simp only [h]
    cases startsWith ['$'] word <;> decide
  · have h : ∀ c, isThisCommand c word true =
        (if c.isBlock then
          (if (startsWith ['$'] word && c.names.contains "LSE") || (c.blockRequired && false) then false else c.names.contains "ELSE")
         else c.names.contains "ELSE") := by
      intro c; unfold isThisCommand; rw [hw]; rfl
    simp only [h]
    cases startsWith ['$'] word <;> decide

/-- an arm is run by `If.run_compile` -/
theorem stepCmd_arm (child : Option ChildFn) (ctx : Ctx) (a : Arm) (ha : a.Ok) (st : St) :
    stepCmd child ctx a.l (some a.body) st =
      (ifPre ctx ⟨a.l.num, none⟩ a.word (a.arg.map strip) st >>= runBlockAct child ctx ⟨a.l.num, none⟩ a.body) := by
  obtain ⟨hsplit, hb, hw⟩ := ha
  have hf := ifTable_facts
  simp only [ifTableOk, Bool.and_eq_true, Bool.not_eq_true', beq_iff_eq] at hf
  obtain ⟨⟨⟨⟨h1, h2⟩, h3⟩, h4⟩, h5⟩ := hf
  unfold stepCmd
  simp only [hsplit, hb, dispatch_if a.word hw, h2, if_true, Option.getD_some]
  unfold compileBlock blockPre
  simp only [h1, h3, h4, h5, Bool.false_and, Bool.false_eq_true, if_false, if_true]
  cases a.arg <;> simp

/-- the chain with an explicit boolean; `k` is what follows the chain -/
def chainSpec (child : Option ChildFn) (ctx : Ctx) (k : St → List Str → Res) : List Arm → Bool → St → List Str → Res
  | [], _, st, out => k st out
  | a :: rest, taken, st, out =>
    let pos : Pos := ⟨a.l.num, none⟩
    let name := upper a.word
    let arg' := a.arg.map strip
    let st0 := withFlag st
    if arg'.isNone && name != "ELSE".toList then raise ctx pos st0 .invalidArguments
    else if arg'.isSome && name == "ELSE".toList then raise ctx pos st0 .invalidArguments
    else
      ifCond ctx pos name arg' st0 >>= fun cond =>
      let taken0 := if name == "IF".toList then false else taken
      let st1 := if name == "IF".toList then setIfFlag st0 false else st0
      if taken0 || !cond then chainSpec child ctx k rest taken0 st1 out
      else
        runChild child ctx pos (setIfFlag st1 true) a.body ctx.file (enterSt (setIfFlag st1 true)) >>= fun r =>
        let st2 := leave false (setIfFlag st1 true) r.st
        if r.sig == .normal then chainSpec child ctx k rest true st2 (out ++ r.out)
        else .ok { st := st2, out := out ++ r.out, sig := r.sig }

theorem ifFlag_set (st : St) (b : Bool) : ifFlag (setIfFlag st b) = b := by
  simp [ifFlag, setIfFlag, assocGet_assocSet_same, Val.truthy]

theorem hasFlag_set (st : St) (b : Bool) : assocHas (setIfFlag st b).env.temp ifSuccess = true := by
  simp [setIfFlag, assocHas, assocGet_assocSet_same]

theorem hasFlag_withFlag (st : St) : assocHas (withFlag st).env.temp ifSuccess = true := by
  unfold withFlag
  split
  · assumption
  · exact hasFlag_set st false

theorem ifFlag_withFlag (st : St) : ifFlag (withFlag st) = ifFlag st := by
  unfold withFlag
  split
  · rfl
  · rename_i h
    rw [ifFlag_set]
    have : assocGet st.env.temp ifSuccess = none := by simpa [assocHas] using h
    simp [ifFlag, this]

/-- the chain flag in force: either the next arm is an IF (which resets it), or the flag variable holds `taken` -/
def FlagIs (arms : List Arm) (st : St) (taken : Bool) : Prop :=
  match arms with
  | [] => True
  | a :: _ => upper a.word = "IF".toList ∨ ifFlag st = taken

theorem ifDecide_eq (name : Str) (st : St) (cond : Bool) :
    ifDecide name st cond =
      (if (if name == "IF".toList then false else ifFlag st) || !cond then
        .done { st := if name == "IF".toList then setIfFlag st false else st }
       else .body (setIfFlag (if name == "IF".toList then setIfFlag st false else st) true)) := by
  unfold ifDecide
  by_cases h1 : (name == "IF".toList) = true <;> cases ifFlag st <;> cases cond <;> simp [h1]

/-- **a chain of any length**: what `Stack.run` does with the temp variable is the chain with an explicit boolean -/
theorem runNodes_chain (child : Option ChildFn) (ctx : Ctx) (tail : List Node) (k : St → List Str → Res)
    (hk : ∀ st' out', runNodes child ctx tail st' out' = k st' out')
    (arms : List Arm) (hok : ∀ a ∈ arms, a.Ok)
    (taken : Bool) (st : St) (out : List Str) (hflag : FlagIs arms st taken) :
    runNodes child ctx (arms.flatMap armNodes ++ tail) st out = chainSpec child ctx k arms taken st out := by
  induction arms generalizing taken st out with
  | nil => simp [chainSpec, hk]
  | cons a rest ih =>
    have ha := hok a List.mem_cons_self
    have hrest : ∀ b ∈ rest, b.Ok := fun b hb => hok b (List.mem_cons_of_mem _ hb)
    have hskip : ∀ st' out', runNodes child ctx (Node.block a.body :: (rest.flatMap armNodes ++ tail)) st' out' =
        runNodes child ctx (rest.flatMap armNodes ++ tail) st' out' := by
      intro st' out'; rw [runNodes]
    simp only [List.flatMap_cons, armNodes, List.cons_append, List.nil_append]
    rw [runNodes]
    simp only [nextBlock]
    rw [stepCmd_arm child ctx a ha st]
    unfold chainSpec ifPre
    simp only []
    split
    · rfl
    · split
      · rfl
      · cases hcond : ifCond ctx ⟨a.l.num, none⟩ (upper a.word) (a.arg.map strip) (withFlag st) with
        | err e => rfl
        | crash e => rfl
        | oom w => rfl
        | ok cond =>
          simp only [R.bind_ok]
          -- the flag the arm reads is the boolean
          have hfl : (if upper a.word == "IF".toList then false else ifFlag (withFlag st)) =
              (if upper a.word == "IF".toList then false else taken) := by
            by_cases hif : (upper a.word == "IF".toList) = true
            · simp only [hif, if_true]
            · simp only [hif, Bool.false_eq_true, if_false]
              rcases hflag with h | h
              · exact absurd (by simpa using h) hif
              · rw [ifFlag_withFlag]; exact h
          rw [ifDecide_eq, hfl]
          by_cases hsk : ((if upper a.word == "IF".toList then false else taken) || !cond) = true
          · -- the arm is skipped
            simp only [hsk, if_true, runBlockAct, R.bind_ok, beq_self_eq_true, List.append_nil, hskip]
            apply ih hrest
            cases rest with
            | nil => trivial
            | cons b rest' =>
              right
              by_cases hif : (upper a.word == "IF".toList) = true
              · simp only [hif, if_true, ifFlag_set]
              · simp only [hif, Bool.false_eq_true, if_false]
                rcases hflag with h | h
                · exact absurd (by simpa using h) hif
                · rw [ifFlag_withFlag]; exact h
          · -- the arm runs its body
            simp only [hsk, Bool.false_eq_true, if_false, runBlockAct]
            cases runChild child ctx ⟨a.l.num, none⟩ _ a.body ctx.file _ with
            | err e => rfl
            | crash e => rfl
            | oom w => rfl
            | ok r =>
              simp only [R.bind_ok]
              by_cases hn : (r.sig == Sig.normal) = true
              · simp only [hn, if_true, hskip]
                apply ih hrest
                cases rest with
                | nil => trivial
                | cons b rest' =>
                  right
                  exact ifFlag_set _ true
              · simp only [hn, Bool.false_eq_true, if_false]

end Duckling
