import Duckling.Model.Compile
import Duckling.Lemmas.LexDigits
/-
  DELAY / DEFAULT_DELAY lines of a plain script (C01): the argument — a string of digits, with any blanks around it — goes through the
  expression scanner and comes out as the number it denotes.
-/
namespace Duckling

def delayRow : ClsDesc := (Generated.palette.find? (fun c => c.cname == "Delay")).getD Generated.generic
def defaultDelayRow : ClsDesc := (Generated.palette.find? (fun c => c.cname == "DefaultDelay")).getD Generated.generic

def delayTableOk : Bool :=
  delayRow.cname == "Delay" && !delayRow.isBlock && !delayRow.flipperOnly && delayRow.strip && delayRow.tokenize &&
  delayRow.argType == .int && delayRow.argReq == .required && delayRow.hooks == ["verify_arg"] &&
  defaultDelayRow.cname == "DefaultDelay" && !defaultDelayRow.isBlock && !defaultDelayRow.flipperOnly && defaultDelayRow.strip &&
  defaultDelayRow.tokenize && defaultDelayRow.argType == .int && defaultDelayRow.argReq == .required &&
  defaultDelayRow.hooks == ["verify_args", "verify_arg", "run_compile", "init_env"]

theorem delayTable_facts : delayTableOk = true := by decide

/-- **`DELAY ddd`** (any casing of the word, any blanks around the digits, leading zeros): emits `DELAY n` with `n` the number
    the digits denote; the state is untouched -/
theorem delay_line (child : Option ChildFn) (ctx : Ctx) (word a ds : Str) (line : Nat) (st : St)
    (hd : startsWith ['$'] (upper word) = false) (ha : a.isEmpty = false) (hds : strip a = ds)
    (hne : ds ≠ []) (hall : ds.all isDigitC = true) (hsmall : Val.hugeInt (digitsVal ds) = false) :
    compileSimple child ctx delayRow word line (some a) none st =
      .ok { st := st, out := [upper word ++ [' '] ++ natToStr (digitsVal ds)], sig := .normal } := by
  have hf := delayTable_facts
  simp only [delayTableOk, Bool.and_eq_true, Bool.not_eq_true', beq_iff_eq] at hf
  obtain ⟨⟨⟨⟨⟨⟨⟨⟨⟨⟨⟨⟨⟨⟨⟨h1, h2⟩, h3⟩, h4⟩, h5⟩, h6⟩, h7⟩, h8⟩, _⟩, _⟩, _⟩, _⟩, _⟩, _⟩, _⟩, _⟩ := hf
  have hrun : hasHook delayRow "run_compile" = false := by simp [hasHook, h8]
  have hva : hasHook delayRow "verify_args" = false := by simp [hasHook, h8]
  have hv : hasHook delayRow "verify_arg" = true := by simp [hasHook, h8]
  have hfa : hasHook delayRow "format_arg" = false := by simp [hasHook, h8]
  have htok := tokenize_digits st.env.allVars ds hne hall
  have hnn : ¬ ((digitsVal ds : Int) < 0) := by omega
  simp [compileSimple, simplePre, prepareArgs, checkArgs, itemsOf, nameOf, h1, h3, h4, h5, h6, h7, hd, listifyArgs, ha, hds, Arg.str,
    evaluateArgs, evalIn, htok, liftO, verifyTypes, typeOk, isListVal, verifyArgsHook, hva, verifyEach, verifyArgHook, hv, hnn, formatArg, hfa,
    multiComp, runCompile, hrun, runCompileLocal, defaultEmit, hsmall, intToStr]

end Duckling

namespace Duckling

/-- **`DEFAULT_DELAY ddd`**: emits `DEFAULT_DELAY n` and records the value in `$DEFAULT_DELAY`; no warning for a single value -/
theorem default_delay_line (child : Option ChildFn) (ctx : Ctx) (word a ds : Str) (line : Nat) (st : St)
    (hd : startsWith ['$'] (upper word) = false) (ha : a.isEmpty = false) (hds : strip a = ds)
    (hne : ds ≠ []) (hall : ds.all isDigitC = true) (hsmall : Val.hugeInt (digitsVal ds) = false)
    (hsys : assocHas st.env.sys sysVarDefaultDelay = true) :
    compileSimple child ctx defaultDelayRow word line (some a) none st =
      .ok { st := { st with env := { st.env with sys := assocSet st.env.sys sysVarDefaultDelay (.int (digitsVal ds)) } },
            out := [upper word ++ [' '] ++ natToStr (digitsVal ds)], sig := .normal } := by
  have hf := delayTable_facts
  simp only [delayTableOk, Bool.and_eq_true, Bool.not_eq_true', beq_iff_eq] at hf
  obtain ⟨⟨⟨⟨⟨⟨⟨⟨⟨⟨⟨⟨⟨⟨⟨_, _⟩, _⟩, _⟩, _⟩, _⟩, _⟩, _⟩, h1⟩, h2⟩, h3⟩, h4⟩, h5⟩, h6⟩, h7⟩, h8⟩ := hf
  have hrun : hasHook defaultDelayRow "run_compile" = true := by simp [hasHook, h8]
  have hva : hasHook defaultDelayRow "verify_args" = true := by simp [hasHook, h8]
  have hv : hasHook defaultDelayRow "verify_arg" = true := by simp [hasHook, h8]
  have hfa : hasHook defaultDelayRow "format_arg" = false := by simp [hasHook, h8]
  have htok := tokenize_digits st.env.allVars ds hne hall
  have hnn : ¬ ((digitsVal ds : Int) < 0) := by omega
  simp [compileSimple, simplePre, prepareArgs, checkArgs, itemsOf, nameOf, h1, h3, h4, h5, h6, h7, hd, listifyArgs, ha, hds, Arg.str,
    evaluateArgs, evalIn, htok, liftO, verifyTypes, typeOk, isListVal, verifyArgsHook, hva, verifyEach, verifyArgHook, hv, hnn, formatArg, hfa,
    multiComp, runCompile, hrun, runCompileLocal, defaultEmit, hsmall, intToStr, hsys]

end Duckling
