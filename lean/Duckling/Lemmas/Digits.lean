import Duckling.Model.PyStr
namespace Duckling

theorem digitChar_isDigit (d : Nat) : isDigitC (digitChar d) = true := by
  have h : d % 10 < 10 := Nat.mod_lt _ (by decide)
  unfold digitChar isDigitC
  have : ∀ k, k < 10 → (Char.ofNat ('0'.toNat + k)).isDigit = true := by decide
  exact this _ h

theorem natDigitsAux_all (fuel n : Nat) (acc : Str) (hacc : acc.all isDigitC = true) :
    (natDigitsAux fuel n acc).all isDigitC = true := by
  induction fuel generalizing n acc with
  | zero => simpa [natDigitsAux] using hacc
  | succ f ih =>
    unfold natDigitsAux
    split
    · simp [digitChar_isDigit, hacc]
    · exact ih _ _ (by simp [digitChar_isDigit, hacc])

theorem natDigitsAux_ne_nil (fuel n : Nat) (acc : Str) (h : fuel ≠ 0 ∨ acc ≠ []) : natDigitsAux fuel n acc ≠ [] := by
  induction fuel generalizing n acc with
  | zero => simpa [natDigitsAux] using h
  | succ f ih =>
    unfold natDigitsAux
    split
    · simp
    · exact ih _ _ (Or.inr (by simp))

/-- the printed form of a natural number is a non-empty string of digits -/
theorem natToStr_digits (n : Nat) : (natToStr n).all isDigitC = true ∧ natToStr n ≠ [] :=
  ⟨natDigitsAux_all _ _ _ rfl, natDigitsAux_ne_nil _ _ _ (Or.inl (by omega))⟩

theorem intToStr_nonneg (i : Int) (h : ¬ i < 0) : intToStr i = natToStr i.natAbs := by simp [intToStr, h]

/-! ### what is written out denotes the value: `digitsVal (natToStr n) = n` -/

theorem foldl_digits_acc (s : Str) (a : Nat) :
    s.foldl (fun acc c => acc * 10 + (c.toNat - '0'.toNat)) a = a * 10 ^ s.length + digitsVal s := by
  induction s generalizing a with
  | nil => simp [digitsVal]
  | cons c r ih =>
    simp only [List.foldl_cons, List.length_cons, digitsVal]
    rw [ih, ih (0 * 10 + (c.toNat - '0'.toNat))]
    simp only [Nat.zero_mul, Nat.zero_add, Nat.pow_succ]
    rw [Nat.add_mul, Nat.add_assoc, Nat.mul_assoc, Nat.mul_comm 10]

theorem digitsVal_cons (c : Char) (s : Str) : digitsVal (c :: s) = (c.toNat - '0'.toNat) * 10 ^ s.length + digitsVal s := by
  have := foldl_digits_acc s (0 * 10 + (c.toNat - '0'.toNat))
  simpa [digitsVal] using this

theorem digitChar_val (d : Nat) (h : d < 10) : (digitChar d).toNat - '0'.toNat = d := by
  have : ∀ k, k < 10 → (digitChar k).toNat - '0'.toNat = k := by decide
  exact this d h

theorem natDigitsAux_val (fuel n : Nat) (acc : Str) (h : n < fuel) :
    digitsVal (natDigitsAux fuel n acc) = n * 10 ^ acc.length + digitsVal acc := by
  induction fuel generalizing n acc with
  | zero => omega
  | succ f ih =>
    unfold natDigitsAux
    split
    · rename_i hlt
      rw [digitsVal_cons, digitChar_val n hlt]
    · rename_i hge
      have hdiv : n / 10 < f := by omega
      rw [ih (n / 10) _ hdiv, digitsVal_cons, digitChar_val (n % 10) (Nat.mod_lt _ (by decide))]
      simp only [List.length_cons, Nat.pow_succ]
      have := Nat.div_add_mod n 10
      generalize 10 ^ acc.length = P
      have e1 : n / 10 * (10 * P) = 10 * (n / 10) * P := by rw [← Nat.mul_assoc, Nat.mul_comm (n / 10) 10]
      have e2 : n / 10 * (P * 10) = 10 * (n / 10) * P := by rw [Nat.mul_comm P 10, e1]
      first
        | rw [e1, ← Nat.add_assoc, ← Nat.add_mul, this]
        | rw [e2, ← Nat.add_assoc, ← Nat.add_mul, this]

/-- **the digits `str(n)` writes denote `n`** -/
theorem digitsVal_natToStr (n : Nat) : digitsVal (natToStr n) = n := by
  have := natDigitsAux_val (n + 1) n [] (by omega)
  simpa [natToStr, digitsVal] using this

end Duckling
