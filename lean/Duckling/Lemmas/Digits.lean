import Duckling.Model.PyStr
namespace Duckling

theorem digitChar_isDigit (d : Nat) : isDigitC (digitChar d) = true := by
  have h : d % 10 < 10 := Nat.mod_lt _ (by decide)
  unfold digitChar isDigitC
  have : ∀ k, k < 10 → (Char.ofNat ('0'.toNat + k)).isDigit = true := by decide
  exact this _ h

theorem natDigitsAux_all (fuel n : Nat) (acc : Str) (hacc : acc.all isDigitC = true) :
    (natDigitsAux fuel n acc).all isDigitC = true := by
  induction fuel generalizing n acc with
  | zero => simpa [natDigitsAux] using hacc
  | succ f ih =>
    unfold natDigitsAux
    split
    · simp [digitChar_isDigit, hacc]
    · exact ih _ _ (by simp [digitChar_isDigit, hacc])

theorem natDigitsAux_ne_nil (fuel n : Nat) (acc : Str) (h : fuel ≠ 0 ∨ acc ≠ []) : natDigitsAux fuel n acc ≠ [] := by
  induction fuel generalizing n acc with
  | zero => simpa [natDigitsAux] using h
  | succ f ih =>
    unfold natDigitsAux
    split
    · simp
    · exact ih _ _ (Or.inr (by simp))

/-- the printed form of a natural number is a non-empty string of digits -/
theorem natToStr_digits (n : Nat) : (natToStr n).all isDigitC = true ∧ natToStr n ≠ [] :=
  ⟨natDigitsAux_all _ _ _ rfl, natDigitsAux_ne_nil _ _ _ (Or.inl (by omega))⟩

theorem intToStr_nonneg (i : Int) (h : ¬ i < 0) : intToStr i = natToStr i.natAbs := by simp [intToStr, h]

end Duckling
