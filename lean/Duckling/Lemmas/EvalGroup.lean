import Duckling.Lemmas.LexExpr
import Duckling.Lemmas.Prec
/-
  Evaluation of parenthesised groups.  The evaluator (`Token.solve` / `Tokenizer.solve`) is mutually recursive with the scanner: the
  value of a group token is `Tokenizer.solve` of the text between its parentheses.  The model carries a fuel argument through that
  recursion; here it is shown that the fuel is immaterial (`eval_fuel_mono`: a result that is not "out of fuel" is the result for any
  larger fuel), that tree building preserves a weight that bounds the fuel an evaluation needs (`reduceAll_weight`), and hence that
  the evaluator run by `tokenize` on a token tree is the fuel-free evaluation `evalTreeS`, whose group leaves are `tokenize` of the
  inner text (`evalTree_eq_S`).
-/
namespace Duckling

/-- the model's own "the recursion fuel ran out" answer (never a statement about the code) -/
def Outcome.isFuel {α : Type} : Outcome α → Bool
  | .oom w => w == "eval fuel"
  | _ => false

theorem Outcome.bind_fuel_mono {α β : Type} {x x' : Outcome α} {g g' : α → Outcome β}
    (hn : (x >>= g).isFuel = false) (hx : x.isFuel = false → x' = x)
    (hg : ∀ a, x = .ok a → (g a).isFuel = false → g' a = g a) : (x' >>= g') = (x >>= g) := by
  cases x with
  | ok a => rw [hx rfl]; exact hg a rfl hn
  | cerr k => rw [hx rfl]; rfl
  | crash e => rw [hx rfl]; rfl
  | oom w => rw [hx hn]; rfl

theorem Outcome.isFuel_of_bind {α β : Type} {x : Outcome α} {g : α → Outcome β} (hn : (x >>= g).isFuel = false) : x.isFuel = false := by
  cases x with
  | ok a => rfl
  | cerr k => rfl
  | crash e => rfl
  | oom w => exact hn

/-- **the fuel of the evaluator is immaterial**: whatever an evaluation returns with fuel `f`, other than "out of fuel", it returns
    with fuel `f + 1` — for value tokens, trees and whole texts (groups, i.e. the recursion through the scanner, included) -/
theorem eval_fuel_mono (vars : VarEnv) : ∀ f,
    (∀ t, (evalTok vars f t).isFuel = false → evalTok vars (f + 1) t = evalTok vars f t) ∧
    (∀ tr, (evalTree vars f tr).isFuel = false → evalTree vars (f + 1) tr = evalTree vars f tr) ∧
    (∀ s opp, (solveOpp vars f s opp).isFuel = false → solveOpp vars (f + 1) s opp = solveOpp vars f s opp) := by
  intro f
  induction f with
  | zero =>
    refine ⟨fun t h => ?_, fun tr h => ?_, fun s opp h => ?_⟩
    · simp [evalTok, Outcome.isFuel] at h
    · simp [evalTree, Outcome.isFuel] at h
    · simp [solveOpp, Outcome.isFuel] at h
  | succ f ih =>
    obtain ⟨ih1, ih2, ih3⟩ := ih
    refine ⟨fun t h => ?_, fun tr h => ?_, fun s opp h => ?_⟩
    · rw [evalTok] at h
      rw [evalTok, evalTok]
      cases hc : t.cls <;> simp only [hc] at h ⊢
      exact ih3 _ _ h
    · cases tr with
      | leaf t =>
        rw [evalTree] at h
        rw [evalTree, evalTree]
        exact ih1 t h
      | node op l r =>
        rw [evalTree] at h
        rw [evalTree, evalTree]
        refine Outcome.bind_fuel_mono h (ih2 l) (fun a _ ha => ?_)
        exact Outcome.bind_fuel_mono ha (ih2 r) (fun _ _ _ => rfl)
    · rw [solveOpp] at h
      rw [solveOpp, solveOpp]
      refine Outcome.bind_fuel_mono h (fun _ => rfl) (fun toks _ ht => ?_)
      cases hfl : toFlat toks with
      | none => rfl
      | some hp =>
        obtain ⟨hh, ps⟩ := hp
        simp only [hfl] at ht ⊢
        split
        · rfl
        · rename_i hps
          simp only [hps] at ht
          exact Outcome.bind_fuel_mono ht (ih2 _) (fun _ _ _ => rfl)

theorem solveOpp_fuel_add (vars : VarEnv) (f : Nat) (s : Str) (opp : Bool) (h : (solveOpp vars f s opp).isFuel = false) :
    ∀ k, solveOpp vars (f + k) s opp = solveOpp vars f s opp := by
  intro k
  induction k with
  | zero => rfl
  | succ k ih =>
    rw [← Nat.add_assoc, (eval_fuel_mono vars (f + k)).2.2 s opp (by rw [ih]; exact h), ih]

theorem solveOpp_fuel_ge (vars : VarEnv) (f f' : Nat) (hle : f ≤ f') (s : Str) (opp : Bool) (h : (solveOpp vars f s opp).isFuel = false) :
    solveOpp vars f' s opp = solveOpp vars f s opp := by
  have := solveOpp_fuel_add vars f s opp h (f' - f)
  rwa [show f + (f' - f) = f' by omega] at this

/-! ### the fuel-free evaluation of a token tree -/

/-- the value of a leaf token: a group is `Tokenizer.solve` of the text between its parentheses (negated for `!( )`) — that is,
    `tokenize` of that text on its own; the other leaves do not recurse -/
def leafValS (vars : VarEnv) (t : Tok) : Outcome Val :=
  match t.cls with
  | .grp => solveOpp vars (evalFuel (stripParens t.text)) (stripParens t.text) t.opp
  | _ => evalTok vars 1 t

/-- evaluation of a token tree, left operand first, without any fuel -/
def evalTreeS (vars : VarEnv) : Tree Tok Str → Outcome Val
  | .leaf t => leafValS vars t
  | .node op l r => do
    let a ← evalTreeS vars l
    let b ← evalTreeS vars r
    Val.binop (String.ofList op) a b

/-- weight of a leaf: the length of a group's text (inner text plus its two parentheses) -/
def wLeaf (t : Tok) : Nat := if t.cls = .grp then (stripParens t.text).length + 2 else 0

def wTree : Tree Tok Str → Nat
  | .leaf t => wLeaf t
  | .node _ l r => wTree l + wTree r + 1

def wPairs (ps : Pairs Tok Str) : Nat := (ps.map fun p => wTree p.2 + 1).sum

/-- with fuel three times its weight (plus six) the fuelled evaluator computes the fuel-free evaluation -/
theorem evalTree_eq_S (vars : VarEnv) : ∀ (tr : Tree Tok Str) (F : Nat), 3 * wTree tr + 6 ≤ F → (evalTreeS vars tr).isFuel = false →
    evalTree vars F tr = evalTreeS vars tr := by
  intro tr
  induction tr with
  | leaf t =>
    intro F hF hn
    obtain ⟨f, rfl⟩ : ∃ f, F = f + 2 := ⟨F - 2, by simp only [wTree] at hF; omega⟩
    rw [evalTree, evalTok]
    simp only [evalTreeS, leafValS] at hn ⊢
    cases hc : t.cls <;> simp only [hc] at hn ⊢ <;> try (rw [evalTok]; simp only [hc])
    -- the group: fuel f is at least the fuel `tokenize` would take for the inner text
    refine solveOpp_fuel_ge vars _ f ?_ _ _ hn
    simp only [wTree, wLeaf, hc, if_true, evalFuel] at hF ⊢
    omega
  | node op l r ihl ihr =>
    intro F hF hn
    obtain ⟨f, rfl⟩ : ∃ f, F = f + 1 := ⟨F - 1, by omega⟩
    simp only [wTree] at hF
    rw [evalTree]
    simp only [evalTreeS] at hn ⊢
    refine Outcome.bind_fuel_mono hn (fun h => ihl f (by omega) h) (fun a _ ha => ?_)
    exact Outcome.bind_fuel_mono ha (fun h => ihr f (by omega) h) (fun _ _ _ => rfl)

theorem reducePass_weight (r : Str → Bool) : ∀ (ps : Pairs Tok Str) (acc : Tree Tok Str),
    wTree (reducePass r acc ps).1 + wPairs (reducePass r acc ps).2 = wTree acc + wPairs ps := by
  intro ps
  induction ps with
  | nil => intro acc; simp [reducePass]
  | cons p rest ih =>
    intro acc
    obtain ⟨o, t⟩ := p
    rw [reducePass]
    by_cases hr : r o = true
    · simp only [hr, if_true]
      rw [ih]
      simp only [wTree, wPairs, List.map_cons, List.sum_cons]
      omega
    · simp only [hr, Bool.false_eq_true, if_false]
      have := ih t
      simp only [wPairs, List.map_cons, List.sum_cons] at this ⊢
      omega

/-- tree building keeps the total weight (it only regroups the values under new nodes, one per operator) -/
theorem reduceAll_weight : ∀ (rs : List (Str → Bool)) (h : Tree Tok Str) (ps : Pairs Tok Str),
    wTree (reduceAll rs h ps).1 + wPairs (reduceAll rs h ps).2 = wTree h + wPairs ps := by
  intro rs
  induction rs with
  | nil => intro h ps; rfl
  | cons r rs ih =>
    intro h ps
    rw [reduceAll, ih, reducePass_weight]

theorem normalise_idem (v : Val) : v.normalise.normalise = v.normalise := by
  cases v with
  | flt m k => cases k <;> rfl
  | _ => rfl

/-- the weight of an atom's token is at most the length of its text -/
theorem wLeaf_atom_le (a : Atom) : wLeaf a.tok ≤ a.text.length := by
  cases a with
  | grp neg inner =>
    simp only [wLeaf, Atom.tok, if_true, stripParens_grp, Atom.text, grpText_length]
    omega
  | _ => simp [wLeaf, Atom.tok]

end Duckling
