import Duckling.Lemmas.LexInv
import Duckling.Lemmas.NoCrash
/-
  The expression evaluator never raises a host exception: the scanner only finishes number tokens that
  `int()`/`float()` accept (`lex_good`), the tree builder only rearranges leaves, and the operators never crash
  (`binop_no_crash`).  This discharges the `EvalSafe` hypothesis of `exec_crash_only_index`.
-/
namespace Duckling

def GoodTok (t : Tok) : Prop := t.cls = .num → GoodNumText t.text

def Tree.All {V O : Type} (P : V → Prop) : Tree V O → Prop
  | .leaf v => P v
  | .node _ l r => l.All P ∧ r.All P

def PairsAll {V O : Type} (P : V → Prop) (ps : Pairs V O) : Prop := ∀ p ∈ ps, p.2.All P

theorem reducePass_leaves {V O : Type} (P : V → Prop) (r : O → Bool) (ps : Pairs V O) :
    ∀ acc : Tree V O, acc.All P → PairsAll P ps → (reducePass r acc ps).1.All P ∧ PairsAll P (reducePass r acc ps).2 := by
  induction ps with
  | nil => intro acc ha hp; exact ⟨ha, hp⟩
  | cons p rest ih =>
    intro acc ha hp
    obtain ⟨o, t⟩ := p
    have ht : t.All P := hp (o, t) (by simp)
    have hrest : PairsAll P rest := fun q hq => hp q (by simp [hq])
    unfold reducePass
    split
    · exact ih (.node o acc t) ⟨ha, ht⟩ hrest
    · have := ih t ht hrest
      refine ⟨ha, ?_⟩
      intro q hq
      rcases List.mem_cons.mp hq with rfl | hq
      · exact this.1
      · exact this.2 q hq

theorem reduceAll_leaves {V O : Type} (P : V → Prop) (rs : List (O → Bool)) :
    ∀ (h : Tree V O) (ps : Pairs V O), h.All P → PairsAll P ps →
      (reduceAll rs h ps).1.All P ∧ PairsAll P (reduceAll rs h ps).2 := by
  induction rs with
  | nil => intro h ps hh hp; exact ⟨hh, hp⟩
  | cons r rs ih =>
    intro h ps hh hp
    unfold reduceAll
    have := reducePass_leaves P r ps h hh hp
    exact ih _ _ this.1 this.2

theorem toFlat_go_all (P : Tok → Prop) : ∀ (n : Nat) (l : List Tok) (ps : Pairs Tok Str), l.length ≤ n →
    toFlat.go l = some ps → (∀ t ∈ l, P t) → PairsAll P ps := by
  intro n
  induction n with
  | zero =>
    intro l ps hn h _
    have : l = [] := List.length_eq_zero_iff.mp (by omega)
    subst this
    simp [toFlat.go] at h
    subst h
    intro q hq; cases hq
  | succ n ih =>
    intro l ps hn h hl
    match l, h, hl, hn with
    | [], h, _, _ =>
      simp [toFlat.go] at h
      subst h
      intro q hq; cases hq
    | [_], h, _, _ => simp [toFlat.go] at h
    | o :: v :: rest, h, hl, hn =>
      simp only [toFlat.go, Option.map_eq_some_iff] at h
      obtain ⟨ps', hps', rfl⟩ := h
      have := ih rest ps' (by simp at hn; omega) hps' (fun t ht => hl t (by simp [ht]))
      intro q hq
      rcases List.mem_cons.mp hq with rfl | hq
      · exact hl v (by simp)
      · exact this q hq

theorem toFlat_all (P : Tok → Prop) (toks : List Tok) (h : Tree Tok Str) (ps : Pairs Tok Str)
    (hf : toFlat toks = some (h, ps)) (hall : ∀ t ∈ toks, P t) : h.All P ∧ PairsAll P ps := by
  cases toks with
  | nil => simp [toFlat] at hf
  | cons v rest =>
    simp only [toFlat, Option.map_eq_some_iff, Prod.mk.injEq] at hf
    obtain ⟨ps', hps', rfl, rfl⟩ := hf
    exact ⟨hall v (by simp), toFlat_go_all P rest.length rest ps' (Nat.le_refl _) hps' (fun t ht => hall t (by simp [ht]))⟩

theorem numberValue_isCrash (t : Str) (h : GoodNumText t) : Outcome.isCrash (numberValue t) = false :=
  (isCrash_false_iff _).mpr (numberValue_no_crash t h)

theorem lex_isCrash (vars : List Str) (s : Str) : Outcome.isCrash (lex vars s) = false :=
  (isCrash_false_iff _).mpr (lex_good vars s).1

/-- the three mutually recursive evaluators, together, by induction on the fuel -/
theorem eval_no_crash (vars : VarEnv) : ∀ f : Nat,
    (∀ t, GoodTok t → Outcome.isCrash (evalTok vars f t) = false) ∧
    (∀ tr, Tree.All GoodTok tr → Outcome.isCrash (evalTree vars f tr) = false) ∧
    (∀ s opp, Outcome.isCrash (solveOpp vars f s opp) = false) := by
  intro f
  induction f with
  | zero =>
    refine ⟨fun t _ => ?_, fun tr _ => ?_, fun s opp => ?_⟩
    · simp [evalTok, Outcome.isCrash]
    · simp [evalTree, Outcome.isCrash]
    · simp [solveOpp, Outcome.isCrash]
  | succ f ih =>
    obtain ⟨ihTok, ihTree, ihSolve⟩ := ih
    refine ⟨fun t ht => ?_, fun tr htr => ?_, fun s opp => ?_⟩
    · simp only [evalTok]
      split
      · rename_i hc; exact numberValue_isCrash _ (ht hc)
      · rfl
      · rfl
      · split <;> rfl
      · exact ihSolve _ _
      · rfl
    · cases tr with
      | leaf t => simp only [evalTree]; exact ihTok t htr
      | node op l r =>
        simp only [evalTree]
        exact bind_no_crash _ _ (ihTree l htr.1) (fun a => bind_no_crash _ _ (ihTree r htr.2) (fun b => binop_no_crash _ _ _))
    · simp only [solveOpp]
      cases hlex : lex (vars.map (·.1)) s with
      | ok toks =>
        simp only [Outcome.bind_ok]
        have hgood : ∀ t ∈ toks, GoodTok t := fun t ht hc => (lex_good _ _).2 toks hlex t ht hc
        cases hflat : toFlat toks with
        | none => rfl
        | some hp =>
          obtain ⟨h, ps⟩ := hp
          simp only []
          have hall := toFlat_all GoodTok toks h ps hflat hgood
          have hred := reduceAll_leaves GoodTok ranks h ps hall.1 hall.2
          split
          · rfl
          · refine bind_no_crash _ _ (ihTree _ hred.1) ?_
            intro v
            split <;> rfl
      | cerr k => rfl
      | crash e => exact absurd hlex ((lex_good _ _).1 e)
      | oom w => rfl

/-- the evaluator never raises a host exception -/
theorem evalSafe : EvalSafe := by
  intro vars s x
  exact (isCrash_false_iff _).mp ((eval_no_crash vars (evalFuel s)).2.2 s false) x

end Duckling
