import Duckling.Model.Compile
import Duckling.Lemmas.RBasic
import Duckling.Lemmas.EvalNoCrash
/-
  A hereditary walk over the whole interpreter, generic in
    * `q` — what is known of the text of EVERY command line of all the code that can run: the program, the bodies of the
            functions in the environment, the files on disk (as parsed);
    * `P` — what is wanted of every output line.
  Under those invariants every run (any depth, context, state) never raises the IndexError of a blank command line,
  hands back only output lines satisfying `P`, and keeps the invariant on the functions it leaves in the environment.
  Instances: C09 (`q` = non-blank: text input never crashes) and C02 (`q` = non-blank and not IGNORE, `P` = legal line).
-/
namespace Duckling

/-- every command line of the forest, at every depth, satisfies `q` — `q` sees the text of the line and whether a non-empty
    block follows it (what `Stack.run` hands to `isThisCommand`) -/
def allCmdsL (q : Str → Bool → Bool) : List Node → Bool
  | [] => true
  | .line l :: rest => q l.content (hasBlockOf (nextBlock rest)) && allCmdsL q rest
  | .block b :: rest => allCmdsL q b && allCmdsL q rest

@[simp] theorem allCmdsL_nil (q : Str → Bool → Bool) : allCmdsL q [] = true := by simp [allCmdsL]
@[simp] theorem allCmdsL_line (q : Str → Bool → Bool) (l : PreLine) (rest : List Node) :
    allCmdsL q (.line l :: rest) = (q l.content (hasBlockOf (nextBlock rest)) && allCmdsL q rest) := by simp [allCmdsL]
@[simp] theorem allCmdsL_block (q : Str → Bool → Bool) (b rest : List Node) :
    allCmdsL q (.block b :: rest) = (allCmdsL q b && allCmdsL q rest) := by simp [allCmdsL]

mutual
/-- the special case of a predicate on the text alone -/
def Node.allLines (q : Str → Bool) : Node → Bool
  | .line l => q l.content
  | .block ns => allLinesL q ns
def allLinesL (q : Str → Bool) : List Node → Bool
  | [] => true
  | n :: rest => n.allLines q && allLinesL q rest
end

@[simp] theorem allLinesL_nil (q : Str → Bool) : allLinesL q [] = true := by simp [allLinesL]
@[simp] theorem allLinesL_cons (q : Str → Bool) (n : Node) (rest : List Node) :
    allLinesL q (n :: rest) = (n.allLines q && allLinesL q rest) := by simp [allLinesL]
@[simp] theorem allLines_line (q : Str → Bool) (l : PreLine) : (Node.line l).allLines q = q l.content := by simp [Node.allLines]
@[simp] theorem allLines_block (q : Str → Bool) (b : List Node) : (Node.block b).allLines q = allLinesL q b := by simp [Node.allLines]

/-- a property of the context that every child stack inherits (the options, for instance) -/
class CtxInv (C : Ctx → Prop) : Prop where
  child : ∀ ctx pos file, C ctx → C (Ctx.child ctx pos file)

instance : CtxInv (fun _ => True) := ⟨fun _ _ _ _ => trivial⟩

/-- the code and the output lines inside a result value -/
class Carries (α : Type) where
  codes : α → List (List Node)
  outs : α → List Str

def St.codes (st : St) : List (List Node) := st.env.funcs.map (·.2.code)

instance : Carries St := ⟨St.codes, fun _ => []⟩
instance : Carries Out := ⟨fun o => o.st.codes, fun o => o.out⟩
instance : Carries RC := ⟨fun o => o.st.codes, fun o => o.out⟩
instance : Carries (Func × St) := ⟨fun p => p.1.code :: p.2.codes, fun _ => []⟩
instance : Carries (Str × List (Option Arg) × St) := ⟨fun p => p.2.2.codes, fun _ => []⟩
instance : Carries BlockAct := ⟨fun a => match a with
  | .done o => o.st.codes | .body st => st.codes | .repeat _ _ st => st.codes | .while _ _ st => st.codes,
  fun a => match a with | .done o => o.out | _ => []⟩
instance : Carries (Path × List Node) := ⟨fun p => [p.2], fun _ => []⟩
instance : Carries (List Arg) := ⟨fun _ => [], fun _ => []⟩
instance : Carries (List Val) := ⟨fun _ => [], fun _ => []⟩
instance : Carries (List Str) := ⟨fun _ => [], fun _ => []⟩
instance : Carries Nat := ⟨fun _ => [], fun _ => []⟩
instance : Carries Str := ⟨fun _ => [], fun _ => []⟩
instance : Carries Val := ⟨fun _ => [], fun _ => []⟩
instance : Carries Unit := ⟨fun _ => [], fun _ => []⟩
instance : Carries Bool := ⟨fun _ => [], fun _ => []⟩

/-- all the function bodies in the state satisfy the line invariant -/
def StOk (q : Str → Bool → Bool) (st : St) : Prop := ∀ c ∈ st.codes, allCmdsL q c = true

/-- every readable file parses to code satisfying the line invariant -/
def FSOk (q : Str → Bool → Bool) (fs : FS) : Prop :=
  ∀ p text nodes, fs.read p = some text → parseLines (splitLines text) = .ok nodes → allCmdsL q nodes = true

/-- `r` never raises the blank-line IndexError; what it returns satisfies the invariants -/
structure HG (q : Str → Bool → Bool) (P : Str → Prop) {α : Type} [Carries α] (r : R α) : Prop where
  ni : ∀ x, r = .crash x → x ≠ "IndexError"
  codes : ∀ a, r = .ok a → ∀ c ∈ Carries.codes a, allCmdsL q c = true
  outs : ∀ a, r = .ok a → ∀ l ∈ Carries.outs a, P l

variable {q : Str → Bool → Bool} {P : Str → Prop} {C : Ctx → Prop} [CtxInv C] {α β : Type} [Carries α] [Carries β]

theorem HG.err (e : ErrInfo) : HG q P (.err e : R α) :=
  ⟨fun _ h => (by cases h), fun _ h => (by cases h), fun _ h => (by cases h)⟩
theorem HG.oom (w : String) : HG q P (.oom w : R α) :=
  ⟨fun _ h => (by cases h), fun _ h => (by cases h), fun _ h => (by cases h)⟩
theorem HG.crashLit (x : String) (hx : x ≠ "IndexError") : HG q P (.crash x : R α) :=
  ⟨fun _ h => (by cases h; exact hx), fun _ h => (by cases h), fun _ h => (by cases h)⟩
theorem HG.raise (ctx : Ctx) (pos : Pos) (st : St) (k : EK) : HG q P (Duckling.raise ctx pos st k : R α) := HG.err _
theorem HG.overflow (ctx : Ctx) (pos : Pos) (st : St) : HG q P (overflowErr ctx pos st : R α) := HG.err _

theorem HG.okOf (a : α) (hc : ∀ c ∈ Carries.codes a, allCmdsL q c = true) (ho : ∀ l ∈ Carries.outs a, P l) :
    HG q P (.ok a : R α) :=
  ⟨fun _ h => (by cases h), fun _ h => (by cases h; exact hc), fun _ h => (by cases h; exact ho)⟩

theorem HG.okPlain (a : α) (hc : Carries.codes a = []) (ho : Carries.outs a = []) : HG q P (.ok a : R α) :=
  HG.okOf a (by rw [hc]; intro c h; cases h) (by rw [ho]; intro l h; cases h)

theorem HG.bind {x : R α} {f : α → R β} (hx : HG q P x)
    (hf : ∀ a, x = .ok a → (∀ c ∈ Carries.codes a, allCmdsL q c = true) → (∀ l ∈ Carries.outs a, P l) → HG q P (f a)) :
    HG q P (x >>= f) := by
  cases x with
  | ok a => exact hf a rfl (hx.codes a rfl) (hx.outs a rfl)
  | err e => exact HG.err e
  | crash e => exact ⟨fun x h => (by cases h; exact hx.ni e rfl), fun _ h => (by cases h), fun _ h => (by cases h)⟩
  | oom w => exact HG.oom w

theorem HG.liftO {γ : Type} [Carries γ] (ctx : Ctx) (pos : Pos) (st : St) (o : Outcome γ) (hnc : ∀ x, o ≠ .crash x)
    (hc : ∀ a : γ, Carries.codes a = []) (ho : ∀ a : γ, Carries.outs a = []) : HG q P (Duckling.liftO ctx pos st o) := by
  cases o with
  | ok a => exact HG.okPlain a (hc a) (ho a)
  | cerr k => exact HG.raise _ _ _ _
  | crash e => exact absurd rfl (hnc e)
  | oom w => exact HG.oom _

theorem HG.evalIn (ctx : Ctx) (pos : Pos) (st : St) (s : Str) : HG q P (Duckling.evalIn ctx pos st s) :=
  HG.liftO _ _ _ _ (fun x => evalSafe _ _ x) (fun _ => rfl) (fun _ => rfl)

/-- a child executor that keeps the invariants -/
def ChildHG (q : Str → Bool → Bool) (P : Str → Prop) (C : Ctx → Prop) (c : Option ChildFn) : Prop :=
  ∀ run, c = some run → ∀ code ctx st, C ctx → allCmdsL q code = true → StOk q st → FSOk q ctx.fs → HG q P (run code ctx st)

theorem HG.runChild {c : Option ChildFn} (hc : ChildHG q P C c) (ctx : Ctx) (pos : Pos) (st : St) (code : List Node)
    (file : Option Path) (cst : St) (hcode : allCmdsL q code = true) (hcst : StOk q cst) (hfs : FSOk q ctx.fs) (hC : C ctx) :
    HG q P (Duckling.runChild c ctx pos st code file cst) := by
  cases c with
  | none => exact HG.overflow _ _ _
  | some run => exact hc run rfl code _ cst (CtxInv.child _ _ _ hC) hcode hcst hfs

theorem HG.guardChild {c : Option ChildFn} (ctx : Ctx) (pos : Pos) (st : St) (k : R α) (hk : HG q P k) :
    HG q P (Duckling.guardChild c ctx pos st k) := by
  cases c with
  | none => exact HG.overflow _ _ _
  | some _ => exact hk

end Duckling

namespace Duckling

/-! ### what the environment operations do to the function table -/

theorem mem_assocSet {β : Type} (l : List (Str × β)) (k : Str) (v : β) (p : Str × β) (h : p ∈ assocSet l k v) :
    p ∈ l ∨ p = (k, v) := by
  induction l with
  | nil => simp [assocSet] at h; exact Or.inr h
  | cons x rest ih =>
    obtain ⟨k', v'⟩ := x
    simp only [assocSet] at h
    split at h
    · rcases List.mem_cons.mp h with h | h
      · exact Or.inr h
      · exact Or.inl (List.mem_cons_of_mem _ h)
    · rcases List.mem_cons.mp h with h | h
      · exact Or.inl (by rw [h]; exact List.mem_cons_self)
      · rcases ih h with h | h
        · exact Or.inl (List.mem_cons_of_mem _ h)
        · exact Or.inr h

theorem mem_assocUpdate {β : Type} (d e : List (Str × β)) (p : Str × β) (h : p ∈ assocUpdate d e) : p ∈ d ∨ p ∈ e := by
  unfold assocUpdate at h
  induction e generalizing d with
  | nil => exact Or.inl h
  | cons x rest ih =>
    simp only [List.foldl_cons] at h
    rcases ih _ h with h | h
    · rcases mem_assocSet _ _ _ _ h with h | h
      · exact Or.inl h
      · exact Or.inr (by rw [h]; exact List.mem_cons_self)
    · exact Or.inr (List.mem_cons_of_mem _ h)

theorem mem_of_assocGet {β : Type} (l : List (Str × β)) (k : Str) (v : β) (h : assocGet l k = some v) : ∃ k', (k', v) ∈ l := by
  induction l with
  | nil => simp [assocGet] at h
  | cons x rest ih =>
    obtain ⟨k', v'⟩ := x
    simp only [assocGet] at h
    split at h
    · cases h; exact ⟨k', List.mem_cons_self⟩
    · obtain ⟨k2, h2⟩ := ih h; exact ⟨k2, List.mem_cons_of_mem _ h2⟩

variable {q : Str → Bool → Bool}

theorem StOk.of_funcs_eq {st st' : St} (h : st'.env.funcs = st.env.funcs) (hs : StOk q st) : StOk q st' := by
  intro c hc; apply hs; simpa [St.codes, h] using hc

theorem StOk.mem {st : St} (hs : StOk q st) {k : Str} {f : Func} (h : (k, f) ∈ st.env.funcs) : allCmdsL q f.code = true :=
  hs _ (by simp only [St.codes, List.mem_map]; exact ⟨(k, f), h, rfl⟩)

theorem StOk.enterSt {st : St} (hs : StOk q st) : StOk q (enterSt st) := StOk.of_funcs_eq rfl hs

theorem StOk.leave (par : Bool) {p c : St} (hp : StOk q p) (hc : StOk q c) : StOk q (Duckling.leave par p c) := by
  cases par with
  | false => exact StOk.of_funcs_eq (st := p) rfl hp
  | true =>
    intro code hcode
    simp only [St.codes, Duckling.leave, if_true, VEnv.exitParallel, List.mem_map] at hcode
    obtain ⟨⟨k, f⟩, hm, rfl⟩ := hcode
    rcases mem_assocUpdate _ _ _ hm with h | h
    · exact hp.mem h
    · exact hc.mem h

theorem StOk.setFunc {st : St} (hs : StOk q st) (name : Str) (f : Func) (hf : allCmdsL q f.code = true) :
    StOk q { st with env := { st.env with funcs := assocSet st.env.funcs name f } } := by
  intro code hcode
  simp only [St.codes, List.mem_map] at hcode
  obtain ⟨⟨k, g⟩, hm, rfl⟩ := hcode
  rcases mem_assocSet _ _ _ _ hm with h | h
  · exact hs.mem h
  · cases h; exact hf

theorem StOk.addWarn {st : St} (hs : StOk q st) (w : Warn) : StOk q (Duckling.addWarn st w) := by
  unfold Duckling.addWarn; split
  · exact hs
  · exact StOk.of_funcs_eq (st := st) rfl hs

theorem StOk.startBaseWarn {st : St} (hs : StOk q st) (sig : Sig) : StOk q (Duckling.startBaseWarn st sig) := by
  unfold Duckling.startBaseWarn; split
  · exact hs
  · exact hs.addWarn _

theorem StOk.setIfFlag {st : St} (hs : StOk q st) (b : Bool) : StOk q (Duckling.setIfFlag st b) := StOk.of_funcs_eq (st := st) rfl hs

theorem StOk.withFlag {st : St} (hs : StOk q st) : StOk q (Duckling.withFlag st) := by
  unfold Duckling.withFlag; split
  · exact hs
  · exact hs.setIfFlag _

theorem StOk.bindParams {st : St} (hs : StOk q st) (fn : Func) (vals : List Val) : StOk q (Duckling.bindParams st fn vals) :=
  StOk.of_funcs_eq (st := st) rfl hs

end Duckling

namespace Duckling

variable {q : Str → Bool → Bool} {P : Str → Prop} {C : Ctx → Prop} [CtxInv C] {α β : Type} [Carries α] [Carries β]

/-- the code part and the output part can be shown separately -/
theorem HG.withOuts {r : R α} (h : HG q (fun _ => True) r) (ho : ∀ a, r = .ok a → ∀ l ∈ Carries.outs a, P l) : HG q P r :=
  ⟨h.ni, h.codes, ho⟩

theorem HG.weaken {r : R α} (h : HG q P r) : HG q (fun _ => True) r := ⟨h.ni, h.codes, fun _ _ _ _ => trivial⟩

/-- a successful value whose code is that of a state satisfying the invariant -/
theorem HG.okSt (a : α) (st : St) (hcodes : Carries.codes a = st.codes) (hs : StOk q st) (ho : ∀ l ∈ Carries.outs a, P l) :
    HG q P (.ok a : R α) :=
  HG.okOf a (by rw [hcodes]; exact hs) ho

syntax "hg_triv" : tactic
macro_rules
  | `(tactic| hg_triv) => `(tactic|
      first
        | with_reducible exact HG.oom _
        | with_reducible exact HG.raise _ _ _ _
        | with_reducible exact HG.err _
        | (with_reducible apply HG.crashLit; decide)
        | with_reducible exact HG.evalIn _ _ _ _
        | (exact HG.okPlain _ rfl rfl)
        | with_reducible assumption)

theorem HG.runArgs (ctx : Ctx) (pos : Pos) (st : St) (vs : Option Str) : HG q P (Duckling.runArgs ctx pos st vs) := by
  unfold Duckling.runArgs
  split
  · hg_triv
  · split
    · hg_triv
    · exact HG.bind (HG.evalIn _ _ _ _) (fun v _ _ _ => by split <;> hg_triv)

theorem HG.runPre (ctx : Ctx) (pos : Pos) (a : Arg) (st : St) (hs : StOk q st) : HG q P (Duckling.runPre ctx pos a st) := by
  unfold Duckling.runPre
  apply HG.bind (HG.runArgs _ _ _ _)
  intro vals _ _ _
  split
  · hg_triv
  · rename_i fn hfn
    split
    · hg_triv
    · split
      · hg_triv
      · apply HG.okOf
        · intro c hc
          simp only [Carries.codes, List.mem_cons] at hc
          rcases hc with rfl | hc
          · obtain ⟨k, hk⟩ := mem_of_assocGet _ _ _ hfn
            exact hs.mem hk
          · exact (hs.bindParams fn vals) c hc
        · intro l hl; simp [Carries.outs] at hl

theorem HG.runPost (ctx : Ctx) (pos : Pos) (st : St) (r : Out) (hs : StOk q st) (hr : StOk q r.st) (ho : ∀ l ∈ r.out, P l) :
    HG q P (Duckling.runPost ctx pos st r) := by
  unfold Duckling.runPost; simp only []
  split
  · hg_triv
  · exact HG.okSt _ _ rfl (StOk.leave false hs hr) ho

theorem HG.runRun {c : Option ChildFn} (hc : ChildHG q P C c) (ctx : Ctx) (pos : Pos) (a : Arg) (st : St) (hs : StOk q st)
    (hfs : FSOk q ctx.fs) (hC : C ctx) : HG q P (Duckling.runRun c ctx pos a st) := by
  unfold Duckling.runRun
  apply HG.bind (HG.runPre _ _ _ _ hs)
  intro p _ hcodes _
  have hcode : allCmdsL q p.1.code = true := hcodes _ (by simp [Carries.codes])
  have hst : StOk q p.2 := fun c hc => hcodes c (by simp only [Carries.codes, List.mem_cons]; exact Or.inr hc)
  apply HG.bind (HG.runChild hc _ _ _ _ _ _ hcode hst hfs hC)
  intro r _ hrc hro
  exact HG.runPost _ _ _ _ hs hrc hro

theorem HG.loadImport (ctx : Ctx) (pos : Pos) (a : Arg) (st : St) (hfs : FSOk q ctx.fs) :
    HG q P (Duckling.loadImport ctx pos a st) := by
  unfold Duckling.loadImport
  split
  · hg_triv
  · split
    · hg_triv
    · split
      · hg_triv
      · split
        · hg_triv
        · rename_i target _ text hread
          split
          · hg_triv
          · split
            · hg_triv
            · hg_triv
            · rename_i nodes hparse
              apply HG.okOf
              · intro c hc
                simp only [Carries.codes, List.mem_singleton] at hc
                subst hc
                exact hfs _ _ _ hread hparse
              · intro l hl; simp [Carries.outs] at hl

theorem HG.startPost (name : Str) (st : St) (r : Out) (hs : StOk q st) (hr : StOk q r.st) (ho : ∀ l ∈ r.out, P l) :
    HG q P (Duckling.startPost name st r) := by
  unfold Duckling.startPost; simp only []
  split
  · exact HG.okSt _ _ rfl (StOk.leave _ hs (hr.startBaseWarn _)) (by intro l hl; simp [Carries.outs] at hl)
  · exact HG.okSt _ _ rfl (StOk.leave _ hs (hr.startBaseWarn _)) ho

theorem HG.runStart {c : Option ChildFn} (hc : ChildHG q P C c) (ctx : Ctx) (pos : Pos) (name : Str) (a : Arg) (st : St)
    (hs : StOk q st) (hfs : FSOk q ctx.fs) (hC : C ctx) : HG q P (Duckling.runStart c ctx pos name a st) := by
  unfold Duckling.runStart
  apply HG.bind (HG.loadImport _ _ _ _ hfs)
  intro p _ hcodes _
  have hcode : allCmdsL q p.2 = true := hcodes _ (by simp [Carries.codes])
  apply HG.bind (HG.runChild hc _ _ _ _ _ _ hcode hs.enterSt hfs hC)
  intro r _ hrc hro
  exact HG.startPost _ _ _ hs hrc hro

end Duckling

namespace Duckling

variable {q : Str → Bool → Bool} {P : Str → Prop} {C : Ctx → Prop} [CtxInv C] {α β : Type} [Carries α] [Carries β]

theorem HG.defaultEmit (name : Str) (a : Option Arg) : HG q P (Duckling.defaultEmit name a) := by
  unfold Duckling.defaultEmit
  repeat' split
  all_goals hg_triv

/-- a state that differs from an invariant-satisfying one outside the function table -/
syntax "hg_st" : tactic
macro_rules
  | `(tactic| hg_st) => `(tactic|
      first
        | (apply HG.okOf
           · first | assumption | exact StOk.of_funcs_eq (by rfl) (by assumption)
           · intro _ _; trivial))

/-- the commands that create no stack: nothing happens to the function table, no blank-line error; what they emit is the
    caller's business (`hemit`) -/
theorem HG.runCompileLocal (ctx : Ctx) (c : ClsDesc) (name : Str) (line : Nat) (a : Option Arg) (st : St) (hs : StOk q st)
    (hemit : ∀ rc, Duckling.runCompileLocal ctx c name line a st = .ok rc → ∀ l ∈ rc.out, P l) :
    HG q P (Duckling.runCompileLocal ctx c name line a st) := by
  refine HG.withOuts ?_ (fun rc h l hl => hemit rc h l hl)
  have hd : HG q (fun _ => True) (Duckling.defaultEmit name a >>= fun ls => (R.ok { st := st, out := ls, sig := some Sig.normal } : R RC)) :=
    HG.bind (HG.defaultEmit _ _) (fun _ _ _ _ => HG.okOf _ hs (fun _ _ => trivial))
  unfold Duckling.runCompileLocal
  simp only []
  split
  · exact hd
  · split
    all_goals first
      | exact hd
      | exact HG.okOf _ hs (fun _ _ => trivial)
      | skip
    · split
      · exact hd
      · exact HG.okOf _ hs (fun _ _ => trivial)
    · split
      · exact HG.okOf _ hs (fun _ _ => trivial)
      · exact HG.okOf _ (StOk.of_funcs_eq (st := st) rfl hs) (fun _ _ => trivial)
    · split
      · exact hd
      · split
        · split
          · hg_triv
          · exact HG.okOf _ hs (fun _ _ => trivial)
        · hg_triv
    · split
      · exact HG.okOf _ hs (fun _ _ => trivial)
      · split
        · exact HG.okOf _ hs (fun _ _ => trivial)
        · hg_triv
    · split
      · hg_triv
      · split
        · hg_triv
        · exact HG.bind (HG.defaultEmit _ _) (fun _ _ _ _ => HG.okOf _ (StOk.of_funcs_eq (st := st) rfl hs) (fun _ _ => trivial))
    · split
      · hg_triv
      · split
        · exact HG.okOf _ hs (fun _ _ => trivial)
        · hg_triv
    · split
      · hg_triv
      · split
        · exact HG.okOf _ hs (fun _ _ => trivial)
        · hg_triv
    · split
      · hg_triv
      · split
        · apply HG.bind (HG.evalIn _ _ _ _)
          intro v _ _ _
          split
          · hg_triv
          · split
            · hg_triv
            · exact HG.okOf _ (StOk.of_funcs_eq (st := st) rfl hs) (fun _ _ => trivial)
        · hg_triv

theorem HG.runCompile {c : Option ChildFn} (hc : ChildHG q P C c) (ctx : Ctx) (cl : ClsDesc) (name : Str) (line : Nat)
    (a : Option Arg) (st : St) (hs : StOk q st) (hfs : FSOk q ctx.fs) (hC : C ctx)
    (hemit : (hasHook cl "run_compile" && cl.cname == "Run") = false → (hasHook cl "run_compile" && cl.cname == "Start") = false →
      ∀ rc, Duckling.runCompileLocal ctx cl name line a st = .ok rc → ∀ l ∈ rc.out, P l) :
    HG q P (Duckling.runCompile c ctx cl name line a st) := by
  unfold Duckling.runCompile
  split
  · split
    · hg_triv
    · exact HG.runRun hc _ _ _ _ hs hfs hC
  · rename_i hnr
    split
    · split
      · hg_triv
      · exact HG.runStart hc _ _ _ _ _ hs hfs hC
    · rename_i hns
      exact HG.runCompileLocal _ _ _ _ _ _ hs (hemit (by simpa using hnr) (by simpa using hns))

theorem HG.multiComp {c : Option ChildFn} (hc : ChildHG q P C c) (ctx : Ctx) (cl : ClsDesc) (name : Str) (line : Nat)
    (items : List (Option Arg)) (st : St) (out : List Str) (sig : Sig) (hs : StOk q st) (hfs : FSOk q ctx.fs) (hC : C ctx)
    (hout : ∀ l ∈ out, P l)
    (hemit : (hasHook cl "run_compile" && cl.cname == "Run") = false → (hasHook cl "run_compile" && cl.cname == "Start") = false →
      ∀ a ∈ items, ∀ st2 rc, Duckling.runCompileLocal ctx cl name line a st2 = .ok rc → ∀ l ∈ rc.out, P l) :
    HG q P (Duckling.multiComp c ctx cl name line items st out sig) := by
  induction items generalizing st out sig with
  | nil => exact HG.okSt _ _ rfl hs hout
  | cons a rest ih =>
    unfold Duckling.multiComp
    apply HG.bind (HG.runCompile hc _ _ _ _ _ _ hs hfs hC (fun h1 h2 => hemit h1 h2 a List.mem_cons_self st))
    intro r _ hrc hro
    apply ih _ _ _ hrc
    · intro l hl
      rcases List.mem_append.mp hl with h | h
      · exact hout l h
      · exact hro l h
    · intro h1 h2 a' ha'; exact hemit h1 h2 a' (List.mem_cons_of_mem _ ha')

end Duckling

namespace Duckling

variable {q : Str → Bool → Bool} {P : Str → Prop} {C : Ctx → Prop} [CtxInv C] {α β : Type} [Carries α] [Carries β]

theorem HG.evaluateArgs (ctx : Ctx) (line : Nat) (st : St) (b : Bool) (args : List Arg) :
    HG q P (Duckling.evaluateArgs ctx line st b args) := by
  induction args with
  | nil => exact HG.okPlain _ rfl rfl
  | cons a rest ih =>
    unfold Duckling.evaluateArgs
    exact HG.bind (HG.evalIn _ _ _ _) (fun _ _ _ _ => HG.bind ih (fun _ _ _ _ => HG.okPlain _ rfl rfl))

theorem HG.stringifyArgs (ctx : Ctx) (line : Nat) (st : St) (args : List Arg) :
    HG q P (Duckling.stringifyArgs ctx line st args) := by
  induction args with
  | nil => exact HG.okPlain _ rfl rfl
  | cons a rest ih =>
    unfold Duckling.stringifyArgs
    refine HG.bind (HG.liftO _ _ _ _ (fun x => (isCrash_false_iff _).mp (pyStr_isCrash _) x) (fun _ => rfl) (fun _ => rfl)) ?_
    exact fun _ _ _ _ => HG.bind ih (fun _ _ _ _ => HG.okPlain _ rfl rfl)

theorem HG.verifyTypes (ctx : Ctx) (line : Nat) (st : St) (t : ArgType) (args : List Arg) :
    HG q P (Duckling.verifyTypes ctx line st t args) := by
  induction args with
  | nil => exact HG.okPlain _ rfl rfl
  | cons a rest ih => unfold Duckling.verifyTypes; split; hg_triv; exact ih

theorem HG.verifyEach (ctx : Ctx) (line : Nat) (st : St) (c : ClsDesc) (args : List Arg) :
    HG q P (Duckling.verifyEach ctx line st c args) := by
  induction args with
  | nil => exact HG.okPlain _ rfl rfl
  | cons a rest ih => unfold Duckling.verifyEach; split; hg_triv; exact ih

theorem HG.verifyArgsHook (ctx : Ctx) (pos0 : Pos) (c : ClsDesc) (args : List Arg) (st : St) (hs : StOk q st) :
    HG q P (Duckling.verifyArgsHook ctx pos0 c args st) := by
  have hok : ∀ s : St, StOk q s → HG q P (.ok s : R St) := fun s h => HG.okSt _ _ rfl h (by intro l hl; cases hl)
  unfold Duckling.verifyArgsHook
  repeat' split
  all_goals first
    | hg_triv
    | exact hok _ hs
    | exact hok _ (hs.addWarn _)

theorem HG.prepareArgs (ctx : Ctx) (c : ClsDesc) (word : Str) (line : Nat) (arg : Option Str) (block : Option (List Node)) (st : St) :
    HG q P (Duckling.prepareArgs ctx c word line arg block st) := by
  unfold Duckling.prepareArgs
  split
  · hg_triv
  · simp only []
    split
    · apply HG.bind (HG.evaluateArgs _ _ _ _ _)
      intro ev _ _ _
      split
      · exact HG.okPlain _ rfl rfl
      · exact HG.stringifyArgs _ _ _ _
    · exact HG.okPlain _ rfl rfl

theorem HG.checkArgs (ctx : Ctx) (c : ClsDesc) (line : Nat) (args : List Arg) (st : St) (hs : StOk q st) :
    HG q P (Duckling.checkArgs ctx c line args st) := by
  unfold Duckling.checkArgs
  simp only []
  split
  · hg_triv
  · split
    · hg_triv
    · apply HG.bind (HG.verifyTypes _ _ _ _ _)
      intro _ _ _ _
      apply HG.bind (HG.verifyArgsHook _ _ _ _ _ hs)
      intro st' _ hst' _
      apply HG.bind (HG.verifyEach _ _ _ _ _)
      intro _ _ _ _
      exact HG.okOf _ hst' (by intro l hl; cases hl)

theorem HG.simplePre (ctx : Ctx) (c : ClsDesc) (word : Str) (line : Nat) (arg : Option Str) (block : Option (List Node)) (st : St)
    (hs : StOk q st) : HG q P (Duckling.simplePre ctx c word line arg block st) := by
  unfold Duckling.simplePre
  simp only []
  split
  · hg_triv
  · split
    · hg_triv
    · apply HG.bind (HG.prepareArgs _ _ _ _ _ _ _)
      intro args _ _ _
      apply HG.bind (HG.checkArgs _ _ _ _ _ hs)
      intro st' _ hst' _
      exact HG.okOf _ hst' (by intro l hl; cases hl)

/-- a simple command: what its own `run_compile` calls emit is the caller's business (`hemit`, stated on the items a
    successful `simplePre` hands over) -/
theorem HG.compileSimple {c : Option ChildFn} (hc : ChildHG q P C c) (ctx : Ctx) (cl : ClsDesc) (word : Str) (line : Nat)
    (arg : Option Str) (block : Option (List Node)) (st : St) (hs : StOk q st) (hfs : FSOk q ctx.fs) (hC : C ctx)
    (hemit : (hasHook cl "run_compile" && cl.cname == "Run") = false → (hasHook cl "run_compile" && cl.cname == "Start") = false →
      ∀ name items st', Duckling.simplePre ctx cl word line arg block st = .ok (name, items, st') →
      ∀ a ∈ items, ∀ st2 rc, Duckling.runCompileLocal ctx cl name line a st2 = .ok rc → ∀ l ∈ rc.out, P l) :
    HG q P (Duckling.compileSimple c ctx cl word line arg block st) := by
  unfold Duckling.compileSimple
  apply HG.bind (HG.simplePre _ _ _ _ _ _ _ hs)
  intro p hp hpc _
  obtain ⟨name, items, st'⟩ := p
  exact HG.multiComp hc _ _ _ _ _ _ _ _ hpc hfs hC (by intro l hl; cases hl) (fun h1 h2 => hemit h1 h2 name items st' hp)

theorem HG.tokenizeCount (ctx : Ctx) (pos : Pos) (st : St) (s : Str) : HG q P (Duckling.tokenizeCount ctx pos st s) := by
  unfold Duckling.tokenizeCount
  apply HG.bind (HG.evalIn _ _ _ _)
  intro v _ _ _
  simp only []
  split
  · hg_triv
  · split <;> hg_triv

theorem HG.bindCounter (ctx : Ctx) (pos : Pos) (st : St) (var : Option Str) (n : Nat) (cst : St) (hcs : StOk q cst) :
    HG q P (Duckling.bindCounter ctx pos st var n cst) := by
  unfold Duckling.bindCounter
  split
  · exact HG.okSt _ _ rfl hcs (by intro l hl; cases hl)
  · split
    · hg_triv
    · exact HG.okSt _ _ rfl (StOk.of_funcs_eq (st := cst) rfl hcs) (by intro l hl; cases hl)

theorem HG.repeatLoop {c : Option ChildFn} (hc : ChildHG q P C c) (ctx : Ctx) (pos : Pos) (var : Option Str) (ce : Str)
    (body : List Node) (budget count : Nat) (st : St) (out : List Str) (hs : StOk q st) (hfs : FSOk q ctx.fs) (hC : C ctx)
    (hbody : allCmdsL q body = true) (hout : ∀ l ∈ out, P l) :
    HG q P (Duckling.repeatLoop c ctx pos var ce body budget count st out) := by
  induction budget generalizing count st out with
  | zero => exact HG.okSt _ _ rfl hs hout
  | succ b ih =>
    unfold Duckling.repeatLoop
    apply HG.bind (HG.tokenizeCount _ _ _ _)
    intro n _ _ _
    split
    · exact HG.okSt _ _ rfl hs hout
    · apply HG.guardChild
      apply HG.bind (HG.bindCounter _ _ _ _ _ _ hs.enterSt)
      intro cst _ hcst _
      apply HG.bind (HG.runChild hc _ _ _ _ _ _ hbody hcst hfs hC)
      intro r _ hrc hro
      have hout' : ∀ l ∈ out ++ r.out, P l := by
        intro l hl; rcases List.mem_append.mp hl with h | h; exact hout l h; exact hro l h
      split
      · rename_i st' out' s heq
        simp only [afterIter, Prod.mk.injEq] at heq
        obtain ⟨h1, h2, _⟩ := heq
        subst h1; subst h2
        exact HG.okSt _ _ rfl (StOk.leave false hs hrc) hout'
      · rename_i st' out' heq
        simp only [afterIter, Prod.mk.injEq] at heq
        obtain ⟨h1, h2, _⟩ := heq
        subst h1; subst h2
        exact ih _ _ _ (StOk.leave false hs hrc) hout'

theorem HG.whileLoop {c : Option ChildFn} (hc : ChildHG q P C c) (ctx : Ctx) (pos : Pos) (var : Option Str) (cond : Str)
    (body : List Node) (budget count : Nat) (st : St) (out : List Str) (hs : StOk q st) (hfs : FSOk q ctx.fs) (hC : C ctx)
    (hbody : allCmdsL q body = true) (hout : ∀ l ∈ out, P l) :
    HG q P (Duckling.whileLoop c ctx pos var cond body budget count st out) := by
  induction budget generalizing count st out with
  | zero => exact HG.raise _ _ _ _
  | succ b ih =>
    unfold Duckling.whileLoop
    apply HG.guardChild
    apply HG.bind (HG.bindCounter _ _ _ _ _ _ hs.enterSt)
    intro cst _ hcst _
    apply HG.bind (HG.evalIn _ _ _ _)
    intro cv _ _ _
    split
    · exact HG.okSt _ _ rfl (StOk.leave false hs hcst) hout
    · apply HG.bind (HG.runChild hc _ _ _ _ _ _ hbody hcst hfs hC)
      intro r _ hrc hro
      have hout' : ∀ l ∈ out ++ r.out, P l := by
        intro l hl; rcases List.mem_append.mp hl with h | h; exact hout l h; exact hro l h
      split
      · rename_i st' out' s heq
        simp only [afterIter, Prod.mk.injEq] at heq
        obtain ⟨h1, h2, _⟩ := heq
        subst h1; subst h2
        exact HG.okSt _ _ rfl (StOk.leave false hs hrc) hout'
      · rename_i st' out' heq
        simp only [afterIter, Prod.mk.injEq] at heq
        obtain ⟨h1, h2, _⟩ := heq
        subst h1; subst h2
        exact ih _ _ _ (StOk.leave false hs hrc) hout'

end Duckling

namespace Duckling

variable {q : Str → Bool → Bool} {P : Str → Prop} {C : Ctx → Prop} [CtxInv C] {α β : Type} [Carries α] [Carries β]

theorem HG.ifCond (ctx : Ctx) (pos : Pos) (name : Str) (arg : Option Str) (st : St) : HG q P (Duckling.ifCond ctx pos name arg st) := by
  unfold Duckling.ifCond
  split
  · exact HG.bind (HG.evalIn _ _ _ _) (fun _ _ _ _ => HG.okPlain _ rfl rfl)
  · exact HG.okPlain _ rfl rfl

theorem ifDecide_codes (name : Str) (st : St) (cond : Bool) (hs : StOk q st) :
    ∀ c ∈ Carries.codes (ifDecide name st cond), allCmdsL q c = true := by
  unfold ifDecide
  simp only []
  repeat' split
  all_goals first
    | exact hs
    | exact hs.setIfFlag _
    | exact (hs.setIfFlag _).setIfFlag _

theorem ifDecide_outs (name : Str) (st : St) (cond : Bool) : Carries.outs (ifDecide name st cond) = [] := by
  unfold ifDecide
  simp only []
  repeat' split
  all_goals rfl

theorem HG.ifPre (ctx : Ctx) (pos : Pos) (word : Str) (arg : Option Str) (st : St) (hs : StOk q st) :
    HG q P (Duckling.ifPre ctx pos word arg st) := by
  unfold Duckling.ifPre
  simp only []
  split
  · hg_triv
  · split
    · hg_triv
    · apply HG.bind (HG.ifCond _ _ _ _ _)
      intro cond _ _ _
      exact HG.okOf _ (ifDecide_codes _ _ _ hs.withFlag) (by rw [ifDecide_outs]; intro l hl; cases hl)

theorem HG.funcPre (ctx : Ctx) (pos : Pos) (arg : Option Str) (block : List Node) (st : St) (hs : StOk q st)
    (hblock : allCmdsL q block = true) : HG q P (Duckling.funcPre ctx pos arg block st) := by
  unfold Duckling.funcPre
  simp only []
  repeat' split
  all_goals first
    | hg_triv
    | exact HG.okOf _ (hs.setFunc _ ⟨_, block, _⟩ hblock) (by intro l hl; cases hl)

theorem HG.ignorePre (ctx : Ctx) (pos : Pos) (block : List Node) (st : St) (hs : StOk q st) :
    HG q (fun _ => True) (Duckling.ignorePre ctx pos block st) := by
  unfold Duckling.ignorePre
  split
  · hg_triv
  · exact HG.okOf _ hs (fun _ _ => trivial)

theorem HG.repeatPre (ctx : Ctx) (pos : Pos) (arg : Option Str) (hb : Bool) (st : St) (hs : StOk q st) :
    HG q (fun _ => True) (Duckling.repeatPre ctx pos arg hb st) := by
  unfold Duckling.repeatPre
  simp only []
  repeat' split
  all_goals first
    | hg_triv
    | exact HG.okOf _ hs (fun _ _ => trivial)

theorem HG.blockPre (ctx : Ctx) (c : ClsDesc) (word : Str) (line : Nat) (arg : Option Str) (block : List Node) (hb : Bool) (st : St)
    (hs : StOk q st) (hblock : allCmdsL q block = true) :
    HG q (fun _ => True) (Duckling.blockPre ctx c word line arg block hb st) := by
  unfold Duckling.blockPre
  simp only []
  repeat' split
  all_goals first
    | hg_triv
    | exact HG.ifPre _ _ _ _ _ hs
    | exact HG.funcPre _ _ _ _ _ hs hblock
    | exact HG.ignorePre _ _ _ _ hs
    | exact HG.repeatPre _ _ _ _ _ hs
    | exact HG.okOf _ hs (fun _ _ => trivial)

theorem HG.runBlockAct {c : Option ChildFn} (hc : ChildHG q P C c) (ctx : Ctx) (pos : Pos) (block : List Node) (act : BlockAct)
    (hfs : FSOk q ctx.fs) (hC : C ctx) (hblock : allCmdsL q block = true)
    (hact : ∀ c ∈ Carries.codes act, allCmdsL q c = true) (hout : ∀ l ∈ Carries.outs act, P l) :
    HG q P (Duckling.runBlockAct c ctx pos block act) := by
  cases act with
  | done o => exact HG.okOf _ hact hout
  | body st =>
    have hs : StOk q st := hact
    unfold Duckling.runBlockAct
    apply HG.bind (HG.runChild hc _ _ _ _ _ _ hblock hs.enterSt hfs hC)
    intro r _ hrc hro
    exact HG.okSt _ _ rfl (StOk.leave false hs hrc) hro
  | «repeat» var ce st => exact HG.repeatLoop hc _ _ _ _ _ _ _ _ _ hact hfs hC hblock (by intro l hl; cases hl)
  | «while» var cond st => exact HG.whileLoop hc _ _ _ _ _ _ _ _ _ hact hfs hC hblock (by intro l hl; cases hl)

theorem HG.compileBlock {c : Option ChildFn} (hc : ChildHG q P C c) (ctx : Ctx) (cl : ClsDesc) (word : Str) (line : Nat)
    (arg : Option Str) (block : List Node) (hb : Bool) (st : St) (hs : StOk q st) (hfs : FSOk q ctx.fs) (hC : C ctx)
    (hblock : allCmdsL q block = true)
    (hdone : ∀ o, Duckling.blockPre ctx cl word line arg block hb st = .ok (.done o) → ∀ l ∈ o.out, P l) :
    HG q P (Duckling.compileBlock c ctx cl word line arg block hb st) := by
  unfold Duckling.compileBlock
  have hpre : HG q P (Duckling.blockPre ctx cl word line arg block hb st) := by
    refine HG.withOuts (HG.blockPre _ _ _ _ _ _ _ _ hs hblock) ?_
    intro act hact l hl
    cases act with
    | done o => exact hdone o hact l hl
    | body st => cases hl
    | «repeat» _ _ _ => cases hl
    | «while» _ _ _ => cases hl
  apply HG.bind hpre
  intro act _ hcodes houts
  exact HG.runBlockAct hc _ _ _ _ hfs hC hblock hcodes houts

/-- what the instance has to provide: `q` excludes blank lines; the lines a simple command emits itself and the lines a
    block command emits without running a body satisfy `P` -/
structure HSpec (q : Str → Bool → Bool) (P : Str → Prop) (C : Ctx → Prop) : Prop where
  nonblank : ∀ s hb, q s hb = true → splitWs1 s ≠ none
  emit : ∀ (ctx : Ctx) (content word : Str) (arg : Option Str) (block : Option (List Node)) (cl : ClsDesc), C ctx →
      q content (hasBlockOf block) = true → splitWs1 content = some (word, arg) →
      ((dispatch word (hasBlockOf block) = some cl ∧ cl.isBlock = false) ∨
       (dispatch word (hasBlockOf block) = none ∧ cl = Generated.generic)) →
      (hasHook cl "run_compile" && cl.cname == "Run") = false → (hasHook cl "run_compile" && cl.cname == "Start") = false →
      ∀ line st name items st', simplePre ctx cl word line arg block st = .ok (name, items, st') →
      ∀ a ∈ items, ∀ st2 rc, runCompileLocal ctx cl name line a st2 = .ok rc → ∀ l ∈ rc.out, P l
  blockDone : ∀ (ctx : Ctx) (content word : Str) (arg : Option Str) (block : Option (List Node)) (cl : ClsDesc), C ctx →
      q content (hasBlockOf block) = true → splitWs1 content = some (word, arg) → dispatch word (hasBlockOf block) = some cl → cl.isBlock = true →
      ∀ line st o, blockPre ctx cl word line arg (block.getD []) (hasBlockOf block) st = .ok (.done o) → ∀ l ∈ o.out, P l

theorem HG.stepCmd (S : HSpec q P C) {c : Option ChildFn} (hc : ChildHG q P C c) (ctx : Ctx) (l : PreLine) (block : Option (List Node))
    (st : St) (hs : StOk q st) (hfs : FSOk q ctx.fs) (hC : C ctx) (hq : q l.content (hasBlockOf block) = true)
    (hblock : allCmdsL q (block.getD []) = true) : HG q P (Duckling.stepCmd c ctx l block st) := by
  unfold Duckling.stepCmd
  split
  · rename_i hsplit; exact absurd hsplit (S.nonblank _ _ hq)
  · rename_i word arg hsplit
    simp only []
    split
    · rename_i cl hd
      split
      · rename_i hb
        exact HG.compileBlock hc _ _ _ _ _ _ _ _ hs hfs hC hblock (S.blockDone ctx _ _ _ block cl hC hq hsplit hd hb _ _)
      · rename_i hb
        have hb' : cl.isBlock = false := by simpa using hb
        refine HG.compileSimple hc _ _ _ _ _ _ _ hs hfs hC ?_
        intro h1 h2 name items st' hpre
        exact S.emit ctx _ _ _ block cl hC hq hsplit (Or.inl ⟨hd, hb'⟩) h1 h2 _ _ name items st' hpre
    · rename_i hd
      have hst : StOk q (if ctx.opts.suppress = true then st else Duckling.addWarn st ⟨.notExist l.num, some (ctx.trace ⟨l.num, none⟩)⟩) := by
        split
        · exact hs
        · exact hs.addWarn _
      refine HG.compileSimple hc _ _ _ _ _ _ _ hst hfs hC ?_
      intro h1 h2 name items st' hpre
      exact S.emit ctx _ _ _ block Generated.generic hC hq hsplit (Or.inr ⟨hd, rfl⟩) h1 h2 _ _ name items st' hpre

theorem allCmdsL_nextBlock (rest : List Node) (h : allCmdsL q rest = true) : allCmdsL q ((nextBlock rest).getD []) = true := by
  cases rest with
  | nil => simp [nextBlock]
  | cons n rest' =>
    cases n with
    | line l => simp [nextBlock]
    | block b =>
      simp only [allCmdsL_block, Bool.and_eq_true] at h
      simpa [nextBlock] using h.1

theorem HG.runNodes (S : HSpec q P C) {c : Option ChildFn} (hc : ChildHG q P C c) (ctx : Ctx) (nodes : List Node) (st : St)
    (out : List Str) (hs : StOk q st) (hfs : FSOk q ctx.fs) (hC : C ctx) (hnodes : allCmdsL q nodes = true) (hout : ∀ l ∈ out, P l) :
    HG q P (Duckling.runNodes c ctx nodes st out) := by
  induction nodes generalizing st out with
  | nil => exact HG.okSt _ _ rfl hs hout
  | cons n rest ih =>
    cases n with
    | block b =>
      simp only [allCmdsL_block, Bool.and_eq_true] at hnodes
      unfold Duckling.runNodes; exact ih _ _ hs hnodes.2 hout
    | line l =>
      simp only [allCmdsL_line, Bool.and_eq_true] at hnodes
      unfold Duckling.runNodes
      apply HG.bind (HG.stepCmd S hc _ _ _ _ hs hfs hC hnodes.1 (allCmdsL_nextBlock _ hnodes.2))
      intro r _ hrc hro
      have hout' : ∀ x ∈ out ++ r.out, P x := by
        intro x hx; rcases List.mem_append.mp hx with h | h; exact hout x h; exact hro x h
      split
      · exact ih _ _ hrc hnodes.2 hout'
      · exact HG.okSt _ _ rfl hrc hout'

theorem exec_childHG (S : HSpec q P C) (d : Nat) : ChildHG q P C (some (exec d)) := by
  induction d with
  | zero =>
    intro run hr code ctx st hC hcode hs hfs; cases hr
    exact HG.runNodes S (c := none) (by intro run h; cases h) _ _ _ _ hs hfs hC hcode (by intro l hl; cases hl)
  | succ d ih =>
    intro run hr code ctx st hC hcode hs hfs; cases hr
    exact HG.runNodes S ih _ _ _ _ hs hfs hC hcode (by intro l hl; cases hl)

/-- the hereditary invariant: any depth, any context, any state -/
theorem exec_hereditary (S : HSpec q P C) (d : Nat) (nodes : List Node) (ctx : Ctx) (st : St)
    (hnodes : allCmdsL q nodes = true) (hs : StOk q st) (hfs : FSOk q ctx.fs) (hC : C ctx) : HG q P (exec d nodes ctx st) := by
  cases d with
  | zero => exact HG.runNodes S (c := none) (by intro run h; cases h) _ _ _ _ hs hfs hC hnodes (by intro l hl; cases hl)
  | succ d => exact HG.runNodes S (exec_childHG S d) _ _ _ _ hs hfs hC hnodes (by intro l hl; cases hl)

/-- a predicate on the text alone: the two notions agree -/
theorem allCmdsL_of_text (p : Str → Bool) : ∀ (n : Nat) (nodes : List Node), sizeOf nodes ≤ n →
    allCmdsL (fun s _ => p s) nodes = allLinesL p nodes := by
  intro n
  induction n with
  | zero => intro nodes h; cases nodes <;> simp at h
  | succ n ih =>
    intro nodes h
    cases nodes with
    | nil => simp
    | cons x rest =>
      have hr : sizeOf rest ≤ n := by simp at h; omega
      cases x with
      | line l => simp [ih rest hr]
      | block b =>
        have hb : sizeOf b ≤ n := by simp at h; omega
        simp [ih rest hr, ih b hb]

end Duckling
