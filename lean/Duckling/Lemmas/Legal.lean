import Duckling.Lemmas.Hered
import Duckling.Lemmas.ParseNoBlank
import Duckling.Lemmas.SimplePre
import Duckling.Lemmas.Digits
import Duckling.Spec.Ducky
import Duckling.Lemmas.LegalBase
import Duckling.Lemmas.Simple
/-
  Every line a command of the palette emits by itself is a legal line of the frozen documented language
  (`Spec.legalLine`) — for every class, every delivery form.  Together with the hereditary walk this gives: a program
  without IGNORE blocks (anywhere in the code that can run) only emits legal lines.
-/
namespace Duckling
open Duckling.Spec

/-! ### words have no blanks -/

theorem uint32_upper_ne_space (v : UInt32) (h2 : v + (65 - 97) = 32) (h1 : 97 ≤ v) (h4 : v ≤ 122) : False := by
  have h2' := congrArg UInt32.toNat h2
  rw [UInt32.toNat_add] at h2'
  rw [UInt32.le_iff_toNat_le] at h1 h4
  simp at h2' h1 h4
  omega

theorem toUpper_eq_space (c : Char) (e : c.toUpper = ' ') : c = ' ' := by
  unfold Char.toUpper at e
  split at e
  · rename_i h
    exfalso
    have h2 := congrArg Char.val e
    simp only at h2
    have h3 : (' ' : Char).val = 32 := rfl
    have ha : ('a' : Char).val = 97 := rfl
    have hz : ('z' : Char).val = 122 := rfl
    have hA : ('A' : Char).val = 65 := rfl
    rw [h3, hA, ha] at h2
    rw [ha, hz] at h
    exact uint32_upper_ne_space _ h2 h.1 h.2
  · exact e

theorem upper_no_space (w : Str) (h : ' ' ∉ w) : ' ' ∉ upper w := by
  intro hm
  simp only [upper, List.mem_map] at hm
  obtain ⟨c, hc, he⟩ := hm
  rw [toUpper_eq_space c he] at hc
  exact h hc

theorem takeWhile_no_space (s : Str) : ' ' ∉ s.takeWhile (fun c => !isSpace c) := by
  induction s with
  | nil => simp
  | cons c cs ih =>
    simp only [List.takeWhile]
    split
    · rename_i hc
      intro hm
      rcases List.mem_cons.mp hm with h | h
      · rw [← h] at hc; simp [isSpace] at hc
      · exact ih h
    · simp

theorem splitWs1_word_no_space (s w : Str) (a : Option Str) (h : splitWs1 s = some (w, a)) : ' ' ∉ w := by
  unfold splitWs1 at h
  simp only [] at h
  split at h
  · cases h
  · split at h
    · cases h; exact takeWhile_no_space _
    · cases h; exact takeWhile_no_space _

theorem nameOf_no_space (word : Str) (h : ' ' ∉ word) : ' ' ∉ upper (nameOf word) := by
  apply upper_no_space
  unfold nameOf
  split
  · intro hm; exact h (List.mem_of_mem_drop hm)
  · exact h

/-! ### the words the frozen specification validates -/

def specWords : List String := noArgKeys ++ modifiers.map (·.1) ++ delayNames ++ ["ALTCHAR"] ++ oneCharOrBare

theorem legalArg_unvalidated (w : String) (a : Option Str) (h : w ∉ specWords) : legalArg w a = true := by
  simp only [specWords, List.mem_append, not_or] at h
  obtain ⟨⟨⟨⟨h1, h2⟩, h3⟩, h4⟩, h5⟩ := h
  unfold legalArg
  have e1 : noArgKeys.contains w = false := by simpa using h1
  have e2 : modifiers.find? (·.1 == w) = none := by
    rw [List.find?_eq_none]
    intro x hx hxe
    apply h2
    simp only [List.mem_map]
    exact ⟨x, hx, by simpa using hxe⟩
  have e3 : delayNames.contains w = false := by simpa using h3
  have e4 : (w == "ALTCHAR") = false := by simpa using h4
  have e5 : oneCharOrBare.contains w = false := by simpa using h5
  simp [e2, e4, h1, h3, h5]

theorem legalLine_empty : legalLine [] = true := by decide

theorem legalLine_enter : legalLine "ENTER".toList = true := by decide

end Duckling

namespace Duckling
open Duckling.Spec

/-! ### what a stack-less `run_compile` can emit -/

/-- the four shapes of the output of one `run_compile` call -/
def OutShape (c : ClsDesc) (name : Str) (a : Option Arg) (out : List Str) : Prop :=
  out = [] ∨ (∃ n, out = List.replicate n "ENTER".toList) ∨ (∃ n, out = List.replicate n []) ∨
  ((c.cname = "Enter" → hasHook c "run_compile" = true → a = none) ∧ ∃ ls, defaultEmit name a = .ok ls ∧ out = ls)

theorem dflt_shape (c : ClsDesc) (name : Str) (a : Option Arg) (st : St) (rc : RC)
    (hen : c.cname = "Enter" → hasHook c "run_compile" = true → a = none)
    (h : (defaultEmit name a >>= fun ls => (R.ok { st := st, out := ls, sig := some Sig.normal } : R RC)) = .ok rc) :
    OutShape c name a rc.out := by
  cases hd : defaultEmit name a with
  | ok ls =>
    rw [hd] at h; simp only [R.bind_ok, R.ok.injEq] at h; subst h
    exact Or.inr (Or.inr (Or.inr ⟨hen, ls, hd, rfl⟩))
  | err e => rw [hd] at h; cases h
  | crash e => rw [hd] at h; cases h
  | oom w => rw [hd] at h; cases h

theorem runCompileLocal_out (ctx : Ctx) (c : ClsDesc) (name : Str) (line : Nat) (a : Option Arg) (st : St) (rc : RC)
    (h : runCompileLocal ctx c name line a st = .ok rc) : OutShape c name a rc.out := by
  unfold runCompileLocal at h
  simp only [] at h
  split at h
  · rename_i hh
    refine dflt_shape c name a st rc ?_ h
    intro _ hrun; simp [hrun] at hh
  · split at h
    · cases h; exact Or.inl rfl
    · cases h; exact Or.inl rfl
    · cases h; exact Or.inl rfl
    · cases h; exact Or.inl rfl
    · rename_i hc
      split at h
      · exact dflt_shape c name a st rc (by intro he; rw [hc] at he; exact absurd he (by decide)) h
      · cases h; exact Or.inl rfl
    · split at h
      · cases h; exact Or.inl rfl
      · cases h; exact Or.inl rfl
    · split at h
      · exact dflt_shape c name none st rc (fun _ _ => rfl) h
      · split at h
        · split at h
          · cases h
          · cases h; exact Or.inr (Or.inl ⟨_, rfl⟩)
        · cases h
    · split at h
      · cases h; exact Or.inr (Or.inr (Or.inl ⟨1, rfl⟩))
      · split at h
        · cases h; exact Or.inr (Or.inr (Or.inl ⟨_, rfl⟩))
        · cases h
    · rename_i hc
      split at h
      · cases h
      · split at h
        · simp [raise] at h
        · rename_i a0 _
          cases hd : defaultEmit name (some a0) with
          | ok ls =>
            rw [hd] at h; simp only [R.bind_ok, R.ok.injEq] at h; subst h
            exact Or.inr (Or.inr (Or.inr ⟨(by intro he; rw [hc] at he; exact absurd he (by decide)), ls, hd, rfl⟩))
          | err e => rw [hd] at h; cases h
          | crash e => rw [hd] at h; cases h
          | oom w => rw [hd] at h; cases h
    · split at h
      · cases h
      · split at h
        · cases h; exact Or.inl rfl
        · simp [raise] at h
    · split at h
      · cases h
      · split at h
        · cases h; exact Or.inl rfl
        · simp [raise] at h
    · split at h
      · cases h
      · split at h
        · simp only [R.bind_eq_ok] at h
          obtain ⟨v, _, h⟩ := h
          split at h
          · simp [raise] at h
          · split at h
            · cases h
            · cases h; exact Or.inl rfl
        · cases h
    · rename_i hne1 hne2 hne3 hne4 hne5 hne6 hne7 hne8 hne9 hne10 hne11 hne12
      exact dflt_shape c name a st rc (by intro he; exact absurd he hne7) h

end Duckling

namespace Duckling
open Duckling.Spec

/-! ### table facts about the classes whose names the specification validates (re-checked against the generated palette) -/

def modNames : List String := modifiers.map (·.1)

def specTableOk : Bool :=
  Generated.palette.all fun c => c.isBlock || c.names.all fun n =>
    (!noArgKeys.contains n ||
      (c.argReq == .notAllowed ||
       (c.cname == "Enter" && c.argType == .int && c.hooks.contains "run_compile" && !c.hooks.contains "format_arg"))) &&
    (!modNames.contains n ||
      ((c.cname == "Alt" || c.cname == "Ctrl" || c.cname == "Shift" || c.cname == "Gui") && c.argType == .str &&
        c.hooks.contains "verify_arg")) &&
    (!delayNames.contains n ||
      ((c.cname == "Delay" || c.cname == "DefaultDelay") && c.argReq == .required && c.argType == .int &&
        c.hooks.contains "verify_arg" && !c.hooks.contains "format_arg")) &&
    (n != "ALTCHAR" ||
      (c.cname == "FlipperAltChar" && c.argReq == .required && c.argType == .str && c.hooks.contains "verify_arg" &&
        c.hooks.contains "format_arg")) &&
    (!oneCharOrBare.contains n ||
      ((c.cname == "FlipperModifierKeys" || c.cname == "FlipperSysrq") && c.argType == .str && c.hooks.contains "verify_arg" &&
        !c.hooks.contains "format_arg"))

theorem specTable_facts : specTableOk = true := by decide

/-- every validated word is a name of a simple class of the palette -/
def specCoveredOk : Bool := specWords.all fun w => Generated.palette.any fun c => !c.isBlock && c.names.contains w

theorem specCovered_facts : specCoveredOk = true := by decide

/-- Gui and Shift have no `format_arg`; the generic class has no hooks at all -/
def miscTableOk : Bool :=
  (Generated.palette.all fun c => (c.cname != "Gui" && c.cname != "Shift") || !c.hooks.contains "format_arg") &&
  Generated.generic.hooks.isEmpty

theorem miscTable_facts : miscTableOk = true := by decide

end Duckling

namespace Duckling
open Duckling.Spec Duckling.Legal

/-! ### `legalArg` on the five families of validated words -/

theorem legalArg_none (w : String) (h1 : w ∉ delayNames) (h2 : w ≠ "ALTCHAR") : legalArg w none = true := by
  unfold legalArg
  have e3 : delayNames.contains w = false := by simpa using h1
  have e4 : (w == "ALTCHAR") = false := by simpa using h2
  split
  · rfl
  · split
    · rfl
    · simp [h1, e4]

theorem legalArg_altchar (s : Str) (h : (!s.isEmpty && s.all isDigitC && decide (s.length ≤ 4)) = true) :
    legalArg "ALTCHAR" (some s) = true := by
  simp only [Bool.and_eq_true, decide_eq_true_eq] at h
  simp [legalArg, noArgKeys, modifiers, delayNames, fkeys, altKeys, ctrlKeys, shiftKeys]
  simp at h
  exact ⟨⟨h.1.1, h.1.2⟩, h.2⟩

theorem legalArg_onechar (w : String) (hw : w ∈ oneCharOrBare) (s : Str) (h : s.length = 1) : legalArg w (some s) = true := by
  simp only [oneCharOrBare, List.mem_cons, List.not_mem_nil, or_false] at hw
  rcases hw with rfl | rfl | rfl | rfl | rfl | rfl <;>
    simp [legalArg, noArgKeys, modifiers, delayNames, oneCharOrBare, fkeys, altKeys, ctrlKeys, shiftKeys, h]

theorem legalArg_gui (w : String) (hw : w ∈ ["GUI", "WINDOWS", "META"]) (s : Str) (h : s.length = 1) : legalArg w (some s) = true := by
  simp only [List.mem_cons, List.not_mem_nil, or_false] at hw
  rcases hw with rfl | rfl | rfl <;>
    simp [legalArg, noArgKeys, modifiers, fkeys, altKeys, ctrlKeys, shiftKeys, h]

theorem legalArg_noarg_none (w : String) (hw : w ∈ noArgKeys) : legalArg w none = true := by
  simp [legalArg, hw]

theorem typeOk_str (v : Val) (h : typeOk .str v = true) : ∃ s, v = .str s := by
  cases v <;> simp [typeOk] at h
  exact ⟨_, rfl⟩

theorem typeOk_int (v : Val) (h : typeOk .int v = true) : ∃ i, v = .int i := by
  cases v <;> simp [typeOk] at h
  exact ⟨_, rfl⟩

/-! ### dispatch and the emitted name -/

theorem upper_drop (w : Str) (n : Nat) : upper (w.drop n) = (upper w).drop n := by
  simp [upper, List.map_drop]

theorem upperName_eq (word : Str) :
    String.ofList (upper (nameOf word)) =
      (if startsWith ['$'] (upper word) then String.ofList ((upper word).drop 1) else String.ofList (upper word)) := by
  unfold nameOf
  split
  · rw [upper_drop]
  · rfl

theorem isThis_simple (c : ClsDesc) (word : Str) (hb : Bool) (hblk : c.isBlock = false) :
    isThisCommand c word hb = c.names.contains (String.ofList (upper (nameOf word))) := by
  unfold isThisCommand
  simp only [hblk, Bool.false_eq_true, if_false, upperName_eq]

theorem dispatch_name (word : Str) (hb : Bool) (c : ClsDesc) (h : dispatch word hb = some c) (hblk : c.isBlock = false) :
    String.ofList (upper (nameOf word)) ∈ c.names := by
  unfold dispatch at h
  have := List.find?_some h
  rw [isThis_simple c word hb hblk] at this
  simpa using this

theorem dispatch_none_unvalidated (word : Str) (hb : Bool) (h : dispatch word hb = none) :
    String.ofList (upper (nameOf word)) ∉ specWords := by
  intro hW
  have hc := List.all_eq_true.mp specCovered_facts _ hW
  simp only [List.any_eq_true, Bool.and_eq_true, Bool.not_eq_true'] at hc
  obtain ⟨c, hmem, hblk, hname⟩ := hc
  unfold dispatch at h
  rw [List.find?_eq_none] at h
  have := h c hmem
  rw [isThis_simple c word hb hblk] at this
  exact this hname

end Duckling

namespace Duckling
open Duckling.Spec Duckling.Legal

/-- the one line `SimpleCommand.run_compile` makes of a name and an argument -/
theorem defaultEmit_lines (name : Str) (a : Option Arg) (ls : List Str) (h : defaultEmit name a = .ok ls) :
    (a = none ∧ ls = [upper name]) ∨
    (∃ a1 s, a = some a1 ∧ a1.content = .str s ∧ ls = [upper name ++ [' '] ++ s]) ∨
    (∃ a1 i, a = some a1 ∧ a1.content = .int i ∧ ls = [upper name ++ [' '] ++ intToStr i]) := by
  unfold defaultEmit at h
  split at h
  · cases h; exact Or.inl ⟨rfl, rfl⟩
  · rename_i a1
    split at h
    · rename_i s hs; cases h; exact Or.inr (Or.inl ⟨a1, s, rfl, hs, rfl⟩)
    · rename_i i hi
      split at h
      · cases h
      · cases h; exact Or.inr (Or.inr ⟨a1, i, rfl, hi, rfl⟩)
    · cases h

/-- **every line a simple command of the palette (or an unknown command) emits by itself is legal**, whatever the
    delivery form of its arguments -/
theorem emit_legal (ctx : Ctx) (content word : Str) (arg : Option Str) (block : Option (List Node)) (cl : ClsDesc)
    (hsplit : splitWs1 content = some (word, arg))
    (hd : (dispatch word (hasBlockOf block) = some cl ∧ cl.isBlock = false) ∨
          (dispatch word (hasBlockOf block) = none ∧ cl = Generated.generic))
    (line : Nat) (st : St) (name : Str) (items : List (Option Arg)) (st' : St)
    (hpre : simplePre ctx cl word line arg block st = .ok (name, items, st'))
    (a : Option Arg) (ha : a ∈ items) (st2 : St) (rc : RC) (hrc : runCompileLocal ctx cl name line a st2 = .ok rc) :
    ∀ l ∈ rc.out, legalLine l = true := by
  obtain ⟨hnm, _, _, _, args, _, hitems, hreq0, hreq1, hargs⟩ := simplePre_spec ctx cl word line arg block st name items st' hpre
  subst hnm
  have hsp : ' ' ∉ upper (nameOf word) := nameOf_no_space word (splitWs1_word_no_space _ _ _ hsplit)
  -- the items: a single `none`, or the formatted verified arguments
  have hitem : (a = none ∧ args = []) ∨ (∃ a0 ∈ args, a = some (formatArg cl a0)) := by
    rw [hitems] at ha
    unfold itemsOf at ha
    split at ha
    · rename_i he
      simp only [List.mem_singleton] at ha
      exact Or.inl ⟨ha, by cases args <;> simp_all⟩
    · simp only [List.mem_map] at ha
      obtain ⟨a0, h0, rfl⟩ := ha
      exact Or.inr ⟨a0, h0, rfl⟩
  intro l hl
  rcases runCompileLocal_out ctx cl (nameOf word) line a st2 rc hrc with h | ⟨n, h⟩ | ⟨n, h⟩ | ⟨hen, ls, hls, h⟩
  · rw [h] at hl; cases hl
  · rw [h] at hl; rw [List.eq_of_mem_replicate hl]; exact legalLine_enter
  · rw [h] at hl; rw [List.eq_of_mem_replicate hl]; exact legalLine_empty
  · rw [h] at hl
    -- the emitted word
    generalize hW : String.ofList (upper (nameOf word)) = W at *
    by_cases hspec : W ∈ specWords
    · -- a validated word: the command was dispatched to the class that validates it
      have hdisp : dispatch word (hasBlockOf block) = some cl ∧ cl.isBlock = false := by
        rcases hd with hd | hd
        · exact hd
        · exact absurd (hW ▸ hspec) (dispatch_none_unvalidated word _ hd.1)
      have hmem : cl ∈ Generated.palette := List.mem_of_find?_eq_some hdisp.1
      have hname : W ∈ cl.names := hW ▸ dispatch_name word _ cl hdisp.1 hdisp.2
      have hfacts := List.all_eq_true.mp specTable_facts cl hmem
      simp only [hdisp.2, Bool.false_or, List.all_eq_true] at hfacts
      have hf := hfacts W hname
      simp only [Bool.and_eq_true, Bool.or_eq_true, Bool.not_eq_true', beq_iff_eq, bne_iff_ne, ne_eq, List.contains_iff_mem,
        decide_eq_true_eq, decide_eq_false_iff_not] at hf
      obtain ⟨⟨⟨⟨hfNo, hfMod⟩, hfDel⟩, hfAlt⟩, hfOne⟩ := hf
      have cv : ∀ l : List String, l.contains W = false → W ∉ l := fun l h => by simpa using h
      rcases hitem with ⟨rfl, hargs0⟩ | ⟨a0, ha0, rfl⟩
      · -- no argument
        rcases defaultEmit_lines _ _ _ hls with ⟨_, rfl⟩ | ⟨_, _, h1, _⟩ | ⟨_, _, h1, _⟩
        · simp only [List.mem_singleton] at hl; subst hl
          rw [legalLine_bare W _ hW hsp]
          apply legalArg_none
          · intro hdl
            rcases hfDel with h | h
            · exact cv _ h hdl
            · exact hreq0 hargs0 h.1.1.1.2
          · intro hac
            rcases hfAlt with h | h
            · exact h hac
            · exact hreq0 hargs0 h.1.1.1.2
        · cases h1
        · cases h1
      · -- a verified, formatted argument
        obtain ⟨hty, hnl, hv⟩ := hargs a0 ha0
        have hne : args ≠ [] := fun e => by rw [e] at ha0; cases ha0
        simp only [specWords, List.mem_append, modNames] at hspec hfMod
        rcases hspec with (((hs1 | hs2) | hs3) | hs4) | hs5
        · -- a key that takes no argument: the class allows none — or it is ENTER, which never emits its argument
          exfalso
          rcases hfNo with h | h
          · exact cv _ h hs1
          · rcases h with h | h
            · exact hreq1 hne h
            · have := hen h.1.1.1 (by simp [hasHook, h.1.2])
              cases this
        · -- a modifier key
          rcases hfMod with h | h
          · exact absurd hs2 (cv _ h)
          · obtain ⟨⟨hcn, htys⟩, hva⟩ := h
            rw [htys] at hty
            obtain ⟨s0, hs0⟩ := typeOk_str _ hty
            have hh : hasHook cl "verify_arg" = true := by simp [hasHook, hva]
            have hstr0 : a0.str = s0 := by simp [Arg.str, hs0]
            rcases hcn with ((hcn | hcn) | hcn) | hcn
            · -- ALT: a listed key is emitted upper-cased
              have hml := modifier_legal cl hmem (Or.inl hcn) hh W hname _ hW hsp a0 s0 hs0 hv
              rcases defaultEmit_lines _ _ _ hls with ⟨h1, _⟩ | ⟨a1, s, h1, hs, rfl⟩ | ⟨a1, i, h1, hi, _⟩
              · cases h1
              · cases h1
                simp only [List.mem_singleton] at hl; subst hl
                unfold formatArg at hs
                split at hs
                · rw [hs0] at hs; cases hs; exact hml.1
                · simp only [hcn] at hs
                  split at hs
                  · rename_i hin
                    simp only [Val.str.injEq] at hs; subst hs
                    rw [hstr0] at hin ⊢
                    exact hml.2 hin
                  · rw [hs0] at hs; cases hs; exact hml.1
              · cases h1
                have : (formatArg cl a0).content = .str (formatArg cl a0).str := by
                  have := formatArg_str cl s0 a0.lineNum a0.orig
                  have e : a0 = ⟨.str s0, a0.lineNum, a0.orig⟩ := by cases a0; simp_all
                  rw [← e] at this; exact this
                rw [this] at hi; cases hi
            · -- CTRL / CONTROL: emitted as written
              have hml := modifier_legal cl hmem (Or.inr (Or.inl hcn)) hh W hname _ hW hsp a0 s0 hs0 hv
              have hfa : formatArg cl a0 = a0 := by
                unfold formatArg; split; rfl; simp [hcn]
              rw [hfa] at hls
              rcases defaultEmit_lines _ _ _ hls with ⟨h1, _⟩ | ⟨a1, s, h1, hs, rfl⟩ | ⟨a1, i, h1, hi, _⟩
              · cases h1
              · cases h1; rw [hs0] at hs; cases hs
                simp only [List.mem_singleton] at hl; subst hl; exact hml.1
              · cases h1; rw [hs0] at hi; cases hi
            · -- SHIFT: a listed key, as written
              have hml := modifier_legal cl hmem (Or.inr (Or.inr hcn)) hh W hname _ hW hsp a0 s0 hs0 hv
              have hnf : hasHook cl "format_arg" = false := by
                have := List.all_eq_true.mp (Bool.and_eq_true_iff.mp miscTable_facts).1 cl hmem
                simpa [hcn, hasHook] using this
              have hfa : formatArg cl a0 = a0 := by unfold formatArg; simp [hnf]
              rw [hfa] at hls
              rcases defaultEmit_lines _ _ _ hls with ⟨h1, _⟩ | ⟨a1, s, h1, hs, rfl⟩ | ⟨a1, i, h1, hi, _⟩
              · cases h1
              · cases h1; rw [hs0] at hs; cases hs
                simp only [List.mem_singleton] at hl; subst hl; exact hml.1
              · cases h1; rw [hs0] at hi; cases hi
            · -- GUI / WINDOWS / META: one character
              have hnf : hasHook cl "format_arg" = false := by
                have := List.all_eq_true.mp (Bool.and_eq_true_iff.mp miscTable_facts).1 cl hmem
                simpa [hcn, hasHook] using this
              have hfa : formatArg cl a0 = a0 := by unfold formatArg; simp [hnf]
              have hgn : cl.names = ["GUI", "WINDOWS", "META"] := by
                have := List.all_eq_true.mp spec_covers_code.2.2.2.1 cl hmem
                simpa [hcn] using this
              have hlen : s0.length = 1 := by
                unfold verifyArgHook at hv
                simp only [hh, Bool.not_true, Bool.false_eq_true, if_false, hcn, hstr0] at hv
                simpa using hv
              rw [hfa] at hls
              rcases defaultEmit_lines _ _ _ hls with ⟨h1, _⟩ | ⟨a1, s, h1, hs, rfl⟩ | ⟨a1, i, h1, hi, _⟩
              · cases h1
              · cases h1; rw [hs0] at hs; cases hs
                simp only [List.mem_singleton] at hl; subst hl
                rw [legalLine_arg W _ _ hW hsp]
                exact legalArg_gui W (hgn ▸ hname) s0 hlen
              · cases h1; rw [hs0] at hi; cases hi
        · -- DELAY / DEFAULT_DELAY: a non-negative integer literal
          rcases hfDel with h | h
          · exact absurd hs3 (cv _ h)
          · obtain ⟨⟨⟨⟨hcn, _⟩, htyi⟩, hva⟩, hnf⟩ := h
            rw [htyi] at hty
            have hh : hasHook cl "verify_arg" = true := by simp [hasHook, hva]
            have hcn' : cl.cname = "Delay" ∨ cl.cname = "DefaultDelay" := hcn
            obtain ⟨i, hi0, hnn⟩ := delay_hook cl hcn' hh a0 hty hv
            have hnf' : hasHook cl "format_arg" = false := by simpa [hasHook] using hnf
            have hfa : formatArg cl a0 = a0 := by unfold formatArg; simp [hnf']
            rw [hfa] at hls
            rcases defaultEmit_lines _ _ _ hls with ⟨h1, _⟩ | ⟨a1, s, h1, hs, _⟩ | ⟨a1, j, h1, hj, rfl⟩
            · cases h1
            · cases h1; rw [hi0] at hs; cases hs
            · cases h1; rw [hi0] at hj; cases hj
              simp only [List.mem_singleton] at hl; subst hl
              exact delay_legal W hs3 _ hW hsp i hnn
        · -- ALTCHAR: the stripped 1-4 digit code
          simp only [List.mem_singleton] at hs4
          rcases hfAlt with h | h
          · exact absurd hs4 h
          · obtain ⟨⟨⟨⟨hcn, _⟩, htys⟩, hva⟩, hfmt⟩ := h
            rw [htys] at hty
            obtain ⟨s0, hs0⟩ := typeOk_str _ hty
            have hh : hasHook cl "verify_arg" = true := by simp [hasHook, hva]
            have hhf : hasHook cl "format_arg" = true := by simp [hasHook, hfmt]
            have hfa : formatArg cl a0 = { a0 with content := .str (strip a0.str) } := by
              unfold formatArg; simp [hhf, hcn]
            have hchk : (!(strip a0.str).isEmpty && (strip a0.str).all isDigitC && decide ((strip a0.str).length ≤ 4)) = true := by
              unfold verifyArgHook at hv
              simpa [hh, hcn] using hv
            rw [hfa] at hls
            rcases defaultEmit_lines _ _ _ hls with ⟨h1, _⟩ | ⟨a1, s, h1, hs, rfl⟩ | ⟨a1, j, h1, hj, _⟩
            · cases h1
            · cases h1
              simp only [Val.str.injEq] at hs; subst hs
              simp only [List.mem_singleton] at hl; subst hl
              rw [legalLine_arg W _ _ hW hsp, hs4]
              exact legalArg_altchar _ hchk
            · cases h1; simp at hj
        · -- the Flipper modifier pairs and SYSRQ: one character
          rcases hfOne with h | h
          · exact absurd hs5 (cv _ h)
          · obtain ⟨⟨⟨hcn, htys⟩, hva⟩, hnf⟩ := h
            rw [htys] at hty
            obtain ⟨s0, hs0⟩ := typeOk_str _ hty
            have hh : hasHook cl "verify_arg" = true := by simp [hasHook, hva]
            have hstr0 : a0.str = s0 := by simp [Arg.str, hs0]
            have hnf' : hasHook cl "format_arg" = false := by simpa [hasHook] using hnf
            have hfa : formatArg cl a0 = a0 := by unfold formatArg; simp [hnf']
            have hlen : s0.length = 1 := by
              unfold verifyArgHook at hv
              rcases hcn with hcn | hcn <;>
                (simp only [hh, Bool.not_true, Bool.false_eq_true, if_false, hcn, hstr0] at hv; simpa using hv)
            rw [hfa] at hls
            rcases defaultEmit_lines _ _ _ hls with ⟨h1, _⟩ | ⟨a1, s, h1, hs, rfl⟩ | ⟨a1, i, h1, hi, _⟩
            · cases h1
            · cases h1; rw [hs0] at hs; cases hs
              simp only [List.mem_singleton] at hl; subst hl
              rw [legalLine_arg W _ _ hW hsp]
              exact legalArg_onechar W hs5 s0 hlen
            · cases h1; rw [hs0] at hi; cases hi
    · -- not a validated word: any argument is legal
      rcases defaultEmit_lines _ _ _ hls with ⟨_, rfl⟩ | ⟨a1, s, _, _, rfl⟩ | ⟨a1, i, _, _, rfl⟩
      · simp only [List.mem_singleton] at hl; subst hl
        rw [legalLine_bare W _ hW hsp]; exact legalArg_unvalidated W none hspec
      · simp only [List.mem_singleton] at hl; subst hl
        rw [legalLine_arg W _ _ hW hsp]; exact legalArg_unvalidated W _ hspec
      · simp only [List.mem_singleton] at hl; subst hl
        rw [legalLine_arg W _ _ hW hsp]; exact legalArg_unvalidated W _ hspec

end Duckling

namespace Duckling
open Duckling.Spec Duckling.Legal

/-! ### block commands that emit without running a body -/

theorem ifDecide_done_out (name : Str) (st : St) (cond : Bool) (o : Out) (h : ifDecide name st cond = .done o) : o.out = [] := by
  unfold ifDecide at h
  simp only [] at h
  repeat' split at h
  all_goals first | (cases h; rfl) | cases h

theorem ifPre_done_out (ctx : Ctx) (pos : Pos) (word : Str) (arg : Option Str) (st : St) (o : Out)
    (h : ifPre ctx pos word arg st = .ok (.done o)) : o.out = [] := by
  unfold ifPre at h
  simp only [] at h
  split at h
  · simp [raise] at h
  · split at h
    · simp [raise] at h
    · simp only [R.bind_eq_ok] at h
      obtain ⟨cond, _, h⟩ := h
      simp only [R.ok.injEq] at h
      exact ifDecide_done_out _ _ _ _ h

theorem funcPre_done_out (ctx : Ctx) (pos : Pos) (arg : Option Str) (block : List Node) (st : St) (o : Out)
    (h : funcPre ctx pos arg block st = .ok (.done o)) : o.out = [] := by
  unfold funcPre at h
  simp only [] at h
  repeat' split at h
  all_goals first
    | (simp [raise] at h; done)
    | (simp only [R.ok.injEq, BlockAct.done.injEq] at h; subst h; rfl)

theorem repeatPre_done_out (ctx : Ctx) (pos : Pos) (arg : Option Str) (hb : Bool) (st : St) (o : Out)
    (h : repeatPre ctx pos arg hb st = .ok (.done o)) : ∃ ce, o.out = ["REPEAT ".toList ++ ce] := by
  unfold repeatPre at h
  simp only [] at h
  repeat' split at h
  all_goals first
    | (simp [raise] at h; done)
    | (simp only [R.ok.injEq, BlockAct.done.injEq] at h; subst h; exact ⟨_, rfl⟩)
    | (simp only [R.ok.injEq] at h; cases h)

theorem blockPre_done_out (ctx : Ctx) (c : ClsDesc) (word : Str) (line : Nat) (arg : Option Str) (block : List Node) (hb : Bool)
    (st : St) (o : Out) (h : blockPre ctx c word line arg block hb st = .ok (.done o)) :
    o.out = [] ∨ c.cname = "Ignore" ∨ ∃ ce, o.out = ["REPEAT ".toList ++ ce] := by
  unfold blockPre at h
  simp only [] at h
  repeat' split at h
  all_goals first
    | (simp [raise] at h; done)
    | exact Or.inl (ifPre_done_out _ _ _ _ _ _ h)
    | exact Or.inl (funcPre_done_out _ _ _ _ _ _ h)
    | exact Or.inr (Or.inr (repeatPre_done_out _ _ _ _ _ _ h))
    | (exact Or.inr (Or.inl (by assumption)))
    | cases h

theorem legalLine_repeat (ce : Str) : legalLine ("REPEAT ".toList ++ ce) = true := by
  have h : "REPEAT ".toList ++ ce = "REPEAT".toList ++ [' '] ++ ce := by simp
  rw [h, legalLine_arg "REPEAT" "REPEAT".toList ce rfl (by decide)]
  exact legalArg_unvalidated _ _ (by decide)

/-- the line is a command line and its command is not IGNORE -/
def noIgnoreLine (s : Str) : Bool :=
  match splitWs1 s with
  | none => false
  | some (w, _) => upper w != "IGNORE".toList

def ignoreTableOk : Bool := Generated.palette.all fun c => c.cname != "Ignore" || (c.isBlock && c.names == ["IGNORE"])

theorem ignoreTable_facts : ignoreTableOk = true := by decide

theorem dispatch_ignore (word : Str) (hb : Bool) (c : ClsDesc) (h : dispatch word hb = some c) (hc : c.cname = "Ignore") :
    upper word = "IGNORE".toList := by
  have hmem : c ∈ Generated.palette := List.mem_of_find?_eq_some h
  have hf := List.all_eq_true.mp ignoreTable_facts c hmem
  simp only [hc, bne_self_eq_false, Bool.false_or, Bool.and_eq_true, beq_iff_eq] at hf
  unfold dispatch at h
  have hthis := List.find?_some h
  unfold isThisCommand at hthis
  simp only [hf.1, if_true, hf.2] at hthis
  split at hthis
  · cases hthis
  · have : String.ofList (upper word) = "IGNORE" := by simpa using hthis
    have := congrArg String.toList this
    simpa using this

/-- `noIgnoreLine` as a predicate of the hereditary walk -/
abbrev niq : Str → Bool → Bool := fun s _ => noIgnoreLine s

/-- the C02 instance of the hereditary specification -/
theorem hspec_legal : HSpec niq (fun l => legalLine l = true) (fun _ => True) where
  nonblank := by
    intro s _ h
    simp only [niq] at h
    unfold noIgnoreLine at h
    split at h
    · cases h
    · rename_i heq; rw [heq]; simp
  emit := by
    intro ctx content word arg block cl _ _ hsplit hd _ _ line st name items st' hpre a ha st2 rc hrc
    exact emit_legal ctx content word arg block cl hsplit hd line st name items st' hpre a ha st2 rc hrc
  blockDone := by
    intro ctx content word arg block cl _ hq hsplit hd hblk line st o hpre l hl
    rcases blockPre_done_out _ _ _ _ _ _ _ _ _ hpre with h | h | ⟨ce, h⟩
    · rw [h] at hl; cases hl
    · exfalso
      have hu := dispatch_ignore word _ cl hd h
      simp only [niq] at hq
      unfold noIgnoreLine at hq
      rw [hsplit] at hq
      simp [hu] at hq
    · rw [h] at hl; simp only [List.mem_singleton] at hl; subst hl; exact legalLine_repeat ce

end Duckling
