import Duckling.Model.Compile
import Duckling.Spec.Ducky
import Duckling.Lemmas.SimplePre
import Duckling.Lemmas.Digits
/-
  Helper lemmas about the frozen line language (`Spec.legalLine`) and the hooks of the validated classes
  (the property theorems that use them are in Props/C02).
-/
namespace Duckling.Legal
open Duckling Duckling.Spec

/-- table checks: names and accepted keys of the modifier classes are documented ones -/
def altTableOk : Bool := Generated.palette.all fun c => c.cname != "Alt" || (c.names == ["ALT"] && c.params.all (altKeys.contains ·))
def ctrlTableOk : Bool := Generated.palette.all fun c => c.cname != "Ctrl" || (c.names == ["CTRL", "CONTROL"] && c.params.all (ctrlKeys.contains ·))
def shiftTableOk : Bool := Generated.palette.all fun c => c.cname != "Shift" || (c.names == ["SHIFT"] && c.params.all (shiftKeys.contains ·))
def guiTableOk : Bool := Generated.palette.all fun c => c.cname != "Gui" || c.names == ["GUI", "WINDOWS", "META"]

/-- table check: the other validated classes -/
def validatedTableOk : Bool :=
  Generated.palette.all fun c =>
    (c.cname != "Delay" || (c.names == ["DELAY"] && c.argType == .int && c.hooks.contains "verify_arg" && !c.hooks.contains "run_compile")) &&
    (c.cname != "DefaultDelay" || (c.names == ["DEFAULT_DELAY", "DEFAULTDELAY"] && c.argType == .int && c.hooks.contains "verify_arg")) &&
    (!(["ArrowKeys", "Extended", "Menu"].contains c.cname) || (c.argReq == .notAllowed && c.hooks == [] && c.names.all (noArgKeys.contains ·))) &&
    (c.cname != "Enter" || (c.names == ["ENTER"] && c.argType == .int)) &&
    (c.cname != "FlipperAltChar" || (c.names == ["ALTCHAR"] && c.hooks.contains "verify_arg" && c.strip)) &&
    (!(["FlipperModifierKeys", "FlipperSysrq"].contains c.cname) || (c.hooks.contains "verify_arg" && c.names.all (oneCharOrBare.contains ·)))

theorem spec_covers_code :
    altTableOk = true ∧ ctrlTableOk = true ∧ shiftTableOk = true ∧ guiTableOk = true ∧ validatedTableOk = true := by decide

theorem keys_are_upper : ∀ k ∈ altKeys ++ ctrlKeys ++ shiftKeys, upper k.toList = k.toList := by decide

theorem takeWhile_sep (w rest : Str) (hw : ' ' ∉ w) :
    (w ++ ' ' :: rest).takeWhile (· != ' ') = w ∧ (w ++ ' ' :: rest).dropWhile (· != ' ') = ' ' :: rest := by
  induction w with
  | nil => simp
  | cons c cs ih =>
    have hc : c ≠ ' ' := fun e => hw (by simp [e])
    have hcs : ' ' ∉ cs := fun e => hw (by simp [e])
    simp [hc, ih hcs]

theorem takeWhile_nosep (w : Str) (hw : ' ' ∉ w) :
    w.takeWhile (· != ' ') = w ∧ w.dropWhile (· != ' ') = [] := by
  induction w with
  | nil => simp
  | cons c cs ih =>
    have hc : c ≠ ' ' := fun e => hw (by simp [e])
    have hcs : ' ' ∉ cs := fun e => hw (by simp [e])
    simp [hc, ih hcs]

/-- the emitted form of one argument -/
theorem legalLine_arg (w : String) (wl content : Str) (hwl : String.ofList wl = w) (hsp : ' ' ∉ wl) :
    legalLine (wl ++ [' '] ++ content) = legalArg w (some content) := by
  have := takeWhile_sep wl content hsp
  simp only [List.append_assoc, List.singleton_append]
  simp [legalLine, this.1, this.2, hwl]

theorem legalLine_bare (w : String) (wl : Str) (hwl : String.ofList wl = w) (hsp : ' ' ∉ wl) :
    legalLine wl = legalArg w none := by
  have := takeWhile_nosep wl hsp
  simp [legalLine, this.1, this.2, hwl]

/-- DELAY / DEFAULT_DELAY: a verified integer argument prints as a non-negative integer literal -/
theorem delay_legal (w : String) (hw : w ∈ delayNames) (wl : Str) (hwl : String.ofList wl = w) (hsp : ' ' ∉ wl)
    (i : Int) (hnn : ¬ i < 0) :
    legalLine (wl ++ [' '] ++ intToStr i) = true := by
  rw [legalLine_arg w wl _ hwl hsp, intToStr_nonneg i hnn]
  have hd := natToStr_digits i.natAbs
  have hne : (natToStr i.natAbs).isEmpty = false := by
    cases h : natToStr i.natAbs with
    | nil => exact absurd h hd.2
    | cons _ _ => rfl
  simp only [delayNames, List.mem_cons, List.mem_nil_iff, or_false] at hw
  rcases hw with rfl | rfl | rfl <;> simp [legalArg, noArgKeys, modifiers, delayNames, hne, hd.1]

/-- the hook of DELAY / DEFAULT_DELAY accepts exactly the non-negative integers -/
theorem delay_hook (c : ClsDesc) (hc : c.cname = "Delay" ∨ c.cname = "DefaultDelay") (hh : hasHook c "verify_arg" = true)
    (a : Arg) (hty : typeOk .int a.content = true) (hv : verifyArgHook c a = true) :
    ∃ i : Int, a.content = .int i ∧ ¬ i < 0 := by
  cases hcont : a.content with
  | int i =>
    refine ⟨i, rfl, ?_⟩
    unfold verifyArgHook at hv
    rcases hc with h | h <;> simp [hh, h, hcont] at hv <;> omega
  | flt m k => simp [typeOk, hcont] at hty
  | str s => simp [typeOk, hcont] at hty
  | bool b => simp [typeOk, hcont] at hty
  | list l => simp [typeOk, hcont] at hty

/-- keys that take no argument emit the bare name -/
theorem noarg_legal (w : String) (hw : w ∈ noArgKeys) (wl : Str) (hwl : String.ofList wl = w) (hsp : ' ' ∉ wl) :
    legalLine wl = true := by
  rw [legalLine_bare w wl hwl hsp]
  simp [legalArg, hw]

/-- modifier + argument accepted by the hook: one character or a documented key.  `s` is what CTRL and
    SHIFT emit (as written), `upper s` what ALT emits for a key name. -/
theorem modifier_legal (c : ClsDesc) (hmem : c ∈ Generated.palette)
    (hc : c.cname = "Alt" ∨ c.cname = "Ctrl" ∨ c.cname = "Shift")
    (hh : hasHook c "verify_arg" = true)
    (w : String) (hw : w ∈ c.names) (wl : Str) (hwl : String.ofList wl = w) (hsp : ' ' ∉ wl)
    (a : Arg) (s : Str) (hs : a.content = .str s) (hv : verifyArgHook c a = true) :
    legalLine (wl ++ [' '] ++ s) = true ∧
    ((paramsOf c).contains (upper s) = true → legalLine (wl ++ [' '] ++ upper s) = true) := by
  rw [legalLine_arg w wl _ hwl hsp, legalLine_arg w wl _ hwl hsp]
  have hstr : a.str = s := by simp [Arg.str, hs]
  -- a listed key (upper-cased) is a fixed point of `upper`
  have key_fix : ∀ ks : List String, (∀ k ∈ ks, k ∈ altKeys ++ ctrlKeys ++ shiftKeys) →
      (∀ k ∈ c.params, k ∈ ks) → (paramsOf c).contains (upper s) = true →
      String.ofList (upper s) ∈ ks ∧ String.ofList (upper (upper s)) ∈ ks := by
    intro ks hsub hk hin
    simp only [paramsOf, List.contains_iff_mem, List.mem_map] at hin
    obtain ⟨k, hk1, hk2⟩ := hin
    have hkk := hk k hk1
    have hfix := keys_are_upper k (hsub k hkk)
    rw [← hk2, hfix]
    simpa using hkk
  rcases hc with h | h | h
  · have hcov := List.all_eq_true.mp spec_covers_code.1 c hmem
    simp only [h, bne_self_eq_false, Bool.false_or, Bool.and_eq_true, beq_iff_eq, List.all_eq_true, List.contains_iff_mem] at hcov
    obtain ⟨hn, hk⟩ := hcov
    rw [hn] at hw; simp at hw; subst hw
    have kf := key_fix altKeys (by intro k hk; simp [hk]) hk
    unfold verifyArgHook at hv
    simp only [hh, Bool.not_true, Bool.false_eq_true, if_false, h, hstr, Bool.or_eq_true, decide_eq_true_eq] at hv
    constructor
    · rcases hv with hv | hv
      · simp [legalArg, noArgKeys, modifiers, (kf hv).1]
      · simp [legalArg, noArgKeys, modifiers, hv]
    · intro hin; simp [legalArg, noArgKeys, modifiers, (kf hin).2]
  · have hcov := List.all_eq_true.mp spec_covers_code.2.1 c hmem
    simp only [h, bne_self_eq_false, Bool.false_or, Bool.and_eq_true, beq_iff_eq, List.all_eq_true, List.contains_iff_mem] at hcov
    obtain ⟨hn, hk⟩ := hcov
    rw [hn] at hw; simp at hw
    have kf := key_fix ctrlKeys (by intro k hk; simp [hk]) hk
    unfold verifyArgHook at hv
    simp only [hh, Bool.not_true, Bool.false_eq_true, if_false, h, hstr, Bool.or_eq_true, decide_eq_true_eq] at hv
    constructor
    · rcases hv with hv | hv
      · rcases hw with rfl | rfl <;> simp [legalArg, noArgKeys, modifiers, (kf hv).1]
      · rcases hw with rfl | rfl <;> simp [legalArg, noArgKeys, modifiers, hv]
    · intro hin; rcases hw with rfl | rfl <;> simp [legalArg, noArgKeys, modifiers, (kf hin).2]
  · have hcov := List.all_eq_true.mp spec_covers_code.2.2.1 c hmem
    simp only [h, bne_self_eq_false, Bool.false_or, Bool.and_eq_true, beq_iff_eq, List.all_eq_true, List.contains_iff_mem] at hcov
    obtain ⟨hn, hk⟩ := hcov
    rw [hn] at hw; simp at hw; subst hw
    have kf := key_fix shiftKeys (by intro k hk; simp [hk]) hk
    unfold verifyArgHook at hv
    simp only [hh, Bool.not_true, Bool.false_eq_true, if_false, h, hstr] at hv
    constructor
    · simp [legalArg, noArgKeys, modifiers, (kf hv).1]
    · intro hin; simp [legalArg, noArgKeys, modifiers, (kf hin).2]

end Duckling.Legal
