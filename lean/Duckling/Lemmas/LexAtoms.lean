import Duckling.Lemmas.LexFlatB
/-
  Value tokens other than numbers, for the scanner standing anywhere in the text: variable names (among any set of names in scope),
  the Boolean literals, string literals.  Each is scanned from the "expecting a value" state to the "expecting an operator" state
  with its token appended — closed by the character that follows it (a blank or an operator's first character), or by the end of
  the text.
-/
namespace Duckling

/-- a character that separates tokens: a blank, or the first character of an operator -/
def Delim (c : Char) : Prop := isSpace c = true ∨ c ∈ ['+', '-', '*', '/', '%', '^', '=', '!', '<', '>', ',']

/-- inside a Variable token after `j` characters of the name `x` that begins at `off` -/
def varStG (off : Nat) (out : List Tok) (x : Str) (j : Nat) (k : KwSt) : LS :=
  { idx := off + j, start := off, tok := some (.kw .var k), isOp := false, str := x.take j, out := out, black := [.bool] }

/-- the first character of the name, the scanner expecting a value -/
theorem step_name_first (names : List Str) (x : Str) (ix : Nat) (hix : ix < names.length) (hx : names.getD ix [] = x)
    (hin : names.contains x = true) (hlen : 0 < x.length) (hc : NameStart (x[0])) (off : Nat) (out : List Tok) :
    ∃ s', lexStep names (x[0]) (sV off out) = .ok s' ∧
      ((∃ k', s' = varStG off out x 1 k' ∧ KwInv names x 1 k') ∨ (s' = sO (off + 1) (⟨.var, x, false⟩ :: out) ∧ 1 = x.length)) := by
  have hk0 : KwInv names x 0 { kws := names } := ⟨rfl, by simp, by simp [cand_nil], fun h => absurd h (by omega)⟩
  obtain ⟨k', r, hadd, hinv, hr⟩ := kwAdd_name names x ix hix hx 0 hlen { kws := names } hk0
  have hne : names.isEmpty = false := names_ne_nil names ix hix
  have hq' : (x[0] != '"') = true := by simp [bne, hc.quote]
  have hbk : boolKws.isEmpty = false := by decide
  have hmem : x ∈ names := by simpa using hin
  have ht1 : x.take 1 = [x[0]] := by
    cases x with
    | nil => simp at hlen
    | cons a b => simp
  rcases hr with rfl | ⟨rfl, hend⟩
  · refine ⟨varStG off out x 1 k', ?_, Or.inl ⟨k', rfl, hinv⟩⟩
    simp [lexStep, sV, hc.sp, valueClasses, verifyChar, fresh, addChar, hc.quote, hq', hc.dig, hc.minus, hc.dot, resolve, hbk,
      kwAdd_bool_declines _ hc, resetS, TokSt.cls, hne, hadd, varStG, ht1]
  · refine ⟨sO (off + 1) (⟨.var, x, false⟩ :: out), ?_, Or.inr ⟨rfl, hend⟩⟩
    have hk' : k'.kws = names := hinv.1
    have hx1 : [x[0]] = x := by
      rw [← ht1, show (1 : Nat) = x.length by omega]; exact List.take_length
    simp [lexStep, sV, hc.sp, valueClasses, verifyChar, fresh, addChar, hc.quote, hq', hc.dig, hc.minus, hc.dot, resolve, hbk,
      kwAdd_bool_declines _ hc, resetS, TokSt.cls, hne, hadd, appendSwitch, TokSt.closed, setValueCheck, TokSt.kws, hk', hx1, hmem,
      TokSt.opp, sO]

/-- a further character of the name -/
theorem step_name_next (vars : List Str) (names : List Str) (x : Str) (ix : Nat) (hix : ix < names.length) (hx : names.getD ix [] = x)
    (hin : names.contains x = true) (off : Nat) (out : List Tok) (j : Nat) (hj : j < x.length) (k : KwSt) (hk : KwInv names x j k) :
    ∃ s', lexStep vars (x[j]) (varStG off out x j k) = .ok s' ∧
      ((∃ k', s' = varStG off out x (j + 1) k' ∧ KwInv names x (j + 1) k') ∨
       (s' = sO (off + x.length) (⟨.var, x, false⟩ :: out) ∧ j + 1 = x.length)) := by
  obtain ⟨k', r, hadd, hinv, hr⟩ := kwAdd_name names x ix hix hx j hj k hk
  have hkws : k.kws.isEmpty = false := by rw [hk.1]; exact names_ne_nil names ix hix
  rcases hr with rfl | ⟨rfl, hend⟩
  · refine ⟨varStG off out x (j + 1) k', ?_, Or.inl ⟨k', rfl, hinv⟩⟩
    simp only [lexStep, varStG, addChar, hkws, Bool.false_eq_true, if_false, hadd, Outcome.bind_ok, resolve]
    rw [take_succ_eq x j hj, Nat.add_assoc]
  · refine ⟨sO (off + x.length) (⟨.var, x, false⟩ :: out), ?_, Or.inr ⟨rfl, hend⟩⟩
    have hk' : k'.kws = names := hinv.1
    have hmem : x ∈ names := by simpa using hin
    simp only [lexStep, varStG, addChar, hkws, Bool.false_eq_true, if_false, hadd, Outcome.bind_ok, resolve]
    rw [take_succ_eq x j hj, hend, List.take_length]
    simp [appendSwitch, TokSt.closed, setValueCheck, TokSt.cls, TokSt.kws, hk', hmem, TokSt.opp, sO, ← hend, Nat.add_assoc]

end Duckling

namespace Duckling

/-- the characters of a name, the scanner standing at its first character: afterwards the token is finished (no other name
    extends it) or still open with the whole name consumed -/
theorem steps_name (names : List Str) (inp : Array Char) (x : Str) (hin : names.contains x = true) (hlen : 0 < x.length)
    (hc : NameStart (x[0])) (off : Nat) (out : List Tok) (hat : At inp off x) :
    ∃ n s, n ≤ x.length ∧ Steps names inp n (sV off out) s ∧
      (s = sO (off + x.length) (⟨.var, x, false⟩ :: out) ∨ ∃ k, s = varStG off out x x.length k ∧ KwInv names x x.length k) := by
  have hmem : x ∈ names := by simpa using hin
  obtain ⟨ix, hix, hxi⟩ := List.getElem_of_mem hmem
  have hx : names.getD ix [] = x := by simp [List.getD, hix, hxi]
  -- the further characters
  have hrest : ∀ (m j : Nat) (k : KwSt), j + m = x.length → 1 ≤ j → KwInv names x j k →
      ∃ n s, n ≤ m ∧ Steps names inp n (varStG off out x j k) s ∧
        (s = sO (off + x.length) (⟨.var, x, false⟩ :: out) ∨ ∃ k', s = varStG off out x x.length k' ∧ KwInv names x x.length k') := by
    intro m
    induction m with
    | zero =>
      intro j k hj _ hk
      have : j = x.length := by omega
      subst this
      exact ⟨0, _, by omega, Steps.refl _ _ _, Or.inr ⟨k, rfl, hk⟩⟩
    | succ m ih =>
      intro j k hj h1 hk
      have hlt : j < x.length := by omega
      obtain ⟨hj', ej⟩ := hat j hlt
      obtain ⟨s', hstep, hs'⟩ := step_name_next names names x ix hix hx hin off out j hlt k hk
      have hone : Steps names inp 1 (varStG off out x j k) s' := by
        refine Steps.one (s := varStG off out x j k) (by simpa [varStG] using hj') ?_
        rw [show inp[(varStG off out x j k).idx]'(by simpa [varStG] using hj') = x[j] by simpa [varStG] using ej]
        exact hstep
      rcases hs' with ⟨k', rfl, hinv⟩ | ⟨rfl, hend⟩
      · obtain ⟨n, s, hn, hsteps, hfin⟩ := ih (j + 1) k' (by omega) (by omega) hinv
        exact ⟨1 + n, s, by omega, Steps.trans hone hsteps, hfin⟩
      · exact ⟨1, _, by omega, hone, Or.inl rfl⟩
  -- the first character
  obtain ⟨h0, e0⟩ := hat 0 hlen
  simp only [Nat.add_zero] at h0 e0
  obtain ⟨s1, hstep, hs1⟩ := step_name_first names x ix hix hx hin hlen hc off out
  have hfirst : Steps names inp 1 (sV off out) s1 := by
    refine Steps.one (s := sV off out) (by simpa [sV] using h0) ?_
    rw [show inp[(sV off out).idx]'(by simpa [sV] using h0) = x[0] by simpa [sV] using e0]
    exact hstep
  rcases hs1 with ⟨k', rfl, hinv⟩ | ⟨rfl, hend⟩
  · obtain ⟨n, s, hn, hsteps, hfin⟩ := hrest (x.length - 1) 1 k' (by omega) (by omega) hinv
    exact ⟨1 + n, s, by omega, Steps.trans hfirst hsteps, hfin⟩
  · refine ⟨1, _, by omega, hfirst, Or.inl ?_⟩
    rw [← hend]

/-- a delimiter closes a Variable token that is still open with the whole name consumed; the delimiter is not consumed -/
theorem step_close_name (vars : List Str) (names : List Str) (x : Str) (hin : names.contains x = true) (hlen : 0 < x.length)
    (off : Nat) (out : List Tok) (k : KwSt) (hk : KwInv names x x.length k) (c : Char)
    (hnoext : ∀ nm ∈ names, (x ++ [c]).isPrefixOf nm = false) :
    lexStep vars c (varStG off out x x.length k) = .ok (sO (off + x.length) (⟨.var, x, false⟩ :: out)) := by
  obtain ⟨h1, h2, h3, h4⟩ := hk
  obtain ⟨e, he⟩ := h4 hlen
  have hmem : x ∈ names := by simpa using hin
  obtain ⟨ix, hix, hxi⟩ := List.getElem_of_mem hmem
  have hx : names.getD ix [] = x := by simp [List.getD, hix, hxi]
  have htake : x.take x.length = x := List.take_length
  have hee : e = cand names x := by rw [he, htake] at h3; exact h3
  have hnew : kwNew k c = [] := by
    unfold kwNew
    rw [h1, h3, h2, htake, cand_snoc]
    unfold cand
    rw [List.filter_eq_nil_iff]
    intro i hi
    simp only [List.mem_range] at hi
    simp only [startsWith, Bool.not_eq_true]
    apply hnoext
    simp only [List.getD, List.getElem?_eq_getElem hi, Option.getD_some]
    exact List.getElem_mem hi
  have hany : (e.any fun i => k.kws.getD i [] == (k.cur ++ [c]).dropLast) = true := by
    rw [List.any_eq_true]
    refine ⟨ix, ?_, ?_⟩
    · rw [hee]; have := mem_cand names x ix hix hx x.length; rwa [htake] at this
    · rw [h1, hx, h2, htake]; simp
  have hkws : k.kws.isEmpty = false := by rw [h1]; exact names_ne_nil names ix hix
  have hadd : kwAdd k c = ({ k with cur := k.cur ++ [c] }, .F) := by
    rw [kwAdd_empty k c (by rw [hnew]; rfl), he]
    simp only [hany, if_true]
  simp only [lexStep, varStG, addChar, hkws, Bool.false_eq_true, if_false, hadd, Outcome.bind_ok, resolve]
  simp [appendSwitch, TokSt.closed, setValueCheck, TokSt.cls, TokSt.kws, h1, hmem, TokSt.opp, sO, htake]

end Duckling

namespace Duckling

/-! ### Boolean literals -/

/-- inside a Boolean token: `cur` consumed, candidates `e` -/
def bSt (off : Nat) (out : List Tok) (e : List Nat) (cur : Str) : LS :=
  { idx := off + cur.length, start := off, tok := some (.kw .bool { kws := boolKws, expected := some e, cur := cur }), isOp := false,
    str := cur, out := out, black := [] }

syntax "lexb_simp" : tactic
macro_rules
  | `(tactic| lexb_simp) => `(tactic|
      simp [lexStep, sO, sV, bSt, isSpace, valueClasses, verifyChar, fresh, addChar, kwAdd, boolKws_eq, startsWith,
        List.isPrefixOf, List.range, List.range.loop, List.filter, resolve, resetS, appendSwitch, TokSt.closed, setValueCheck, TokSt.cls,
        TokSt.opp, isDigitC])

theorem steps_true (vars : List Str) (off : Nat) (out : List Tok) :
    lexStep vars 'T' (sV off out) = .ok (bSt off out [0] ['T']) ∧
    lexStep vars 'R' (bSt off out [0] ['T']) = .ok (bSt off out [0] ['T', 'R']) ∧
    lexStep vars 'U' (bSt off out [0] ['T', 'R']) = .ok (bSt off out [0] ['T', 'R', 'U']) ∧
    lexStep vars 'E' (bSt off out [0] ['T', 'R', 'U']) = .ok (sO (off + 4) (⟨.bool, ['T', 'R', 'U', 'E'], false⟩ :: out)) := by
  refine ⟨?_, ?_, ?_, ?_⟩ <;> lexb_simp

theorem steps_false (vars : List Str) (off : Nat) (out : List Tok) :
    lexStep vars 'F' (sV off out) = .ok (bSt off out [1] ['F']) ∧
    lexStep vars 'A' (bSt off out [1] ['F']) = .ok (bSt off out [1] ['F', 'A']) ∧
    lexStep vars 'L' (bSt off out [1] ['F', 'A']) = .ok (bSt off out [1] ['F', 'A', 'L']) ∧
    lexStep vars 'S' (bSt off out [1] ['F', 'A', 'L']) = .ok (bSt off out [1] ['F', 'A', 'L', 'S']) ∧
    lexStep vars 'E' (bSt off out [1] ['F', 'A', 'L', 'S']) = .ok (sO (off + 5) (⟨.bool, ['F', 'A', 'L', 'S', 'E'], false⟩ :: out)) := by
  refine ⟨?_, ?_, ?_, ?_, ?_⟩ <;> lexb_simp

/-! ### string literals -/

/-- inside a string literal after the opening quote and `j` characters of the content -/
def strSt (off : Nat) (out : List Tok) (content : Str) (j : Nat) : LS :=
  { idx := off + 1 + j, start := off, tok := some (.str true false), isOp := false, str := content.take j, out := out, black := [] }

theorem step_str_open (vars : List Str) (off : Nat) (out : List Tok) (content : Str) :
    lexStep vars '"' (sV off out) = .ok (strSt off out content 0) := by
  simp [lexStep, sV, strSt, isSpace, valueClasses, verifyChar, fresh, addChar, resolve]

theorem step_str_char (vars : List Str) (off : Nat) (out : List Tok) (content : Str) (j : Nat) (hj : j < content.length)
    (hq : (content[j] == '"') = false) :
    lexStep vars (content[j]) (strSt off out content j) = .ok (strSt off out content (j + 1)) := by
  have hq' : (content[j] != '"') = true := by simp [bne, hq]
  simp only [lexStep, strSt, addChar, hq', Bool.and_self, if_true, Outcome.bind_ok, resolve]
  rw [take_succ_eq content j hj, Nat.add_assoc]

theorem step_str_close (vars : List Str) (off : Nat) (out : List Tok) (content : Str) :
    lexStep vars '"' (strSt off out content content.length) =
      .ok (sO (off + 1 + content.length + 1) (⟨.str, content, false⟩ :: out)) := by
  simp [lexStep, strSt, addChar, resolve, appendSwitch, TokSt.closed, setValueCheck, TokSt.cls, TokSt.opp, sO]

end Duckling
