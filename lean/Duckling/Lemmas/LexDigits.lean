import Duckling.Model.Expr
import Duckling.Lemmas.RBasic
/-
  The character scanner on a string of decimal digits (what DELAY / DEFAULT_DELAY lines of a plain Ducky script carry): one
  number token with that text, whatever variables exist — and its value is the number the digits denote.
-/
namespace Duckling

theorem digit_range (c : Char) (h : isDigitC c = true) : 48 ≤ c.toNat ∧ c.toNat ≤ 57 := by
  simp only [isDigitC, Char.isDigit, Bool.and_eq_true, decide_eq_true_eq] at h
  have h1 := h.1
  have h2 := h.2
  rw [ge_iff_le, UInt32.le_iff_toNat_le] at h1
  rw [UInt32.le_iff_toNat_le] at h2
  exact ⟨h1, h2⟩

theorem digit_ne (c : Char) (h : isDigitC c = true) (d : Char) (hd : d.toNat < 48 ∨ 57 < d.toNat) : (c == d) = false := by
  have hr := digit_range c h
  simp only [beq_eq_false_iff_ne, ne_eq]
  intro hcd; subst hcd; omega

theorem digit_notSpace (c : Char) (h : isDigitC c = true) : isSpace c = false := by
  have hr := digit_range c h
  unfold isSpace
  simp only [digit_ne c h ' ' (by decide), digit_ne c h '\t' (by decide), digit_ne c h '\n' (by decide), digit_ne c h '\r' (by decide),
    Bool.false_or, Bool.or_eq_false_iff, Bool.and_eq_false_iff, beq_eq_false_iff_ne, decide_eq_false_iff_not]
  omega

/-- the scanner state after `k` digits -/
def numSt (ds : Str) (k : Nat) : LS :=
  { idx := k, start := 0, tok := some (.num false ((k : Int) - 1) false true), isOp := false, str := ds.take k, out := [], black := [] }

/-- the first digit opens a number token (the string class declines it first) -/
theorem lexStep_first_digit (vars : List Str) (d : Char) (hd : isDigitC d = true) :
    lexStep vars d {} = .ok { idx := 1, start := 0, tok := some (.num false 0 false true), isOp := false, str := [d], out := [], black := [] } := by
  have hq : (d == '"') = false := digit_ne d hd '"' (by decide)
  have hq' : (d != '"') = true := by simp [bne, hq]
  simp [lexStep, digit_notSpace d hd, valueClasses, verifyChar, fresh, addChar, hq, hq', resolve, hd]

/-- a further digit extends it -/
theorem lexStep_next_digit (vars : List Str) (d : Char) (hd : isDigitC d = true) (s : LS) (i : Int)
    (ht : s.tok = some (.num false i false true)) :
    lexStep vars d s = .ok { s with tok := some (.num false (i + 1) false true), str := s.str ++ [d], idx := s.idx + 1 } := by
  simp [lexStep, ht, addChar, hd, resolve]

theorem lexStep_numSt (vars : List Str) (ds : Str) (hall : ds.all isDigitC = true) (k : Nat) (h : k < ds.length) :
    lexStep vars (ds[k]'h) (numSt ds k) = .ok (numSt ds (k + 1)) := by
  have hdig : isDigitC (ds[k]'h) = true := List.all_eq_true.mp hall _ (List.getElem_mem h)
  rw [lexStep_next_digit vars _ hdig (numSt ds k) ((k : Int) - 1) rfl]
  have e : ((k : Int) - 1 + 1) = ((k + 1 : Nat) : Int) - 1 := by omega
  rw [e]
  simp only [numSt, List.take_append_getElem]

theorem lexLoop_digits (vars : List Str) (ds : Str) (hall : ds.all isDigitC = true) :
    ∀ (m k : Nat), k + m = ds.length → 1 ≤ k → ∀ fuel, m + 1 ≤ fuel →
      lexLoop vars ds.toArray fuel (numSt ds k) = .ok (numSt ds ds.length) := by
  intro m
  induction m with
  | zero =>
    intro k hk _ fuel hf
    have : k = ds.length := by omega
    subst this
    cases fuel with
    | zero => omega
    | succ f => simp [lexLoop, numSt]
  | succ m ih =>
    intro k hk h1 fuel hf
    cases fuel with
    | zero => omega
    | succ f =>
      have hlt : k < ds.length := by omega
      unfold lexLoop
      have hidx : (numSt ds k).idx < ds.toArray.size := by simpa [numSt] using hlt
      simp only [hidx, dite_true]
      have hstep : lexStep vars (ds.toArray[(numSt ds k).idx]'hidx) (numSt ds k) = .ok (numSt ds (k + 1)) := by
        have := lexStep_numSt vars ds hall k hlt
        simpa [numSt] using this
      rw [hstep]
      exact ih (k + 1) (by omega) (by omega) f (by omega)

/-- **a string of digits is one number token** -/
theorem lex_digits (vars : List Str) (ds : Str) (hne : ds ≠ []) (hall : ds.all isDigitC = true) :
    lex vars ds = .ok [⟨.num, ds, false⟩] := by
  obtain ⟨d, rest, rfl⟩ := List.exists_cons_of_ne_nil hne
  have hd : isDigitC d = true := by simpa using (List.all_eq_true.mp hall d (by simp))
  unfold lex
  have hloop : lexLoop vars (d :: rest).toArray (lexFuel (d :: rest).length) {} = .ok (numSt (d :: rest) (d :: rest).length) := by
    unfold lexFuel
    rw [lexLoop]
    have h0 : ({} : LS).idx < (d :: rest).toArray.size := by simp
    simp only [h0, dite_true]
    have hget : (d :: rest).toArray[({} : LS).idx] = d := by simp
    rw [hget, lexStep_first_digit vars d hd]
    have h1 : ({ idx := 1, start := 0, tok := some (.num false 0 false true), isOp := false, str := [d], out := [], black := [] } : LS) =
        numSt (d :: rest) 1 := by simp [numSt]
    rw [h1]
    exact lexLoop_digits vars (d :: rest) hall rest.length 1 (by simp; omega) (by omega) _ (by simp; omega)
  rw [hloop]
  simp [lexFinish, numSt, appendSwitch, TokSt.closed, setValueCheck, TokSt.cls, TokSt.opp, lexResult]

/-- the number the digits denote -/
theorem numberValue_digits (ds : Str) (hne : ds ≠ []) (hall : ds.all isDigitC = true) :
    numberValue ds = .ok (.int (digitsVal ds)) := by
  obtain ⟨d, rest, rfl⟩ := List.exists_cons_of_ne_nil hne
  have hd : isDigitC d = true := by simpa using (List.all_eq_true.mp hall d (by simp))
  have hneg : (d == '-') = false := digit_ne d hd '-' (by decide)
  have hnot : ((d :: rest).head? == some '-') = false := by simp [hneg]
  unfold numberValue
  simp only [hnot, Bool.false_eq_true, if_false, hall, List.isEmpty_cons, Bool.not_false, Bool.and_self, if_true]
  simp

theorem reduceAll_nil {V O : Type} (rs : List (O → Bool)) (h : Tree V O) : reduceAll rs h [] = (h, []) := by
  induction rs with
  | nil => rfl
  | cons r rs ih => simp [reduceAll, reducePass, ih]

/-- **evaluating a string of digits gives that integer**, whatever variables exist -/
theorem tokenize_digits (vars : VarEnv) (ds : Str) (hne : ds ≠ []) (hall : ds.all isDigitC = true) :
    tokenize vars ds = .ok (.int (digitsVal ds)) := by
  unfold tokenize evalFuel
  rw [solveOpp]
  simp only [lex_digits _ ds hne hall, Outcome.bind_ok, toFlat, toFlat.go, Option.map_some, reduceAll_nil]
  have hf : ∃ f, 3 * ds.length + 9 = f + 1 + 1 := ⟨3 * ds.length + 7, by omega⟩
  obtain ⟨f, hf⟩ := hf
  simp only [List.isEmpty_nil, Bool.not_true, Bool.false_eq_true, if_false]
  rw [hf, evalTree, evalTok]
  simp only [numberValue_digits ds hne hall, Outcome.bind_ok, Val.normalise]

end Duckling
