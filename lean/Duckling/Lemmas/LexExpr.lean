import Duckling.Lemmas.LexAtoms
import Duckling.Lemmas.LexGroup
import Duckling.Lemmas.LexNum
import Duckling.Lemmas.LexNameTF
/-
  Flat expressions over ALL kinds of leaf values — unsigned numbers, variable names (among any set of names in scope), TRUE / FALSE,
  string literals, parenthesised groups `( … )` / `!( … )` around ANY balanced text — joined by any of the fourteen operators, with any
  layout of blanks: the scanner produces exactly the alternating list of value and operator tokens.  (A parenthesised group is a
  single token for the scanner — Lemmas/LexGroup — and is evaluated by a recursive call: Lemmas/EvalGroup.)
-/
namespace Duckling

inductive Atom
  | num (ds : Str)
  | name (x : Str)
  | tru
  | fls
  | str (content : Str)
  | grp (neg : Bool) (inner : Str)
  | lit (neg : Bool) (ip : Str) (fp : Option Str)      -- signed / decimal literal `[-]digits[.digits]`
  | tfname (x : Str)                                   -- a name beginning with T or F that departs from TRUE / FALSE

def Atom.text : Atom → Str
  | .num ds => ds
  | .name x => x
  | .tru => ['T', 'R', 'U', 'E']
  | .fls => ['F', 'A', 'L', 'S', 'E']
  | .str c => ['"'] ++ c ++ ['"']
  | .grp neg inner => grpText neg inner
  | .lit neg ip fp => litText neg ip fp
  | .tfname x => x

def Atom.tok : Atom → Tok
  | .num ds => ⟨.num, ds, false⟩
  | .name x => ⟨.var, x, false⟩
  | .tru => ⟨.bool, ['T', 'R', 'U', 'E'], false⟩
  | .fls => ⟨.bool, ['F', 'A', 'L', 'S', 'E'], false⟩
  | .str c => ⟨.str, c, false⟩
  | .grp neg inner => ⟨.grp, '(' :: (inner ++ [')']), neg⟩
  | .lit neg ip fp => ⟨.num, litText neg ip fp, false⟩
  | .tfname x => ⟨.var, x, false⟩

/-- no name in scope contains a character that separates tokens -/
def NamesOk (names : List Str) : Prop := ∀ nm ∈ names, ∀ ch ∈ nm, ¬ Delim ch

def GoodAtom (names : List Str) : Atom → Prop
  | .num ds => GoodNum ds
  | .name x => names.contains x = true ∧ ∃ h : 0 < x.length, NameStart (x[0]) ∧ (x[0] == '/') = false ∧ (x[0] == '=') = false
  | .tru => True
  | .fls => True
  | .str c => ∀ ch ∈ c, (ch == '"') = false
  | .grp _ inner => GoodGrp inner ∧ NoParenNames names
  | .lit _ ip fp => GoodLit ip fp
  | .tfname x => names.contains x = true ∧ ∃ B iB d, iB < boolKws.length ∧ boolKws.getD iB [] = B ∧ BoolGivesUp B iB ∧ Departs x B d ∧
      ∀ h : 0 < x.length, NameStart0 (x[0]'h) ∧ (x[0]'h == '/') = false ∧ (x[0]'h == '=') = false

theorem delim_endsNum (c : Char) (h : Delim c) : EndsNum c := by
  rcases h with h | h
  · exact space_endsNum c h
  · simp only [List.mem_cons, List.mem_nil_iff, or_false] at h
    rcases h with rfl | rfl | rfl | rfl | rfl | rfl | rfl | rfl | rfl | rfl | rfl <;> exact ⟨by decide, by decide⟩

theorem noext_of_namesOk (names : List Str) (hn : NamesOk names) (x : Str) (c : Char) (hc : Delim c) :
    ∀ nm ∈ names, (x ++ [c]).isPrefixOf nm = false := by
  intro nm hnm
  cases h : (x ++ [c]).isPrefixOf nm with
  | false => rfl
  | true =>
    exfalso
    have hp : (x ++ [c]) <+: nm := List.isPrefixOf_iff_prefix.mp h
    obtain ⟨t, ht⟩ := hp
    have : c ∈ nm := by rw [← ht]; simp
    exact hn nm hnm c this hc

/-- the head of an atom's text is neither `/` nor `=` (what must follow an operator that is a prefix of another) -/
theorem atom_head (names : List Str) (a : Atom) (ha : GoodAtom names a) :
    ∃ c r, a.text = c :: r ∧ (c == '/') = false ∧ (c == '=') = false := by
  cases a with
  | num ds =>
    obtain ⟨d, r, rfl⟩ := List.exists_cons_of_ne_nil ha.1
    have hd : isDigitC d = true := by simpa using (List.all_eq_true.mp ha.2 d (by simp))
    exact ⟨d, r, rfl, digit_ne d hd '/' (by decide), digit_ne d hd '=' (by decide)⟩
  | name x =>
    obtain ⟨_, hlen, _, h1, h2⟩ := ha
    cases x with
    | nil => simp at hlen
    | cons c r => exact ⟨c, r, rfl, by simpa using h1, by simpa using h2⟩
  | tru => exact ⟨'T', _, rfl, by decide, by decide⟩
  | fls => exact ⟨'F', _, rfl, by decide, by decide⟩
  | str c => exact ⟨'"', _, rfl, by decide, by decide⟩
  | grp neg inner =>
    cases neg with
    | false => exact ⟨'(', _, rfl, by decide, by decide⟩
    | true => exact ⟨'!', _, rfl, by decide, by decide⟩
  | lit neg ip fp =>
    obtain ⟨d, r, rfl⟩ := List.exists_cons_of_ne_nil ha.1
    have hd : isDigitC d = true := by simpa using (List.all_eq_true.mp ha.2.1 d (by simp))
    cases neg with
    | false => exact ⟨d, r ++ fracText fp, by simp [Atom.text, litText], digit_ne d hd '/' (by decide), digit_ne d hd '=' (by decide)⟩
    | true => exact ⟨'-', d :: (r ++ fracText fp), by simp [Atom.text, litText], by decide, by decide⟩
  | tfname x =>
    obtain ⟨_, B, iB, d, _, _, _, hd, hst⟩ := ha
    have hlen : 0 < x.length := by have := hd.ltx; omega
    cases x with
    | nil => simp at hlen
    | cons c r => exact ⟨c, r, rfl, by simpa using (hst hlen).2.1, by simpa using (hst hlen).2.2⟩

theorem atom_text_pos (names : List Str) (a : Atom) (ha : GoodAtom names a) : 0 < a.text.length := by
  obtain ⟨c, r, h, _⟩ := atom_head names a ha
  rw [h]; simp

/-- a string literal, the scanner standing at its opening quote -/
theorem steps_str (vars : List Str) (inp : Array Char) (off : Nat) (out : List Tok) (content : Str)
    (hq : ∀ ch ∈ content, (ch == '"') = false) (hat : At inp off (['"'] ++ content ++ ['"'])) :
    Steps vars inp (content.length + 2) (sV off out) (sO (off + (content.length + 2)) (⟨.str, content, false⟩ :: out)) := by
  have hat1 : At inp off (['"'] ++ (content ++ ['"'])) := by simpa [List.append_assoc] using hat
  obtain ⟨i0, e0⟩ := at_head hat1 rfl
  have hopen : Steps vars inp 1 (sV off out) (strSt off out content 0) :=
    Steps.one (s := sV off out) (by simpa [sV] using i0)
      (by rw [show inp[(sV off out).idx]'(by simpa [sV] using i0) = '"' by simpa [sV] using e0]; exact step_str_open vars off out content)
  have hatc : At inp (off + 1) (content ++ ['"']) := by simpa using hat1.append_right
  have hchars : ∀ (m j : Nat), j + m = content.length → Steps vars inp m (strSt off out content j) (strSt off out content content.length) := by
    intro m
    induction m with
    | zero => intro j hj; have : j = content.length := by omega
              subst this; exact Steps.refl _ _ _
    | succ m ih =>
      intro j hj
      have hlt : j < content.length := by omega
      obtain ⟨hj', ej⟩ := hatc.append_left j hlt
      have hone : Steps vars inp 1 (strSt off out content j) (strSt off out content (j + 1)) := by
        refine Steps.one (s := strSt off out content j) (by simpa [strSt] using hj') ?_
        rw [show inp[(strSt off out content j).idx]'(by simpa [strSt] using hj') = content[j] by simpa [strSt] using ej]
        exact step_str_char vars off out content j hlt (hq _ (List.getElem_mem hlt))
      have := Steps.trans hone (ih (j + 1) (by omega))
      rwa [show 1 + m = m + 1 by omega] at this
  obtain ⟨ic, ecl⟩ := at_head hatc.append_right rfl
  have hclose : Steps vars inp 1 (strSt off out content content.length) (sO (off + 1 + content.length + 1) (⟨.str, content, false⟩ :: out)) := by
    refine Steps.one (s := strSt off out content content.length) (by simpa [strSt] using ic) ?_
    rw [show inp[(strSt off out content content.length).idx]'(by simpa [strSt] using ic) = '"' by simpa [strSt] using ecl]
    exact step_str_close vars off out content
  have := Steps.trans (Steps.trans hopen (hchars content.length 0 (by omega))) hclose
  have e1 : 1 + content.length + 1 = content.length + 2 := by omega
  have e2 : off + 1 + content.length + 1 = off + (content.length + 2) := by omega
  rw [e1, e2] at this
  exact this

theorem steps_tru (names : List Str) (inp : Array Char) (off : Nat) (out : List Tok) (hat : At inp off ['T', 'R', 'U', 'E']) :
    Steps names inp 4 (sV off out) (sO (off + 4) (⟨.bool, ['T', 'R', 'U', 'E'], false⟩ :: out)) := by
  have h := steps_true names off out
  obtain ⟨i0, e0⟩ := hat 0 (by decide)
  obtain ⟨i1, e1⟩ := hat 1 (by decide)
  obtain ⟨i2, e2⟩ := hat 2 (by decide)
  obtain ⟨i3, e3⟩ := hat 3 (by decide)
  simp only [List.getElem_cons_zero, List.getElem_cons_succ, Nat.add_zero] at e0 e1 e2 e3 i0
  have s0 : Steps names inp 1 (sV off out) (bSt off out [0] ['T']) :=
    Steps.one (s := sV off out) (by simpa [sV] using i0) (by rw [show inp[(sV off out).idx]'(by simpa [sV] using i0) = 'T' by simpa [sV] using e0]; exact h.1)
  have s1 : Steps names inp 1 (bSt off out [0] ['T']) (bSt off out [0] ['T', 'R']) :=
    Steps.one (s := bSt off out [0] ['T']) (by simpa [bSt] using i1) (by rw [show inp[(bSt off out [0] ['T']).idx]'(by simpa [bSt] using i1) = 'R' by simpa [bSt] using e1]; exact h.2.1)
  have s2 : Steps names inp 1 (bSt off out [0] ['T', 'R']) (bSt off out [0] ['T', 'R', 'U']) :=
    Steps.one (s := bSt off out [0] ['T', 'R']) (by simpa [bSt] using i2) (by rw [show inp[(bSt off out [0] ['T', 'R']).idx]'(by simpa [bSt] using i2) = 'U' by simpa [bSt] using e2]; exact h.2.2.1)
  have s3 : Steps names inp 1 (bSt off out [0] ['T', 'R', 'U']) (sO (off + 4) (⟨.bool, ['T', 'R', 'U', 'E'], false⟩ :: out)) :=
    Steps.one (s := bSt off out [0] ['T', 'R', 'U']) (by simpa [bSt] using i3) (by rw [show inp[(bSt off out [0] ['T', 'R', 'U']).idx]'(by simpa [bSt] using i3) = 'E' by simpa [bSt] using e3]; exact h.2.2.2)
  exact Steps.trans (Steps.trans (Steps.trans s0 s1) s2) s3

theorem steps_fls (names : List Str) (inp : Array Char) (off : Nat) (out : List Tok) (hat : At inp off ['F', 'A', 'L', 'S', 'E']) :
    Steps names inp 5 (sV off out) (sO (off + 5) (⟨.bool, ['F', 'A', 'L', 'S', 'E'], false⟩ :: out)) := by
  have h := steps_false names off out
  obtain ⟨i0, e0⟩ := hat 0 (by decide)
  obtain ⟨i1, e1⟩ := hat 1 (by decide)
  obtain ⟨i2, e2⟩ := hat 2 (by decide)
  obtain ⟨i3, e3⟩ := hat 3 (by decide)
  obtain ⟨i4, e4⟩ := hat 4 (by decide)
  simp only [List.getElem_cons_zero, List.getElem_cons_succ, Nat.add_zero] at e0 e1 e2 e3 e4 i0
  have s0 : Steps names inp 1 (sV off out) (bSt off out [1] ['F']) :=
    Steps.one (s := sV off out) (by simpa [sV] using i0) (by rw [show inp[(sV off out).idx]'(by simpa [sV] using i0) = 'F' by simpa [sV] using e0]; exact h.1)
  have s1 : Steps names inp 1 (bSt off out [1] ['F']) (bSt off out [1] ['F', 'A']) :=
    Steps.one (s := bSt off out [1] ['F']) (by simpa [bSt] using i1) (by rw [show inp[(bSt off out [1] ['F']).idx]'(by simpa [bSt] using i1) = 'A' by simpa [bSt] using e1]; exact h.2.1)
  have s2 : Steps names inp 1 (bSt off out [1] ['F', 'A']) (bSt off out [1] ['F', 'A', 'L']) :=
    Steps.one (s := bSt off out [1] ['F', 'A']) (by simpa [bSt] using i2) (by rw [show inp[(bSt off out [1] ['F', 'A']).idx]'(by simpa [bSt] using i2) = 'L' by simpa [bSt] using e2]; exact h.2.2.1)
  have s3 : Steps names inp 1 (bSt off out [1] ['F', 'A', 'L']) (bSt off out [1] ['F', 'A', 'L', 'S']) :=
    Steps.one (s := bSt off out [1] ['F', 'A', 'L']) (by simpa [bSt] using i3) (by rw [show inp[(bSt off out [1] ['F', 'A', 'L']).idx]'(by simpa [bSt] using i3) = 'S' by simpa [bSt] using e3]; exact h.2.2.2.1)
  have s4 : Steps names inp 1 (bSt off out [1] ['F', 'A', 'L', 'S']) (sO (off + 5) (⟨.bool, ['F', 'A', 'L', 'S', 'E'], false⟩ :: out)) :=
    Steps.one (s := bSt off out [1] ['F', 'A', 'L', 'S']) (by simpa [bSt] using i4) (by rw [show inp[(bSt off out [1] ['F', 'A', 'L', 'S']).idx]'(by simpa [bSt] using i4) = 'E' by simpa [bSt] using e4]; exact h.2.2.2.2)
  exact Steps.trans (Steps.trans (Steps.trans (Steps.trans s0 s1) s2) s3) s4

/-- **A1**: an atom followed by a delimiter: the scanner goes from "expecting a value" to "expecting an operator" with the atom's
    token appended; the delimiter is not consumed -/
theorem steps_atom_delim (names : List Str) (hn : NamesOk names) (inp : Array Char) (off : Nat) (out : List Tok) (a : Atom)
    (ha : GoodAtom names a) (hat : At inp off a.text) (c : Char) (hc : Delim c)
    (hnext : ∃ h : off + a.text.length < inp.size, inp[off + a.text.length]'h = c) :
    ∃ n, n ≤ 2 * a.text.length + 1 ∧ Steps names inp n (sV off out) (sO (off + a.text.length) (a.tok :: out)) := by
  obtain ⟨hidx, ec⟩ := hnext
  cases a with
  | num ds =>
    have hlen : 0 < ds.length := atom_text_pos names (.num ds) ha
    exact ⟨ds.length + 1, by first | (simp [Atom.text]; done) | (simp [Atom.text]; omega) | (simp only [Atom.text]; omega), Steps.trans (steps_digits names inp off out ds ha.1 ha.2 hat)
      (step_close_num names inp off out ds hlen c (delim_endsNum c hc) hidx ec)⟩
  | name x =>
    obtain ⟨hin, hlen, hstart, _, _⟩ := ha
    obtain ⟨n, s, hnle, hsteps, hs⟩ := steps_name names inp x hin hlen hstart off out hat
    rcases hs with rfl | ⟨k, rfl, hk⟩
    · exact ⟨n, by simp only [Atom.text]; omega, hsteps⟩
    · refine ⟨n + 1, by simp only [Atom.text]; omega, Steps.trans hsteps ?_⟩
      refine Steps.one (s := varStG off out x x.length k) (by simpa [varStG, Atom.text] using hidx) ?_
      rw [show inp[(varStG off out x x.length k).idx]'(by simpa [varStG, Atom.text] using hidx) = c by simpa [varStG, Atom.text] using ec]
      exact step_close_name names names x hin hlen off out k hk c (noext_of_namesOk names hn x c hc)
  | tru => exact ⟨4, by (simp [Atom.text]), steps_tru names inp off out hat⟩
  | fls => exact ⟨5, by (simp [Atom.text]), steps_fls names inp off out hat⟩
  | str content =>
    have h := steps_str names inp off out content ha hat
    refine ⟨content.length + 2, by first | (simp [Atom.text]; done) | (simp [Atom.text]; omega) | (simp only [Atom.text]; omega), ?_⟩
    have e : (Atom.str content).text.length = content.length + 2 := by first | (simp [Atom.text]; done) | (simp [Atom.text]; omega) | (simp only [Atom.text]; omega)
    rw [e]
    exact h
  | grp neg inner =>
    exact ⟨(grpText neg inner).length, by first | (simp [Atom.text]; done) | (simp [Atom.text]; omega) | (simp only [Atom.text]; omega), steps_grp names ha.2 inp off out neg inner ha.1 hat⟩
  | lit neg ip fp =>
    have h1 := steps_lit names inp off out neg ip fp ha hat
    have hlen : (if neg then 2 else 1) ≤ (litText neg ip fp).length := by
      rcases litText_length neg ip fp with h | h
      · exact h
      · exact absurd h ha.1
    refine ⟨(litText neg ip fp).length + 1, by first | (simp [Atom.text]; done) | (simp [Atom.text]; omega) | (simp only [Atom.text]; omega), Steps.trans h1 ?_⟩
    refine Steps.one (s := numG off out (litText neg ip fp) fp.isSome neg) (by simpa [numG, Atom.text] using hidx) ?_
    rw [show inp[(numG off out (litText neg ip fp) fp.isSome neg).idx]'(by simpa [numG, Atom.text] using hidx) = c by simpa [numG, Atom.text] using ec]
    exact step_numG_close names off out (litText neg ip fp) fp.isSome neg hlen c (delim_endsNum c hc)
  | tfname x =>
    obtain ⟨hin, B, iB, d, hiB, hB, hg, hd, hst⟩ := ha
    have hlen : 0 < x.length := by have := hd.ltx; omega
    obtain ⟨n, s, hnle, hsteps, hs⟩ := steps_name_tf names inp x B iB hiB hB hg d hd hin (hst hlen).1 off out hat
    rcases hs with rfl | ⟨k, rfl, hk⟩
    · exact ⟨n, by simp only [Atom.text]; omega, hsteps⟩
    · refine ⟨n + 1, by simp only [Atom.text]; omega, Steps.trans hsteps ?_⟩
      refine Steps.one (s := varStG off out x x.length k) (by simpa [varStG, Atom.text] using hidx) ?_
      rw [show inp[(varStG off out x x.length k).idx]'(by simpa [varStG, Atom.text] using hidx) = c by simpa [varStG, Atom.text] using ec]
      exact step_close_name names names x hin hlen off out k hk c (noext_of_namesOk names hn x c hc)

/-- **A2**: an atom at the end of the text -/
theorem steps_atom_end (names : List Str) (inp : Array Char) (off : Nat) (out : List Tok) (a : Atom)
    (ha : GoodAtom names a) (hat : At inp off a.text) (hend : off + a.text.length = inp.size) :
    ∃ n sEnd, n ≤ 2 * a.text.length ∧ sEnd.idx = inp.size ∧ Steps names inp n (sV off out) sEnd ∧ finOut sEnd = .ok (a.tok :: out) := by
  cases a with
  | num ds =>
    refine ⟨ds.length, numStG off out ds ds.length, by first | (simp [Atom.text]; done) | (simp [Atom.text]; omega) | (simp only [Atom.text]; omega), by simpa [numStG, Atom.text] using hend,
      steps_digits names inp off out ds ha.1 ha.2 hat, ?_⟩
    simp [finOut, lexFinish, numStG, appendSwitch, TokSt.closed, setValueCheck, TokSt.cls, TokSt.opp, Atom.tok]
  | name x =>
    obtain ⟨hin, hlen, hstart, _, _⟩ := ha
    have hmem : x ∈ names := by simpa using hin
    obtain ⟨n, s, hnle, hsteps, hs⟩ := steps_name names inp x hin hlen hstart off out hat
    rcases hs with rfl | ⟨k, rfl, hk⟩
    · exact ⟨n, _, by simp only [Atom.text]; omega, by simpa [sO, Atom.text] using hend, hsteps, by simp [finOut, lexFinish, sO, Atom.tok]⟩
    · refine ⟨n, _, by simp only [Atom.text]; omega, by simpa [varStG, Atom.text] using hend, hsteps, ?_⟩
      simp [finOut, lexFinish, varStG, appendSwitch, TokSt.closed, setValueCheck, TokSt.cls, TokSt.kws, hk.1, hmem, TokSt.opp, Atom.tok]
  | tru =>
    exact ⟨4, _, by decide, by simpa [sO, Atom.text] using hend, steps_tru names inp off out hat, by simp [finOut, lexFinish, sO, Atom.tok]⟩
  | fls =>
    exact ⟨5, _, by decide, by simpa [sO, Atom.text] using hend, steps_fls names inp off out hat, by simp [finOut, lexFinish, sO, Atom.tok]⟩
  | str content =>
    have h := steps_str names inp off out content ha hat
    have e : (Atom.str content).text.length = content.length + 2 := by first | (simp [Atom.text]; done) | (simp [Atom.text]; omega) | (simp only [Atom.text]; omega)
    refine ⟨content.length + 2, _, by (simp [Atom.text]; omega), ?_, h, by simp [finOut, lexFinish, sO, Atom.tok]⟩
    simp only [sO]; omega
  | grp neg inner =>
    exact ⟨(grpText neg inner).length, _, by first | (simp [Atom.text]; done) | (simp [Atom.text]; omega) | (simp only [Atom.text]; omega), by simpa [sO, Atom.text] using hend,
      steps_grp names ha.2 inp off out neg inner ha.1 hat, by simp [finOut, lexFinish, sO, Atom.tok]⟩
  | lit neg ip fp =>
    exact ⟨(litText neg ip fp).length, _, by first | (simp [Atom.text]; done) | (simp [Atom.text]; omega) | (simp only [Atom.text]; omega), by simpa [numG, Atom.text] using hend,
      steps_lit names inp off out neg ip fp ha hat, by simpa [Atom.tok] using finOut_numG off out (litText neg ip fp) fp.isSome neg⟩
  | tfname x =>
    obtain ⟨hin, B, iB, d, hiB, hB, hg, hd, hst⟩ := ha
    have hlen : 0 < x.length := by have := hd.ltx; omega
    have hmem : x ∈ names := by simpa using hin
    obtain ⟨n, s, hnle, hsteps, hs⟩ := steps_name_tf names inp x B iB hiB hB hg d hd hin (hst hlen).1 off out hat
    rcases hs with rfl | ⟨k, rfl, hk⟩
    · exact ⟨n, _, by simpa [Atom.text] using hnle, by simpa [sO, Atom.text] using hend, hsteps, by simp [finOut, lexFinish, sO, Atom.tok]⟩
    · refine ⟨n, _, by simpa [Atom.text] using hnle, by simpa [varStG, Atom.text] using hend, hsteps, ?_⟩
      simp [finOut, lexFinish, varStG, appendSwitch, TokSt.closed, setValueCheck, TokSt.cls, TokSt.kws, hk.1, hmem, TokSt.opp, Atom.tok]

end Duckling

namespace Duckling

/-- operator, value, … with the blanks before and after each operator: (blanks, operator, class, blanks, atom) -/
abbrev ExprRest := List (Str × Str × Cls × Str × Atom)

def exprRestText (rest : ExprRest) : Str := rest.flatMap fun t => t.1 ++ (t.2.1 ++ (t.2.2.2.1 ++ t.2.2.2.2.text))
def exprToks (a : Atom) (rest : ExprRest) : List Tok :=
  a.tok :: rest.flatMap fun t => [⟨t.2.2.1, t.2.1, false⟩, t.2.2.2.2.tok]
def GoodExprRest (names : List Str) (rest : ExprRest) : Prop :=
  ∀ t ∈ rest, AllSp t.1 ∧ (t.2.1, t.2.2.1) ∈ opInfo ∧ AllSp t.2.2.2.1 ∧ GoodAtom names t.2.2.2.2

theorem exprToks_length (a : Atom) (rest : ExprRest) : (exprToks a rest).length = 1 + 2 * rest.length := by
  unfold exprToks
  induction rest with
  | nil => rfl
  | cons t r ih => simp only [List.flatMap_cons, List.length_cons, List.length_append, List.length_nil] at ih ⊢; omega

theorem op_head_delim (op : Str) (cls : Cls) (hop : (op, cls) ∈ opInfo) : ∃ c r, op = c :: r ∧ Delim c := by
  simp only [opInfo, List.mem_cons, Prod.mk.injEq, List.mem_nil_iff, or_false] at hop
  rcases hop with ⟨rfl, _⟩ | ⟨rfl, _⟩ | ⟨rfl, _⟩ | ⟨rfl, _⟩ | ⟨rfl, _⟩ | ⟨rfl, _⟩ | ⟨rfl, _⟩ | ⟨rfl, _⟩ | ⟨rfl, _⟩ |
    ⟨rfl, _⟩ | ⟨rfl, _⟩ | ⟨rfl, _⟩ | ⟨rfl, _⟩ | ⟨rfl, _⟩
  all_goals exact ⟨_, _, rfl, Or.inr (by decide)⟩

theorem head_delim (a b : Str) (ha : AllSp a) (hb : ∃ c r, b = c :: r ∧ Delim c) : ∃ c r, a ++ b = c :: r ∧ Delim c := by
  cases a with
  | nil => simpa using hb
  | cons c r =>
    have hc : isSpace c = true := by simpa using (List.all_eq_true.mp ha c (by simp))
    exact ⟨c, r ++ b, rfl, Or.inl hc⟩

theorem steps_expr (names : List Str) (hn : NamesOk names) (inp : Array Char) (trail : Str) (htrail : AllSp trail) (rest : ExprRest) :
    ∀ (a : Atom) (off : Nat) (out : List Tok), GoodAtom names a → GoodExprRest names rest →
      At inp off (a.text ++ (exprRestText rest ++ trail)) →
      off + (a.text ++ (exprRestText rest ++ trail)).length = inp.size →
      ∃ n sEnd, n ≤ 3 * (a.text ++ (exprRestText rest ++ trail)).length ∧ sEnd.idx = inp.size ∧
        Steps names inp n (sV off out) sEnd ∧ finOut sEnd = .ok ((exprToks a rest).reverse ++ out) := by
  induction rest with
  | nil =>
    intro a off out ha _ hat hsize
    simp only [exprRestText, List.flatMap_nil, List.nil_append] at hat hsize ⊢
    have hpos := atom_text_pos names a ha
    cases trail with
    | nil =>
      simp only [List.append_nil] at hat hsize ⊢
      obtain ⟨n, sEnd, hnle, hidx, hsteps, hfin⟩ := steps_atom_end names inp off out a ha hat hsize
      exact ⟨n, sEnd, by omega, hidx, hsteps, by simpa [exprToks] using hfin⟩
    | cons c tr =>
      have hc : isSpace c = true := by simpa using (List.all_eq_true.mp htrail c (by simp))
      obtain ⟨hidx, ec⟩ := at_head hat.append_right rfl
      obtain ⟨n1, hn1, h1⟩ := steps_atom_delim names hn inp off out a ha hat.append_left c (Or.inl hc) ⟨hidx, ec⟩
      have h3 := steps_skip names inp true (a.tok :: out) (c :: tr) htrail (off + a.text.length) hat.append_right
      simp only [if_true] at h3
      refine ⟨n1 + (c :: tr).length, sO (off + a.text.length + (c :: tr).length) (a.tok :: out), ?_, ?_, Steps.trans h1 h3, ?_⟩
      · simp only [List.length_append, List.length_cons] at hn1 ⊢; omega
      · simp only [sO, List.length_append] at hsize ⊢; omega
      · simp [finOut, lexFinish, sO, exprToks]
  | cons t r ih =>
    intro a off out ha hrest hat hsize
    obtain ⟨sp1, op, cls, sp2, a'⟩ := t
    obtain ⟨hsp1, hop, hsp2, ha'⟩ := hrest (sp1, op, cls, sp2, a') List.mem_cons_self
    have hr : GoodExprRest names r := fun u hu => hrest u (List.mem_cons_of_mem _ hu)
    have htext : a.text ++ (exprRestText ((sp1, op, cls, sp2, a') :: r) ++ trail) =
        a.text ++ (sp1 ++ (op ++ (sp2 ++ (a'.text ++ (exprRestText r ++ trail))))) := by
      simp [exprRestText, List.append_assoc]
    rw [htext] at hat hsize ⊢
    -- the atom is closed by the first character after it (a blank or the operator's first character)
    have hA := hat.append_right
    obtain ⟨c0, r0, hop0, hc0⟩ := op_head_delim op cls hop
    obtain ⟨c, rc, hcr, hc⟩ := head_delim sp1 (op ++ (sp2 ++ (a'.text ++ (exprRestText r ++ trail)))) hsp1 ⟨c0, r0 ++ _, by rw [hop0]; rfl, hc0⟩
    obtain ⟨hidx, ec⟩ := at_head hA hcr
    obtain ⟨n1, hn1, h1⟩ := steps_atom_delim names hn inp off out a ha hat.append_left c hc ⟨hidx, ec⟩
    -- blanks before the operator
    have h3 := steps_skip names inp true (a.tok :: out) sp1 hsp1 (off + a.text.length) hA.append_left
    simp only [if_true] at h3
    -- the operator
    have hB := hA.append_right
    obtain ⟨d', dr, hd', hd1, hd2⟩ := atom_head names a' ha'
    obtain ⟨e1, re1, he1, hne1⟩ := head_ne sp2 (a'.text ++ (exprRestText r ++ trail)) hsp2 '/' (by decide)
      ⟨d', dr ++ _, by rw [hd']; rfl, hd1⟩
    obtain ⟨e2, re2, he2, hne2⟩ := head_ne sp2 (a'.text ++ (exprRestText r ++ trail)) hsp2 '=' (by decide)
      ⟨d', dr ++ _, by rw [hd']; rfl, hd2⟩
    have hsame : e1 = e2 := by rw [he1] at he2; injection he2
    subst hsame
    have hC := hB.append_right
    obtain ⟨hnx, enx⟩ := at_head hC he1
    obtain ⟨nop, hnop, h4⟩ := steps_op names inp (off + a.text.length + sp1.length) (a.tok :: out) op cls hop hB.append_left e1
      hne1 hne2 ⟨hnx, enx⟩
    -- blanks after the operator
    have h5 := steps_skip names inp false (⟨cls, op, false⟩ :: a.tok :: out) sp2 hsp2 (off + a.text.length + sp1.length + op.length)
      hC.append_left
    simp only [Bool.false_eq_true, if_false] at h5
    -- the rest
    have hD := hC.append_right
    obtain ⟨n, sEnd, hnb, hidxE, h6, hfin⟩ := ih a' (off + a.text.length + sp1.length + op.length + sp2.length)
      (⟨cls, op, false⟩ :: a.tok :: out) ha' hr hD (by simp only [List.length_append] at hsize ⊢; omega)
    refine ⟨n1 + sp1.length + nop + sp2.length + n, sEnd, ?_, hidxE,
      Steps.trans (Steps.trans (Steps.trans (Steps.trans h1 h3) h4) h5) h6, ?_⟩
    · have hopl : 1 ≤ op.length := by rw [hop0]; simp
      have hpos := atom_text_pos names a ha
      simp only [List.length_append] at hnb ⊢
      omega
    · rw [hfin]
      simp [exprToks, List.append_assoc]

/-- the text of a flat expression with its blanks -/
def exprText (lead : Str) (a : Atom) (rest : ExprRest) (trail : Str) : Str := lead ++ (a.text ++ (exprRestText rest ++ trail))

/-- **flat expressions over numbers, names, TRUE/FALSE and string literals, any layout of blanks, are scanned into their tokens** -/
theorem lex_expr (names : List Str) (hn : NamesOk names) (lead : Str) (a : Atom) (rest : ExprRest) (trail : Str)
    (hlead : AllSp lead) (htrail : AllSp trail) (ha : GoodAtom names a) (hrest : GoodExprRest names rest) :
    lex names (exprText lead a rest trail) = .ok (exprToks a rest) := by
  have hat : At (exprText lead a rest trail).toArray 0 (exprText lead a rest trail) := by
    intro j hj; exact ⟨by simpa using hj, by simp⟩
  have hat' : At (exprText lead a rest trail).toArray 0 (lead ++ (a.text ++ (exprRestText rest ++ trail))) := hat
  have h0 := steps_skip names (exprText lead a rest trail).toArray false [] lead hlead 0 hat'.append_left
  simp only [Bool.false_eq_true, if_false, Nat.zero_add] at h0
  have hatR : At (exprText lead a rest trail).toArray lead.length (a.text ++ (exprRestText rest ++ trail)) := by
    simpa using hat'.append_right
  obtain ⟨n, sEnd, hnle, hidx, hsteps, hfin⟩ :=
    steps_expr names hn (exprText lead a rest trail).toArray trail htrail rest a lead.length [] ha hrest hatR (by simp [exprText])
  have hall := Steps.trans h0 hsteps
  have hend : lexLoop names (exprText lead a rest trail).toArray (lead.length + n + 1) (sV 0 []) = .ok sEnd := by
    rw [hall 1, lexLoop]
    have : ¬ sEnd.idx < (exprText lead a rest trail).toArray.size := by omega
    simp only [this, dite_false]
  have hloop : lexLoop names (exprText lead a rest trail).toArray (lexFuel (exprText lead a rest trail).length) {} = .ok sEnd := by
    have hlen : (exprText lead a rest trail).length = lead.length + (a.text ++ (exprRestText rest ++ trail)).length := by simp [exprText]
    have hfuel : lexFuel (exprText lead a rest trail).length =
        (lead.length + n + 1) + (lexFuel (exprText lead a rest trail).length - (lead.length + n + 1)) := by
      unfold lexFuel; omega
    rw [hfuel]
    exact lexLoop_mono names _ _ _ _ hend _
  unfold lex
  rw [hloop]
  unfold finOut at hfin
  cases hf : lexFinish sEnd with
  | ok s' =>
    rw [hf] at hfin
    simp only [Outcome.bind_ok, Outcome.ok.injEq, List.append_nil] at hfin
    have hodd : ((exprToks a rest).reverse.length % 2 == 0) = false := by
      rw [List.length_reverse, exprToks_length]; simp
    simp only [Outcome.bind_ok, hf, lexResult, hodd, Bool.false_eq_true, if_false, hfin, List.reverse_reverse]
  | cerr k => rw [hf] at hfin; cases hfin
  | crash e => rw [hf] at hfin; cases hfin
  | oom w => rw [hf] at hfin; cases hfin

end Duckling

namespace Duckling

def exprPairs (rest : ExprRest) : Pairs Tok Str := rest.map fun t => (t.2.1, Tree.leaf t.2.2.2.2.tok)

theorem toFlat_exprToks (a : Atom) (rest : ExprRest) :
    toFlat (exprToks a rest) = some (Tree.leaf a.tok, exprPairs rest) := by
  have hgo : ∀ r : ExprRest, toFlat.go (r.flatMap fun t => [(⟨t.2.2.1, t.2.1, false⟩ : Tok), t.2.2.2.2.tok]) = some (exprPairs r) := by
    intro r
    induction r with
    | nil => rfl
    | cons t r ih =>
      simp only [List.flatMap_cons, List.cons_append, List.nil_append, toFlat.go, ih, Option.map_some, exprPairs, List.map_cons]
  simp only [exprToks, toFlat, hgo, Option.map_some]

end Duckling
