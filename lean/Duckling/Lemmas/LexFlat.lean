import Duckling.Lemmas.LexName
/-
  The character scanner on flat arithmetic: unsigned numbers joined by operators without blanks or parentheses
  (`12+3*4`, `10//3`, `1<=2`, `7,8`) — scanned into the alternating list of number and operator tokens, for sequences of any length.
  Where an operator is a prefix of another (`/` `//`, `<` `<=`, `>` `>=`) the keyword matcher reads on and decides at the next
  character.  Composed of one lemma per kind of token, each stated for the scanner standing anywhere in the text.
-/
namespace Duckling

/-- `n` iterations of the scanner loop lead from `s` to `s'`, whatever fuel remains -/
def Steps (vars : List Str) (inp : Array Char) (n : Nat) (s s' : LS) : Prop :=
  ∀ g, lexLoop vars inp (n + g) s = lexLoop vars inp g s'

theorem Steps.refl (vars : List Str) (inp : Array Char) (s : LS) : Steps vars inp 0 s s := by
  intro g; simp

theorem Steps.one {vars : List Str} {inp : Array Char} {s s' : LS} (h : s.idx < inp.size)
    (hs : lexStep vars (inp[s.idx]'h) s = .ok s') : Steps vars inp 1 s s' := by
  intro g
  rw [show 1 + g = g + 1 by omega, lexLoop]
  simp only [h, dite_true, hs]

theorem Steps.trans {vars : List Str} {inp : Array Char} {a b : Nat} {s s' s'' : LS}
    (h1 : Steps vars inp a s s') (h2 : Steps vars inp b s' s'') : Steps vars inp (a + b) s s'' := by
  intro g
  rw [show a + b + g = a + (b + g) by omega, h1, h2]

theorem Steps.two {vars : List Str} {inp : Array Char} {s s' s'' : LS}
    (h1 : Steps vars inp 1 s s') (h2 : Steps vars inp 1 s' s'') : Steps vars inp 2 s s'' := Steps.trans h1 h2

/-- the scanner between tokens, expecting a value -/
def sV (off : Nat) (out : List Tok) : LS :=
  { idx := off, start := off, tok := none, isOp := false, str := [], out := out, black := [] }

/-- the scanner between tokens, expecting an operator -/
def sO (off : Nat) (out : List Tok) : LS :=
  { idx := off, start := off, tok := none, isOp := true, str := [], out := out, black := [] }

/-- the text `p` stands in the input at offset `off` -/
def At (inp : Array Char) (off : Nat) (p : Str) : Prop :=
  ∀ j (h : j < p.length), ∃ h' : off + j < inp.size, inp[off + j]'h' = p[j]

/-- inside a number token after `k` digits of `ds` that begins at `off` -/
def numStG (off : Nat) (out : List Tok) (ds : Str) (k : Nat) : LS :=
  { idx := off + k, start := off, tok := some (.num false ((k : Int) - 1) false true), isOp := false, str := ds.take k, out := out, black := [] }

theorem lexStep_first_digit_at (vars : List Str) (d : Char) (hd : isDigitC d = true) (off : Nat) (out : List Tok) :
    lexStep vars d (sV off out) =
      .ok { idx := off + 1, start := off, tok := some (.num false 0 false true), isOp := false, str := [d], out := out, black := [] } := by
  have hq : (d == '"') = false := digit_ne d hd '"' (by decide)
  have hq' : (d != '"') = true := by simp [bne, hq]
  simp [lexStep, sV, digit_notSpace d hd, valueClasses, verifyChar, fresh, addChar, hq, hq', resolve, hd]

/-- the digits of a number, the scanner standing at its first digit -/
theorem steps_digits (vars : List Str) (inp : Array Char) (off : Nat) (out : List Tok) (ds : Str) (hne : ds ≠ [])
    (hall : ds.all isDigitC = true) (hat : At inp off ds) :
    Steps vars inp ds.length (sV off out) (numStG off out ds ds.length) := by
  -- first digit
  obtain ⟨d, rest, rfl⟩ := List.exists_cons_of_ne_nil hne
  have hd : isDigitC d = true := by simpa using (List.all_eq_true.mp hall d (by simp))
  obtain ⟨h0, e0⟩ := hat 0 (by simp)
  have hfirst : Steps vars inp 1 (sV off out) (numStG off out (d :: rest) 1) := by
    refine Steps.one (s := sV off out) (by simpa [sV] using h0) ?_
    have : inp[(sV off out).idx]'(by simpa [sV] using h0) = d := by simpa [sV] using e0
    rw [this, lexStep_first_digit_at vars d hd off out]
    simp [numStG]
  -- the further digits
  have hrest : ∀ (m k : Nat), k + m = (d :: rest).length → 1 ≤ k →
      Steps vars inp m (numStG off out (d :: rest) k) (numStG off out (d :: rest) (d :: rest).length) := by
    intro m
    induction m with
    | zero =>
      intro k hk _
      have : k = (d :: rest).length := by omega
      subst this
      exact Steps.refl _ _ _
    | succ m ih =>
      intro k hk h1
      have hlt : k < (d :: rest).length := by omega
      obtain ⟨hk', ek⟩ := hat k hlt
      have hdig : isDigitC ((d :: rest)[k]'hlt) = true := List.all_eq_true.mp hall _ (List.getElem_mem hlt)
      have hone : Steps vars inp 1 (numStG off out (d :: rest) k) (numStG off out (d :: rest) (k + 1)) := by
        refine Steps.one (s := numStG off out (d :: rest) k) (by simpa [numStG] using hk') ?_
        have : inp[(numStG off out (d :: rest) k).idx]'(by simpa [numStG] using hk') = (d :: rest)[k]'hlt := by simpa [numStG] using ek
        rw [this, lexStep_next_digit vars _ hdig (numStG off out (d :: rest) k) ((k : Int) - 1) rfl]
        have e : ((k : Int) - 1 + 1) = ((k + 1 : Nat) : Int) - 1 := by omega
        rw [e]
        simp only [numStG, List.take_append_getElem, Nat.add_assoc]
      have := Steps.trans hone (ih (k + 1) (by omega) (by omega))
      rwa [show 1 + m = m + 1 by omega] at this
  have := Steps.trans hfirst (hrest ((d :: rest).length - 1) 1 (by simp; omega) (by omega))
  rwa [show 1 + ((d :: rest).length - 1) = (d :: rest).length by simp; omega] at this

/-- a character that ends a number token: not a digit and not a dot -/
structure EndsNum (c : Char) : Prop where
  dig : isDigitC c = false
  dot : (c == '.') = false

/-- the character after the number closes the token; it is not consumed -/
theorem step_close_num (vars : List Str) (inp : Array Char) (off : Nat) (out : List Tok) (ds : Str) (hlen : 0 < ds.length)
    (c : Char) (hc : EndsNum c) (hidx : off + ds.length < inp.size) (hat : inp[off + ds.length]'hidx = c) :
    Steps vars inp 1 (numStG off out ds ds.length) (sO (off + ds.length) (⟨.num, ds, false⟩ :: out)) := by
  refine Steps.one (s := numStG off out ds ds.length) (by simpa [numStG] using hidx) ?_
  have : inp[(numStG off out ds ds.length).idx]'(by simpa [numStG] using hidx) = c := by simpa [numStG] using hat
  rw [this]
  have hi : ¬ ((ds.length : Int) - 1 + 1 = 0) := by omega
  have hne : ds ≠ [] := by intro h; simp [h] at hlen
  simp [lexStep, numStG, addChar, hc.dig, hc.dot, hi, hne, resolve, appendSwitch, TokSt.closed, setValueCheck, TokSt.cls, TokSt.opp, sO]

end Duckling

namespace Duckling

theorem mathOps_eq : mathOps = [['+'], ['-'], ['*'], ['/'], ['/', '/'], ['%'], ['^']] := by decide
theorem condOps_eq : condOps = [['=', '='], ['!', '='], ['<'], ['>'], ['<', '='], ['>', '=']] := by decide
theorem commaOps_eq : commaOps = [[',']] := by decide

/-- inside an operator token: `cur` consumed, candidates `e` -/
def opSt (off : Nat) (out : List Tok) (cls : Cls) (K : List Str) (e : List Nat) (cur : Str) (black : List Cls) : LS :=
  { idx := off + cur.length, start := off, tok := some (.kw cls { kws := K, expected := some e, cur := cur }), isOp := true,
    str := cur, out := out, black := black }

syntax "lex_simp" : tactic
macro_rules
  | `(tactic| lex_simp) => `(tactic|
      simp [lexStep, sO, sV, opSt, isSpace, operatorClasses, verifyChar, fresh, addChar, kwAdd, mathOps_eq, condOps_eq, commaOps_eq, startsWith,
        List.isPrefixOf, List.range, List.range.loop, List.filter, resolve, resetS, appendSwitch, TokSt.closed, setValueCheck, TokSt.cls,
        TokSt.opp])

/-- operators that are complete after one character and no prefix of another -/
theorem step_op1 (vars : List Str) (off : Nat) (out : List Tok) :
    lexStep vars '+' (sO off out) = .ok (sV (off + 1) (⟨.math, ['+'], false⟩ :: out)) ∧
    lexStep vars '-' (sO off out) = .ok (sV (off + 1) (⟨.math, ['-'], false⟩ :: out)) ∧
    lexStep vars '*' (sO off out) = .ok (sV (off + 1) (⟨.math, ['*'], false⟩ :: out)) ∧
    lexStep vars '%' (sO off out) = .ok (sV (off + 1) (⟨.math, ['%'], false⟩ :: out)) ∧
    lexStep vars '^' (sO off out) = .ok (sV (off + 1) (⟨.math, ['^'], false⟩ :: out)) ∧
    lexStep vars ',' (sO off out) = .ok (sV (off + 1) (⟨.comma, [','], false⟩ :: out)) := by
  refine ⟨?_, ?_, ?_, ?_, ?_, ?_⟩ <;> lex_simp

/-- the first character of the operators that need a second look -/
theorem step_op_first (vars : List Str) (off : Nat) (out : List Tok) :
    lexStep vars '/' (sO off out) = .ok (opSt off out .math mathOps [3, 4] ['/'] []) ∧
    lexStep vars '<' (sO off out) = .ok (opSt off out .cond condOps [2, 4] ['<'] [.math]) ∧
    lexStep vars '>' (sO off out) = .ok (opSt off out .cond condOps [3, 5] ['>'] [.math]) ∧
    lexStep vars '=' (sO off out) = .ok (opSt off out .cond condOps [0] ['='] [.math]) ∧
    lexStep vars '!' (sO off out) = .ok (opSt off out .cond condOps [1] ['!'] [.math]) := by
  refine ⟨?_, ?_, ?_, ?_, ?_⟩ <;> lex_simp

/-- the second character completes a two-character operator -/
theorem step_op_second (vars : List Str) (off : Nat) (out : List Tok) :
    lexStep vars '/' (opSt off out .math mathOps [3, 4] ['/'] []) = .ok (sV (off + 2) (⟨.math, ['/', '/'], false⟩ :: out)) ∧
    lexStep vars '=' (opSt off out .cond condOps [2, 4] ['<'] [.math]) = .ok (sV (off + 2) (⟨.cond, ['<', '='], false⟩ :: out)) ∧
    lexStep vars '=' (opSt off out .cond condOps [3, 5] ['>'] [.math]) = .ok (sV (off + 2) (⟨.cond, ['>', '='], false⟩ :: out)) ∧
    lexStep vars '=' (opSt off out .cond condOps [0] ['='] [.math]) = .ok (sV (off + 2) (⟨.cond, ['=', '='], false⟩ :: out)) ∧
    lexStep vars '=' (opSt off out .cond condOps [1] ['!'] [.math]) = .ok (sV (off + 2) (⟨.cond, ['!', '='], false⟩ :: out)) := by
  refine ⟨?_, ?_, ?_, ?_, ?_⟩ <;> lex_simp

/-- a digit after `/`, `<`, `>` decides for the one-character operator; the digit is not consumed -/
theorem step_op_digit (vars : List Str) (off : Nat) (out : List Tok) (d : Char) (h1 : (d == '/') = false) (h2 : (d == '=') = false) :
    lexStep vars d (opSt off out .math mathOps [3, 4] ['/'] []) = .ok (sV (off + 1) (⟨.math, ['/'], false⟩ :: out)) ∧
    lexStep vars d (opSt off out .cond condOps [2, 4] ['<'] [.math]) = .ok (sV (off + 1) (⟨.cond, ['<'], false⟩ :: out)) ∧
    lexStep vars d (opSt off out .cond condOps [3, 5] ['>'] [.math]) = .ok (sV (off + 1) (⟨.cond, ['>'], false⟩ :: out)) := by
  refine ⟨?_, ?_, ?_⟩ <;>
    simp [lexStep, sO, sV, opSt, addChar, kwAdd, mathOps_eq, condOps_eq, startsWith, List.isPrefixOf, List.filter, h1, h2, resolve,
      appendSwitch, TokSt.closed, setValueCheck, TokSt.cls, TokSt.opp]

end Duckling

namespace Duckling

/-- the fourteen operators with their token classes -/
def opInfo : List (Str × Cls) :=
  [(['+'], .math), (['-'], .math), (['*'], .math), (['/'], .math), (['/', '/'], .math), (['%'], .math), (['^'], .math),
   (['=', '='], .cond), (['!', '='], .cond), (['<'], .cond), (['>'], .cond), (['<', '='], .cond), (['>', '='], .cond), ([','], .comma)]

/-- the table is the regenerated operator table -/
theorem opInfo_covers : opInfo.map (·.1) = mathOps ++ condOps ++ commaOps := by
  rw [mathOps_eq, condOps_eq, commaOps_eq]; rfl

theorem At.append_left {inp : Array Char} {off : Nat} {a b : Str} (h : At inp off (a ++ b)) : At inp off a := by
  intro j hj
  obtain ⟨h', e⟩ := h j (by simp; omega)
  exact ⟨h', by rw [e, List.getElem_append_left hj]⟩

theorem At.append_right {inp : Array Char} {off : Nat} {a b : Str} (h : At inp off (a ++ b)) : At inp (off + a.length) b := by
  intro j hj
  obtain ⟨h', e⟩ := h (a.length + j) (by simp; omega)
  refine ⟨by omega, ?_⟩
  have : inp[off + a.length + j]'(by omega) = inp[off + (a.length + j)]'h' := by congr 1; omega
  rw [this, e, List.getElem_append_right (by omega)]
  congr 1; omega

/-- an operator, the scanner standing at its first character; the character after it is neither `/` nor `=` (a digit, a blank) -/
theorem steps_op (vars : List Str) (inp : Array Char) (off : Nat) (out : List Tok) (op : Str) (cls : Cls) (hop : (op, cls) ∈ opInfo)
    (hat : At inp off op) (d : Char) (hd1 : (d == '/') = false) (hd2 : (d == '=') = false)
    (hnext : ∃ h : off + op.length < inp.size, inp[off + op.length]'h = d) :
    ∃ n, n ≤ 2 ∧ Steps vars inp n (sO off out) (sV (off + op.length) (⟨cls, op, false⟩ :: out)) := by
  obtain ⟨hn, en⟩ := hnext
  have h1 := step_op1 vars off out
  have hf := step_op_first vars off out
  have hs := step_op_second vars off out
  have hg := step_op_digit vars off out d hd1 hd2
  simp only [opInfo, List.mem_cons, Prod.mk.injEq, List.mem_nil_iff, or_false] at hop
  -- the characters of the operator in the input
  have c0 : ∀ (h : 0 < op.length), ∃ h' : (sO off out).idx < inp.size, inp[(sO off out).idx]'h' = op[0] := by
    intro h; obtain ⟨h', e⟩ := hat 0 h; exact ⟨by simpa [sO] using h', by simpa [sO] using e⟩
  rcases hop with ⟨rfl, rfl⟩ | ⟨rfl, rfl⟩ | ⟨rfl, rfl⟩ | ⟨rfl, rfl⟩ | ⟨rfl, rfl⟩ | ⟨rfl, rfl⟩ | ⟨rfl, rfl⟩ | ⟨rfl, rfl⟩ | ⟨rfl, rfl⟩ |
    ⟨rfl, rfl⟩ | ⟨rfl, rfl⟩ | ⟨rfl, rfl⟩ | ⟨rfl, rfl⟩ | ⟨rfl, rfl⟩
  -- one-character operators that are no prefix of another
  case inl | inr.inl | inr.inr.inl | inr.inr.inr.inr.inr.inl | inr.inr.inr.inr.inr.inr.inl |
      inr.inr.inr.inr.inr.inr.inr.inr.inr.inr.inr.inr.inr =>
    obtain ⟨h', e⟩ := c0 (by simp)
    refine ⟨1, by omega, Steps.one h' ?_⟩
    rw [e]
    first | exact h1.1 | exact h1.2.1 | exact h1.2.2.1 | exact h1.2.2.2.1 | exact h1.2.2.2.2.1 | exact h1.2.2.2.2.2
  -- `/`, `<`, `>` followed by the digit
  case inr.inr.inr.inl | inr.inr.inr.inr.inr.inr.inr.inr.inr.inl | inr.inr.inr.inr.inr.inr.inr.inr.inr.inr.inl =>
    obtain ⟨h', e⟩ := c0 (by simp)
    refine ⟨2, by omega, Steps.two (Steps.one h' (by rw [e]; first | exact hf.1 | exact hf.2.1 | exact hf.2.2.1)) ?_⟩
    first
      | (refine Steps.one (s := opSt off out .math mathOps [3, 4] ['/'] []) (by simpa [opSt] using hn) ?_
         rw [show inp[(opSt off out .math mathOps [3, 4] ['/'] []).idx]'(by simpa [opSt] using hn) = d by simpa [opSt] using en]; exact hg.1)
      | (refine Steps.one (s := opSt off out .cond condOps [2, 4] ['<'] [.math]) (by simpa [opSt] using hn) ?_
         rw [show inp[(opSt off out .cond condOps [2, 4] ['<'] [.math]).idx]'(by simpa [opSt] using hn) = d by simpa [opSt] using en]; exact hg.2.1)
      | (refine Steps.one (s := opSt off out .cond condOps [3, 5] ['>'] [.math]) (by simpa [opSt] using hn) ?_
         rw [show inp[(opSt off out .cond condOps [3, 5] ['>'] [.math]).idx]'(by simpa [opSt] using hn) = d by simpa [opSt] using en]; exact hg.2.2)
  -- two-character operators
  all_goals
    obtain ⟨h', e⟩ := c0 (by simp)
    obtain ⟨h2, e2⟩ := hat 1 (by simp)
    refine ⟨2, by omega, Steps.two (Steps.one h' (by rw [e]; first | exact hf.1 | exact hf.2.1 | exact hf.2.2.1 | exact hf.2.2.2.1 | exact hf.2.2.2.2)) ?_⟩
    first
      | (refine Steps.one (s := opSt off out .math mathOps [3, 4] ['/'] []) (by simpa [opSt] using h2) ?_
         rw [show inp[(opSt off out .math mathOps [3, 4] ['/'] []).idx]'(by simpa [opSt] using h2) = '/' by simpa [opSt] using e2]; exact hs.1)
      | (refine Steps.one (s := opSt off out .cond condOps [2, 4] ['<'] [.math]) (by simpa [opSt] using h2) ?_
         rw [show inp[(opSt off out .cond condOps [2, 4] ['<'] [.math]).idx]'(by simpa [opSt] using h2) = '=' by simpa [opSt] using e2]; exact hs.2.1)
      | (refine Steps.one (s := opSt off out .cond condOps [3, 5] ['>'] [.math]) (by simpa [opSt] using h2) ?_
         rw [show inp[(opSt off out .cond condOps [3, 5] ['>'] [.math]).idx]'(by simpa [opSt] using h2) = '=' by simpa [opSt] using e2]; exact hs.2.2.1)
      | (refine Steps.one (s := opSt off out .cond condOps [0] ['='] [.math]) (by simpa [opSt] using h2) ?_
         rw [show inp[(opSt off out .cond condOps [0] ['='] [.math]).idx]'(by simpa [opSt] using h2) = '=' by simpa [opSt] using e2]; exact hs.2.2.2.1)
      | (refine Steps.one (s := opSt off out .cond condOps [1] ['!'] [.math]) (by simpa [opSt] using h2) ?_
         rw [show inp[(opSt off out .cond condOps [1] ['!'] [.math]).idx]'(by simpa [opSt] using h2) = '=' by simpa [opSt] using e2]; exact hs.2.2.2.2)

end Duckling

namespace Duckling

/-- the first character of every operator ends a number token -/
theorem op_endsNum (op : Str) (cls : Cls) (hop : (op, cls) ∈ opInfo) : ∃ c rest, op = c :: rest ∧ EndsNum c := by
  simp only [opInfo, List.mem_cons, Prod.mk.injEq, List.mem_nil_iff, or_false] at hop
  rcases hop with ⟨rfl, _⟩ | ⟨rfl, _⟩ | ⟨rfl, _⟩ | ⟨rfl, _⟩ | ⟨rfl, _⟩ | ⟨rfl, _⟩ | ⟨rfl, _⟩ | ⟨rfl, _⟩ | ⟨rfl, _⟩ |
    ⟨rfl, _⟩ | ⟨rfl, _⟩ | ⟨rfl, _⟩ | ⟨rfl, _⟩ | ⟨rfl, _⟩
  all_goals exact ⟨_, _, rfl, ⟨by decide, by decide⟩⟩

/-- a flat expression after its first number: operator, number, operator, number, … -/
abbrev FlatRest := List (Str × Cls × Str)

def flatText (ds : Str) (rest : FlatRest) : Str := ds ++ rest.flatMap fun t => t.1 ++ t.2.2
def flatToks (ds : Str) (rest : FlatRest) : List Tok :=
  ⟨.num, ds, false⟩ :: rest.flatMap fun t => [⟨t.2.1, t.1, false⟩, ⟨.num, t.2.2, false⟩]

def GoodNum (ds : Str) : Prop := ds ≠ [] ∧ ds.all isDigitC = true
def GoodRest (rest : FlatRest) : Prop := ∀ t ∈ rest, (t.1, t.2.1) ∈ opInfo ∧ GoodNum t.2.2

theorem flatToks_length (ds : Str) (rest : FlatRest) : (flatToks ds rest).length = 1 + 2 * rest.length := by
  unfold flatToks
  induction rest with
  | nil => rfl
  | cons t r ih => simp only [List.flatMap_cons, List.length_cons, List.length_append, List.length_nil] at ih ⊢; omega

/-- the scanner over a flat expression that reaches the end of the input: it ends inside the last number -/
theorem steps_flat (vars : List Str) (inp : Array Char) (rest : FlatRest) :
    ∀ (ds : Str) (off : Nat) (out : List Tok), GoodNum ds → GoodRest rest → At inp off (flatText ds rest) →
      off + (flatText ds rest).length = inp.size →
      ∃ n offL outL dsL, n ≤ 2 * (flatText ds rest).length ∧ 0 < dsL.length ∧ offL + dsL.length = inp.size ∧
        Steps vars inp n (sV off out) (numStG offL outL dsL dsL.length) ∧
        (⟨.num, dsL, false⟩ :: outL).reverse = out.reverse ++ flatToks ds rest := by
  induction rest with
  | nil =>
    intro ds off out hds _ hat hsize
    simp only [flatText, List.flatMap_nil, List.append_nil] at hat hsize ⊢
    have hlen : 0 < ds.length := by
      cases ds with
      | nil => exact absurd rfl hds.1
      | cons _ _ => simp
    exact ⟨ds.length, off, out, ds, by omega, hlen, hsize, steps_digits vars inp off out ds hds.1 hds.2 hat, by simp [flatToks]⟩
  | cons t r ih =>
    intro ds off out hds hrest hat hsize
    obtain ⟨op, cls, ds'⟩ := t
    have ht := hrest (op, cls, ds') List.mem_cons_self
    have hr : GoodRest r := fun u hu => hrest u (List.mem_cons_of_mem _ hu)
    have hlen : 0 < ds.length := by
      cases ds with
      | nil => exact absurd rfl hds.1
      | cons _ _ => simp
    have htext : flatText ds ((op, cls, ds') :: r) = ds ++ (op ++ flatText ds' r) := by
      simp [flatText, List.append_assoc]
    rw [htext] at hat hsize ⊢
    -- the first number
    have h1 := steps_digits vars inp off out ds hds.1 hds.2 hat.append_left
    -- the operator's first character closes it
    obtain ⟨c, oprest, hopc, hc⟩ := op_endsNum op cls ht.1
    have hatop : At inp (off + ds.length) (op ++ flatText ds' r) := hat.append_right
    obtain ⟨hidx, eidx⟩ := hatop 0 (by rw [hopc]; simp)
    simp only [Nat.add_zero] at hidx eidx
    have ec : inp[off + ds.length]'hidx = c := by
      rw [eidx]; simp [hopc]
    have h2 := step_close_num vars inp off out ds hlen c hc hidx ec
    -- the operator, a digit following it
    have hds' := ht.2
    obtain ⟨d', dr, hd0⟩ := List.exists_cons_of_ne_nil hds'.1
    have hd' : ds' = d' :: dr := hd0
    have hdig : isDigitC d' = true := by
      have := List.all_eq_true.mp hds'.2 d' (by rw [hd']; simp)
      exact this
    have hatnum : At inp (off + ds.length + op.length) (flatText ds' r) := hatop.append_right
    have hnext : ∃ h : off + ds.length + op.length < inp.size, inp[off + ds.length + op.length]'h = d' := by
      obtain ⟨h', e'⟩ := hatnum 0 (by simp [flatText, hd'])
      simp only [Nat.add_zero] at h' e'
      refine ⟨h', ?_⟩
      rw [e']; simp [flatText, hd']
    obtain ⟨nop, hnop, h3⟩ := steps_op vars inp (off + ds.length) (⟨.num, ds, false⟩ :: out) op cls ht.1 hatop.append_left d'
      (digit_ne d' hdig '/' (by decide)) (digit_ne d' hdig '=' (by decide)) hnext
    -- the rest
    obtain ⟨n, offL, outL, dsL, hn, hL, hoffL, h4, htoks⟩ := ih ds' (off + ds.length + op.length) (⟨cls, op, false⟩ :: ⟨.num, ds, false⟩ :: out)
      hds' hr hatnum (by simp only [List.length_append] at hsize ⊢; omega)
    refine ⟨ds.length + 1 + nop + n, offL, outL, dsL, ?_, hL, hoffL, Steps.trans (Steps.trans (Steps.trans h1 h2) h3) h4, ?_⟩
    · have hopl : 1 ≤ op.length := by rw [hopc]; simp
      simp only [List.length_append] at hn ⊢
      omega
    · rw [htoks]
      simp [flatToks, List.append_assoc]

/-- **flat arithmetic is scanned into its tokens** — a number, then any number of (operator, number) pairs, no blanks -/
theorem lex_flat (vars : List Str) (ds : Str) (rest : FlatRest) (hds : GoodNum ds) (hrest : GoodRest rest) :
    lex vars (flatText ds rest) = .ok (flatToks ds rest) := by
  have hat : At (flatText ds rest).toArray 0 (flatText ds rest) := by
    intro j hj; exact ⟨by simpa using hj, by simp⟩
  obtain ⟨n, offL, outL, dsL, hn, hL, hoffL, hsteps, htoks⟩ :=
    steps_flat vars (flatText ds rest).toArray rest ds 0 [] hds hrest hat (by simp)
  have hend : lexLoop vars (flatText ds rest).toArray (n + 1) (sV 0 []) = .ok (numStG offL outL dsL dsL.length) := by
    rw [hsteps 1, lexLoop]
    have hsz : (flatText ds rest).toArray.size = (flatText ds rest).length := by simp
    have : ¬ (numStG offL outL dsL dsL.length).idx < (flatText ds rest).toArray.size := by
      simp only [numStG]; omega
    simp only [this, dite_false]
  have hloop : lexLoop vars (flatText ds rest).toArray (lexFuel (flatText ds rest).length) {} = .ok (numStG offL outL dsL dsL.length) := by
    have hfuel : lexFuel (flatText ds rest).length = (n + 1) + (lexFuel (flatText ds rest).length - (n + 1)) := by
      unfold lexFuel; omega
    rw [hfuel]
    exact lexLoop_mono vars _ _ _ _ hend _
  unfold lex
  rw [hloop]
  have hne : dsL ≠ [] := by intro h; simp [h] at hL
  have hodd : ((⟨.num, dsL, false⟩ :: outL : List Tok).length % 2 == 0) = false := by
    have := congrArg List.length htoks
    simp only [List.length_reverse, List.reverse_nil, List.nil_append, flatToks_length] at this
    rw [this]; simp
  have hrev : (⟨.num, dsL, false⟩ :: outL : List Tok).reverse = flatToks ds rest := by simpa using htoks
  simp only [lexFinish, numStG, appendSwitch, TokSt.closed, Bool.not_true, Bool.false_eq_true, if_false, setValueCheck, TokSt.cls,
    TokSt.opp, Outcome.bind_ok, List.take_length, lexResult, hodd, hrev]

end Duckling

namespace Duckling

/-- the operator/value pairs of a flat expression as the tree builder receives them -/
def flatPairs (rest : FlatRest) : Pairs Tok Str := rest.map fun t => (t.1, Tree.leaf ⟨.num, t.2.2, false⟩)

theorem toFlat_flatToks (ds : Str) (rest : FlatRest) :
    toFlat (flatToks ds rest) = some (Tree.leaf ⟨.num, ds, false⟩, flatPairs rest) := by
  have hgo : ∀ r : FlatRest, toFlat.go (r.flatMap fun t => [(⟨t.2.1, t.1, false⟩ : Tok), ⟨.num, t.2.2, false⟩]) = some (flatPairs r) := by
    intro r
    induction r with
    | nil => rfl
    | cons t r ih =>
      simp only [List.flatMap_cons, List.cons_append, List.nil_append, toFlat.go, ih, Option.map_some, flatPairs, List.map_cons]
  simp only [flatToks, toFlat, hgo, Option.map_some]

/-- every operator of the table has a precedence rank -/
theorem opInfo_ranked : ∀ t ∈ opInfo, rankTable.any (fun r => r.contains (String.ofList t.1)) = true := by decide

end Duckling
