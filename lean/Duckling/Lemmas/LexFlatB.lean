import Duckling.Lemmas.LexFlat
/-
  Flat arithmetic with ANY layout of blanks: blanks before the first number, around every operator and after the last number
  change nothing in the token list the scanner produces (C04: spacing).
-/
namespace Duckling

theorem space_le (c : Char) (h : isSpace c = true) : c.toNat ≤ 32 := by
  unfold isSpace at h
  simp only [Bool.or_eq_true, beq_iff_eq, Bool.and_eq_true, decide_eq_true_eq] at h
  rcases h with ((((((h | h) | h) | h) | h) | h) | h)
  · subst h; decide
  · subst h; decide
  · subst h; decide
  · subst h; decide
  · omega
  · omega
  · omega

theorem space_ne (c : Char) (h : isSpace c = true) (d : Char) (hd : 32 < d.toNat) : (c == d) = false := by
  have := space_le c h
  simp only [beq_eq_false_iff_ne, ne_eq]
  intro e; subst e; omega

theorem space_endsNum (c : Char) (h : isSpace c = true) : EndsNum c := by
  refine ⟨?_, space_ne c h '.' (by decide)⟩
  have hl := space_le c h
  cases hd : isDigitC c with
  | false => rfl
  | true => have := (digit_range c hd).1; omega

def AllSp (s : Str) : Prop := s.all isSpace = true

/-- blanks between tokens are skipped -/
theorem steps_skip (vars : List Str) (inp : Array Char) (isOp : Bool) (out : List Tok) (sp : Str) (hsp : AllSp sp) :
    ∀ off, At inp off sp →
      Steps vars inp sp.length (if isOp then sO off out else sV off out) (if isOp then sO (off + sp.length) out else sV (off + sp.length) out) := by
  induction sp with
  | nil => intro off _; simpa using Steps.refl vars inp _
  | cons c rest ih =>
    intro off hat
    have hc : isSpace c = true := by simpa using (List.all_eq_true.mp hsp c (by simp))
    have hrest : AllSp rest := by
      unfold AllSp at hsp ⊢
      simp only [List.all_cons, Bool.and_eq_true] at hsp
      exact hsp.2
    obtain ⟨h0, e0⟩ := hat 0 (by simp)
    simp only [Nat.add_zero, List.getElem_cons_zero] at h0 e0
    have hone : Steps vars inp 1 (if isOp then sO off out else sV off out) (if isOp then sO (off + 1) out else sV (off + 1) out) := by
      cases isOp with
      | true =>
        refine Steps.one (s := sO off out) (by simpa [sO] using h0) ?_
        rw [show inp[(sO off out).idx]'(by simpa [sO] using h0) = c by simpa [sO] using e0]
        simp [lexStep, sO, hc]
      | false =>
        refine Steps.one (s := sV off out) (by simpa [sV] using h0) ?_
        rw [show inp[(sV off out).idx]'(by simpa [sV] using h0) = c by simpa [sV] using e0]
        simp [lexStep, sV, hc]
    have hat' : At inp (off + 1) rest := by
      have := (show At inp off ([c] ++ rest) from hat).append_right
      simpa using this
    have := Steps.trans hone (ih hrest (off + 1) hat')
    simpa [Nat.add_assoc, Nat.add_comm 1] using this

end Duckling

namespace Duckling

/-- operator, number, … with the blanks before and after each operator: (blanks, operator, class, blanks, digits) -/
abbrev FlatRestB := List (Str × Str × Cls × Str × Str)

def plainOf (rest : FlatRestB) : FlatRest := rest.map fun t => (t.2.1, t.2.2.1, t.2.2.2.2)
def restTextB (rest : FlatRestB) : Str := rest.flatMap fun t => t.1 ++ (t.2.1 ++ (t.2.2.2.1 ++ t.2.2.2.2))
def GoodRestB (rest : FlatRestB) : Prop :=
  ∀ t ∈ rest, AllSp t.1 ∧ (t.2.1, t.2.2.1) ∈ opInfo ∧ AllSp t.2.2.2.1 ∧ GoodNum t.2.2.2.2

/-- what the scanner has collected when it stops (`out` is kept newest first) -/
def finOut (s : LS) : Outcome (List Tok) := lexFinish s >>= fun s' => .ok s'.out

theorem head_endsNum (a b : Str) (ha : AllSp a) (hb : ∃ c r, b = c :: r ∧ EndsNum c) :
    ∃ c r, a ++ b = c :: r ∧ EndsNum c := by
  cases a with
  | nil => simpa using hb
  | cons c r =>
    have hc : isSpace c = true := by simpa using (List.all_eq_true.mp ha c (by simp))
    exact ⟨c, r ++ b, rfl, space_endsNum c hc⟩

theorem head_ne (a b : Str) (ha : AllSp a) (d : Char) (hd : 32 < d.toNat) (hb : ∃ c r, b = c :: r ∧ (c == d) = false) :
    ∃ c r, a ++ b = c :: r ∧ (c == d) = false := by
  cases a with
  | nil => simpa using hb
  | cons c r =>
    have hc : isSpace c = true := by simpa using (List.all_eq_true.mp ha c (by simp))
    exact ⟨c, r ++ b, rfl, space_ne c hc d hd⟩

theorem at_head {inp : Array Char} {off : Nat} {p : Str} {c : Char} {r : Str} (hat : At inp off p) (hp : p = c :: r) :
    ∃ h : off < inp.size, inp[off]'h = c := by
  obtain ⟨h', e'⟩ := hat 0 (by rw [hp]; simp)
  simp only [Nat.add_zero] at h' e'
  exact ⟨h', by rw [e']; simp [hp]⟩

theorem steps_flatB (vars : List Str) (inp : Array Char) (trail : Str) (htrail : AllSp trail) (rest : FlatRestB) :
    ∀ (ds : Str) (off : Nat) (out : List Tok), GoodNum ds → GoodRestB rest → At inp off (ds ++ (restTextB rest ++ trail)) →
      off + (ds ++ (restTextB rest ++ trail)).length = inp.size →
      ∃ n sEnd, n ≤ 2 * (ds ++ (restTextB rest ++ trail)).length ∧ sEnd.idx = inp.size ∧
        Steps vars inp n (sV off out) sEnd ∧ finOut sEnd = .ok ((flatToks ds (plainOf rest)).reverse ++ out) := by
  induction rest with
  | nil =>
    intro ds off out hds _ hat hsize
    simp only [restTextB, List.flatMap_nil, List.nil_append] at hat hsize ⊢
    have hlen : 0 < ds.length := by
      cases ds with
      | nil => exact absurd rfl hds.1
      | cons _ _ => simp
    have h1 := steps_digits vars inp off out ds hds.1 hds.2 hat.append_left
    cases trail with
    | nil =>
      refine ⟨ds.length, numStG off out ds ds.length, (by rw [List.append_nil]; omega), by simpa [numStG] using hsize, h1, ?_⟩
      simp [finOut, lexFinish, numStG, appendSwitch, TokSt.closed, setValueCheck, TokSt.cls, TokSt.opp, flatToks, plainOf]
    | cons c tr =>
      have hc : isSpace c = true := by simpa using (List.all_eq_true.mp htrail c (by simp))
      obtain ⟨hidx, ec⟩ := at_head hat.append_right rfl
      have h2 := step_close_num vars inp off out ds hlen c (space_endsNum c hc) hidx ec
      have h3 := steps_skip vars inp true (⟨.num, ds, false⟩ :: out) (c :: tr) htrail (off + ds.length) hat.append_right
      simp only [if_true] at h3
      refine ⟨ds.length + 1 + (c :: tr).length, sO (off + ds.length + (c :: tr).length) (⟨.num, ds, false⟩ :: out), ?_, ?_,
        Steps.trans (Steps.trans h1 h2) h3, ?_⟩
      · simp only [List.length_append, List.length_cons]; omega
      · simp only [sO, List.length_append] at hsize ⊢; omega
      · simp [finOut, lexFinish, sO, flatToks, plainOf]
  | cons t r ih =>
    intro ds off out hds hrest hat hsize
    obtain ⟨sp1, op, cls, sp2, ds'⟩ := t
    obtain ⟨hsp1, hop, hsp2, hds'⟩ := hrest (sp1, op, cls, sp2, ds') List.mem_cons_self
    have hr : GoodRestB r := fun u hu => hrest u (List.mem_cons_of_mem _ hu)
    have hlen : 0 < ds.length := by
      cases ds with
      | nil => exact absurd rfl hds.1
      | cons _ _ => simp
    have htext : ds ++ (restTextB ((sp1, op, cls, sp2, ds') :: r) ++ trail) =
        ds ++ (sp1 ++ (op ++ (sp2 ++ (ds' ++ (restTextB r ++ trail))))) := by
      simp [restTextB, List.append_assoc]
    rw [htext] at hat hsize ⊢
    have h1 := steps_digits vars inp off out ds hds.1 hds.2 hat.append_left
    -- the number is closed by the first character after it (a blank or the operator's first character)
    have hA := hat.append_right
    obtain ⟨c0, r0, hop0, hc0⟩ := op_endsNum op cls hop
    obtain ⟨c, rc, hcr, hc⟩ := head_endsNum sp1 (op ++ (sp2 ++ (ds' ++ (restTextB r ++ trail)))) hsp1 ⟨c0, r0 ++ _, by rw [hop0]; rfl, hc0⟩
    obtain ⟨hidx, ec⟩ := at_head hA hcr
    have h2 := step_close_num vars inp off out ds hlen c hc hidx ec
    -- blanks before the operator
    have h3 := steps_skip vars inp true (⟨.num, ds, false⟩ :: out) sp1 hsp1 (off + ds.length) hA.append_left
    simp only [if_true] at h3
    -- the operator
    have hB := hA.append_right
    obtain ⟨d', dr, hd0⟩ := List.exists_cons_of_ne_nil hds'.1
    have hd' : ds' = d' :: dr := hd0
    have hdig : isDigitC d' = true := by
      have := List.all_eq_true.mp hds'.2 d' (by rw [hd']; simp)
      exact this
    obtain ⟨e1, re1, he1, hne1⟩ := head_ne sp2 (ds' ++ (restTextB r ++ trail)) hsp2 '/' (by decide)
      ⟨d', dr ++ _, by rw [hd']; rfl, digit_ne d' hdig '/' (by decide)⟩
    obtain ⟨e2, re2, he2, hne2⟩ := head_ne sp2 (ds' ++ (restTextB r ++ trail)) hsp2 '=' (by decide)
      ⟨d', dr ++ _, by rw [hd']; rfl, digit_ne d' hdig '=' (by decide)⟩
    have hsame : e1 = e2 := by rw [he1] at he2; injection he2
    subst hsame
    have hC := hB.append_right
    obtain ⟨hn, en⟩ := at_head hC he1
    obtain ⟨nop, hnop, h4⟩ := steps_op vars inp (off + ds.length + sp1.length) (⟨.num, ds, false⟩ :: out) op cls hop hB.append_left e1
      hne1 hne2 ⟨hn, en⟩
    -- blanks after the operator
    have h5 := steps_skip vars inp false (⟨cls, op, false⟩ :: ⟨.num, ds, false⟩ :: out) sp2 hsp2 (off + ds.length + sp1.length + op.length)
      hC.append_left
    simp only [Bool.false_eq_true, if_false] at h5
    -- the rest
    have hD := hC.append_right
    obtain ⟨n, sEnd, hnb, hidxE, h6, hfin⟩ := ih ds' (off + ds.length + sp1.length + op.length + sp2.length)
      (⟨cls, op, false⟩ :: ⟨.num, ds, false⟩ :: out) hds' hr hD (by simp only [List.length_append] at hsize ⊢; omega)
    refine ⟨ds.length + 1 + sp1.length + nop + sp2.length + n, sEnd, ?_, hidxE,
      Steps.trans (Steps.trans (Steps.trans (Steps.trans (Steps.trans h1 h2) h3) h4) h5) h6, ?_⟩
    · have hopl : 1 ≤ op.length := by rw [hop0]; simp
      simp only [List.length_append] at hnb ⊢
      omega
    · rw [hfin]
      simp [flatToks, plainOf, List.append_assoc]

end Duckling

namespace Duckling

/-- the text of a flat expression with its blanks -/
def flatTextB (lead ds : Str) (rest : FlatRestB) (trail : Str) : Str := lead ++ (ds ++ (restTextB rest ++ trail))

/-- **blanks anywhere between the tokens of flat arithmetic change nothing**: the scanner produces the tokens of the expression
    written without blanks -/
theorem lex_flatB (vars : List Str) (lead ds : Str) (rest : FlatRestB) (trail : Str) (hlead : AllSp lead) (htrail : AllSp trail)
    (hds : GoodNum ds) (hrest : GoodRestB rest) :
    lex vars (flatTextB lead ds rest trail) = .ok (flatToks ds (plainOf rest)) := by
  have hat : At (flatTextB lead ds rest trail).toArray 0 (flatTextB lead ds rest trail) := by
    intro j hj; exact ⟨by simpa using hj, by simp⟩
  have hat' : At (flatTextB lead ds rest trail).toArray 0 (lead ++ (ds ++ (restTextB rest ++ trail))) := hat
  have h0 := steps_skip vars (flatTextB lead ds rest trail).toArray false [] lead hlead 0 hat'.append_left
  simp only [Bool.false_eq_true, if_false, Nat.zero_add] at h0
  have hatR : At (flatTextB lead ds rest trail).toArray lead.length (ds ++ (restTextB rest ++ trail)) := by
    simpa using hat'.append_right
  obtain ⟨n, sEnd, hn, hidx, hsteps, hfin⟩ :=
    steps_flatB vars (flatTextB lead ds rest trail).toArray trail htrail rest ds lead.length [] hds hrest hatR
      (by simp [flatTextB])
  have hall := Steps.trans h0 hsteps
  have hend : lexLoop vars (flatTextB lead ds rest trail).toArray (lead.length + n + 1) (sV 0 []) = .ok sEnd := by
    rw [hall 1, lexLoop]
    have : ¬ sEnd.idx < (flatTextB lead ds rest trail).toArray.size := by omega
    simp only [this, dite_false]
  have hloop : lexLoop vars (flatTextB lead ds rest trail).toArray (lexFuel (flatTextB lead ds rest trail).length) {} = .ok sEnd := by
    have hlen : (flatTextB lead ds rest trail).length = lead.length + (ds ++ (restTextB rest ++ trail)).length := by simp [flatTextB]
    have hfuel : lexFuel (flatTextB lead ds rest trail).length =
        (lead.length + n + 1) + (lexFuel (flatTextB lead ds rest trail).length - (lead.length + n + 1)) := by
      unfold lexFuel; omega
    rw [hfuel]
    exact lexLoop_mono vars _ _ _ _ hend _
  unfold lex
  rw [hloop]
  unfold finOut at hfin
  cases hf : lexFinish sEnd with
  | ok s' =>
    rw [hf] at hfin
    simp only [Outcome.bind_ok, Outcome.ok.injEq, List.append_nil] at hfin
    have hodd : ((flatToks ds (plainOf rest)).reverse.length % 2 == 0) = false := by
      rw [List.length_reverse, flatToks_length]; simp
    simp only [Outcome.bind_ok, hf, lexResult, hodd, Bool.false_eq_true, if_false, hfin, List.reverse_reverse]
  | cerr k => rw [hf] at hfin; cases hfin
  | crash e => rw [hf] at hfin; cases hfin
  | oom w => rw [hf] at hfin; cases hfin

end Duckling
