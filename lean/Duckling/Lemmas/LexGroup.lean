import Duckling.Lemmas.LexAtoms
/-
  Parenthesised groups, `( … )` and `!( … )`, for the scanner standing anywhere in the text.  For the scanner a group is ONE token:
  the group class counts parentheses (a quotation mark toggles "ignore parentheses") and closes the token at the parenthesis that
  brings the depth back to zero.  `grpWalk` is that bookkeeping as a fold over the inner text; `GoodGrp inner` says the inner text is
  balanced with respect to it (never back at depth 0, never above the parenthesis limit, ends at depth 1 outside a string).
-/
namespace Duckling

/-- the depth / in-string bookkeeping of the group token over the text between the outer parentheses -/
def grpWalk : Nat → Bool → Str → Option (Nat × Bool)
  | d, ign, [] => some (d, ign)
  | d, ign, c :: cs =>
    if (c == '(' || c == ')') && !ign then
      if c == '(' then (if d + 1 > parenLimit then none else grpWalk (d + 1) ign cs)
      else (if d ≤ 1 then none else grpWalk (d - 1) ign cs)
    else grpWalk d (if c == '"' then !ign else ign) cs

/-- the text between the outer parentheses is balanced: the closing parenthesis of the group is the one after it -/
def GoodGrp (inner : Str) : Prop := grpWalk 1 false inner = some (1, false)

/-- inside a group token that began at `off`: `n` characters consumed, `acc` accumulated, depth `d`, in-string flag `ign` -/
def grpSt (off : Nat) (out : List Tok) (neg : Bool) (black : List Cls) (acc : Str) (d : Nat) (ign : Bool) (n : Nat) : LS :=
  { idx := off + n, start := off, tok := some (.grp d ign false neg), isOp := false, str := acc, out := out, black := black }

/-- the classes black-listed when the group class is reached: Boolean always, Variable when there are names in scope -/
def grpBlack (names : List Str) : List Cls := if names.isEmpty then [.bool] else [.var, .bool]

/-- neither `(` nor `!` occurs in a name (real names are letters, digits and `_`) -/
def NoParenNames (names : List Str) : Prop := ∀ nm ∈ names, ∀ ch ∈ nm, (ch == '(') = false ∧ (ch == '!') = false

theorem nameStart_lparen : NameStart '(' := ⟨by decide, by decide, by decide, by decide, by decide, by decide, by decide⟩
theorem nameStart_bang : NameStart '!' := ⟨by decide, by decide, by decide, by decide, by decide, by decide, by decide⟩

/-- the Variable class gives up at once on a character no name begins with -/
theorem kwAdd_var_declines (names : List Str) (c : Char) (h : ∀ nm ∈ names, ∀ ch ∈ nm, (ch == c) = false) :
    ∃ k', kwAdd { kws := names } c = (k', .Reset) := by
  have hnew : kwNew { kws := names } c = [] := by
    unfold kwNew
    simp only [List.nil_append]
    rw [List.filter_eq_nil_iff]
    intro i hi
    simp only [List.mem_range] at hi
    simp only [startsWith, Bool.not_eq_true]
    have hmem : names.getD i [] ∈ names := by
      simp only [List.getD, List.getElem?_eq_getElem hi, Option.getD_some]; exact List.getElem_mem hi
    cases hnm : names.getD i [] with
    | nil => rfl
    | cons a b =>
      have := h _ hmem a (by rw [hnm]; simp)
      simp only [List.isPrefixOf, Bool.and_eq_false_imp]
      intro hca
      have hac : a = c := by have := hca; simp only [beq_iff_eq] at this; exact this.symm
      rw [hac] at this
      simp at this
  exact ⟨_, by rw [kwAdd_empty _ c (by rw [hnew]; rfl)]⟩

/-- the opening parenthesis, the scanner expecting a value -/
theorem step_grp_open (names : List Str) (hp : NoParenNames names) (off : Nat) (out : List Tok) :
    lexStep names '(' (sV off out) = .ok (grpSt off out false (grpBlack names) ['('] 1 false 1) := by
  have hbk : boolKws.isEmpty = false := by decide
  have hb := kwAdd_bool_declines '(' nameStart_lparen
  have hlim : ¬ (0 + 1 > parenLimit) := by decide
  have hdig : isDigitC '(' = false := by decide
  cases hne : names.isEmpty with
  | true =>
    simp [lexStep, sV, isSpace, valueClasses, verifyChar, fresh, addChar, resolve, hbk, hb, resetS, TokSt.cls, hne, grpSt, grpBlack, hlim, hdig]
  | false =>
    obtain ⟨k', hk'⟩ := kwAdd_var_declines names '(' (fun nm hnm ch hch => (hp nm hnm ch hch).1)
    simp [lexStep, sV, isSpace, valueClasses, verifyChar, fresh, addChar, resolve, hbk, hb, resetS, TokSt.cls, hne, hk', grpSt, grpBlack, hlim, hdig]

/-- `!` before a group, the scanner expecting a value: the group class notes the negation and consumes the character -/
theorem step_grp_bang (names : List Str) (hp : NoParenNames names) (off : Nat) (out : List Tok) :
    lexStep names '!' (sV off out) = .ok (grpSt off out true (grpBlack names) [] 0 false 1) := by
  have hbk : boolKws.isEmpty = false := by decide
  have hb := kwAdd_bool_declines '!' nameStart_bang
  have hlim : ¬ (0 > parenLimit) := by decide
  have hdig : isDigitC '!' = false := by decide
  cases hne : names.isEmpty with
  | true =>
    simp [lexStep, sV, isSpace, valueClasses, verifyChar, fresh, addChar, resolve, hbk, hb, resetS, TokSt.cls, hne, grpSt, grpBlack, hlim, hdig]
  | false =>
    obtain ⟨k', hk'⟩ := kwAdd_var_declines names '!' (fun nm hnm ch hch => (hp nm hnm ch hch).2)
    simp [lexStep, sV, isSpace, valueClasses, verifyChar, fresh, addChar, resolve, hbk, hb, resetS, TokSt.cls, hne, hk', grpSt, grpBlack, hlim, hdig]

/-- the opening parenthesis after `!` -/
theorem step_grp_open_neg (vars : List Str) (off : Nat) (out : List Tok) (black : List Cls) :
    lexStep vars '(' (grpSt off out true black [] 0 false 1) = .ok (grpSt off out true black ['('] 1 false 2) := by
  have hlim : ¬ (0 + 1 > parenLimit) := by decide
  simp [lexStep, grpSt, addChar, resolve, hlim]

/-- one character of the inner text -/
theorem step_grp_char (vars : List Str) (off : Nat) (out : List Tok) (neg : Bool) (black : List Cls) (acc : Str) (d : Nat) (ign : Bool)
    (n : Nat) (c : Char) (cs : Str) (hd : 1 ≤ d) (hdl : d ≤ parenLimit) (r : Nat × Bool) (hw : grpWalk d ign (c :: cs) = some r) :
    ∃ d' ign', 1 ≤ d' ∧ d' ≤ parenLimit ∧ grpWalk d' ign' cs = some r ∧
      lexStep vars c (grpSt off out neg black acc d ign n) = .ok (grpSt off out neg black (acc ++ [c]) d' ign' (n + 1)) := by
  have hd0 : (d != 0) = true := by simp; omega
  rw [grpWalk] at hw
  by_cases hpar : ((c == '(' || c == ')') && !ign) = true
  · rw [if_pos hpar] at hw
    simp only [Bool.and_eq_true, Bool.or_eq_true, Bool.not_eq_true'] at hpar
    obtain ⟨hp, hign⟩ := hpar
    subst hign
    by_cases hopen : (c == '(') = true
    · rw [if_pos hopen] at hw
      by_cases hlim : d + 1 > parenLimit
      · rw [if_pos hlim] at hw; cases hw
      · rw [if_neg hlim] at hw
        have hc : c = '(' := by simpa using hopen
        subst hc
        refine ⟨d + 1, false, by omega, by omega, hw, ?_⟩
        simp [lexStep, grpSt, addChar, resolve, hlim, Nat.add_assoc]
    · have hclose : c = ')' := by
        rcases hp with h | h
        · exact absurd h hopen
        · simpa using h
      subst hclose
      rw [if_neg (by decide)] at hw
      by_cases hle : d ≤ 1
      · rw [if_pos hle] at hw; cases hw
      · rw [if_neg hle] at hw
        have hlim : ¬ (d - 1 > parenLimit) := by omega
        refine ⟨d - 1, false, by omega, by omega, hw, ?_⟩
        have hpos : d - 1 > 0 := by omega
        have hd0' : ¬ d = 0 := by omega
        simp [lexStep, grpSt, addChar, resolve, hlim, hpos, hd0', Nat.add_assoc]
  · rw [if_neg hpar] at hw
    refine ⟨d, (if c == '"' then !ign else ign), hd, hdl, hw, ?_⟩
    have hpar' : ((!(c == '(' || c == ')') || ign) && d != 0) = true := by
      simp only [Bool.and_eq_true, hd0, and_true]
      simp only [Bool.and_eq_true, Bool.not_eq_true', not_and, Bool.not_eq_false] at hpar
      cases hq : (c == '(' || c == ')') with
      | false => simp
      | true => simp [hpar hq]
    simp only [lexStep, grpSt, addChar, hpar', if_true, Outcome.bind_ok, resolve, Nat.add_assoc]

/-- the closing parenthesis of the group: the token is finished by itself (no delimiter needed) -/
theorem step_grp_close (vars : List Str) (off : Nat) (out : List Tok) (neg : Bool) (black : List Cls) (acc : Str) (n : Nat) :
    lexStep vars ')' (grpSt off out neg black acc 1 false n) = .ok (sO (off + n + 1) (⟨.grp, acc ++ [')'], neg⟩ :: out)) := by
  have hlim : ¬ (0 > parenLimit) := by decide
  simp [lexStep, grpSt, addChar, resolve, hlim, appendSwitch, TokSt.closed, setValueCheck, TokSt.cls, TokSt.opp, sO, Nat.add_assoc]

/-- the inner text of a group, character by character -/
theorem steps_grp_walk (vars : List Str) (inp : Array Char) (off : Nat) (out : List Tok) (neg : Bool) (black : List Cls) (r : Nat × Bool) :
    ∀ (rest acc : Str) (d : Nat) (ign : Bool) (n : Nat), 1 ≤ d → d ≤ parenLimit → grpWalk d ign rest = some r → At inp (off + n) rest →
      Steps vars inp rest.length (grpSt off out neg black acc d ign n) (grpSt off out neg black (acc ++ rest) r.1 r.2 (n + rest.length)) := by
  intro rest
  induction rest with
  | nil =>
    intro acc d ign n _ _ hw _
    simp only [grpWalk, Option.some.injEq] at hw
    subst hw
    simpa using Steps.refl vars inp _
  | cons c cs ih =>
    intro acc d ign n hd hdl hw hat
    obtain ⟨d', ign', hd', hdl', hw', hstep⟩ := step_grp_char vars off out neg black acc d ign n c cs hd hdl r hw
    obtain ⟨hi, ei⟩ := at_head hat rfl
    have hone : Steps vars inp 1 (grpSt off out neg black acc d ign n) (grpSt off out neg black (acc ++ [c]) d' ign' (n + 1)) := by
      refine Steps.one (s := grpSt off out neg black acc d ign n) (by simpa [grpSt] using hi) ?_
      rw [show inp[(grpSt off out neg black acc d ign n).idx]'(by simpa [grpSt] using hi) = c by simpa [grpSt] using ei]
      exact hstep
    have hat' : At inp (off + (n + 1)) cs := by
      have := (show At inp (off + n) ([c] ++ cs) from hat).append_right
      simpa [Nat.add_assoc] using this
    have hrest := ih (acc ++ [c]) d' ign' (n + 1) hd' hdl' hw' hat'
    have := Steps.trans hone hrest
    simp only [List.append_assoc, List.singleton_append, List.length_cons] at this ⊢
    rw [show 1 + cs.length = cs.length + 1 by omega, show n + 1 + cs.length = n + (cs.length + 1) by omega] at this
    exact this

/-- the text of a group: `!`? `(` inner `)` -/
def grpText (neg : Bool) (inner : Str) : Str := (if neg then ['!'] else []) ++ ('(' :: (inner ++ [')']))

theorem grpText_length (neg : Bool) (inner : Str) : (grpText neg inner).length = (if neg then 1 else 0) + (inner.length + 2) := by
  cases neg <;> simp [grpText] <;> omega

/-- **a parenthesised group is one token**: from "expecting a value" at its first character to "expecting an operator" after its
    closing parenthesis, the token carrying the text with its outer parentheses and the `!` flag -/
theorem steps_grp (names : List Str) (hp : NoParenNames names) (inp : Array Char) (off : Nat) (out : List Tok) (neg : Bool) (inner : Str)
    (hg : GoodGrp inner) (hat : At inp off (grpText neg inner)) :
    Steps names inp (grpText neg inner).length (sV off out)
      (sO (off + (grpText neg inner).length) (⟨.grp, '(' :: (inner ++ [')']), neg⟩ :: out)) := by
  have h1l : (1 : Nat) ≤ parenLimit := by decide
  cases neg with
  | false =>
    simp only [grpText, Bool.false_eq_true, if_false, List.nil_append] at hat ⊢
    obtain ⟨h0, e0⟩ := at_head hat rfl
    have hopen : Steps names inp 1 (sV off out) (grpSt off out false (grpBlack names) ['('] 1 false 1) :=
      Steps.one (s := sV off out) (by simpa [sV] using h0)
        (by rw [show inp[(sV off out).idx]'(by simpa [sV] using h0) = '(' by simpa [sV] using e0]; exact step_grp_open names hp off out)
    have hat1 : At inp (off + 1) (inner ++ [')']) := by
      have := (show At inp off (['('] ++ (inner ++ [')'])) from hat).append_right
      simpa using this
    have hwalk := steps_grp_walk names inp off out false (grpBlack names) (1, false) inner ['('] 1 false 1 (by omega) h1l hg hat1.append_left
    obtain ⟨hc, ec⟩ := at_head hat1.append_right rfl
    have hclose : Steps names inp 1 (grpSt off out false (grpBlack names) (['('] ++ inner) 1 false (1 + inner.length))
        (sO (off + (1 + inner.length) + 1) (⟨.grp, (['('] ++ inner) ++ [')'], false⟩ :: out)) := by
      refine Steps.one (s := grpSt off out false (grpBlack names) (['('] ++ inner) 1 false (1 + inner.length))
        (by simpa [grpSt, Nat.add_assoc] using hc) ?_
      rw [show inp[(grpSt off out false (grpBlack names) (['('] ++ inner) 1 false (1 + inner.length)).idx]'(by simpa [grpSt, Nat.add_assoc] using hc) = ')' by
        simpa [grpSt, Nat.add_assoc] using ec]
      exact step_grp_close names off out false (grpBlack names) (['('] ++ inner) (1 + inner.length)
    have := Steps.trans (Steps.trans hopen hwalk) hclose
    simp only [List.cons_append, List.length_cons, List.length_append, List.length_nil] at this ⊢
    rw [show 1 + inner.length + 1 = inner.length + (0 + 1) + 1 by omega,
      show off + (1 + inner.length) + 1 = off + (inner.length + (0 + 1) + 1) by omega] at this
    exact this
  | true =>
    simp only [grpText, if_true] at hat ⊢
    have hatb : At inp off (['!'] ++ (['('] ++ (inner ++ [')']))) := hat
    obtain ⟨h0, e0⟩ := at_head hatb rfl
    have hbang : Steps names inp 1 (sV off out) (grpSt off out true (grpBlack names) [] 0 false 1) :=
      Steps.one (s := sV off out) (by simpa [sV] using h0)
        (by rw [show inp[(sV off out).idx]'(by simpa [sV] using h0) = '!' by simpa [sV] using e0]; exact step_grp_bang names hp off out)
    have hat1 : At inp (off + 1) (['('] ++ (inner ++ [')'])) := by simpa using hatb.append_right
    obtain ⟨h1, e1⟩ := at_head hat1 rfl
    have hopen : Steps names inp 1 (grpSt off out true (grpBlack names) [] 0 false 1) (grpSt off out true (grpBlack names) ['('] 1 false 2) := by
      refine Steps.one (s := grpSt off out true (grpBlack names) [] 0 false 1) (by simpa [grpSt] using h1) ?_
      rw [show inp[(grpSt off out true (grpBlack names) [] 0 false 1).idx]'(by simpa [grpSt] using h1) = '(' by simpa [grpSt] using e1]
      exact step_grp_open_neg names off out (grpBlack names)
    have hat2 : At inp (off + 2) (inner ++ [')']) := by
      have := hat1.append_right
      simpa [Nat.add_assoc] using this
    have hwalk := steps_grp_walk names inp off out true (grpBlack names) (1, false) inner ['('] 1 false 2 (by omega) h1l hg hat2.append_left
    obtain ⟨hc, ec⟩ := at_head hat2.append_right rfl
    have hclose : Steps names inp 1 (grpSt off out true (grpBlack names) (['('] ++ inner) 1 false (2 + inner.length))
        (sO (off + (2 + inner.length) + 1) (⟨.grp, (['('] ++ inner) ++ [')'], true⟩ :: out)) := by
      refine Steps.one (s := grpSt off out true (grpBlack names) (['('] ++ inner) 1 false (2 + inner.length))
        (by simpa [grpSt, Nat.add_assoc] using hc) ?_
      rw [show inp[(grpSt off out true (grpBlack names) (['('] ++ inner) 1 false (2 + inner.length)).idx]'(by simpa [grpSt, Nat.add_assoc] using hc) = ')' by
        simpa [grpSt, Nat.add_assoc] using ec]
      exact step_grp_close names off out true (grpBlack names) (['('] ++ inner) (2 + inner.length)
    have := Steps.trans (Steps.trans (Steps.trans hbang hopen) hwalk) hclose
    simp only [List.cons_append, List.length_cons, List.length_append, List.length_nil, List.nil_append] at this ⊢
    rw [show 1 + 1 + inner.length + 1 = inner.length + (0 + 1) + 1 + 1 by omega,
      show off + (2 + inner.length) + 1 = off + (inner.length + (0 + 1) + 1 + 1) by omega] at this
    exact this

/-- what the evaluator strips from a group token's text is exactly the outer pair of parentheses -/
theorem stripParens_grp (inner : Str) : stripParens ('(' :: (inner ++ [')'])) = inner := by
  simp [stripParens]

end Duckling
