import Duckling.Model.Expr
import Duckling.Lemmas.RBasic
import Duckling.Lemmas.ValNoCrash
/-
  The scanner never hands `Number.set_value` a text that `int()`/`float()` would reject, and never finishes a
  token it does not have: the evaluator does not crash (C09).
-/
namespace Duckling

def Digits (ds : Str) : Prop := ∀ c ∈ ds, isDigitC c = true

/-- `[-] digits [. digits]` -/
def NumShape (s : Str) (isFp isNeg : Bool) (ds1 ds2 : Str) : Prop :=
  Digits ds1 ∧ Digits ds2 ∧ s = (if isNeg then ['-'] else []) ++ ds1 ++ (if isFp then '.' :: ds2 else []) ∧
  (isFp = false → ds2 = [])

def GoodNumText (t : Str) : Prop := ∃ isFp isNeg ds1 ds2, NumShape t isFp isNeg ds1 ds2 ∧ ds1 ++ ds2 ≠ []

theorem digit_ne_dash {c : Char} (h : isDigitC c = true) : c ≠ '-' := by
  intro e; subst e; simp [isDigitC] at h
theorem digit_ne_dot {c : Char} (h : isDigitC c = true) : c ≠ '.' := by
  intro e; subst e; simp [isDigitC] at h
theorem dot_not_digit : isDigitC '.' = false := by decide
theorem dash_not_digit : isDigitC '-' = false := by decide

theorem digits_all {ds : Str} (h : Digits ds) : ds.all isDigitC = true := by
  simpa [Digits] using h

theorem takeWhile_digits (ds rest : Str) (h : Digits ds) : (ds ++ '.' :: rest).takeWhile isDigitC = ds := by
  induction ds with
  | nil => simp [List.takeWhile, dot_not_digit]
  | cons c cs ih =>
    have hc : isDigitC c = true := h c (by simp)
    simp [List.takeWhile, hc, ih (fun x hx => h x (by simp [hx]))]

theorem dropWhile_digits (ds rest : Str) (h : Digits ds) : (ds ++ '.' :: rest).dropWhile isDigitC = '.' :: rest := by
  induction ds with
  | nil => simp [List.dropWhile, dot_not_digit]
  | cons c cs ih =>
    have hc : isDigitC c = true := h c (by simp)
    simp [List.dropWhile, hc, ih (fun x hx => h x (by simp [hx]))]

/-- the body of the number (after an optional sign) -/
theorem num_body (t : Str) (isFp isNeg : Bool) (ds1 ds2 : Str) (h : NumShape t isFp isNeg ds1 ds2) (hne : ds1 ++ ds2 ≠ []) :
    (t.head? == some '-') = isNeg ∧
    (if (t.head? == some '-') then t.drop 1 else t) = ds1 ++ (if isFp then '.' :: ds2 else []) := by
  obtain ⟨h1, h2, hs, h3⟩ := h
  subst hs
  cases isNeg with
  | true => simp
  | false =>
    simp only [Bool.false_eq_true, if_false, List.nil_append]
    cases ds1 with
    | nil =>
      cases isFp with
      | true => simp
      | false => simp [h3 rfl] at hne
    | cons c cs =>
      have hc := digit_ne_dash (h1 c (by simp))
      simp [hc]

theorem numberValue_no_crash (t : Str) (h : GoodNumText t) : ∀ x, numberValue t ≠ .crash x := by
  obtain ⟨isFp, isNeg, ds1, ds2, hsh, hne⟩ := h
  have ⟨hneg, hb⟩ := num_body t isFp isNeg ds1 ds2 hsh hne
  obtain ⟨h1, h2, hs, h3⟩ := hsh
  intro x
  unfold numberValue
  simp only [hb]
  cases isFp with
  | false =>
    have hd2 : ds2 = [] := h3 rfl
    subst hd2
    have hne1 : ds1 ≠ [] := by simpa using hne
    have hemp : ds1.isEmpty = false := by cases ds1 <;> simp_all
    simp [hemp, digits_all h1]
  | true =>
    simp only [if_true]
    have hnotall : (ds1 ++ '.' :: ds2).all isDigitC = false := by simp [dot_not_digit]
    simp only [hnotall, Bool.and_false, Bool.false_eq_true, if_false]
    cases ds2 with
    | nil =>
      have hne1 : ds1 ≠ [] := by simpa using hne
      have hemp : ds1.isEmpty = false := by cases ds1 <;> simp_all
      have hlast : t.getLast? = some '.' := by rw [hs]; simp
      simp [hlast, hemp, digits_all h1]
    | cons d ds =>
      have hd : isDigitC d = true := h2 d (by simp)
      have hlast : t.getLast? ≠ some '.' := by
        have hmem : ∀ (xs : Str) (y : Char) (ys : Str), (xs ++ y :: ys).getLast? = some ((y :: ys).getLast (by simp)) := by
          intro xs y ys
          induction xs with
          | nil => exact List.getLast?_eq_some_getLast _
          | cons z zs ih =>
            have : zs ++ y :: ys ≠ [] := by simp
            simp only [List.cons_append]
            rw [List.getLast?_cons_of_ne_nil this] <;> exact ih
        have e : t = ((if isNeg = true then ['-'] else []) ++ ds1 ++ ['.']) ++ d :: ds := by rw [hs]; simp
        rw [e, hmem]
        simp only [ne_eq, Option.some.injEq]
        intro e2
        have hm : (d :: ds).getLast (by simp) ∈ d :: ds := List.getLast_mem _
        have := h2 _ hm
        rw [e2] at this; simp [dot_not_digit] at this
      have hl : (t.getLast? == some '.') = false := by simpa using hlast
      simp only [hl, Bool.false_eq_true, if_false, takeWhile_digits ds1 (d :: ds) h1, dropWhile_digits ds1 (d :: ds) h1]
      have hfp : (d :: ds).all isDigitC = true := digits_all h2
      simp only [hfp, List.isEmpty_cons, Bool.and_false, Bool.not_false, Bool.and_self, if_true]
      split
      · have := mkFlt_no_crash
        rename_i p k _
        have h' := (isCrash_false_iff (Val.mkFlt p k)).mp (mkFlt_no_crash p k) x
        exact h'
      · simp

end Duckling

namespace Duckling

/-- the state of a live number token: its text so far is a prefix of a well-shaped number -/
def NumSt (str : Str) (isFp : Bool) (index : Int) (isNeg closed : Bool) : Prop :=
  ∃ ds1 ds2, NumShape str isFp isNeg ds1 ds2 ∧ (closed = true → ds1 ++ ds2 ≠ []) ∧ index + 1 = str.length ∧ str ≠ []

def OutGood (out : List Tok) : Prop := ∀ t ∈ out, t.cls = .num → GoodNumText t.text

/-- invariant of the scanner state between two steps -/
structure LexInv (s : LS) : Prop where
  strNil : s.tok = none → s.str = []
  num : ∀ isFp index isNeg closed, s.tok = some (.num isFp index isNeg closed) → NumSt s.str isFp index isNeg closed
  wf : ∀ c k, s.tok = some (.kw c k) → c ≠ .num
  out : OutGood s.out

theorem digits_append {a b : Str} (ha : Digits a) (hb : Digits b) : Digits (a ++ b) := by
  intro c hc; rcases List.mem_append.mp hc with h | h; exact ha c h; exact hb c h

theorem digits_nil : Digits [] := fun _ h => nomatch h

theorem digits_single {c : Char} (h : isDigitC c = true) : Digits [c] := by
  intro x hx; simp at hx; subst hx; exact h

/-- the first character of a number token -/
theorem addChar_num_fresh (ch : Char) (t' : TokSt) (h : addChar (.num false (-1) false true) ch = .ok (t', .T)) :
    ∃ isFp isNeg closed, t' = .num isFp 0 isNeg closed ∧ NumSt [ch] isFp 0 isNeg closed := by
  simp only [addChar] at h
  by_cases hd : isDigitC ch = true
  · simp only [hd, if_true, Outcome.ok.injEq, Prod.mk.injEq, and_true] at h
    refine ⟨false, false, true, by rw [← h]; rfl, [ch], [], ⟨digits_single hd, digits_nil, by simp, fun _ => rfl⟩, by simp, by simp, by simp⟩
  · have hd' : isDigitC ch = false := by simpa using hd
    simp only [hd', Bool.false_eq_true, if_false] at h
    by_cases hm : ch = '-'
    · subst hm
      simp at h
      refine ⟨false, true, false, by rw [← h], [], [], ⟨digits_nil, digits_nil, by simp, fun _ => rfl⟩, by simp, by simp, by simp⟩
    · have hm' : (ch == '-') = false := by simpa using hm
      by_cases hp : ch = '.'
      · subst hp
        simp at h
        refine ⟨true, false, false, by rw [← h], [], [], ⟨digits_nil, digits_nil, by simp, by simp⟩, by simp, by simp, by simp⟩
      · have hp' : (ch == '.') = false := by simpa using hp
        simp [hm', hp'] at h

/-- a later character accepted by a live number token -/
theorem addChar_num_live (str : Str) (isFp : Bool) (index : Int) (isNeg closed : Bool) (ch : Char) (t' : TokSt)
    (hst : NumSt str isFp index isNeg closed)
    (h : addChar (.num isFp index isNeg closed) ch = .ok (t', .T)) :
    ∃ isFp' isNeg' closed', t' = .num isFp' (index + 1) isNeg' closed' ∧ NumSt (str ++ [ch]) isFp' (index + 1) isNeg' closed' := by
  obtain ⟨ds1, ds2, ⟨h1, h2, hs, h3⟩, hcl, hidx, hne⟩ := hst
  have hidx0 : ¬ (index + 1 = 0) := by
    intro e; rw [e] at hidx
    have : str.length = 0 := by exact_mod_cast hidx.symm
    exact hne (List.length_eq_zero_iff.mp this)
  have hlen : index + 1 + 1 = ((str ++ [ch]).length : Int) := by simp [← hidx]
  simp only [addChar] at h
  by_cases hd : isDigitC ch = true
  · simp only [hd, if_true, Outcome.ok.injEq, Prod.mk.injEq, and_true] at h
    refine ⟨isFp, isNeg, true, by rw [← h], ?_⟩
    cases isFp with
    | false =>
      have : ds2 = [] := h3 rfl
      subst this
      exact ⟨ds1 ++ [ch], [], ⟨digits_append h1 (digits_single hd), digits_nil, by rw [hs]; simp, fun _ => rfl⟩,
        by simp, hlen, by simp⟩
    | true =>
      exact ⟨ds1, ds2 ++ [ch], ⟨h1, digits_append h2 (digits_single hd), by rw [hs]; simp, by simp⟩, by simp, hlen, by simp⟩
  · have hd' : isDigitC ch = false := by simpa using hd
    have hi0 : (index + 1 == 0) = false := by simpa using hidx0
    simp only [hd', Bool.false_eq_true, if_false, hi0, Bool.false_and] at h
    by_cases hp : (ch == '.' && !isFp) = true
    · simp only [hp, if_true, Outcome.ok.injEq, Prod.mk.injEq, and_true] at h
      have hch : ch = '.' := by simp at hp; exact hp.1
      have hfp : isFp = false := by simp at hp; exact hp.2
      subst hch; subst hfp
      have : ds2 = [] := h3 rfl
      subst this
      refine ⟨true, isNeg, closed, by rw [← h], ds1, [], ⟨h1, digits_nil, by rw [hs]; simp, by simp⟩, ?_, hlen, by simp⟩
      intro hc; simpa using hcl hc
    · have hp' : (ch == '.' && !isFp) = false := by simpa using hp
      simp only [hp', Bool.false_eq_true, if_false] at h
      split at h <;> simp at h

theorem addChar_num_flags (isFp : Bool) (index : Int) (isNeg closed : Bool) (ch : Char) (t' : TokSt) (r : IsTok)
    (h : addChar (.num isFp index isNeg closed) ch = .ok (t', r)) (hr : r = .F ∨ r = .Reset) :
    t' = .num isFp (index + 1) isNeg closed := by
  simp only [addChar] at h
  split at h
  · simp at h; rcases hr with hr | hr <;> simp [← h.2] at hr
  · split at h
    · simp at h; rcases hr with hr | hr <;> simp [← h.2] at hr
    · split at h
      · simp at h; rcases hr with hr | hr <;> simp [← h.2] at hr
      · split at h <;> (simp at h; exact h.1.symm)

theorem addChar_num_outcomes (isFp : Bool) (index : Int) (isNeg closed : Bool) (ch : Char) (t' : TokSt) (r : IsTok)
    (h : addChar (.num isFp index isNeg closed) ch = .ok (t', r)) : r = .T ∨ r = .F ∨ r = .Reset := by
  simp only [addChar] at h
  repeat' split at h
  all_goals (simp at h; simp [← h.2])

end Duckling

namespace Duckling

/-- never a crash, and a successful result satisfies the invariant -/
def GoodO (o : Outcome LS) : Prop := (∀ x, o ≠ .crash x) ∧ ∀ s', o = .ok s' → LexInv s'

def GoodOB (o : Outcome (LS × Bool)) : Prop := (∀ x, o ≠ .crash x) ∧ ∀ p, o = .ok p → LexInv p.1

theorem setValueCheck_no_crash (c : Cls) (kws : List Str) (v : Str) (x : String) : setValueCheck c kws v ≠ .crash x := by
  unfold setValueCheck
  split
  · split <;> simp
  · split <;> simp
  · simp

theorem appendSwitch_no_crash (s : LS) (t : TokSt) (ht : s.tok = some t) (x : String) : appendSwitch s ≠ .crash x := by
  unfold appendSwitch
  simp only [ht]
  split
  · simp
  · have := setValueCheck_no_crash t.cls t.kws s.str
    cases hsv : setValueCheck t.cls t.kws s.str with
    | ok u => simp
    | cerr k => simp
    | crash e => exact absurd hsv (this e)
    | oom w => simp

theorem appendSwitch_ok (s s' : LS) (h : appendSwitch s = .ok s') :
    ∃ t, s.tok = some t ∧ t.closed = true ∧ s'.tok = none ∧ s'.str = [] ∧
      s'.out = ⟨t.cls, s.str, t.opp⟩ :: s.out := by
  unfold appendSwitch at h
  cases ht : s.tok with
  | none => simp [ht] at h
  | some t =>
    simp only [ht] at h
    split at h
    · cases h
    · rename_i hcl
      cases hsv : setValueCheck t.cls t.kws s.str with
      | ok u => simp only [hsv] at h; cases h; exact ⟨t, rfl, by simpa using hcl, rfl, rfl, rfl⟩
      | cerr k => simp [hsv] at h
      | crash e => simp [hsv] at h
      | oom w => simp [hsv] at h

/-- finishing a token: the state is clean again, and a number token's text is well-shaped -/
theorem appendSwitch_good (s : LS) (t : TokSt) (ht : s.tok = some t) (hout : OutGood s.out)
    (hwf : ∀ c k, t = .kw c k → c ≠ .num)
    (hnum : ∀ isFp index isNeg closed, t = .num isFp index isNeg closed → closed = true → GoodNumText s.str) :
    GoodO (appendSwitch s) := by
  refine ⟨appendSwitch_no_crash s t ht, ?_⟩
  intro s' h
  obtain ⟨t2, ht2, hcl, htok, hstr, hout'⟩ := appendSwitch_ok s s' h
  rw [ht] at ht2; cases ht2
  refine ⟨fun _ => hstr, fun _ _ _ _ h => (by rw [htok] at h; cases h), fun _ _ h => (by rw [htok] at h; cases h), ?_⟩
  rw [hout']
  intro tk htk hcls
  rcases List.mem_cons.mp htk with rfl | htk
  · simp only at hcls
    cases t with
    | num isFp index isNeg closed => exact hnum _ _ _ _ rfl (by simpa [TokSt.closed] using hcl)
    | str a b => simp [TokSt.cls] at hcls
    | kw c k =>
      simp only [TokSt.cls] at hcls
      exact absurd hcls (hwf c k rfl)
    | grp a b c d => simp [TokSt.cls] at hcls
  · exact hout tk htk hcls

theorem resetS_inv (s : LS) (hout : OutGood s.out) : LexInv (resetS s) :=
  ⟨fun _ => rfl, fun _ _ _ _ h => (by cases h), fun _ _ h => (by cases h), hout⟩

end Duckling

namespace Duckling

theorem addChar_no_crash (t : TokSt) (ch : Char) (x : String) : addChar t ch ≠ .crash x := by
  unfold addChar
  repeat' split
  all_goals first | simp; done | (simp only []; repeat' split) <;> simp

theorem addChar_kw (c : Cls) (k : KwSt) (ch : Char) (t' : TokSt) (r : IsTok) (h : addChar (.kw c k) ch = .ok (t', r)) :
    ∃ k', t' = .kw c k' := by
  simp only [addChar] at h
  split at h
  · simp at h; exact ⟨k, h.1.symm⟩
  · simp at h; exact ⟨_, h.1.symm⟩

theorem addChar_num_of (t : TokSt) (ch : Char) (a : Bool) (i : Int) (n c : Bool) (r : IsTok)
    (h : addChar t ch = .ok (.num a i n c, r)) : ∃ a0 i0 n0 c0, t = .num a0 i0 n0 c0 := by
  cases t with
  | num a0 i0 n0 c0 => exact ⟨_, _, _, _, rfl⟩
  | kw c0 k => obtain ⟨k', hk⟩ := addChar_kw _ _ _ _ _ h; cases hk
  | str x y =>
    simp only [addChar] at h
    repeat' split at h
    all_goals simp at h
  | grp d ig cl o =>
    simp only [addChar] at h
    repeat' split at h
    all_goals simp at h

theorem addChar_kw_of (t : TokSt) (ch : Char) (c : Cls) (k : KwSt) (r : IsTok)
    (h : addChar t ch = .ok (.kw c k, r)) : ∃ k0, t = .kw c k0 := by
  cases t with
  | num a0 i0 n0 c0 =>
    simp only [addChar] at h
    repeat' split at h
    all_goals simp at h
  | kw c0 k0 => obtain ⟨k', hk⟩ := addChar_kw _ _ _ _ _ h; cases hk; exact ⟨_, rfl⟩
  | str x y =>
    simp only [addChar] at h
    repeat' split at h
    all_goals simp at h
  | grp d ig cl o =>
    simp only [addChar] at h
    repeat' split at h
    all_goals simp at h

/-- what `resolve` needs to know about the token it was handed -/
def NumCase (str : Str) (t' : TokSt) (r : IsTok) (ch : Char) (fis : Bool) : Prop :=
  ∀ a i n c, t' = .num a i n c →
    (r = .T ∧ NumSt (str ++ [ch]) a i n c) ∨ (r = .F ∧ (fis = true → c = true → GoodNumText str)) ∨ r = .Reset

theorem bindAS_good (s2 : LS) (b : Bool) (t' : TokSt) (ht : s2.tok = some t') (hout : OutGood s2.out)
    (hwf : ∀ c k, t' = .kw c k → c ≠ .num)
    (hnum : ∀ a i n c, t' = .num a i n c → c = true → GoodNumText s2.str) :
    (∀ x, (appendSwitch s2 >>= fun s' => (Outcome.ok (s', b) : Outcome (LS × Bool))) ≠ .crash x) ∧
    ∀ s' brk, (appendSwitch s2 >>= fun s' => (Outcome.ok (s', b) : Outcome (LS × Bool))) = .ok (s', brk) →
      OutGood s'.out ∧ LexInv s' ∧ s'.str = [] := by
  have hg := appendSwitch_good s2 t' ht hout hwf hnum
  cases happ : appendSwitch s2 with
  | ok s3 =>
    refine ⟨by simp, ?_⟩
    intro s' brk h
    simp only [Outcome.bind_ok, Outcome.ok.injEq, Prod.mk.injEq] at h
    obtain ⟨rfl, _⟩ := h
    have hinv := hg.2 s3 happ
    obtain ⟨_, _, _, _, hstr, _⟩ := appendSwitch_ok s2 s3 happ
    exact ⟨hinv.out, hinv, hstr⟩
  | cerr k => simp
  | crash e => exact absurd happ (hg.1 e)
  | oom w => simp

theorem resolve_good (s : LS) (t' : TokSt) (r : IsTok) (ch : Char) (fis : Bool)
    (ht : s.tok = some t') (hout : OutGood s.out) (hwf : ∀ c k, t' = .kw c k → c ≠ .num)
    (hnum : NumCase s.str t' r ch fis) :
    (∀ x, resolve s r ch fis ≠ .crash x) ∧
    ∀ s' brk, resolve s r ch fis = .ok (s', brk) →
      OutGood s'.out ∧ ((brk = true ∨ fis = true) → LexInv s') ∧ (s.str = [] → brk = false → s'.str = []) := by
  cases r with
  | F =>
    cases fis with
    | false =>
      simp only [resolve, Bool.false_eq_true, if_false]
      refine ⟨by simp, ?_⟩
      intro s' brk h
      simp only [Outcome.ok.injEq, Prod.mk.injEq] at h
      obtain ⟨rfl, rfl⟩ := h
      exact ⟨hout, by simp, fun h _ => h⟩
    | true =>
      simp only [resolve, if_true]
      have hn : ∀ a i n c, t' = .num a i n c → c = true → GoodNumText s.str := by
        intro a i n c e hc
        rcases hnum a i n c e with ⟨h, _⟩ | ⟨_, h⟩ | h
        · cases h
        · exact h rfl hc
        · cases h
      have := bindAS_good s false t' ht hout hwf hn
      refine ⟨this.1, ?_⟩
      intro s' brk h
      obtain ⟨h1, h2, h3⟩ := this.2 s' brk h
      exact ⟨h1, fun _ => h2, fun _ _ => h3⟩
  | T =>
    simp only [resolve]
    refine ⟨by simp, ?_⟩
    intro s' brk h
    simp only [Outcome.ok.injEq, Prod.mk.injEq] at h
    obtain ⟨rfl, rfl⟩ := h
    refine ⟨hout, fun _ => ⟨?_, ?_, ?_, hout⟩, by simp⟩
    · intro h; simp [ht] at h
    · intro a i n c h
      simp only [ht, Option.some.injEq] at h
      rcases hnum a i n c h with ⟨_, h⟩ | ⟨h, _⟩ | h
      · exact h
      · cases h
      · cases h
    · intro c k h
      simp only [ht, Option.some.injEq] at h
      exact hwf c k h
  | Cont =>
    simp only [resolve]
    have hn : ∀ a i n c, t' = .num a i n c → c = true → GoodNumText (s.str ++ [ch]) := by
      intro a i n c e hc
      rcases hnum a i n c e with ⟨h, _⟩ | ⟨h, _⟩ | h <;> cases h
    have := bindAS_good { s with str := s.str ++ [ch], idx := s.idx + 1 } true t' ht hout hwf hn
    refine ⟨this.1, ?_⟩
    intro s' brk h
    obtain ⟨h1, h2, h3⟩ := this.2 s' brk h
    exact ⟨h1, fun _ => h2, fun _ _ => h3⟩
  | Reset =>
    simp only [resolve, ht]
    refine ⟨by simp, ?_⟩
    intro s' brk h
    simp only [Outcome.ok.injEq, Prod.mk.injEq] at h
    obtain ⟨rfl, rfl⟩ := h
    exact ⟨hout, fun _ => resetS_inv _ hout, fun _ _ => rfl⟩
  | TCont =>
    simp only [resolve]
    refine ⟨by simp, ?_⟩
    intro s' brk h
    simp only [Outcome.ok.injEq, Prod.mk.injEq] at h
    obtain ⟨rfl, rfl⟩ := h
    refine ⟨hout, fun _ => ⟨?_, ?_, ?_, hout⟩, by simp⟩
    · intro h; simp [ht] at h
    · intro a i n c h
      simp only [ht, Option.some.injEq] at h
      rcases hnum a i n c h with ⟨h, _⟩ | ⟨h, _⟩ | h <;> cases h
    · intro c k h
      simp only [ht, Option.some.injEq] at h
      exact hwf c k h
  | FSkip =>
    simp only [resolve]
    have hn : ∀ a i n c, t' = .num a i n c → c = true → GoodNumText s.str := by
      intro a i n c e hc
      rcases hnum a i n c e with ⟨h, _⟩ | ⟨h, _⟩ | h <;> cases h
    have := bindAS_good { s with idx := s.idx + 1 } false t' ht hout hwf hn
    refine ⟨this.1, ?_⟩
    intro s' brk h
    obtain ⟨h1, h2, h3⟩ := this.2 s' brk h
    exact ⟨h1, fun _ => h2, fun _ _ => h3⟩

end Duckling

namespace Duckling

theorem fresh_kw (vars : List Str) (c : Cls) (c' : Cls) (k : KwSt) (h : fresh vars c = .kw c' k) : c' = c ∧ c ≠ .num := by
  cases c <;> simp [fresh] at h <;> simp [← h.1]

theorem fresh_num (vars : List Str) (c : Cls) (a : Bool) (i : Int) (n cl : Bool) (h : fresh vars c = .num a i n cl) :
    fresh vars c = .num false (-1) false true := by
  cases c <;> simp [fresh] at h ⊢

theorem fresh_addChar (vars : List Str) (c : Cls) (ch : Char) (t' : TokSt) (r : IsTok)
    (h : addChar (fresh vars c) ch = .ok (t', r)) :
    (∀ c' k, t' = .kw c' k → c' ≠ .num) ∧ NumCase [] t' r ch false := by
  constructor
  · intro c' k e
    subst e
    obtain ⟨k0, hk0⟩ := addChar_kw_of _ _ _ _ _ h
    have := fresh_kw vars c c' k0 hk0
    rw [this.1]; exact this.2
  · intro a i n cl e
    subst e
    obtain ⟨a0, i0, n0, c0, h0⟩ := addChar_num_of _ _ _ _ _ _ _ h
    have hf := fresh_num vars c _ _ _ _ h0
    rw [hf] at h
    rcases addChar_num_outcomes _ _ _ _ _ _ _ h with hr | hr | hr
    · subst hr
      obtain ⟨a', n', c', e, hst⟩ := addChar_num_fresh ch _ h
      cases e
      exact Or.inl ⟨rfl, by simpa using hst⟩
    · exact Or.inr (Or.inl ⟨hr, by simp⟩)
    · exact Or.inr (Or.inr hr)

theorem verifyChar_good (vars : List Str) (ch : Char) (cls : List Cls) :
    ∀ (s : LS), s.str = [] → OutGood s.out → GoodO (verifyChar vars s ch cls) := by
  induction cls with
  | nil => intro s _ _; simp [verifyChar, GoodO]
  | cons c cs ih =>
    intro s hstr hout
    unfold verifyChar
    split
    · exact ih s hstr hout
    · cases hadd : addChar (fresh vars c) ch with
      | ok p =>
        obtain ⟨t', r⟩ := p
        simp only [hadd, Outcome.bind_ok]
        have hf := fresh_addChar vars c ch t' r hadd
        have hres := resolve_good { s with tok := some t' } t' r ch false rfl hout hf.1 (by simpa [hstr] using hf.2)
        cases hr : resolve { s with tok := some t' } r ch false with
        | ok q =>
          obtain ⟨s', brk⟩ := q
          simp only [hr, Outcome.bind_ok]
          obtain ⟨h1, h2, h3⟩ := hres.2 s' brk hr
          cases brk with
          | true =>
            simp only [if_true]
            exact ⟨by simp, fun s2 e => by cases e; exact h2 (Or.inl rfl)⟩
          | false =>
            simp only [Bool.false_eq_true, if_false]
            exact ih s' (h3 hstr rfl) h1
        | cerr k => simp [hr, GoodO]
        | crash e => exact absurd hr (hres.1 e)
        | oom w => simp [hr, GoodO]
      | cerr k => simp [hadd, GoodO]
      | crash e => exact absurd hadd (addChar_no_crash _ _ e)
      | oom w => simp [hadd, GoodO]

theorem numSt_good {str : Str} {a : Bool} {i : Int} {n c : Bool} (h : NumSt str a i n c) (hc : c = true) : GoodNumText str := by
  obtain ⟨ds1, ds2, hsh, hcl, _, _⟩ := h
  exact ⟨a, n, ds1, ds2, hsh, hcl hc⟩

theorem lexStep_good (vars : List Str) (ch : Char) (s : LS) (hs : LexInv s) : GoodO (lexStep vars ch s) := by
  unfold lexStep
  cases ht : s.tok with
  | none =>
    simp only []
    split
    · refine ⟨by simp, ?_⟩
      intro s' e
      cases e
      exact ⟨fun _ => hs.strNil ht, fun a i n c h => by simp [ht] at h, fun c k h => by simp [ht] at h, hs.out⟩
    · exact verifyChar_good vars ch _ s (hs.strNil ht) hs.out
  | some t =>
    simp only []
    cases hadd : addChar t ch with
    | ok p =>
      obtain ⟨t', r⟩ := p
      simp only [Outcome.bind_ok]
      have hwf : ∀ c k, t' = .kw c k → c ≠ .num := by
        intro c k e; subst e
        obtain ⟨k0, hk0⟩ := addChar_kw_of _ _ _ _ _ hadd
        subst hk0
        exact hs.wf c k0 ht
      have hnum : NumCase s.str t' r ch true := by
        intro a i n c e; subst e
        obtain ⟨a0, i0, n0, c0, h0⟩ := addChar_num_of _ _ _ _ _ _ _ hadd
        subst h0
        have hst := hs.num _ _ _ _ ht
        rcases addChar_num_outcomes _ _ _ _ _ _ _ hadd with hr | hr | hr
        · subst hr
          obtain ⟨a', n', c', e, hst'⟩ := addChar_num_live _ _ _ _ _ _ _ hst hadd
          cases e
          exact Or.inl ⟨rfl, hst'⟩
        · have e := addChar_num_flags _ _ _ _ _ _ _ hadd (Or.inl hr)
          cases e
          exact Or.inr (Or.inl ⟨hr, fun _ hc => numSt_good hst hc⟩)
        · exact Or.inr (Or.inr hr)
      have hres := resolve_good { s with tok := some t' } t' r ch true rfl hs.out hwf hnum
      cases hr : resolve { s with tok := some t' } r ch true with
      | ok q =>
        obtain ⟨s', brk⟩ := q
        simp only [Outcome.bind_ok]
        obtain ⟨h1, h2, h3⟩ := hres.2 s' brk hr
        exact ⟨by simp, fun s2 e => by cases e; exact h2 (Or.inr rfl)⟩
      | cerr k => simp [GoodO]
      | crash e => exact absurd hr (hres.1 e)
      | oom w => simp [GoodO]
    | cerr k => simp [GoodO]
    | crash e => exact absurd hadd (addChar_no_crash _ _ e)
    | oom w => simp [GoodO]

theorem lexLoop_good (vars : List Str) (inp : Array Char) : ∀ (f : Nat) (s : LS), LexInv s → GoodO (lexLoop vars inp f s) := by
  intro f
  induction f with
  | zero => intro s _; simp [lexLoop, GoodO]
  | succ f ih =>
    intro s hs
    unfold lexLoop
    split
    · rename_i hlt
      have hg := lexStep_good vars inp[s.idx] s hs
      cases hst : lexStep vars inp[s.idx] s with
      | ok s' => simp only []; exact ih s' (hg.2 s' hst)
      | cerr k => simp [GoodO]
      | crash e => exact absurd hst (hg.1 e)
      | oom w => simp [GoodO]
    · exact ⟨by simp, fun s' e => by cases e; exact hs⟩

theorem lexInv_init : LexInv {} :=
  ⟨fun _ => rfl, fun _ _ _ _ h => (by cases h), fun _ _ h => (by cases h), fun _ h => (by cases h)⟩

/-- the scanner never crashes, and every number token it returns has a text `int()`/`float()` accept -/
theorem lex_good (vars : List Str) (inp : Str) :
    (∀ x, lex vars inp ≠ .crash x) ∧
    ∀ toks, lex vars inp = .ok toks → ∀ t ∈ toks, t.cls = .num → GoodNumText t.text := by
  have hl := lexLoop_good vars inp.toArray (lexFuel inp.length) {} lexInv_init
  unfold lex
  cases hloop : lexLoop vars inp.toArray (lexFuel inp.length) {} with
  | ok s =>
    simp only [Outcome.bind_ok]
    have hs := hl.2 s hloop
    have hfin : GoodO (lexFinish s) := by
      unfold lexFinish
      cases ht : s.tok with
      | none => exact ⟨by simp, fun s' e => by cases e; exact hs⟩
      | some t =>
        exact appendSwitch_good s t ht hs.out (fun c k e => by subst e; exact hs.wf c k ht)
          (fun a i n c e hc => by subst e; exact numSt_good (hs.num _ _ _ _ ht) hc)
    cases hf : lexFinish s with
    | ok s2 =>
      simp only [Outcome.bind_ok]
      have h2 := hfin.2 s2 hf
      unfold lexResult
      split
      · simp
      · refine ⟨by simp, ?_⟩
        intro toks e t ht
        cases e
        exact h2.out t (List.mem_reverse.mp ht)
    | cerr k => simp
    | crash e => exact absurd hf (hfin.1 e)
    | oom w => simp
  | cerr k => simp
  | crash e => exact absurd hloop (hl.1 e)
  | oom w => simp

end Duckling
