import Duckling.Model.Expr
import Duckling.Lemmas.RBasic
import Duckling.Lemmas.LexDigits
/-
  The character scanner on a variable name (C20: accepted names are usable) — for EVERY set of names in scope, names that are
  prefixes of one another included: a name of the environment, standing alone, is scanned into exactly one Variable token with
  that text and evaluates to the variable's value.  The keyword matcher (`parse_for_keywords`) keeps the set of names that still
  have the consumed text as a prefix; the proof is that invariant, by induction over the scanner's character loop.
  (Names whose first letter is T or F first go through the Boolean class and back-track: not covered here; names that are a
  prefix or an extension of TRUE / FALSE are the known finding D14.)
-/
namespace Duckling

/-- the names that still have `p` as a prefix, as indices into the name list -/
def cand (names : List Str) (p : Str) : List Nat :=
  (List.range names.length).filter fun i => startsWith p (names.getD i [])

theorem isPrefixOf_snoc_imp (p : Str) (c : Char) (y : Str) (h : (p ++ [c]).isPrefixOf y = true) : p.isPrefixOf y = true := by
  induction p generalizing y with
  | nil => simp
  | cons a p ih =>
    cases y with
    | nil => simp at h
    | cons b y =>
      simp only [List.cons_append, List.isPrefixOf, Bool.and_eq_true] at h ⊢
      exact ⟨h.1, ih y h.2⟩

theorem cand_snoc (names : List Str) (p : Str) (c : Char) :
    (cand names p).filter (fun i => startsWith (p ++ [c]) (names.getD i [])) = cand names (p ++ [c]) := by
  unfold cand
  rw [List.filter_filter]
  congr 1
  funext i
  simp only [startsWith]
  cases h : (p ++ [c]).isPrefixOf (names.getD i []) with
  | false => simp only [Bool.and_false, Bool.false_and]
  | true => simp only [isPrefixOf_snoc_imp p c _ h, Bool.and_true, Bool.true_and]

theorem cand_nil (names : List Str) : cand names [] = List.range names.length := by
  unfold cand startsWith
  simp

theorem take_isPrefixOf (x : Str) (j : Nat) : (x.take j).isPrefixOf x = true := by
  induction x generalizing j with
  | nil => simp
  | cons a x ih =>
    cases j with
    | zero => simp
    | succ j => simp [List.isPrefixOf, ih]

/-- the index of a name of the list is a candidate for every prefix of the name -/
theorem mem_cand (names : List Str) (x : Str) (ix : Nat) (hix : ix < names.length) (hx : names.getD ix [] = x) (j : Nat) :
    ix ∈ cand names (x.take j) := by
  unfold cand
  simp only [List.mem_filter, List.mem_range, startsWith, hx]
  exact ⟨hix, take_isPrefixOf x j⟩

/-- the matcher's state after `j` characters of the name `x` -/
def KwInv (names : List Str) (x : Str) (j : Nat) (k : KwSt) : Prop :=
  k.kws = names ∧ k.cur = x.take j ∧
  (match k.expected with | some e => e | none => List.range names.length) = cand names (x.take j) ∧
  (0 < j → ∃ e, k.expected = some e)

theorem take_succ_eq (x : Str) (j : Nat) (h : j < x.length) : x.take j ++ [x[j]] = x.take (j + 1) := by
  simp [List.take_append_getElem]

theorem take_eq_self_iff (x : Str) (j : Nat) (hj : j ≤ x.length) : (x == x.take j) = decide (j = x.length) := by
  by_cases h : j = x.length
  · subst h; simp
  · have hlt : j < x.length := by omega
    have : x ≠ x.take j := by
      intro he
      have := congrArg List.length he
      simp at this
      omega
    simp [h, this]

/-- the candidates the matcher keeps after one more character -/
def kwNew (k : KwSt) (ch : Char) : List Nat :=
  (match k.expected with | some e => e | none => List.range k.kws.length).filter
    fun i => startsWith (k.cur ++ [ch]) (k.kws.getD i [])

theorem kwAdd_nonempty (k : KwSt) (ch : Char) (h : (kwNew k ch).isEmpty = false) :
    kwAdd k ch =
      (if (kwNew k ch).length > 1 then ({ kws := k.kws, expected := some (kwNew k ch), cur := k.cur ++ [ch] }, .T)
       else if k.kws.getD ((kwNew k ch).headD 0) [] == k.cur ++ [ch] then
         ({ kws := k.kws, expected := some (kwNew k ch), cur := k.cur ++ [ch] }, .Cont)
       else ({ kws := k.kws, expected := some (kwNew k ch), cur := k.cur ++ [ch] }, .T)) := by
  unfold kwAdd
  show (if (kwNew k ch).isEmpty = true then _ else _) = _
  rw [h]
  rfl

/-- one character of the name: the candidates shrink to those with the longer prefix; the matcher goes on (`T`), or — the name
    complete and no other name extending it — finishes the token (`Cont`) -/
theorem kwAdd_name (names : List Str) (x : Str) (ix : Nat) (hix : ix < names.length) (hx : names.getD ix [] = x)
    (j : Nat) (hj : j < x.length) (k : KwSt) (hk : KwInv names x j k) :
    ∃ k' r, kwAdd k x[j] = (k', r) ∧ KwInv names x (j + 1) k' ∧
      (r = .T ∨ (r = .Cont ∧ j + 1 = x.length)) := by
  obtain ⟨h1, h2, h3, _⟩ := hk
  have hne : cand names (x.take (j + 1)) ≠ [] := List.ne_nil_of_mem (mem_cand names x ix hix hx (j + 1))
  have hnew : kwNew k x[j] = cand names (x.take (j + 1)) := by
    unfold kwNew
    rw [h1, h3, h2, cand_snoc, take_succ_eq x j hj]
  have hemp : (kwNew k x[j]).isEmpty = false := by
    rw [hnew]
    cases hc : cand names (x.take (j + 1)) with
    | nil => exact absurd hc hne
    | cons a b => rfl
  rw [kwAdd_nonempty k x[j] hemp, hnew]
  have hinv : KwInv names x (j + 1) { kws := k.kws, expected := some (cand names (x.take (j + 1))), cur := k.cur ++ [x[j]] } :=
    ⟨h1, by rw [h2, take_succ_eq x j hj], rfl, fun _ => ⟨_, rfl⟩⟩
  by_cases hlen : (cand names (x.take (j + 1))).length > 1
  · exact ⟨_, .T, by simp [hlen], hinv, Or.inl rfl⟩
  · -- a single candidate: it is the name itself
    have hsingle : (cand names (x.take (j + 1))).headD 0 = ix := by
      have hm := mem_cand names x ix hix hx (j + 1)
      cases hc : cand names (x.take (j + 1)) with
      | nil => exact absurd hc hne
      | cons a b =>
        rw [hc] at hm hlen
        cases b with
        | nil => simpa using (List.mem_singleton.mp hm).symm
        | cons _ _ => simp at hlen
    have hcur : k.cur ++ [x[j]] = x.take (j + 1) := by rw [h2, take_succ_eq x j hj]
    have heq : (k.kws.getD ((cand names (x.take (j + 1))).headD 0) [] == k.cur ++ [x[j]]) = decide (j + 1 = x.length) := by
      rw [hsingle, h1, hx, hcur]
      exact take_eq_self_iff x (j + 1) (by omega)
    by_cases hend : j + 1 = x.length
    · refine ⟨_, .Cont, ?_, hinv, Or.inr ⟨rfl, hend⟩⟩
      rw [if_neg hlen, heq]
      simp only [hend, decide_true, if_true]
    · refine ⟨_, .T, ?_, hinv, Or.inl rfl⟩
      rw [if_neg hlen, heq]
      simp only [hend, decide_false, Bool.false_eq_true, if_false]

/-- the scanner inside a Variable token after `j` characters of the name -/
def varSt (x : Str) (j : Nat) (k : KwSt) : LS :=
  { idx := j, start := 0, tok := some (.kw .var k), isOp := false, str := x.take j, out := [], black := [.bool] }

/-- the scanner after the finished Variable token -/
def doneSt (x : Str) : LS :=
  { idx := x.length, start := x.length, tok := none, isOp := true, str := [], out := [⟨.var, x, false⟩], black := [] }

/-- the scanner has read the name: either the token is finished, or it is still open with the whole name consumed -/
def NameDone (names : List Str) (x : Str) (s : LS) : Prop :=
  s = doneSt x ∨ ∃ k, s = varSt x x.length k ∧ k.kws = names

theorem names_ne_nil (names : List Str) (ix : Nat) (hix : ix < names.length) : names.isEmpty = false := by
  cases names with
  | nil => simp at hix
  | cons a b => rfl

/-- one further character of the name inside the Variable token -/
theorem lexStep_name (vars : List Str) (names : List Str) (x : Str) (ix : Nat) (hix : ix < names.length) (hx : names.getD ix [] = x)
    (hin : names.contains x = true) (j : Nat) (hj : j < x.length) (k : KwSt) (hk : KwInv names x j k) :
    ∃ s', lexStep vars (x[j]) (varSt x j k) = .ok s' ∧
      ((∃ k', s' = varSt x (j + 1) k' ∧ KwInv names x (j + 1) k') ∨ (s' = doneSt x ∧ j + 1 = x.length)) := by
  obtain ⟨k', r, hadd, hinv, hr⟩ := kwAdd_name names x ix hix hx j hj k hk
  have hkws : k.kws.isEmpty = false := by rw [hk.1]; exact names_ne_nil names ix hix
  rcases hr with rfl | ⟨rfl, hend⟩
  · refine ⟨varSt x (j + 1) k', ?_, Or.inl ⟨k', rfl, hinv⟩⟩
    simp only [lexStep, varSt, addChar, hkws, Bool.false_eq_true, if_false, hadd, Outcome.bind_ok, resolve]
    rw [take_succ_eq x j hj]
  · refine ⟨doneSt x, ?_, Or.inr ⟨rfl, hend⟩⟩
    have hk' : k'.kws = names := hinv.1
    have hmem : x ∈ names := by simpa using hin
    simp only [lexStep, varSt, addChar, hkws, Bool.false_eq_true, if_false, hadd, Outcome.bind_ok, resolve]
    rw [take_succ_eq x j hj, hend, List.take_length]
    simp [appendSwitch, TokSt.closed, setValueCheck, TokSt.cls, TokSt.kws, hk', hmem, TokSt.opp, doneSt, hend]

theorem lexLoop_name (vars : List Str) (names : List Str) (x : Str) (ix : Nat) (hix : ix < names.length) (hx : names.getD ix [] = x)
    (hin : names.contains x = true) :
    ∀ (m j : Nat) (k : KwSt), j + m = x.length → KwInv names x j k → ∀ fuel, m + 1 ≤ fuel →
      ∃ s, lexLoop vars x.toArray fuel (varSt x j k) = .ok s ∧ NameDone names x s := by
  intro m
  induction m with
  | zero =>
    intro j k hj hk fuel hf
    have : j = x.length := by omega
    subst this
    cases fuel with
    | zero => omega
    | succ f => exact ⟨_, by simp [lexLoop, varSt], Or.inr ⟨k, rfl, hk.1⟩⟩
  | succ m ih =>
    intro j k hj hk fuel hf
    cases fuel with
    | zero => omega
    | succ f =>
      have hlt : j < x.length := by omega
      obtain ⟨s', hstep, hs'⟩ := lexStep_name vars names x ix hix hx hin j hlt k hk
      unfold lexLoop
      have hidx : (varSt x j k).idx < x.toArray.size := by simpa [varSt] using hlt
      simp only [hidx, dite_true]
      have hstep' : lexStep vars (x.toArray[(varSt x j k).idx]'hidx) (varSt x j k) = .ok s' := by
        simpa [varSt] using hstep
      rw [hstep']
      rcases hs' with ⟨k', rfl, hinv⟩ | ⟨rfl, hend⟩
      · exact ih (j + 1) k' (by omega) hinv f (by omega)
      · refine ⟨doneSt x, ?_, Or.inl rfl⟩
        cases f with
        | zero => omega
        | succ f' => simp [lexLoop, doneSt]

/-- what the first character of the name must be for the other value classes to decline it at once: no blank, quote, digit, sign,
    dot, parenthesis or `!`, and not the first letter of TRUE / FALSE -/
structure NameStart (c : Char) : Prop where
  sp : isSpace c = false
  quote : (c == '"') = false
  dig : isDigitC c = false
  minus : (c == '-') = false
  dot : (c == '.') = false
  notT : (c == 'T') = false
  notF : (c == 'F') = false

theorem kwAdd_bool_declines (c : Char) (h : NameStart c) :
    kwAdd { kws := boolKws } c = ({ kws := boolKws, expected := none, cur := [c] }, .Reset) := by
  have hT : ('T' == c) = false := by have := h.notT; simp only [beq_eq_false_iff_ne, ne_eq] at this ⊢; exact fun e => this e.symm
  have hF : ('F' == c) = false := by have := h.notF; simp only [beq_eq_false_iff_ne, ne_eq] at this ⊢; exact fun e => this e.symm
  have hnew : kwNew { kws := boolKws } c = [] := by
    simp [kwNew, boolKws, List.range, List.range.loop, startsWith, List.isPrefixOf, h.notT, h.notF, List.filter]
  unfold kwAdd
  show (if (kwNew { kws := boolKws } c).isEmpty = true then _ else _) = _
  rw [hnew]
  rfl

/-- the first character of the name: the string, number and Boolean classes decline it, the Variable class takes it -/
theorem lexStep_name_first (names : List Str) (x : Str) (ix : Nat) (hix : ix < names.length) (hx : names.getD ix [] = x)
    (hin : names.contains x = true) (hlen : 0 < x.length) (hc : NameStart (x[0])) :
    ∃ s', lexStep names (x[0]) {} = .ok s' ∧
      ((∃ k', s' = varSt x 1 k' ∧ KwInv names x 1 k') ∨ (s' = doneSt x ∧ 1 = x.length)) := by
  have hk0 : KwInv names x 0 { kws := names } := ⟨rfl, by simp, by simp [cand_nil], fun h => absurd h (by omega)⟩
  obtain ⟨k', r, hadd, hinv, hr⟩ := kwAdd_name names x ix hix hx 0 hlen { kws := names } hk0
  have hne : names.isEmpty = false := names_ne_nil names ix hix
  have hq' : (x[0] != '"') = true := by simp [bne, hc.quote]
  have hbk : boolKws.isEmpty = false := by decide
  have hmem : x ∈ names := by simpa using hin
  have ht1 : x.take 1 = [x[0]] := by
    cases x with
    | nil => simp at hlen
    | cons a b => simp
  rcases hr with rfl | ⟨rfl, hend⟩
  · refine ⟨varSt x 1 k', ?_, Or.inl ⟨k', rfl, hinv⟩⟩
    simp [lexStep, hc.sp, valueClasses, verifyChar, fresh, addChar, hc.quote, hq', hc.dig, hc.minus, hc.dot, resolve, hbk,
      kwAdd_bool_declines _ hc, resetS, TokSt.cls, hne, hadd, varSt, ht1]
  · refine ⟨doneSt x, ?_, Or.inr ⟨rfl, hend⟩⟩
    have hk' : k'.kws = names := hinv.1
    have hx1 : [x[0]] = x := by
      rw [← ht1, show (1 : Nat) = x.length by omega]; exact List.take_length
    simp [lexStep, hc.sp, valueClasses, verifyChar, fresh, addChar, hc.quote, hq', hc.dig, hc.minus, hc.dot, resolve, hbk,
      kwAdd_bool_declines _ hc, resetS, TokSt.cls, hne, hadd, appendSwitch, TokSt.closed, setValueCheck, TokSt.kws, hk', hx1, hmem,
      TokSt.opp, doneSt, ← hend]

/-- **a name of the environment, standing alone, is one Variable token** — whatever other names are in scope -/
theorem lex_name (names : List Str) (x : Str) (hin : names.contains x = true) (hlen : 0 < x.length) (hc : NameStart (x[0])) :
    lex names x = .ok [⟨.var, x, false⟩] := by
  have hmem : x ∈ names := by simpa using hin
  obtain ⟨ix, hix, hxi⟩ := List.getElem_of_mem hmem
  have hx : names.getD ix [] = x := by simp [List.getD, hix, hxi]
  obtain ⟨s1, hstep, hs1⟩ := lexStep_name_first names x ix hix hx hin hlen hc
  -- the loop reaches a state in which the whole name has been read
  have hloop : ∃ s, lexLoop names x.toArray (lexFuel x.length) {} = .ok s ∧ NameDone names x s := by
    unfold lexFuel
    rw [lexLoop]
    have h0 : ({} : LS).idx < x.toArray.size := by simpa using hlen
    simp only [h0, dite_true]
    have hstep' : lexStep names (x.toArray[({} : LS).idx]'h0) {} = .ok s1 := by simpa using hstep
    rw [hstep']
    rcases hs1 with ⟨k', rfl, hinv⟩ | ⟨rfl, hend⟩
    · exact lexLoop_name names names x ix hix hx hin (x.length - 1) 1 k' (by omega) hinv _ (by omega)
    · refine ⟨doneSt x, ?_, Or.inl rfl⟩
      have hd : ∀ f, lexLoop names x.toArray (f + 1) (doneSt x) = .ok (doneSt x) := by
        intro f; simp [lexLoop, doneSt]
      exact hd ((x.length + 1) * 12 + 8)
  obtain ⟨s, hs, hdone⟩ := hloop
  unfold lex
  rw [hs]
  rcases hdone with rfl | ⟨k, rfl, hk⟩
  · simp [lexFinish, doneSt, lexResult]
  · simp [lexFinish, varSt, appendSwitch, TokSt.closed, setValueCheck, TokSt.cls, TokSt.kws, hk, hmem, TokSt.opp, lexResult]

/-- **reading a variable back**: with any set of variables in scope — names that are prefixes of one another included — the text
    of one of their names evaluates to that variable's value -/
theorem tokenize_name (vars : VarEnv) (x : Str) (v : Val) (hv : vars.lookup x = some v)
    (hin : (vars.map (·.1)).contains x = true) (hlen : 0 < x.length) (hc : NameStart (x[0])) :
    tokenize vars x = .ok v.normalise := by
  unfold tokenize evalFuel
  rw [solveOpp]
  simp only [lex_name _ x hin hlen hc, Outcome.bind_ok, toFlat, toFlat.go, Option.map_some, reduceAll_nil,
    List.isEmpty_nil, Bool.not_true, Bool.false_eq_true, if_false]
  have hf : ∃ f, 3 * x.length + 9 = f + 1 + 1 := ⟨3 * x.length + 7, by omega⟩
  obtain ⟨f, hf⟩ := hf
  rw [hf, evalTree, evalTok]
  simp only [hv, Outcome.bind_ok]

end Duckling

namespace Duckling

/-! ### names whose first letter is T or F: the Boolean class takes the first characters, gives up where the name departs from
    TRUE / FALSE, the scanner goes back to the start of the name with the Boolean class black-listed, and the Variable class reads it -/

/-- the scanner inside the Boolean token after `j` characters that agree with the keyword -/
def boolSt (x : Str) (j : Nat) (k : KwSt) : LS :=
  { idx := j, start := 0, tok := some (.kw .bool k), isOp := false, str := x.take j, out := [], black := [] }

/-- the scanner back at the start of the name, the Boolean class black-listed -/
def resetSt : LS := { idx := 0, start := 0, tok := none, isOp := false, str := [], out := [], black := [.bool] }

/-- `x` departs from the keyword `B` at position `d`: they agree on the first `d ≥ 1` characters, both go on, and differ there -/
structure Departs (x B : Str) (d : Nat) : Prop where
  pos : 1 ≤ d
  ltx : d < x.length
  ltB : d < B.length
  agree : x.take d = B.take d
  differ : ∀ (h1 : d < x.length) (h2 : d < B.length), x[d] ≠ B[d]

theorem getElem_of_take_eq (x B : Str) (d j : Nat) (h : x.take d = B.take d) (hj : j < d) (h1 : j < x.length) (h2 : j < B.length) :
    x[j] = B[j] := by
  have e1 : (x.take d)[j]? = x[j]? := by simp [List.getElem?_take, hj]
  have e2 : (B.take d)[j]? = B[j]? := by simp [List.getElem?_take, hj]
  rw [h, e2] at e1
  simpa [List.getElem?_eq_getElem h1, List.getElem?_eq_getElem h2] using e1.symm

theorem take_of_take_eq (x B : Str) (d j : Nat) (h : x.take d = B.take d) (hj : j ≤ d) : x.take j = B.take j := by
  have := congrArg (List.take j) h
  simpa [List.take_take, Nat.min_eq_left hj] using this

/-- a character inside the Boolean token while the name still agrees with the keyword -/
theorem lexStep_bool_agree (vars : List Str) (x B : Str) (iB : Nat) (hiB : iB < boolKws.length) (hB : boolKws.getD iB [] = B)
    (d : Nat) (hd : Departs x B d) (j : Nat) (hj1 : j + 1 ≤ d) (k : KwSt) (hk : KwInv boolKws B j k) :
    ∃ k', lexStep vars (x[j]'(by have := hd.ltx; omega)) (boolSt x j k) = .ok (boolSt x (j + 1) k') ∧ KwInv boolKws B (j + 1) k' := by
  have hjx : j < x.length := by have := hd.ltx; omega
  have hjB : j < B.length := by have := hd.ltB; omega
  have hch : x[j] = B[j] := getElem_of_take_eq x B d j hd.agree (by omega) hjx hjB
  obtain ⟨k', r, hadd, hinv, hr⟩ := kwAdd_name boolKws B iB hiB hB j hjB k hk
  have hrT : r = .T := by
    rcases hr with h | ⟨_, hend⟩
    · exact h
    · have := hd.ltB; omega
  subst hrT
  have hkws : k.kws.isEmpty = false := by rw [hk.1]; decide
  refine ⟨k', ?_, hinv⟩
  rw [hch]
  simp only [lexStep, boolSt, addChar, hkws, Bool.false_eq_true, if_false, hadd, Outcome.bind_ok, resolve]
  rw [← hch, take_succ_eq x j hjx]

/-- the keyword list has no entry that goes on from `B.take d` with a character other than `B[d]` -/
def BoolGivesUp (B : Str) (iB : Nat) : Prop :=
  ∀ (d : Nat) (c : Char) (hd : d < B.length), 1 ≤ d → c ≠ B[d] →
    cand boolKws (B.take d ++ [c]) = [] ∧ (cand boolKws (B.take d)).any (fun i => boolKws.getD i [] == B.take d) = false

theorem boolKws_eq : boolKws = [['T', 'R', 'U', 'E'], ['F', 'A', 'L', 'S', 'E']] := by decide

theorem boolGivesUp_true : BoolGivesUp ['T', 'R', 'U', 'E'] 0 := by
  intro d c hd h1 hc
  have hd' : d = 1 ∨ d = 2 ∨ d = 3 := by simp at hd; omega
  rw [boolKws_eq]
  rcases hd' with rfl | rfl | rfl
  all_goals
    simp [cand, List.range, List.range.loop, startsWith, List.isPrefixOf, List.filter] at hc ⊢
    split <;> simp_all

theorem boolGivesUp_false : BoolGivesUp ['F', 'A', 'L', 'S', 'E'] 1 := by
  intro d c hd h1 hc
  have hd' : d = 1 ∨ d = 2 ∨ d = 3 ∨ d = 4 := by simp at hd; omega
  rw [boolKws_eq]
  rcases hd' with rfl | rfl | rfl | rfl
  all_goals
    simp [cand, List.range, List.range.loop, startsWith, List.isPrefixOf, List.filter] at hc ⊢
    split <;> simp_all

theorem kwAdd_empty (k : KwSt) (ch : Char) (h : (kwNew k ch).isEmpty = true) :
    kwAdd k ch =
      (match k.expected with
       | some e => if e.any (fun i => k.kws.getD i [] == (k.cur ++ [ch]).dropLast) then ({ k with cur := k.cur ++ [ch] }, .F)
                   else ({ k with cur := k.cur ++ [ch] }, .Reset)
       | none => ({ k with cur := k.cur ++ [ch] }, .Reset)) := by
  unfold kwAdd
  show (if (kwNew k ch).isEmpty = true then _ else _) = _
  rw [h]
  rfl

/-- where the name departs from the keyword the Boolean class gives up and the scanner goes back to the start of the name -/
theorem lexStep_bool_departs (vars : List Str) (x B : Str) (iB : Nat) (hg : BoolGivesUp B iB)
    (d : Nat) (hd : Departs x B d) (k : KwSt) (hk : KwInv boolKws B d k) :
    lexStep vars (x[d]'hd.ltx) (boolSt x d k) = .ok resetSt := by
  obtain ⟨h1, h2, h3, _⟩ := hk
  have hne := hd.differ hd.ltx hd.ltB
  obtain ⟨g1, g2⟩ := hg d (x[d]'hd.ltx) hd.ltB hd.pos hne
  have hnew : kwNew k (x[d]'hd.ltx) = [] := by
    unfold kwNew
    rw [h1, h3, h2, cand_snoc, g1]
  have hkws : k.kws.isEmpty = false := by rw [h1]; decide
  have hdrop : (k.cur ++ [x[d]'hd.ltx]).dropLast = B.take d := by rw [h2]; simp
  have hadd : ∃ k1, kwAdd k (x[d]'hd.ltx) = (k1, .Reset) := by
    rw [kwAdd_empty k _ (by rw [hnew]; rfl)]
    cases he : k.expected with
    | none => exact ⟨_, rfl⟩
    | some e =>
      have hee : e = cand boolKws (B.take d) := by rw [he] at h3; exact h3
      simp only [hdrop, h1, hee, g2, Bool.false_eq_true, if_false]
      exact ⟨_, rfl⟩
  obtain ⟨k1, hadd⟩ := hadd
  simp [lexStep, boolSt, addChar, hkws, hadd, resolve, resetS, resetSt, TokSt.cls]

/-- what the first character of a name must be for the string and number classes to decline it -/
structure NameStart0 (c : Char) : Prop where
  sp : isSpace c = false
  quote : (c == '"') = false
  dig : isDigitC c = false
  minus : (c == '-') = false
  dot : (c == '.') = false

/-- back at the start with the Boolean class black-listed: the Variable class takes the first character -/
theorem lexStep_name_restart (names : List Str) (x : Str) (ix : Nat) (hix : ix < names.length) (hx : names.getD ix [] = x)
    (hlen : 1 < x.length) (hc : NameStart0 (x[0])) :
    ∃ k', lexStep names (x[0]) resetSt = .ok (varSt x 1 k') ∧ KwInv names x 1 k' := by
  have hk0 : KwInv names x 0 { kws := names } := ⟨rfl, by simp, by simp [cand_nil], fun h => absurd h (by omega)⟩
  obtain ⟨k', r, hadd, hinv, hr⟩ := kwAdd_name names x ix hix hx 0 (by omega) { kws := names } hk0
  have hrT : r = .T := by
    rcases hr with h | ⟨_, hend⟩
    · exact h
    · omega
  subst hrT
  have hne : names.isEmpty = false := names_ne_nil names ix hix
  have hq' : (x[0] != '"') = true := by simp [bne, hc.quote]
  have ht1 : x.take 1 = [x[0]] := by
    cases x with
    | nil => simp at hlen
    | cons a b => simp
  refine ⟨k', ?_, hinv⟩
  simp [lexStep, resetSt, hc.sp, valueClasses, verifyChar, fresh, addChar, hc.quote, hq', hc.dig, hc.minus, hc.dot, resolve,
    hne, hadd, varSt, ht1]

/-- the Boolean phase: from `j` agreeing characters to `d` -/
theorem lexLoop_bool (vars : List Str) (x B : Str) (iB : Nat) (hiB : iB < boolKws.length) (hB : boolKws.getD iB [] = B)
    (d : Nat) (hd : Departs x B d) :
    ∀ (m j : Nat) (k : KwSt), j + m = d → KwInv boolKws B j k → ∀ f,
      ∃ k', lexLoop vars x.toArray (f + m) (boolSt x j k) = lexLoop vars x.toArray f (boolSt x d k') ∧ KwInv boolKws B d k' := by
  intro m
  induction m with
  | zero =>
    intro j k hj hk f
    have : j = d := by omega
    subst this
    exact ⟨k, rfl, hk⟩
  | succ m ih =>
    intro j k hj hk f
    have hjx : j < x.length := by have := hd.ltx; omega
    obtain ⟨k1, hstep, hinv⟩ := lexStep_bool_agree vars x B iB hiB hB d hd j (by omega) k hk
    obtain ⟨k', hrest, hk'⟩ := ih (j + 1) k1 (by omega) hinv f
    refine ⟨k', ?_, hk'⟩
    rw [← hrest, show f + (m + 1) = (f + m) + 1 by omega, lexLoop]
    have hidx : (boolSt x j k).idx < x.toArray.size := by simpa [boolSt] using hjx
    simp only [hidx, dite_true]
    have hstep' : lexStep vars (x.toArray[(boolSt x j k).idx]'hidx) (boolSt x j k) = .ok (boolSt x (j + 1) k1) := by
      simpa [boolSt] using hstep
    rw [hstep']

/-- more fuel never changes a finished scan -/
theorem lexLoop_mono (vars : List Str) (arr : Array Char) : ∀ (f : Nat) (s s' : LS), lexLoop vars arr f s = .ok s' →
    ∀ g, lexLoop vars arr (f + g) s = .ok s' := by
  intro f
  induction f with
  | zero => intro s s' h; simp [lexLoop] at h
  | succ f ih =>
    intro s s' h g
    rw [show f + 1 + g = (f + g) + 1 by omega, lexLoop]
    rw [lexLoop] at h
    split
    · rename_i hidx
      simp only [hidx, dite_true] at h
      cases hstep : lexStep vars arr[s.idx] s with
      | ok s1 => rw [hstep] at h; exact ih s1 s' h g
      | cerr k => rw [hstep] at h; cases h
      | crash e => rw [hstep] at h; cases h
      | oom w => rw [hstep] at h; cases h
    · rename_i hidx
      simp only [hidx, dite_false] at h
      exact h

/-- **a name beginning with T or F** that departs from TRUE / FALSE before either ends is one Variable token too -/
theorem lex_name_tf (names : List Str) (x B : Str) (iB : Nat) (hiB : iB < boolKws.length) (hB : boolKws.getD iB [] = B)
    (hg : BoolGivesUp B iB) (d : Nat) (hd : Departs x B d) (hin : names.contains x = true) (hc : NameStart0 (x[0]'(by have := hd.ltx; omega))) :
    lex names x = .ok [⟨.var, x, false⟩] := by
  have hlen : 1 < x.length := by have := hd.ltx; have := hd.pos; omega
  have hmem : x ∈ names := by simpa using hin
  obtain ⟨ix, hix, hxi⟩ := List.getElem_of_mem hmem
  have hx : names.getD ix [] = x := by simp [List.getD, hix, hxi]
  -- the first character enters the Boolean class
  have hB0 : 0 < B.length := by have := hd.ltB; omega
  have hk0 : KwInv boolKws B 0 { kws := boolKws } := ⟨rfl, by simp, by simp [cand_nil], fun h => absurd h (by omega)⟩
  have hch0 : x[0] = B[0] := getElem_of_take_eq x B d 0 hd.agree (by have := hd.pos; omega) (by omega) hB0
  obtain ⟨kb, r, haddb, hinvb, hr⟩ := kwAdd_name boolKws B iB hiB hB 0 hB0 { kws := boolKws } hk0
  have hrT : r = .T := by
    rcases hr with h | ⟨_, hend⟩
    · exact h
    · have := hd.ltB; have := hd.pos; omega
  subst hrT
  have hq' : (x[0] != '"') = true := by simp [bne, hc.quote]
  have hbk : boolKws.isEmpty = false := by decide
  have ht1 : x.take 1 = [x[0]] := by
    cases x with
    | nil => simp at hlen
    | cons a b => simp
  have hfirst : lexStep names (x[0]) {} = .ok (boolSt x 1 kb) := by
    rw [← hch0] at haddb
    simp [lexStep, hc.sp, valueClasses, verifyChar, fresh, addChar, hc.quote, hq', hc.dig, hc.minus, hc.dot, resolve, hbk, haddb,
      boolSt, ht1]
  -- the remaining Boolean characters, the departure, the restart, the Variable characters
  obtain ⟨kd, hbool, hkd⟩ := lexLoop_bool names x B iB hiB hB d hd (d - 1) 1 kb (by have := hd.pos; omega) hinvb (x.length + 2)
  have hdep := lexStep_bool_departs names x B iB hg d hd kd hkd
  obtain ⟨kv, hrestart, hkv⟩ := lexStep_name_restart names x ix hix hx hlen hc
  obtain ⟨s, hs, hdone⟩ := lexLoop_name names names x ix hix hx hin (x.length - 1) 1 kv (by omega) hkv (x.length) (by omega)
  have h2 : lexLoop names x.toArray (x.length + 1) resetSt = .ok s := by
    rw [lexLoop]
    have hidx : resetSt.idx < x.toArray.size := by simp [resetSt]; omega
    simp only [hidx, dite_true]
    have : lexStep names (x.toArray[resetSt.idx]'hidx) resetSt = .ok (varSt x 1 kv) := by simpa [resetSt] using hrestart
    rw [this]; exact hs
  have h1 : lexLoop names x.toArray (x.length + 2) (boolSt x d kd) = .ok s := by
    rw [lexLoop]
    have hidx : (boolSt x d kd).idx < x.toArray.size := by simpa [boolSt] using hd.ltx
    simp only [hidx, dite_true]
    have : lexStep names (x.toArray[(boolSt x d kd).idx]'hidx) (boolSt x d kd) = .ok resetSt := by simpa [boolSt] using hdep
    rw [this]; exact h2
  have h0 : lexLoop names x.toArray (x.length + 2 + (d - 1)) (boolSt x 1 kb) = .ok s := by rw [hbool]; exact h1
  have hstart : lexLoop names x.toArray (x.length + 2 + (d - 1) + 1) {} = .ok s := by
    rw [lexLoop]
    have hidx : ({} : LS).idx < x.toArray.size := by simp; omega
    simp only [hidx, dite_true]
    have : lexStep names (x.toArray[({} : LS).idx]'hidx) {} = .ok (boolSt x 1 kb) := by simpa using hfirst
    rw [this]; exact h0
  have hloop : lexLoop names x.toArray (lexFuel x.length) {} = .ok s := by
    have hfuel : lexFuel x.length = (x.length + 2 + (d - 1) + 1) + ((x.length + 1) * 12 + 10 - (x.length + 2 + (d - 1) + 1)) := by
      unfold lexFuel; have := hd.ltx; omega
    rw [hfuel]
    exact lexLoop_mono names x.toArray _ _ _ hstart _
  unfold lex
  rw [hloop]
  rcases hdone with rfl | ⟨k, rfl, hk⟩
  · simp [lexFinish, doneSt, lexResult]
  · simp [lexFinish, varSt, appendSwitch, TokSt.closed, setValueCheck, TokSt.cls, TokSt.kws, hk, hmem, TokSt.opp, lexResult]

/-- from the scanner's answer to the value -/
theorem tokenize_of_lex_var (vars : VarEnv) (x : Str) (v : Val) (hv : vars.lookup x = some v)
    (hlex : lex (vars.map (·.1)) x = .ok [⟨.var, x, false⟩]) : tokenize vars x = .ok v.normalise := by
  unfold tokenize evalFuel
  rw [solveOpp]
  simp only [hlex, Outcome.bind_ok, toFlat, toFlat.go, Option.map_some, reduceAll_nil,
    List.isEmpty_nil, Bool.not_true, Bool.false_eq_true, if_false]
  have hf : ∃ f, 3 * x.length + 9 = f + 1 + 1 := ⟨3 * x.length + 7, by omega⟩
  obtain ⟨f, hf⟩ := hf
  rw [hf, evalTree, evalTok]
  simp only [hv, Outcome.bind_ok]

end Duckling
