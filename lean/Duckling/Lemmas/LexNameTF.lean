import Duckling.Lemmas.LexAtoms
/-
  Names beginning with T or F, for the scanner standing anywhere in the text (the stand-alone case is `lex_name_tf` in LexName): the
  Boolean class takes the first characters, gives up where the name departs from TRUE / FALSE, the scanner goes back to the start of
  the name with the Boolean class black-listed, the Variable class reads the name, and the character after it (or the end of the
  text) closes the token.
-/
namespace Duckling

/-- inside the Boolean token of a name that began at `off`, after `j` characters that agree with the keyword -/
def boolStG (off : Nat) (out : List Tok) (x : Str) (j : Nat) (k : KwSt) : LS :=
  { idx := off + j, start := off, tok := some (.kw .bool k), isOp := false, str := x.take j, out := out, black := [] }

/-- back at the start of the name, the Boolean class black-listed -/
def resetStG (off : Nat) (out : List Tok) : LS :=
  { idx := off, start := off, tok := none, isOp := false, str := [], out := out, black := [.bool] }

theorem step_bool_first (vars : List Str) (x B : Str) (iB : Nat) (hiB : iB < boolKws.length) (hB : boolKws.getD iB [] = B)
    (d : Nat) (hd : Departs x B d) (hc : NameStart0 (x[0]'(by have := hd.ltx; omega))) (off : Nat) (out : List Tok) :
    ∃ kb, lexStep vars (x[0]'(by have := hd.ltx; omega)) (sV off out) = .ok (boolStG off out x 1 kb) ∧ KwInv boolKws B 1 kb := by
  have hlen : 1 < x.length := by have := hd.ltx; have := hd.pos; omega
  have hB0 : 0 < B.length := by have := hd.ltB; omega
  have hk0 : KwInv boolKws B 0 { kws := boolKws } := ⟨rfl, by simp, by simp [cand_nil], fun h => absurd h (by omega)⟩
  have hch0 : x[0] = B[0] := getElem_of_take_eq x B d 0 hd.agree (by have := hd.pos; omega) (by omega) hB0
  obtain ⟨kb, r, haddb, hinvb, hr⟩ := kwAdd_name boolKws B iB hiB hB 0 hB0 { kws := boolKws } hk0
  have hrT : r = .T := by
    rcases hr with h | ⟨_, hend⟩
    · exact h
    · have := hd.ltB; have := hd.pos; omega
  subst hrT
  have hq' : (x[0] != '"') = true := by simp [bne, hc.quote]
  have hbk : boolKws.isEmpty = false := by decide
  have ht1 : x.take 1 = [x[0]] := by
    cases x with
    | nil => simp at hlen
    | cons a b => simp
  refine ⟨kb, ?_, hinvb⟩
  rw [← hch0] at haddb
  simp [lexStep, sV, hc.sp, valueClasses, verifyChar, fresh, addChar, hc.quote, hq', hc.dig, hc.minus, hc.dot, resolve, hbk, haddb,
    boolStG, ht1]

theorem step_bool_agree (vars : List Str) (x B : Str) (iB : Nat) (hiB : iB < boolKws.length) (hB : boolKws.getD iB [] = B)
    (d : Nat) (hd : Departs x B d) (off : Nat) (out : List Tok) (j : Nat) (hj1 : j + 1 ≤ d) (k : KwSt) (hk : KwInv boolKws B j k) :
    ∃ k', lexStep vars (x[j]'(by have := hd.ltx; omega)) (boolStG off out x j k) = .ok (boolStG off out x (j + 1) k') ∧
      KwInv boolKws B (j + 1) k' := by
  have hjx : j < x.length := by have := hd.ltx; omega
  have hjB : j < B.length := by have := hd.ltB; omega
  have hch : x[j] = B[j] := getElem_of_take_eq x B d j hd.agree (by omega) hjx hjB
  obtain ⟨k', r, hadd, hinv, hr⟩ := kwAdd_name boolKws B iB hiB hB j hjB k hk
  have hrT : r = .T := by
    rcases hr with h | ⟨_, hend⟩
    · exact h
    · have := hd.ltB; omega
  subst hrT
  have hkws : k.kws.isEmpty = false := by rw [hk.1]; decide
  refine ⟨k', ?_, hinv⟩
  rw [hch]
  simp only [lexStep, boolStG, addChar, hkws, Bool.false_eq_true, if_false, hadd, Outcome.bind_ok, resolve]
  rw [← hch, take_succ_eq x j hjx, Nat.add_assoc]

theorem step_bool_departs (vars : List Str) (x B : Str) (iB : Nat) (hg : BoolGivesUp B iB)
    (d : Nat) (hd : Departs x B d) (off : Nat) (out : List Tok) (k : KwSt) (hk : KwInv boolKws B d k) :
    lexStep vars (x[d]'hd.ltx) (boolStG off out x d k) = .ok (resetStG off out) := by
  obtain ⟨h1, h2, h3, _⟩ := hk
  have hne := hd.differ hd.ltx hd.ltB
  obtain ⟨g1, g2⟩ := hg d (x[d]'hd.ltx) hd.ltB hd.pos hne
  have hnew : kwNew k (x[d]'hd.ltx) = [] := by
    unfold kwNew
    rw [h1, h3, h2, cand_snoc, g1]
  have hkws : k.kws.isEmpty = false := by rw [h1]; decide
  have hdrop : (k.cur ++ [x[d]'hd.ltx]).dropLast = B.take d := by rw [h2]; simp
  have hadd : ∃ k1, kwAdd k (x[d]'hd.ltx) = (k1, .Reset) := by
    rw [kwAdd_empty k _ (by rw [hnew]; rfl)]
    cases he : k.expected with
    | none => exact ⟨_, rfl⟩
    | some e =>
      have hee : e = cand boolKws (B.take d) := by rw [he] at h3; exact h3
      simp only [hdrop, h1, hee, g2, Bool.false_eq_true, if_false]
      exact ⟨_, rfl⟩
  obtain ⟨k1, hadd⟩ := hadd
  simp [lexStep, boolStG, addChar, hkws, hadd, resolve, resetS, resetStG, TokSt.cls]

theorem step_name_restart (names : List Str) (x : Str) (ix : Nat) (hix : ix < names.length) (hx : names.getD ix [] = x)
    (hlen : 1 < x.length) (hc : NameStart0 (x[0])) (off : Nat) (out : List Tok) :
    ∃ k', lexStep names (x[0]) (resetStG off out) = .ok (varStG off out x 1 k') ∧ KwInv names x 1 k' := by
  have hk0 : KwInv names x 0 { kws := names } := ⟨rfl, by simp, by simp [cand_nil], fun h => absurd h (by omega)⟩
  obtain ⟨k', r, hadd, hinv, hr⟩ := kwAdd_name names x ix hix hx 0 (by omega) { kws := names } hk0
  have hrT : r = .T := by
    rcases hr with h | ⟨_, hend⟩
    · exact h
    · omega
  subst hrT
  have hne : names.isEmpty = false := names_ne_nil names ix hix
  have hq' : (x[0] != '"') = true := by simp [bne, hc.quote]
  have ht1 : x.take 1 = [x[0]] := by
    cases x with
    | nil => simp at hlen
    | cons a b => simp
  refine ⟨k', ?_, hinv⟩
  simp [lexStep, resetStG, hc.sp, valueClasses, verifyChar, fresh, addChar, hc.quote, hq', hc.dig, hc.minus, hc.dot, resolve,
    hne, hadd, varStG, ht1]

/-- the further characters of a name inside the Variable token: finished (no other name extends it) or still open with the whole name
    consumed -/
theorem steps_name_rest (names : List Str) (inp : Array Char) (x : Str) (hin : names.contains x = true) (off : Nat) (out : List Tok)
    (hat : At inp off x) :
    ∀ (m j : Nat) (k : KwSt), j + m = x.length → 1 ≤ j → KwInv names x j k →
      ∃ n s, n ≤ m ∧ Steps names inp n (varStG off out x j k) s ∧
        (s = sO (off + x.length) (⟨.var, x, false⟩ :: out) ∨ ∃ k', s = varStG off out x x.length k' ∧ KwInv names x x.length k') := by
  have hmem : x ∈ names := by simpa using hin
  obtain ⟨ix, hix, hxi⟩ := List.getElem_of_mem hmem
  have hx : names.getD ix [] = x := by simp [List.getD, hix, hxi]
  intro m
  induction m with
  | zero =>
    intro j k hj _ hk
    have : j = x.length := by omega
    subst this
    exact ⟨0, _, by omega, Steps.refl _ _ _, Or.inr ⟨k, rfl, hk⟩⟩
  | succ m ih =>
    intro j k hj h1 hk
    have hlt : j < x.length := by omega
    obtain ⟨hj', ej⟩ := hat j hlt
    obtain ⟨s', hstep, hs'⟩ := step_name_next names names x ix hix hx hin off out j hlt k hk
    have hone : Steps names inp 1 (varStG off out x j k) s' := by
      refine Steps.one (s := varStG off out x j k) (by simpa [varStG] using hj') ?_
      rw [show inp[(varStG off out x j k).idx]'(by simpa [varStG] using hj') = x[j] by simpa [varStG] using ej]
      exact hstep
    rcases hs' with ⟨k', rfl, hinv⟩ | ⟨rfl, hend⟩
    · obtain ⟨n, s, hn, hsteps, hfin⟩ := ih (j + 1) k' (by omega) (by omega) hinv
      exact ⟨1 + n, s, by omega, Steps.trans hone hsteps, hfin⟩
    · exact ⟨1, _, by omega, hone, Or.inl rfl⟩

/-- the Boolean phase: from `j` agreeing characters to `d` -/
theorem steps_bool_phase (vars : List Str) (inp : Array Char) (x B : Str) (iB : Nat) (hiB : iB < boolKws.length) (hB : boolKws.getD iB [] = B)
    (d : Nat) (hd : Departs x B d) (off : Nat) (out : List Tok) (hat : At inp off x) :
    ∀ (m j : Nat) (k : KwSt), j + m = d → KwInv boolKws B j k →
      ∃ k', Steps vars inp m (boolStG off out x j k) (boolStG off out x d k') ∧ KwInv boolKws B d k' := by
  intro m
  induction m with
  | zero =>
    intro j k hj hk
    have : j = d := by omega
    subst this
    exact ⟨k, Steps.refl _ _ _, hk⟩
  | succ m ih =>
    intro j k hj hk
    have hjx : j < x.length := by have := hd.ltx; omega
    obtain ⟨hj', ej⟩ := hat j hjx
    obtain ⟨k1, hstep, hinv⟩ := step_bool_agree vars x B iB hiB hB d hd off out j (by omega) k hk
    have hone : Steps vars inp 1 (boolStG off out x j k) (boolStG off out x (j + 1) k1) := by
      refine Steps.one (s := boolStG off out x j k) (by simpa [boolStG] using hj') ?_
      rw [show inp[(boolStG off out x j k).idx]'(by simpa [boolStG] using hj') = x[j] by simpa [boolStG] using ej]
      exact hstep
    obtain ⟨k', hrest, hk'⟩ := ih (j + 1) k1 (by omega) hinv
    refine ⟨k', ?_, hk'⟩
    have := Steps.trans hone hrest
    rwa [show 1 + m = m + 1 by omega] at this

/-- **a name beginning with T or F** that departs from TRUE / FALSE before either ends, the scanner standing at its first character:
    afterwards the token is finished or still open with the whole name consumed -/
theorem steps_name_tf (names : List Str) (inp : Array Char) (x B : Str) (iB : Nat) (hiB : iB < boolKws.length) (hB : boolKws.getD iB [] = B)
    (hg : BoolGivesUp B iB) (d : Nat) (hd : Departs x B d) (hin : names.contains x = true)
    (hc : NameStart0 (x[0]'(by have := hd.ltx; omega))) (off : Nat) (out : List Tok) (hat : At inp off x) :
    ∃ n s, n ≤ 2 * x.length ∧ Steps names inp n (sV off out) s ∧
      (s = sO (off + x.length) (⟨.var, x, false⟩ :: out) ∨ ∃ k, s = varStG off out x x.length k ∧ KwInv names x x.length k) := by
  have hlen : 1 < x.length := by have := hd.ltx; have := hd.pos; omega
  have hmem : x ∈ names := by simpa using hin
  obtain ⟨ix, hix, hxi⟩ := List.getElem_of_mem hmem
  have hx : names.getD ix [] = x := by simp [List.getD, hix, hxi]
  -- first character: into the Boolean class
  obtain ⟨kb, hfirst, hinvb⟩ := step_bool_first names x B iB hiB hB d hd hc off out
  obtain ⟨h0, e0⟩ := hat 0 (by omega)
  simp only [Nat.add_zero] at h0 e0
  have s0 : Steps names inp 1 (sV off out) (boolStG off out x 1 kb) := by
    refine Steps.one (s := sV off out) (by simpa [sV] using h0) ?_
    rw [show inp[(sV off out).idx]'(by simpa [sV] using h0) = x[0] by simpa [sV] using e0]
    exact hfirst
  -- the agreeing characters
  obtain ⟨kd, s1, hkd⟩ := steps_bool_phase names inp x B iB hiB hB d hd off out hat (d - 1) 1 kb (by have := hd.pos; omega) hinvb
  -- the departure: back to the start
  obtain ⟨hdi, hde⟩ := hat d hd.ltx
  have s2 : Steps names inp 1 (boolStG off out x d kd) (resetStG off out) := by
    refine Steps.one (s := boolStG off out x d kd) (by simpa [boolStG] using hdi) ?_
    rw [show inp[(boolStG off out x d kd).idx]'(by simpa [boolStG] using hdi) = x[d]'hd.ltx by simpa [boolStG] using hde]
    exact step_bool_departs names x B iB hg d hd off out kd hkd
  -- the Variable class takes the first character again
  obtain ⟨kv, hrestart, hkv⟩ := step_name_restart names x ix hix hx hlen hc off out
  have s3 : Steps names inp 1 (resetStG off out) (varStG off out x 1 kv) := by
    refine Steps.one (s := resetStG off out) (by simpa [resetStG] using h0) ?_
    rw [show inp[(resetStG off out).idx]'(by simpa [resetStG] using h0) = x[0] by simpa [resetStG] using e0]
    exact hrestart
  obtain ⟨n, s, hn, s4, hfin⟩ := steps_name_rest names inp x hin off out hat (x.length - 1) 1 kv (by omega) (by omega) hkv
  refine ⟨1 + (d - 1) + 1 + 1 + n, s, ?_, Steps.trans (Steps.trans (Steps.trans (Steps.trans s0 s1) s2) s3) s4, hfin⟩
  have := hd.ltx; have := hd.pos
  omega

end Duckling
