import Duckling.Lemmas.LexFlatB
/-
  Signed and decimal number literals, `[-]digits[.digits]`, for the scanner standing anywhere in the text: the number class takes a
  leading `-` (token still open), digits close it, the first `.` switches it to a decimal, further digits extend it, and the first
  character that is neither a digit nor a dot ends the token without being consumed.
-/
namespace Duckling

/-- inside a number token that began at `off` with `acc` consumed (at least one digit among it) -/
def numG (off : Nat) (out : List Tok) (acc : Str) (isFp isNeg : Bool) : LS :=
  { idx := off + acc.length, start := off, tok := some (.num isFp ((acc.length : Int) - 1) isNeg true), isOp := false, str := acc, out := out, black := [] }

/-- after a leading `-` -/
def negSt (off : Nat) (out : List Tok) : LS :=
  { idx := off + 1, start := off, tok := some (.num false 0 true false), isOp := false, str := ['-'], out := out, black := [] }

theorem step_numG_digit (vars : List Str) (off : Nat) (out : List Tok) (acc : Str) (isFp isNeg : Bool) (d : Char) (hd : isDigitC d = true) :
    lexStep vars d (numG off out acc isFp isNeg) = .ok (numG off out (acc ++ [d]) isFp isNeg) := by
  have e : ((acc.length : Int) - 1 + 1) = (((acc ++ [d]).length : Nat) : Int) - 1 := by simp
  simp only [lexStep, numG, addChar, hd, if_true, Outcome.bind_ok, resolve]
  rw [e]
  simp [Nat.add_assoc]

theorem steps_numG_digits (vars : List Str) (inp : Array Char) (off : Nat) (out : List Tok) (isFp isNeg : Bool) :
    ∀ (ds acc : Str), ds.all isDigitC = true → At inp (off + acc.length) ds →
      Steps vars inp ds.length (numG off out acc isFp isNeg) (numG off out (acc ++ ds) isFp isNeg) := by
  intro ds
  induction ds with
  | nil => intro acc _ _; simpa using Steps.refl vars inp _
  | cons d rest ih =>
    intro acc hall hat
    have hd : isDigitC d = true := by simpa using (List.all_eq_true.mp hall d (by simp))
    obtain ⟨hi, ei⟩ := at_head hat rfl
    have hone : Steps vars inp 1 (numG off out acc isFp isNeg) (numG off out (acc ++ [d]) isFp isNeg) := by
      refine Steps.one (s := numG off out acc isFp isNeg) (by simpa [numG] using hi) ?_
      rw [show inp[(numG off out acc isFp isNeg).idx]'(by simpa [numG] using hi) = d by simpa [numG] using ei]
      exact step_numG_digit vars off out acc isFp isNeg d hd
    have hat' : At inp (off + (acc ++ [d]).length) rest := by
      have := (show At inp (off + acc.length) ([d] ++ rest) from hat).append_right
      simpa [Nat.add_assoc] using this
    have hrest := ih (acc ++ [d]) (by simpa using (List.all_eq_true.mpr fun x hx => List.all_eq_true.mp hall x (List.mem_cons_of_mem _ hx))) hat'
    have := Steps.trans hone hrest
    simp only [List.append_assoc, List.singleton_append, List.length_cons] at this ⊢
    rwa [show 1 + rest.length = rest.length + 1 by omega] at this

theorem step_numG_dot (vars : List Str) (off : Nat) (out : List Tok) (acc : Str) (isNeg : Bool) (hne : acc ≠ []) :
    lexStep vars '.' (numG off out acc false isNeg) = .ok (numG off out (acc ++ ['.']) true isNeg) := by
  have hl : 0 < acc.length := List.length_pos_iff.mpr hne
  have hi : ¬ ((acc.length : Int) - 1 + 1 = 0) := by omega
  have hd : isDigitC '.' = false := by decide
  have e : ((acc.length : Int) - 1 + 1) = (((acc ++ ['.']).length : Nat) : Int) - 1 := by simp
  simp only [lexStep, numG, addChar, hd, Bool.false_eq_true, if_false, hi, decide_false, Bool.false_and, beq_self_eq_true, Bool.not_false,
    Bool.and_self, if_true, Outcome.bind_ok, resolve, beq_iff_eq]
  rw [e]
  simp [Nat.add_assoc]

theorem step_neg_first (vars : List Str) (off : Nat) (out : List Tok) : lexStep vars '-' (sV off out) = .ok (negSt off out) := by
  simp [lexStep, sV, negSt, isSpace, valueClasses, verifyChar, fresh, addChar, resolve, isDigitC]

theorem step_neg_digit (vars : List Str) (off : Nat) (out : List Tok) (d : Char) (hd : isDigitC d = true) :
    lexStep vars d (negSt off out) = .ok (numG off out ['-', d] false true) := by
  simp [lexStep, negSt, numG, addChar, hd, resolve]

/-- the character after the literal closes the token; it is not consumed -/
theorem step_numG_close (vars : List Str) (off : Nat) (out : List Tok) (acc : Str) (isFp isNeg : Bool)
    (hlen : (if isNeg then 2 else 1) ≤ acc.length) (c : Char) (hc : EndsNum c) :
    lexStep vars c (numG off out acc isFp isNeg) = .ok (sO (off + acc.length) (⟨.num, acc, false⟩ :: out)) := by
  have h0 : ¬ ((acc.length : Int) - 1 + 1 = 0) := by cases isNeg <;> simp at hlen <;> omega
  have h1 : ¬ ((acc.length : Int) - 1 + 1 = 1 ∧ isNeg = true) := by
    intro ⟨h, hn⟩; subst hn; simp at hlen; omega
  have hcd : (c == '.') = false := hc.dot
  have hne : acc ≠ [] := by
    intro h; subst h; cases isNeg <;> simp at hlen
  cases isNeg with
  | false =>
    simp [lexStep, numG, addChar, hc.dig, hcd, h0, hne, resolve, appendSwitch, TokSt.closed, setValueCheck, TokSt.cls, TokSt.opp, sO]
  | true =>
    have h1' : ¬ ((acc.length : Int) = 1) := fun h => h1 ⟨by omega, rfl⟩
    simp [lexStep, numG, addChar, hc.dig, hcd, h0, h1', hne, resolve, appendSwitch, TokSt.closed, setValueCheck, TokSt.cls, TokSt.opp, sO]

theorem finOut_numG (off : Nat) (out : List Tok) (acc : Str) (isFp isNeg : Bool) :
    finOut (numG off out acc isFp isNeg) = .ok (⟨.num, acc, false⟩ :: out) := by
  simp [finOut, lexFinish, numG, appendSwitch, TokSt.closed, setValueCheck, TokSt.cls, TokSt.opp]

/-- the fractional part of a literal as written -/
def fracText : Option Str → Str
  | some f => '.' :: f
  | none => []

/-- the text of a literal -/
def litText (neg : Bool) (ip : Str) (fp : Option Str) : Str :=
  (if neg then ['-'] else []) ++ (ip ++ fracText fp)

def GoodLit (ip : Str) (fp : Option Str) : Prop :=
  ip ≠ [] ∧ ip.all isDigitC = true ∧ ∀ f, fp = some f → f.all isDigitC = true

theorem litText_length (neg : Bool) (ip : Str) (fp : Option Str) : (if neg then 2 else 1) ≤ (litText neg ip fp).length ∨ ip = [] := by
  cases ip with
  | nil => exact Or.inr rfl
  | cons a r => left; cases neg <;> cases fp <;> simp [litText, fracText] <;> omega

/-- **a signed / decimal literal is scanned into one open number token carrying its whole text** -/
theorem steps_lit (vars : List Str) (inp : Array Char) (off : Nat) (out : List Tok) (neg : Bool) (ip : Str) (fp : Option Str)
    (hg : GoodLit ip fp) (hat : At inp off (litText neg ip fp)) :
    Steps vars inp (litText neg ip fp).length (sV off out) (numG off out (litText neg ip fp) fp.isSome neg) := by
  obtain ⟨hne, hip, hfp⟩ := hg
  obtain ⟨d, rest, rfl⟩ := List.exists_cons_of_ne_nil hne
  have hd : isDigitC d = true := by simpa using (List.all_eq_true.mp hip d (by simp))
  have hrest : rest.all isDigitC = true := List.all_eq_true.mpr fun x hx => List.all_eq_true.mp hip x (List.mem_cons_of_mem _ hx)
  -- up to and including the first digit
  have hhead : ∃ n pre, pre = (if neg then ['-'] else []) ++ [d] ∧ n = pre.length ∧ Steps vars inp n (sV off out) (numG off out pre false neg) := by
    cases neg with
    | false =>
      refine ⟨1, [d], rfl, rfl, ?_⟩
      have hat0 : At inp off ([d] ++ (rest ++ fracText fp)) := by simpa [litText] using hat
      obtain ⟨h0, e0⟩ := at_head hat0 rfl
      refine Steps.one (s := sV off out) (by simpa [sV] using h0) ?_
      rw [show inp[(sV off out).idx]'(by simpa [sV] using h0) = d by simpa [sV] using e0, lexStep_first_digit_at vars d hd off out]
      simp [numG]
    | true =>
      refine ⟨2, ['-', d], rfl, rfl, ?_⟩
      have hat0 : At inp off (['-'] ++ ([d] ++ (rest ++ fracText fp))) := by simpa [litText] using hat
      obtain ⟨h0, e0⟩ := at_head hat0 rfl
      have s0 : Steps vars inp 1 (sV off out) (negSt off out) :=
        Steps.one (s := sV off out) (by simpa [sV] using h0)
          (by rw [show inp[(sV off out).idx]'(by simpa [sV] using h0) = '-' by simpa [sV] using e0]; exact step_neg_first vars off out)
      obtain ⟨h1, e1⟩ := at_head hat0.append_right rfl
      have s1 : Steps vars inp 1 (negSt off out) (numG off out ['-', d] false true) :=
        Steps.one (s := negSt off out) (by simpa [negSt] using h1)
          (by rw [show inp[(negSt off out).idx]'(by simpa [negSt] using h1) = d by simpa [negSt] using e1]; exact step_neg_digit vars off out d hd)
      exact Steps.trans s0 s1
  obtain ⟨n, pre, hpre, hn, hsteps⟩ := hhead
  have htext : litText neg (d :: rest) fp = pre ++ (rest ++ fracText fp) := by
    rw [hpre]; simp [litText]
  rw [htext] at hat ⊢
  -- the further digits of the integer part
  have hat1 : At inp (off + pre.length) (rest ++ fracText fp) := hat.append_right
  have s2 := steps_numG_digits vars inp off out false neg rest pre hrest hat1.append_left
  cases fp with
  | none =>
    have := Steps.trans hsteps s2
    simp only [fracText, List.append_nil, Option.isSome_none, List.length_append] at this ⊢
    rw [hn] at this; exact this
  | some f =>
    have hf : f.all isDigitC = true := hfp f rfl
    have hat2 : At inp (off + pre.length + rest.length) ('.' :: f) := by simpa [fracText] using hat1.append_right
    obtain ⟨hdi, hde⟩ := at_head hat2 rfl
    have hpne : pre ++ rest ≠ [] := by rw [hpre]; cases neg <;> simp
    have s3 : Steps vars inp 1 (numG off out (pre ++ rest) false neg) (numG off out (pre ++ rest ++ ['.']) true neg) := by
      refine Steps.one (s := numG off out (pre ++ rest) false neg) (by simpa [numG, Nat.add_assoc] using hdi) ?_
      rw [show inp[(numG off out (pre ++ rest) false neg).idx]'(by simpa [numG, Nat.add_assoc] using hdi) = '.' by simpa [numG, Nat.add_assoc] using hde]
      exact step_numG_dot vars off out (pre ++ rest) neg hpne
    have hat3 : At inp (off + (pre ++ rest ++ ['.']).length) f := by
      have := (show At inp (off + pre.length + rest.length) (['.'] ++ f) from hat2).append_right
      simpa [Nat.add_assoc] using this
    have s4 := steps_numG_digits vars inp off out true neg f (pre ++ rest ++ ['.']) hf hat3
    have := Steps.trans (Steps.trans (Steps.trans hsteps s2) s3) s4
    simp only [fracText, Option.isSome_some, List.length_append, List.length_cons, List.append_assoc, List.singleton_append] at this ⊢
    rw [hn, show pre.length + rest.length + 1 + f.length = pre.length + (rest.length + (f.length + 1)) by omega] at this
    exact this

end Duckling
