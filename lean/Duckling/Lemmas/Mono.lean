import Duckling.Model.Interp
/-
  Depth monotonicity of the interpreter: once a program runs without a StackOverflowError with `d`
  stacks to spare it gives the same result with any `d' ≥ d` (C14 "limits are exact").
-/
namespace Duckling

/-- the result is a StackOverflowError -/
def R.isSO {α : Type} : R α → Bool
  | .err e => e.k == .stackOverflow
  | _ => false

/-- `c'` agrees with `c` wherever `c` does not overflow -/
def ChildLe (c c' : Option ChildFn) : Prop :=
  match c, c' with
  | none, _ => True
  | some a, some b => ∀ code ctx st, (a code ctx st).isSO = false → b code ctx st = a code ctx st
  | some _, none => False

theorem overflowErr_isSO {α : Type} (ctx : Ctx) (pos : Pos) (st : St) : (overflowErr ctx pos st : R α).isSO = true := by
  simp [overflowErr, R.isSO]

theorem runChild_mono {c c' : Option ChildFn} (h : ChildLe c c') (ctx : Ctx) (pos : Pos) (st : St)
    (code : List Node) (file : Option Path) (cst : St)
    (hn : (runChild c ctx pos st code file cst).isSO = false) :
    runChild c' ctx pos st code file cst = runChild c ctx pos st code file cst := by
  cases c with
  | none => simp [runChild, overflowErr_isSO] at hn
  | some a =>
    cases c' with
    | none => exact absurd h (by simp [ChildLe])
    | some b => exact h _ _ _ hn

theorem guardChild_mono {α : Type} {c c' : Option ChildFn} (h : ChildLe c c') (ctx : Ctx) (pos : Pos) (st : St)
    (k k' : R α) (hk : k.isSO = false → k' = k)
    (hn : (guardChild c ctx pos st k).isSO = false) :
    guardChild c' ctx pos st k' = guardChild c ctx pos st k := by
  cases c with
  | none => simp [guardChild, overflowErr_isSO] at hn
  | some a =>
    cases c' with
    | none => exact absurd h (by simp [ChildLe])
    | some b => simp only [guardChild] at hn ⊢; exact hk hn

end Duckling

namespace Duckling

theorem R.isSO_bind_false {α β : Type} {x : R α} {f : α → R β} (h : (x >>= f).isSO = false) :
    x.isSO = false ∧ ∀ a, x = .ok a → (f a).isSO = false := by
  cases x with
  | ok a => exact ⟨rfl, fun b hb => by cases hb; exact h⟩
  | err e => exact ⟨h, fun _ hb => by cases hb⟩
  | crash e => exact ⟨rfl, fun _ hb => by cases hb⟩
  | oom w => exact ⟨rfl, fun _ hb => by cases hb⟩

/-- congruence of bind under "agrees unless it overflows" -/
theorem R.bind_mono {α β : Type} {x x' : R α} {f f' : α → R β}
    (hn : (x >>= f).isSO = false)
    (hx : x.isSO = false → x' = x)
    (hf : ∀ a, x = .ok a → (f a).isSO = false → f' a = f a) :
    (x' >>= f') = (x >>= f) := by
  have ⟨h1, h2⟩ := R.isSO_bind_false hn
  rw [hx h1]
  cases x with
  | ok a => exact hf a rfl (h2 a rfl)
  | err e => rfl
  | crash e => rfl
  | oom w => rfl

theorem runRun_mono {c c' : Option ChildFn} (h : ChildLe c c') (ctx : Ctx) (pos : Pos) (a : Arg) (st : St)
    (hn : (runRun c ctx pos a st).isSO = false) : runRun c' ctx pos a st = runRun c ctx pos a st := by
  unfold runRun at hn ⊢
  refine R.bind_mono hn (fun _ => rfl) (fun p _ hp => ?_)
  exact R.bind_mono hp (runChild_mono h _ _ _ _ _ _) (fun _ _ _ => rfl)

theorem runStart_mono {c c' : Option ChildFn} (h : ChildLe c c') (ctx : Ctx) (pos : Pos) (name : Str) (a : Arg) (st : St)
    (hn : (runStart c ctx pos name a st).isSO = false) :
    runStart c' ctx pos name a st = runStart c ctx pos name a st := by
  unfold runStart at hn ⊢
  refine R.bind_mono hn (fun _ => rfl) (fun p _ hp => ?_)
  exact R.bind_mono hp (runChild_mono h _ _ _ _ _ _) (fun _ _ _ => rfl)

theorem runCompile_mono {c c' : Option ChildFn} (h : ChildLe c c') (ctx : Ctx) (cl : ClsDesc) (name : Str) (line : Nat)
    (a : Option Arg) (st : St)
    (hn : (runCompile c ctx cl name line a st).isSO = false) :
    runCompile c' ctx cl name line a st = runCompile c ctx cl name line a st := by
  unfold runCompile at hn ⊢
  by_cases h1 : (hasHook cl "run_compile" && cl.cname == "Run") = true
  · simp only [h1, if_true] at hn ⊢
    cases a with
    | none => rfl
    | some a => exact runRun_mono h _ _ _ _ hn
  · simp only [h1, Bool.false_eq_true, if_false] at hn ⊢
    by_cases h2 : (hasHook cl "run_compile" && cl.cname == "Start") = true
    · simp only [h2, if_true] at hn ⊢
      cases a with
      | none => rfl
      | some a => exact runStart_mono h _ _ _ _ _ hn
    · simp only [h2, Bool.false_eq_true, if_false]

theorem multiComp_mono {c c' : Option ChildFn} (h : ChildLe c c') (ctx : Ctx) (cl : ClsDesc) (name : Str) (line : Nat)
    (items : List (Option Arg)) (st : St) (out : List Str) (sig : Sig)
    (hn : (multiComp c ctx cl name line items st out sig).isSO = false) :
    multiComp c' ctx cl name line items st out sig = multiComp c ctx cl name line items st out sig := by
  induction items generalizing st out sig with
  | nil => rfl
  | cons a rest ih =>
    unfold multiComp at hn ⊢
    exact R.bind_mono hn (runCompile_mono h _ _ _ _ _ _) (fun r _ hr => ih _ _ _ hr)

theorem compileSimple_mono {c c' : Option ChildFn} (h : ChildLe c c') (ctx : Ctx) (cl : ClsDesc) (word : Str) (line : Nat)
    (arg : Option Str) (block : Option (List Node)) (st : St)
    (hn : (compileSimple c ctx cl word line arg block st).isSO = false) :
    compileSimple c' ctx cl word line arg block st = compileSimple c ctx cl word line arg block st := by
  unfold compileSimple at hn ⊢
  exact R.bind_mono hn (fun _ => rfl) (fun p _ hp => multiComp_mono h _ _ _ _ _ _ _ _ hp)

theorem repeatLoop_mono {c c' : Option ChildFn} (h : ChildLe c c') (ctx : Ctx) (pos : Pos) (var : Option Str)
    (ce : Str) (body : List Node) (budget count : Nat) (st : St) (out : List Str)
    (hn : (repeatLoop c ctx pos var ce body budget count st out).isSO = false) :
    repeatLoop c' ctx pos var ce body budget count st out = repeatLoop c ctx pos var ce body budget count st out := by
  induction budget generalizing count st out with
  | zero => rfl
  | succ b ih =>
    unfold repeatLoop at hn ⊢
    refine R.bind_mono hn (fun _ => rfl) (fun n _ hn1 => ?_)
    by_cases hc : (!decide (count < n)) = true
    · simp only [hc, if_true]
    · simp only [hc, Bool.false_eq_true, if_false] at hn1 ⊢
      refine guardChild_mono h _ _ _ _ _ (fun hk => ?_) hn1
      refine R.bind_mono hk (fun _ => rfl) (fun cst _ h2 => ?_)
      refine R.bind_mono h2 (runChild_mono h _ _ _ _ _ _) (fun r _ h3 => ?_)
      split
      · rfl
      · rename_i st' out' heq
        simp only [heq] at h3
        exact ih _ _ _ h3

theorem whileLoop_mono {c c' : Option ChildFn} (h : ChildLe c c') (ctx : Ctx) (pos : Pos) (var : Option Str)
    (cond : Str) (body : List Node) (budget count : Nat) (st : St) (out : List Str)
    (hn : (whileLoop c ctx pos var cond body budget count st out).isSO = false) :
    whileLoop c' ctx pos var cond body budget count st out = whileLoop c ctx pos var cond body budget count st out := by
  induction budget generalizing count st out with
  | zero => rfl
  | succ b ih =>
    unfold whileLoop at hn ⊢
    refine guardChild_mono h _ _ _ _ _ (fun hk => ?_) hn
    refine R.bind_mono hk (fun _ => rfl) (fun cst _ h2 => ?_)
    refine R.bind_mono h2 (fun _ => rfl) (fun cv _ h3 => ?_)
    by_cases hc : (!cv.truthy) = true
    · simp only [hc, if_true]
    · simp only [hc, Bool.false_eq_true, if_false] at h3 ⊢
      refine R.bind_mono h3 (runChild_mono h _ _ _ _ _ _) (fun r _ h4 => ?_)
      split
      · rfl
      · rename_i st' out' heq
        simp only [heq] at h4
        exact ih _ _ _ h4

theorem runBlockAct_mono {c c' : Option ChildFn} (h : ChildLe c c') (ctx : Ctx) (pos : Pos) (block : List Node)
    (act : BlockAct) (hn : (runBlockAct c ctx pos block act).isSO = false) :
    runBlockAct c' ctx pos block act = runBlockAct c ctx pos block act := by
  cases act with
  | done o => rfl
  | body st =>
    unfold runBlockAct at hn ⊢
    exact R.bind_mono hn (runChild_mono h _ _ _ _ _ _) (fun _ _ _ => rfl)
  | «repeat» var ce st => exact repeatLoop_mono h _ _ _ _ _ _ _ _ _ hn
  | «while» var cond st => exact whileLoop_mono h _ _ _ _ _ _ _ _ _ hn

theorem compileBlock_mono {c c' : Option ChildFn} (h : ChildLe c c') (ctx : Ctx) (cl : ClsDesc) (word : Str) (line : Nat)
    (arg : Option Str) (block : List Node) (hb : Bool) (st : St)
    (hn : (compileBlock c ctx cl word line arg block hb st).isSO = false) :
    compileBlock c' ctx cl word line arg block hb st = compileBlock c ctx cl word line arg block hb st := by
  unfold compileBlock at hn ⊢
  exact R.bind_mono hn (fun _ => rfl) (fun act _ ha => runBlockAct_mono h _ _ _ _ ha)

theorem stepCmd_mono {c c' : Option ChildFn} (h : ChildLe c c') (ctx : Ctx) (l : PreLine) (block : Option (List Node)) (st : St)
    (hn : (stepCmd c ctx l block st).isSO = false) :
    stepCmd c' ctx l block st = stepCmd c ctx l block st := by
  unfold stepCmd at hn ⊢
  split
  · rfl
  · simp only at hn ⊢
    split
    · rename_i cl _
      by_cases hbk : cl.isBlock = true
      · simp only [hbk, if_true] at hn ⊢
        exact compileBlock_mono h _ _ _ _ _ _ _ _ (by simpa [*] using hn)
      · simp only [hbk, Bool.false_eq_true, if_false] at hn ⊢
        exact compileSimple_mono h _ _ _ _ _ _ _ (by simpa [*] using hn)
    · exact compileSimple_mono h _ _ _ _ _ _ _ (by simpa [*] using hn)

theorem runNodes_mono {c c' : Option ChildFn} (h : ChildLe c c') (ctx : Ctx) (nodes : List Node) (st : St) (out : List Str)
    (hn : (runNodes c ctx nodes st out).isSO = false) :
    runNodes c' ctx nodes st out = runNodes c ctx nodes st out := by
  induction nodes generalizing st out with
  | nil => rfl
  | cons n rest ih =>
    cases n with
    | block b => unfold runNodes at hn ⊢; exact ih _ _ hn
    | line l =>
      unfold runNodes at hn ⊢
      refine R.bind_mono hn (stepCmd_mono h _ _ _ _) (fun r _ hr => ?_)
      by_cases hsig : (r.sig == Sig.normal) = true
      · simp only [hsig, if_true] at hr ⊢
        exact ih _ _ hr
      · simp only [hsig, Bool.false_eq_true, if_false]

/-- one more stack to spare changes nothing unless the run overflowed -/
theorem exec_childLe (d : Nat) : ChildLe (some (exec d)) (some (exec (d + 1))) := by
  induction d with
  | zero =>
    intro code ctx st hn
    exact runNodes_mono (c := none) (c' := some (exec 0)) trivial ctx code st [] hn
  | succ d ih =>
    intro code ctx st hn
    exact runNodes_mono (c := some (exec d)) (c' := some (exec (d + 1))) ih ctx code st [] hn

theorem exec_succ_stable (d : Nat) (code : List Node) (ctx : Ctx) (st : St)
    (hn : (exec d code ctx st).isSO = false) : exec (d + 1) code ctx st = exec d code ctx st :=
  exec_childLe d code ctx st hn

/-- C14: the result is stable above the depth the program needs -/
theorem exec_stable (d d' : Nat) (hd : d ≤ d') (code : List Node) (ctx : Ctx) (st : St)
    (hn : (exec d code ctx st).isSO = false) : exec d' code ctx st = exec d code ctx st := by
  induction d' with
  | zero => cases Nat.le_zero.mp hd; rfl
  | succ k ih =>
    by_cases hk : d ≤ k
    · have := ih hk
      rw [exec_succ_stable k code ctx st (by rw [this]; exact hn), this]
    · have : d = k + 1 := by omega
      subst this; rfl
end Duckling
