import Duckling.Model.Compile
import Duckling.Lemmas.RBasic
import Duckling.Lemmas.SimplePre
/-
  No crash (C09): the only non-compile exception the interpreter model can exhibit is the IndexError of a
  blank command line (nested-list input) — provided the expression evaluator does not crash.
-/
namespace Duckling

/-- `r` crashes only with IndexError -/
structure CI {α : Type} (r : R α) : Prop where
  out : ∀ x, r = .crash x → x = "IndexError"

variable {α β : Type}

theorem CI.ok (a : α) : CI (.ok a : R α) := ⟨fun _ h => by cases h⟩
theorem CI.pure (a : α) : CI (Pure.pure a : R α) := CI.ok a
theorem CI.err (e : ErrInfo) : CI (.err e : R α) := ⟨fun _ h => by cases h⟩
theorem CI.oom (w : String) : CI (.oom w : R α) := ⟨fun _ h => by cases h⟩
theorem CI.raise (ctx : Ctx) (pos : Pos) (st : St) (k : EK) : CI (Duckling.raise ctx pos st k : R α) := CI.err _
theorem CI.overflow (ctx : Ctx) (pos : Pos) (st : St) : CI (overflowErr ctx pos st : R α) := CI.err _
theorem CI.index : CI (.crash "IndexError" : R α) := ⟨fun _ h => by cases h; rfl⟩

theorem CI.bind {x : R α} {f : α → R β} (hx : CI x) (hf : ∀ a, x = .ok a → CI (f a)) : CI (x >>= f) := by
  cases x with
  | ok a => exact hf a rfl
  | err e => exact CI.err _
  | crash e => exact ⟨fun y h => by cases h; exact hx.out e rfl⟩
  | oom w => exact CI.oom _

/-- the evaluator does not crash (discharged in Lemmas/EvalNoCrash) -/
def EvalSafe : Prop := ∀ (vars : VarEnv) (s : Str) (x : String), tokenize vars s ≠ .crash x

theorem CI.liftO (ctx : Ctx) (pos : Pos) (st : St) (o : Outcome α) (h : ∀ x, o ≠ .crash x) : CI (Duckling.liftO ctx pos st o) := by
  cases o with
  | ok a => exact CI.ok _
  | cerr k => exact CI.raise _ _ _ _
  | crash e => exact absurd rfl (h e)
  | oom w => exact CI.oom _

theorem CI.evalIn (he : EvalSafe) (ctx : Ctx) (pos : Pos) (st : St) (s : Str) : CI (Duckling.evalIn ctx pos st s) :=
  CI.liftO _ _ _ _ (fun x => he _ _ x)

def ChildCI (c : Option ChildFn) : Prop := ∀ run, c = some run → ∀ code ctx st, CI (run code ctx st)

theorem CI.runChild {c : Option ChildFn} (hc : ChildCI c) (ctx : Ctx) (pos : Pos) (st : St) (code : List Node) (file : Option Path) (cst : St) :
    CI (Duckling.runChild c ctx pos st code file cst) := by
  cases c with
  | none => exact CI.overflow _ _ _
  | some run => exact hc run rfl _ _ _

theorem CI.guardChild {c : Option ChildFn} (ctx : Ctx) (pos : Pos) (st : St) (k : R α) (hk : CI k) :
    CI (Duckling.guardChild c ctx pos st k) := by
  cases c with
  | none => exact CI.overflow _ _ _
  | some _ => exact hk

syntax "ci_auto" : tactic
macro_rules
  | `(tactic| ci_auto) => `(tactic|
      repeat' first
        | with_reducible exact CI.ok _
        | with_reducible exact CI.pure _
        | with_reducible exact CI.err _
        | with_reducible exact CI.oom _
        | with_reducible exact CI.raise _ _ _ _
        | with_reducible exact CI.index
        | with_reducible assumption
        | split)

theorem pyStr_no_crash (v : Val) : ∀ x, v.pyStr ≠ .crash x := by
  intro x
  cases v with
  | int i => simp only [Val.pyStr]; split <;> simp
  | flt m k => simp only [Val.pyStr, Val.reprFlt]; split <;> simp
  | str s => simp [Val.pyStr]
  | bool b => simp [Val.pyStr]
  | list l => simp [Val.pyStr]

theorem CI.runArgs (he : EvalSafe) (ctx : Ctx) (pos : Pos) (st : St) (vs : Option Str) : CI (Duckling.runArgs ctx pos st vs) := by
  unfold Duckling.runArgs
  split
  · exact CI.ok _
  · split
    · exact CI.ok _
    · exact CI.bind (CI.evalIn he _ _ _ _) (fun v _ => by split <;> exact CI.ok _)

theorem CI.runPre (he : EvalSafe) (ctx : Ctx) (pos : Pos) (a : Arg) (st : St) : CI (Duckling.runPre ctx pos a st) := by
  unfold Duckling.runPre
  exact CI.bind (CI.runArgs he _ _ _ _) (fun vals _ => by ci_auto)

theorem CI.runPost (ctx : Ctx) (pos : Pos) (st : St) (r : Out) : CI (Duckling.runPost ctx pos st r) := by
  unfold Duckling.runPost; simp only []; ci_auto

theorem CI.runRun (he : EvalSafe) {c : Option ChildFn} (hc : ChildCI c) (ctx : Ctx) (pos : Pos) (a : Arg) (st : St) :
    CI (Duckling.runRun c ctx pos a st) := by
  unfold Duckling.runRun
  exact CI.bind (CI.runPre he _ _ _ _) (fun p _ => CI.bind (CI.runChild hc _ _ _ _ _ _) (fun r _ => CI.runPost _ _ _ _))

theorem CI.loadImport (ctx : Ctx) (pos : Pos) (a : Arg) (st : St) (hf : ctx.file.isSome = true) :
    CI (Duckling.loadImport ctx pos a st) := by
  unfold Duckling.loadImport
  split
  · rename_i h; simp [h] at hf
  · ci_auto

theorem CI.startPost (name : Str) (st : St) (r : Out) : CI (Duckling.startPost name st r) := by
  unfold Duckling.startPost; simp only []; ci_auto

theorem CI.runStart {c : Option ChildFn} (hc : ChildCI c) (ctx : Ctx) (pos : Pos) (name : Str) (a : Arg) (st : St)
    (hf : ctx.file.isSome = true) : CI (Duckling.runStart c ctx pos name a st) := by
  unfold Duckling.runStart
  exact CI.bind (CI.loadImport _ _ _ _ hf) (fun p _ => CI.bind (CI.runChild hc _ _ _ _ _ _) (fun r _ => CI.startPost _ _ _))

theorem CI.defaultEmit (name : Str) (a : Option Arg) : CI (Duckling.defaultEmit name a) := by
  unfold Duckling.defaultEmit; ci_auto

/-- what `run_compile` needs from its argument so as not to raise a host exception -/
structure ItemOk (c : ClsDesc) (a : Option Arg) : Prop where
  needsArg : hasHook c "run_compile" = true →
    c.cname ∈ ["DefaultDelay", "Exist", "NotExist", "Var", "Run", "Start"] → a.isSome = true
  intArg : hasHook c "run_compile" = true → c.cname ∈ ["Enter", "Whitespace"] → ∀ x, a = some x → ∃ n, x.content = .int n
  varArg : hasHook c "run_compile" = true → c.cname = "Var" → ∀ x, a = some x → ∃ nm v, splitWs1 x.str = some (nm, some v)

theorem CI.runCompileLocal (he : EvalSafe) (ctx : Ctx) (c : ClsDesc) (name : Str) (line : Nat) (a : Option Arg) (st : St)
    (hi : ItemOk c a) : CI (Duckling.runCompileLocal ctx c name line a st) := by
  have hd : CI (Duckling.defaultEmit name a >>= fun ls => (R.ok { st := st, out := ls, sig := some Sig.normal } : R RC)) :=
    CI.bind (CI.defaultEmit _ _) (fun _ _ => CI.ok _)
  unfold Duckling.runCompileLocal
  simp only []
  split
  · exact hd
  · rename_i hh
    have hh' : hasHook c "run_compile" = true := by simpa using hh
    split
    all_goals first
      | exact hd
      | exact CI.ok _
      | skip
    · split
      · exact hd
      · exact CI.ok _
    · split <;> exact CI.ok _
    · -- Enter
      rename_i hcn
      split
      · exact hd
      · rename_i x
        obtain ⟨n, hn⟩ := hi.intArg hh' (by simp [hcn]) x rfl
        simp only [hn]
        split <;> first | exact CI.oom _ | exact CI.ok _
    · -- Whitespace
      rename_i hcn
      split
      · exact CI.ok _
      · rename_i x
        obtain ⟨n, hn⟩ := hi.intArg hh' (by simp [hcn]) x rfl
        simp only [hn]
        exact CI.ok _
    · -- DefaultDelay
      rename_i hcn
      split
      · have := hi.needsArg hh' (by simp [hcn]); simp at this
      · split
        · exact CI.raise _ _ _ _
        · exact CI.bind (CI.defaultEmit _ _) (fun _ _ => CI.ok _)
    · rename_i hcn
      split
      · have := hi.needsArg hh' (by simp [hcn]); simp at this
      · split
        · exact CI.ok _
        · exact CI.raise _ _ _ _
    · rename_i hcn
      split
      · have := hi.needsArg hh' (by simp [hcn]); simp at this
      · split
        · exact CI.ok _
        · exact CI.raise _ _ _ _
    · -- Var
      rename_i hcn
      split
      · have := hi.needsArg hh' (by simp [hcn]); simp at this
      · rename_i x
        obtain ⟨nm, v, hs⟩ := hi.varArg hh' hcn x rfl
        simp only [hs]
        exact CI.bind (CI.evalIn he _ _ _ _) (fun v _ => by ci_auto)

end Duckling

namespace Duckling

theorem CI.runCompile (he : EvalSafe) {c : Option ChildFn} (hc : ChildCI c) (ctx : Ctx) (cl : ClsDesc) (name : Str) (line : Nat)
    (a : Option Arg) (st : St) (hi : ItemOk cl a) (hstart : cl.cname = "Start" → ctx.file.isSome = true) :
    CI (Duckling.runCompile c ctx cl name line a st) := by
  unfold Duckling.runCompile
  split
  · rename_i h
    have h1 : hasHook cl "run_compile" = true ∧ cl.cname = "Run" := by simpa using h
    split
    · have := hi.needsArg h1.1 (by simp [h1.2]); simp at this
    · exact CI.runRun he hc _ _ _ _
  · split
    · rename_i h
      have h1 : hasHook cl "run_compile" = true ∧ cl.cname = "Start" := by simpa using h
      split
      · have := hi.needsArg h1.1 (by simp [h1.2]); simp at this
      · exact CI.runStart hc _ _ _ _ _ (hstart h1.2)
    · exact CI.runCompileLocal he _ _ _ _ _ _ hi

theorem CI.multiComp (he : EvalSafe) {c : Option ChildFn} (hc : ChildCI c) (ctx : Ctx) (cl : ClsDesc) (name : Str) (line : Nat)
    (items : List (Option Arg)) (st : St) (out : List Str) (sig : Sig)
    (hi : ∀ a ∈ items, ItemOk cl a) (hstart : cl.cname = "Start" → ctx.file.isSome = true) :
    CI (Duckling.multiComp c ctx cl name line items st out sig) := by
  induction items generalizing st out sig with
  | nil => exact CI.ok _
  | cons a rest ih =>
    unfold Duckling.multiComp
    exact CI.bind (CI.runCompile he hc _ _ _ _ _ _ (hi a (by simp)) hstart)
      (fun r _ => ih _ _ _ (fun x hx => hi x (List.mem_cons_of_mem _ hx)))

theorem CI.evaluateArgs (he : EvalSafe) (ctx : Ctx) (line : Nat) (st : St) (b : Bool) (args : List Arg) :
    CI (Duckling.evaluateArgs ctx line st b args) := by
  induction args with
  | nil => exact CI.ok _
  | cons a rest ih =>
    unfold Duckling.evaluateArgs
    exact CI.bind (CI.evalIn he _ _ _ _) (fun v _ => CI.bind ih (fun r _ => CI.ok _))

theorem CI.stringifyArgs (ctx : Ctx) (line : Nat) (st : St) (args : List Arg) : CI (Duckling.stringifyArgs ctx line st args) := by
  induction args with
  | nil => exact CI.ok _
  | cons a rest ih =>
    unfold Duckling.stringifyArgs
    exact CI.bind (CI.liftO _ _ _ _ (pyStr_no_crash _)) (fun v _ => CI.bind ih (fun r _ => CI.ok _))

theorem CI.verifyTypes (ctx : Ctx) (line : Nat) (st : St) (t : ArgType) (args : List Arg) : CI (Duckling.verifyTypes ctx line st t args) := by
  induction args with
  | nil => exact CI.ok _
  | cons a rest ih => unfold Duckling.verifyTypes; split; exact CI.raise _ _ _ _; exact ih

theorem CI.verifyEach (ctx : Ctx) (line : Nat) (st : St) (c : ClsDesc) (args : List Arg) : CI (Duckling.verifyEach ctx line st c args) := by
  induction args with
  | nil => exact CI.ok _
  | cons a rest ih => unfold Duckling.verifyEach; split; exact CI.raise _ _ _ _; exact ih

theorem CI.verifyArgsHook (ctx : Ctx) (pos0 : Pos) (c : ClsDesc) (args : List Arg) (st : St) : CI (Duckling.verifyArgsHook ctx pos0 c args st) := by
  unfold Duckling.verifyArgsHook; ci_auto

theorem CI.prepareArgs (he : EvalSafe) (ctx : Ctx) (c : ClsDesc) (word : Str) (line : Nat) (arg : Option Str) (block : Option (List Node)) (st : St) :
    CI (Duckling.prepareArgs ctx c word line arg block st) := by
  unfold Duckling.prepareArgs
  split
  · exact CI.raise _ _ _ _
  · simp only []
    split
    · exact CI.bind (CI.evaluateArgs he _ _ _ _ _) (fun ev _ => by split; exact CI.ok _; exact CI.stringifyArgs _ _ _ _)
    · exact CI.ok _

theorem CI.checkArgs (ctx : Ctx) (c : ClsDesc) (line : Nat) (args : List Arg) (st : St) : CI (Duckling.checkArgs ctx c line args st) := by
  unfold Duckling.checkArgs
  simp only []
  split
  · exact CI.raise _ _ _ _
  · split
    · exact CI.raise _ _ _ _
    · exact CI.bind (CI.verifyTypes _ _ _ _ _) (fun _ _ => CI.bind (CI.verifyArgsHook _ _ _ _ _) (fun st' _ =>
        CI.bind (CI.verifyEach _ _ _ _ _) (fun _ _ => CI.ok _)))

theorem CI.simplePre (he : EvalSafe) (ctx : Ctx) (c : ClsDesc) (word : Str) (line : Nat) (arg : Option Str) (block : Option (List Node)) (st : St) :
    CI (Duckling.simplePre ctx c word line arg block st) := by
  unfold Duckling.simplePre
  simp only []
  split
  · exact CI.raise _ _ _ _
  · split
    · exact CI.raise _ _ _ _
    · exact CI.bind (CI.prepareArgs he _ _ _ _ _ _ _) (fun args _ => CI.bind (CI.checkArgs _ _ _ _ _) (fun st' _ => CI.ok _))

/-- table check: the classes whose `run_compile` dereferences its argument require one; those that take its integer
    value are typed `int`; `Var` verifies the shape it later unpacks; none of them reformats its argument -/
def crashTableOk : Bool :=
  (Generated.palette ++ [Generated.generic]).all fun c =>
    !hasHook c "run_compile" ||
      ((!(["DefaultDelay", "Exist", "NotExist", "Var", "Run", "Start"].contains c.cname) || c.argReq == .required) &&
       (!(["Enter", "Whitespace"].contains c.cname) || (c.argType == .int && !hasHook c "format_arg")) &&
       (c.cname != "Var" || (hasHook c "verify_arg" && !hasHook c "format_arg")))

theorem crashTable_facts : crashTableOk = true := by decide

theorem simplePre_start_file (ctx : Ctx) (c : ClsDesc) (word : Str) (line : Nat) (arg : Option Str) (block : Option (List Node)) (st : St)
    (p : Str × List (Option Arg) × St) (h : Duckling.simplePre ctx c word line arg block st = .ok p) :
    c.cname = "Start" → ctx.file.isSome = true := by
  intro hc
  unfold Duckling.simplePre at h
  simp only [] at h
  split at h
  · simp [Duckling.raise] at h
  · split at h
    · simp [Duckling.raise] at h
    · rename_i hn
      cases hf : ctx.file with
      | none => simp [hc, hf] at hn
      | some f => rfl

theorem itemsOk_of_spec (c : ClsDesc) (hmem : c ∈ Generated.palette ++ [Generated.generic]) (args : List Arg)
    (hreq : args = [] → c.argReq ≠ .required)
    (hargs : ∀ a ∈ args, typeOk c.argType a.content = true ∧ isListVal a.content = false ∧ verifyArgHook c a = true) :
    ∀ a ∈ itemsOf c args, ItemOk c a := by
  have hfacts := List.all_eq_true.mp crashTable_facts c hmem
  intro a ha
  by_cases hh : hasHook c "run_compile" = true
  · simp only [hh, Bool.not_true, Bool.false_or, Bool.and_eq_true, Bool.or_eq_true, Bool.not_eq_true', beq_iff_eq,
      List.contains_iff_mem, bne_iff_ne, ne_eq, Decidable.not_not] at hfacts
    obtain ⟨⟨h1, h2⟩, h3⟩ := hfacts
    by_cases he : args.isEmpty = true
    · have hnil : args = [] := by simpa using he
      simp only [itemsOf, he, if_true, List.mem_singleton] at ha
      subst ha
      refine ⟨fun _ hc => ?_, fun _ _ x hx => (by cases hx), fun _ _ x hx => (by cases hx)⟩
      rcases h1 with h1 | h1
      · exact absurd hc (by simpa using h1)
      · exact absurd h1 (hreq hnil)
    · simp only [itemsOf, he, Bool.false_eq_true, if_false, List.mem_map] at ha
      obtain ⟨a0, ha0, rfl⟩ := ha
      obtain ⟨hty, _, hv⟩ := hargs a0 ha0
      refine ⟨fun _ _ => rfl, fun _ hc x hx => ?_, fun _ hc x hx => ?_⟩
      · rcases h2 with h2 | h2
        · exact absurd hc (by simpa using h2)
        · cases hx
          have hnf : hasHook c "format_arg" = false := h2.2
          simp only [formatArg, hnf, Bool.not_false, if_true]
          rw [h2.1] at hty
          cases hcont : a0.content <;> simp [typeOk, hcont] at hty
          exact ⟨_, rfl⟩
      · rcases h3 with h3 | h3
        · exact absurd hc h3
        · cases hx
          have hnf : hasHook c "format_arg" = false := h3.2
          simp only [formatArg, hnf, Bool.not_false, if_true]
          unfold verifyArgHook at hv
          simp only [h3.1, Bool.not_true, Bool.false_eq_true, if_false, hc] at hv
          split at hv
          · rename_i nm v heq; exact ⟨nm, v, heq⟩
          · cases hv
  · have hh' : hasHook c "run_compile" = false := by simpa using hh
    exact ⟨fun h => (by simp [hh'] at h), fun h => (by simp [hh'] at h), fun h => (by simp [hh'] at h)⟩

theorem CI.compileSimple (he : EvalSafe) {c : Option ChildFn} (hc : ChildCI c) (ctx : Ctx) (cl : ClsDesc)
    (hmem : cl ∈ Generated.palette ++ [Generated.generic]) (word : Str) (line : Nat)
    (arg : Option Str) (block : Option (List Node)) (st : St) :
    CI (Duckling.compileSimple c ctx cl word line arg block st) := by
  unfold Duckling.compileSimple
  apply CI.bind (CI.simplePre he _ _ _ _ _ _ _)
  intro p hp
  obtain ⟨name, items, st'⟩ := p
  obtain ⟨_, _, _, _, args, _, hitems, hreq, _, hargs⟩ := simplePre_spec ctx cl word line arg block st name items st' hp
  exact CI.multiComp he hc _ _ _ _ _ _ _ _ (by rw [hitems]; exact itemsOk_of_spec cl hmem args hreq hargs)
    (simplePre_start_file _ _ _ _ _ _ _ _ hp)

end Duckling

namespace Duckling

theorem CI.tokenizeCount (he : EvalSafe) (ctx : Ctx) (pos : Pos) (st : St) (s : Str) : CI (Duckling.tokenizeCount ctx pos st s) := by
  unfold Duckling.tokenizeCount
  exact CI.bind (CI.evalIn he _ _ _ _) (fun v _ => by simp only []; ci_auto)

theorem CI.bindCounter (ctx : Ctx) (pos : Pos) (st : St) (var : Option Str) (n : Nat) (cst : St) :
    CI (Duckling.bindCounter ctx pos st var n cst) := by
  unfold Duckling.bindCounter; ci_auto

theorem CI.repeatLoop (he : EvalSafe) {c : Option ChildFn} (hc : ChildCI c) (ctx : Ctx) (pos : Pos) (var : Option Str)
    (ce : Str) (body : List Node) (budget count : Nat) (st : St) (out : List Str) :
    CI (Duckling.repeatLoop c ctx pos var ce body budget count st out) := by
  induction budget generalizing count st out with
  | zero => exact CI.ok _
  | succ b ih =>
    unfold Duckling.repeatLoop
    apply CI.bind (CI.tokenizeCount he _ _ _ _)
    intro n _
    split
    · exact CI.ok _
    · apply CI.guardChild
      apply CI.bind (CI.bindCounter _ _ _ _ _ _)
      intro cst _
      apply CI.bind (CI.runChild hc _ _ _ _ _ _)
      intro r _
      split
      · exact CI.ok _
      · exact ih _ _ _

theorem CI.whileLoop (he : EvalSafe) {c : Option ChildFn} (hc : ChildCI c) (ctx : Ctx) (pos : Pos) (var : Option Str)
    (cond : Str) (body : List Node) (budget count : Nat) (st : St) (out : List Str) :
    CI (Duckling.whileLoop c ctx pos var cond body budget count st out) := by
  induction budget generalizing count st out with
  | zero => exact CI.raise _ _ _ _
  | succ b ih =>
    unfold Duckling.whileLoop
    apply CI.guardChild
    apply CI.bind (CI.bindCounter _ _ _ _ _ _)
    intro cst _
    apply CI.bind (CI.evalIn he _ _ _ _)
    intro cv _
    split
    · exact CI.ok _
    · apply CI.bind (CI.runChild hc _ _ _ _ _ _)
      intro r _
      split
      · exact CI.ok _
      · exact ih _ _ _

theorem CI.ifPre (he : EvalSafe) (ctx : Ctx) (pos : Pos) (word : Str) (arg : Option Str) (st : St) : CI (Duckling.ifPre ctx pos word arg st) := by
  unfold Duckling.ifPre Duckling.ifCond
  simp only []
  split
  · exact CI.raise _ _ _ _
  · split
    · exact CI.raise _ _ _ _
    · apply CI.bind
      · split
        · exact CI.bind (CI.evalIn he _ _ _ _) (fun _ _ => CI.ok _)
        · exact CI.ok _
      · intro _ _; exact CI.ok _

theorem CI.blockPre (he : EvalSafe) (ctx : Ctx) (c : ClsDesc) (word : Str) (line : Nat) (arg : Option Str) (block : List Node) (hb : Bool) (st : St) :
    CI (Duckling.blockPre ctx c word line arg block hb st) := by
  unfold Duckling.blockPre Duckling.funcPre Duckling.ignorePre Duckling.repeatPre
  simp only []
  have hif := fun a => CI.ifPre he ctx ⟨line, none⟩ word a st
  ci_auto
  all_goals exact hif _

theorem CI.runBlockAct (he : EvalSafe) {c : Option ChildFn} (hc : ChildCI c) (ctx : Ctx) (pos : Pos) (block : List Node) (act : BlockAct) :
    CI (Duckling.runBlockAct c ctx pos block act) := by
  cases act with
  | done o => exact CI.ok _
  | body st => unfold Duckling.runBlockAct; exact CI.bind (CI.runChild hc _ _ _ _ _ _) (fun _ _ => CI.ok _)
  | «repeat» var ce st => exact CI.repeatLoop he hc _ _ _ _ _ _ _ _ _
  | «while» var cond st => exact CI.whileLoop he hc _ _ _ _ _ _ _ _ _

theorem CI.compileBlock (he : EvalSafe) {c : Option ChildFn} (hc : ChildCI c) (ctx : Ctx) (cl : ClsDesc) (word : Str) (line : Nat)
    (arg : Option Str) (block : List Node) (hb : Bool) (st : St) : CI (Duckling.compileBlock c ctx cl word line arg block hb st) := by
  unfold Duckling.compileBlock
  exact CI.bind (CI.blockPre he _ _ _ _ _ _ _ _) (fun act _ => CI.runBlockAct he hc _ _ _ _)

theorem dispatch_mem (word : Str) (hb : Bool) (c : ClsDesc) (h : dispatch word hb = some c) : c ∈ Generated.palette := by
  unfold dispatch at h
  exact List.mem_of_find?_eq_some h

theorem CI.stepCmd (he : EvalSafe) {c : Option ChildFn} (hc : ChildCI c) (ctx : Ctx) (l : PreLine) (block : Option (List Node)) (st : St) :
    CI (Duckling.stepCmd c ctx l block st) := by
  unfold Duckling.stepCmd
  split
  · exact CI.index
  · simp only []
    split
    · rename_i cl hd
      split
      · exact CI.compileBlock he hc _ _ _ _ _ _ _ _
      · exact CI.compileSimple he hc _ _ (List.mem_append_left _ (dispatch_mem _ _ _ hd)) _ _ _ _ _
    · exact CI.compileSimple he hc _ _ (List.mem_append_right _ (by simp)) _ _ _ _ _

theorem CI.runNodes (he : EvalSafe) {c : Option ChildFn} (hc : ChildCI c) (ctx : Ctx) (nodes : List Node) (st : St) (out : List Str) :
    CI (Duckling.runNodes c ctx nodes st out) := by
  induction nodes generalizing st out with
  | nil => exact CI.ok _
  | cons n rest ih =>
    cases n with
    | block b => unfold Duckling.runNodes; exact ih _ _
    | line l =>
      unfold Duckling.runNodes
      exact CI.bind (CI.stepCmd he hc _ _ _ _) (fun r _ => by split; exact ih _ _; exact CI.ok _)

theorem exec_childCI (he : EvalSafe) (d : Nat) : ChildCI (some (exec d)) := by
  induction d with
  | zero => intro run hr code ctx st; cases hr; exact CI.runNodes he (c := none) (by intro run h; cases h) _ _ _ _
  | succ d ih => intro run hr code ctx st; cases hr; exact CI.runNodes he ih _ _ _ _

/-- C09 (interpreter part): if the expression evaluator does not crash, the only non-compile exception the interpreter
    can exhibit — for any program, depth, context and state — is the IndexError of a blank command line -/
theorem exec_crash_only_index (he : EvalSafe) (d : Nat) (nodes : List Node) (ctx : Ctx) (st : St) : CI (exec d nodes ctx st) := by
  cases d with
  | zero => exact CI.runNodes he (c := none) (by intro run h; cases h) _ _ _ _
  | succ d => exact CI.runNodes he (exec_childCI he d) _ _ _ _

end Duckling
