import Duckling.Lemmas.EvalGroup
/-
  The model's "recursion fuel ran out" answer (`Outcome.isFuel`) is produced by the evaluator's fuel counters ONLY: no value operation,
  no literal conversion and no operator ever returns it.  Hence an evaluation all of whose leaves have an answer has an answer
  (`evalTreeS_notFuel`), and tree building keeps the leaves (`reduceAll_allLeaves`).
-/
namespace Duckling
open Val

theorem isFuel_bind {α β : Type} (x : Outcome α) (f : α → Outcome β) (hx : x.isFuel = false) (hf : ∀ a, (f a).isFuel = false) :
    (x >>= f).isFuel = false := by
  cases x with
  | ok a => exact hf a
  | cerr k => rfl
  | crash e => rfl
  | oom w => exact hx

theorem isFuel_ite {α : Type} {c : Prop} [Decidable c] {a b : Outcome α} (ha : a.isFuel = false) (hb : b.isFuel = false) :
    (if c then a else b).isFuel = false := by split <;> assumption

theorem mkFlt_notFuel (m : Int) (k : Nat) : (mkFlt m k).isFuel = false := by
  unfold mkFlt
  repeat' split
  all_goals (first | rfl | simp [Outcome.isFuel])

theorem reprFlt_notFuel (m : Int) (k : Nat) : (reprFlt m k).isFuel = false := by
  unfold reprFlt
  split <;> simp [Outcome.isFuel]

theorem pyStr_notFuel (v : Val) : (pyStr v).isFuel = false := by
  cases v with
  | int i => simp only [pyStr]; split <;> rfl
  | flt m k => exact reprFlt_notFuel m k
  | str s => rfl
  | bool b => rfl
  | list l => rfl

theorem mkNum_notFuel (f : Bool) (m : Int) (k : Nat) : (mkNum f m k).isFuel = false := by
  unfold mkNum
  split
  · exact mkFlt_notFuel m k
  · split <;> rfl

theorem cmpOp_notFuel (op : String) (l r : Val) : (cmpOp op l r).isFuel = false := by
  unfold cmpOp
  repeat' split
  all_goals rfl

theorem addOp_notFuel (l r : Val) : (addOp l r).isFuel = false := by
  unfold addOp
  split
  · exact isFuel_bind _ _ (pyStr_notFuel _) (fun _ => rfl)
  · exact isFuel_bind _ _ (pyStr_notFuel _) (fun _ => rfl)
  · rfl
  · split
    · exact mkNum_notFuel _ _ _
    · rfl

theorem numOp_notFuel (op : String) (a : Int) (ka : Nat) (fa : Bool) (b : Int) (kb : Nat) (fb : Bool) :
    (numOp op a ka fa b kb fb).isFuel = false := by
  unfold numOp
  simp only [align]
  split
  · exact mkNum_notFuel _ _ _
  · exact mkNum_notFuel _ _ _
  · refine isFuel_ite rfl ?_
    split
    · exact mkFlt_notFuel _ _
    · rfl
  · exact isFuel_ite rfl (mkNum_notFuel _ _ _)
  · exact isFuel_ite rfl (mkNum_notFuel _ _ _)
  · refine isFuel_ite rfl (isFuel_ite (isFuel_ite rfl (mkNum_notFuel _ _ _)) (isFuel_ite rfl (isFuel_ite rfl ?_)))
    split
    · exact mkFlt_notFuel _ _
    · rfl
  · rfl

theorem arithOp_notFuel (op : String) (l r : Val) : (arithOp op l r).isFuel = false := by
  unfold arithOp
  repeat' split
  all_goals (first | exact numOp_notFuel _ _ _ _ _ _ _ | rfl)

theorem binop_notFuel (op : String) (l r : Val) : (binop op l r).isFuel = false := by
  unfold binop
  repeat' split
  all_goals (first | exact cmpOp_notFuel _ _ _ | exact addOp_notFuel _ _ | exact arithOp_notFuel _ _ _ | rfl)

theorem numberValue_notFuel (t : Str) : (numberValue t).isFuel = false := by
  unfold numberValue
  simp only []
  refine isFuel_ite rfl (isFuel_ite (isFuel_ite rfl rfl) ?_)
  split
  · refine isFuel_ite ?_ rfl
    split
    · exact mkFlt_notFuel _ _
    · rfl
  · rfl

/-- every leaf of the tree satisfies `P` -/
def AllLeaves (P : Tok → Prop) : Tree Tok Str → Prop
  | .leaf t => P t
  | .node _ l r => AllLeaves P l ∧ AllLeaves P r

def AllPairs (P : Tok → Prop) (ps : Pairs Tok Str) : Prop := ∀ p ∈ ps, AllLeaves P p.2

theorem reducePass_allLeaves (P : Tok → Prop) (r : Str → Bool) : ∀ (ps : Pairs Tok Str) (acc : Tree Tok Str),
    AllLeaves P acc → AllPairs P ps → AllLeaves P (reducePass r acc ps).1 ∧ AllPairs P (reducePass r acc ps).2 := by
  intro ps
  induction ps with
  | nil => intro acc ha _; exact ⟨ha, fun p hp => by cases hp⟩
  | cons p rest ih =>
    intro acc ha hps
    obtain ⟨o, t⟩ := p
    have ht : AllLeaves P t := hps (o, t) List.mem_cons_self
    have hrest : AllPairs P rest := fun q hq => hps q (List.mem_cons_of_mem _ hq)
    rw [reducePass]
    by_cases hr : r o = true
    · simp only [hr, if_true]
      exact ih (.node o acc t) ⟨ha, ht⟩ hrest
    · simp only [hr, Bool.false_eq_true, if_false]
      obtain ⟨h1, h2⟩ := ih t ht hrest
      refine ⟨ha, fun q hq => ?_⟩
      rcases List.mem_cons.mp hq with rfl | hq
      · exact h1
      · exact h2 q hq

/-- tree building only regroups the leaves -/
theorem reduceAll_allLeaves (P : Tok → Prop) : ∀ (rs : List (Str → Bool)) (h : Tree Tok Str) (ps : Pairs Tok Str),
    AllLeaves P h → AllPairs P ps → AllLeaves P (reduceAll rs h ps).1 := by
  intro rs
  induction rs with
  | nil => intro h ps hh _; exact hh
  | cons r rs ih =>
    intro h ps hh hps
    rw [reduceAll]
    obtain ⟨h1, h2⟩ := reducePass_allLeaves P r ps h hh hps
    exact ih _ _ h1 h2

/-- if every leaf has an answer, the evaluation has one -/
theorem evalTreeS_notFuel (vars : VarEnv) : ∀ tr : Tree Tok Str, AllLeaves (fun t => (leafValS vars t).isFuel = false) tr →
    (evalTreeS vars tr).isFuel = false := by
  intro tr
  induction tr with
  | leaf t => intro h; exact h
  | node op l r ihl ihr =>
    intro h
    simp only [evalTreeS]
    exact isFuel_bind _ _ (ihl h.1) (fun a => isFuel_bind _ _ (ihr h.2) (fun b => binop_notFuel _ a b))

/-- a leaf that is not a group never asks for fuel -/
theorem leafValS_notFuel_nongrp (vars : VarEnv) (t : Tok) (h : t.cls ≠ .grp) : (leafValS vars t).isFuel = false := by
  unfold leafValS
  cases hc : t.cls <;> simp only [hc] <;> (try (rw [evalTok]; simp only [hc]))
  · rfl
  · exact numberValue_notFuel _
  · rfl
  · split <;> rfl
  · exact absurd hc h
  · rfl
  · rfl
  · rfl

end Duckling
