import Duckling.Lemmas.Plain
/-
  Options, as whole-program theorems (C15): with comments off no REM line is emitted, with Flipper commands off no Flipper-only
  command line is emitted — for every program without IGNORE blocks, at any nesting, through imports and calls: the options a
  compilation starts with are the options of every stack it creates.
-/
namespace Duckling
open Duckling.Spec Duckling.Legal

/-- the context of a compilation with comments disabled -/
def CommentsOff (ctx : Ctx) : Prop := ctx.opts.comments = false
/-- the context of a compilation with Flipper commands disabled -/
def FlipperOff (ctx : Ctx) : Prop := ctx.opts.flipper = false

instance : CtxInv CommentsOff := ⟨fun _ _ _ h => h⟩
instance : CtxInv FlipperOff := ⟨fun _ _ _ h => h⟩

def notRem (l : Str) : Bool := firstWord l != "REM"
def notFlipper (l : Str) : Bool := !flipperWords.contains (firstWord l)

theorem firstWord_word (wl rest : Str) (hsp : ' ' ∉ wl) : firstWord wl = String.ofList wl ∧ firstWord (wl ++ [' '] ++ rest) = String.ofList wl := by
  have a := takeWhile_nosep wl hsp
  have b := takeWhile_sep wl rest hsp
  simp only [List.append_assoc, List.singleton_append] at *
  exact ⟨by simp [firstWord, a.1], by simp [firstWord, b.1]⟩

/-- table facts: REM is the name of the Rem class only, which consults the comments option; the Flipper words are names of
    Flipper-only classes only -/
def optsTableOk : Bool :=
  Generated.palette.all fun c => c.isBlock ||
    ((!c.names.contains "REM" || (c.cname == "Rem" && c.hooks.contains "run_compile")) &&
     (c.names.all fun n => !flipperWords.contains n || c.flipperOnly))

theorem optsTable_facts : optsTableOk = true := by decide

theorem rem_off_out (ctx : Ctx) (c : ClsDesc) (name : Str) (line : Nat) (a : Option Arg) (st : St) (rc : RC)
    (hc : c.cname = "Rem") (hh : hasHook c "run_compile" = true) (hoff : ctx.opts.comments = false)
    (h : runCompileLocal ctx c name line a st = .ok rc) : rc.out = [] := by
  unfold runCompileLocal at h
  simp only [hh, Bool.not_true, Bool.false_eq_true, if_false, hc, hoff] at h
  cases h; rfl

/-- what the two instances share: the emitted word of a dispatched simple command is one of its names; an unknown word is no
    palette name -/
theorem emitted_word (content word : Str) (arg : Option Str) (block : Option (List Node)) (cl : ClsDesc)
    (hsplit : splitWs1 content = some (word, arg))
    (hd : (dispatch word (hasBlockOf block) = some cl ∧ cl.isBlock = false) ∨ (dispatch word (hasBlockOf block) = none ∧ cl = Generated.generic)) :
    ' ' ∉ upper (nameOf word) ∧
    ((cl ∈ Generated.palette ∧ cl.isBlock = false ∧ String.ofList (upper (nameOf word)) ∈ cl.names) ∨
     (∀ c ∈ Generated.palette, c.isBlock = false → String.ofList (upper (nameOf word)) ∉ c.names)) := by
  refine ⟨nameOf_no_space word (splitWs1_word_no_space _ _ _ hsplit), ?_⟩
  rcases hd with ⟨hd, hb⟩ | ⟨hd, _⟩
  · exact Or.inl ⟨List.mem_of_find?_eq_some hd, hb, dispatch_name word _ cl hd hb⟩
  · right
    intro c hc hb hn
    unfold dispatch at hd
    rw [List.find?_eq_none] at hd
    have := hd c hc
    rw [isThis_simple c word _ hb] at this
    exact this (by simpa using hn)

/-- lines of one `run_compile` call: nothing, ENTER lines, empty lines, or one line beginning with the emitted word -/
theorem out_first_word (ctx : Ctx) (cl : ClsDesc) (name : Str) (line : Nat) (a : Option Arg) (st : St) (rc : RC)
    (hsp : ' ' ∉ upper name) (h : runCompileLocal ctx cl name line a st = .ok rc) :
    ∀ l ∈ rc.out, l = "ENTER".toList ∨ l = [] ∨ firstWord l = String.ofList (upper name) := by
  intro l hl
  rcases runCompileLocal_out ctx cl name line a st rc h with h | ⟨n, h⟩ | ⟨n, h⟩ | ⟨_, ls, hls, h⟩
  · rw [h] at hl; cases hl
  · rw [h] at hl; exact Or.inl (List.eq_of_mem_replicate hl)
  · rw [h] at hl; exact Or.inr (Or.inl (List.eq_of_mem_replicate hl))
  · rw [h] at hl
    right; right
    rcases defaultEmit_lines _ _ _ hls with ⟨_, rfl⟩ | ⟨a1, s, _, _, rfl⟩ | ⟨a1, i, _, _, rfl⟩
    · simp only [List.mem_singleton] at hl; subst hl; exact (firstWord_word _ [] hsp).1
    · simp only [List.mem_singleton] at hl; subst hl; exact (firstWord_word _ s hsp).2
    · simp only [List.mem_singleton] at hl; subst hl; exact (firstWord_word _ (intToStr i) hsp).2

theorem hspec_noRem : HSpec niq (fun l => notRem l = true) CommentsOff where
  nonblank := hspec_legal.nonblank
  blockDone := by
    intro ctx content word arg block cl _ hq hsplit hd hblk line st o hpre l hl
    rcases blockPre_done_out _ _ _ _ _ _ _ _ _ hpre with h | h | ⟨ce, h⟩
    · rw [h] at hl; cases hl
    · exfalso
      have hu := dispatch_ignore word _ cl hd h
      simp only [niq] at hq
      unfold noIgnoreLine at hq
      rw [hsplit] at hq
      simp [hu] at hq
    · rw [h] at hl; simp only [List.mem_singleton] at hl; subst hl
      have e : "REPEAT ".toList ++ ce = "REPEAT".toList ++ [' '] ++ ce := by simp
      have fw := (firstWord_word "REPEAT".toList ce (by decide)).2
      rw [← e] at fw
      simp only [notRem, fw]; decide
  emit := by
    intro ctx content word arg block cl hoff _ hsplit hd _ _ line st name items st' hpre a ha st2 rc hrc l hl
    obtain ⟨hnm, _⟩ := simplePre_spec ctx cl word line arg block st name items st' hpre
    subst hnm
    obtain ⟨hsp, hw⟩ := emitted_word content word arg block cl hsplit hd
    rcases out_first_word ctx cl _ line a st2 rc hsp hrc l hl with h | h | h
    · rw [h]; decide
    · rw [h]; decide
    · simp only [notRem, h, bne_iff_ne, ne_eq]
      intro hrem
      rcases hw with ⟨hmem, hb, hname⟩ | hnone
      · have hf := List.all_eq_true.mp optsTable_facts cl hmem
        simp only [hb, Bool.false_or, Bool.and_eq_true, Bool.or_eq_true, Bool.not_eq_true', beq_iff_eq, List.contains_iff_mem] at hf
        rw [hrem] at hname
        rcases hf.1 with hf1 | hf1
        · have : "REM" ∉ cl.names := by simpa using hf1
          exact this hname
        · have hout := rem_off_out ctx cl _ line a st2 rc hf1.1 (by simp [hasHook, hf1.2]) hoff hrc
          rw [hout] at hl; cases hl
      · -- "REM" is a palette name: an unknown word cannot be it
        have : ∃ c ∈ Generated.palette, c.isBlock = false ∧ "REM" ∈ c.names := by decide
        obtain ⟨c, hc, hb, hn⟩ := this
        exact hnone c hc hb (hrem ▸ hn)

theorem hspec_noFlipper : HSpec niq (fun l => notFlipper l = true) FlipperOff where
  nonblank := hspec_legal.nonblank
  blockDone := by
    intro ctx content word arg block cl _ hq hsplit hd hblk line st o hpre l hl
    rcases blockPre_done_out _ _ _ _ _ _ _ _ _ hpre with h | h | ⟨ce, h⟩
    · rw [h] at hl; cases hl
    · exfalso
      have hu := dispatch_ignore word _ cl hd h
      simp only [niq] at hq
      unfold noIgnoreLine at hq
      rw [hsplit] at hq
      simp [hu] at hq
    · rw [h] at hl; simp only [List.mem_singleton] at hl; subst hl
      have e : "REPEAT ".toList ++ ce = "REPEAT".toList ++ [' '] ++ ce := by simp
      have fw := (firstWord_word "REPEAT".toList ce (by decide)).2
      rw [← e] at fw
      simp only [notFlipper, fw]; decide
  emit := by
    intro ctx content word arg block cl hoff _ hsplit hd _ _ line st name items st' hpre a ha st2 rc hrc l hl
    obtain ⟨hnm, hfl, _⟩ := simplePre_spec ctx cl word line arg block st name items st' hpre
    subst hnm
    obtain ⟨hsp, hw⟩ := emitted_word content word arg block cl hsplit hd
    rcases out_first_word ctx cl _ line a st2 rc hsp hrc l hl with h | h | h
    · rw [h]; decide
    · rw [h]; decide
    · suffices key : String.ofList (upper (nameOf word)) ∉ flipperWords by simp [notFlipper, h, key]
      intro hfw
      rcases hw with ⟨hmem, hb, hname⟩ | hnone
      · have hf := List.all_eq_true.mp optsTable_facts cl hmem
        simp only [hb, Bool.false_or, Bool.and_eq_true, List.all_eq_true, Bool.or_eq_true, Bool.not_eq_true', List.contains_iff_mem] at hf
        rcases hf.2 _ hname with h1 | h1
        · have : String.ofList (upper (nameOf word)) ∉ flipperWords := by simpa using h1
          exact this hfw
        · -- a Flipper-only class does not get past `simplePre` when Flipper commands are off
          have hoff' : ctx.opts.flipper = false := hoff
          simp [h1, hoff'] at hfl
      · have hcov : ∀ w ∈ flipperWords, ∃ c ∈ Generated.palette, c.isBlock = false ∧ w ∈ c.names := by decide
        obtain ⟨c, hc, hb, hn⟩ := hcov _ hfw
        exact hnone c hc hb hn

end Duckling
