import Duckling.Lemmas.Hered
/-
  The indentation parser never hands a blank line to the interpreter: every command line of its output, at every depth,
  is non-blank — whatever the text, the indentation unit, the verbatim regions.
-/
namespace Duckling

/-- the line has a first word -/
def nonBlank (s : Str) : Bool := !isBlank s

theorem dropWhile_nil_all (s : Str) (h : s.dropWhile isSpace = []) : ∀ x ∈ s, isSpace x = true := by
  induction s with
  | nil => intro x hx; cases hx
  | cons c cs ih =>
    simp only [List.dropWhile] at h
    split at h
    · rename_i hc
      intro x hx
      rcases List.mem_cons.mp hx with rfl | hx
      · exact hc
      · exact ih h x hx
    · cases h

theorem splitWs1_of_nonBlank (s : Str) (h : nonBlank s = true) : splitWs1 s ≠ none := by
  unfold splitWs1
  simp only []
  have hne : (lstrip s).isEmpty = false := by
    cases hl : lstrip s with
    | nil =>
      have : ∀ x ∈ s, isSpace x = true := dropWhile_nil_all s (by simpa [lstrip] using hl)
      have hb : isBlank s = true := by simpa [isBlank] using this
      simp [nonBlank, hb] at h
    | cons c cs => rfl
  rw [hne]
  simp only [Bool.false_eq_true, if_false]
  split <;> simp

theorem allLinesL_append (q : Str → Bool) (a b : List Node) : allLinesL q (a ++ b) = (allLinesL q a && allLinesL q b) := by
  induction a with
  | nil => simp
  | cons n rest ih => simp [ih, Bool.and_assoc]

theorem allLinesL_reverse (q : Str → Bool) (a : List Node) : allLinesL q a.reverse = allLinesL q a := by
  induction a with
  | nil => simp
  | cons n rest ih => simp [allLinesL_append, ih, Bool.and_comm]

/-- a recursive call that only yields non-blank code -/
def RecOk (rec : ParseFn) : Prop := ∀ text tab nodes, rec text tab = .ok nodes → allLinesL nonBlank nodes = true

theorem stepLine_noBlank (rec : ParseFn) (hrec : RecOk rec) (count : Nat) (l : PreLine) (st st' : PState)
    (hst : allLinesL nonBlank st.ret = true) (h : stepLine rec count l st = .ok st') : allLinesL nonBlank st'.ret = true := by
  unfold stepLine at h
  split at h
  · cases h; exact hst
  · rename_i hb
    have hnb : nonBlank l.content = true := by simpa [nonBlank] using hb
    simp only [] at h
    split at h
    · cases h; exact hst
    · split at h
      · cases h; simp [hnb, hst]
      · split at h
        · cases h
        · split at h
          · cases h; simp [hnb, hst]
          · split at h
            · cases h
            · rename_i b hb2
              cases h
              simp [hnb, hst, hrec _ _ _ hb2]
        · split at h
          · cases h
          · cases h; exact hst

theorem goLines_noBlank (rec : ParseFn) (hrec : RecOk rec) (lines : List PreLine) :
    ∀ (count : Nat) (st st' : PState), allLinesL nonBlank st.ret = true → goLines rec count lines st = .ok st' →
      allLinesL nonBlank st'.ret = true := by
  induction lines with
  | nil => intro count st st' hst h; simp only [goLines] at h; cases h; exact hst
  | cons l rest ih =>
    intro count st st' hst h
    simp only [goLines] at h
    split at h
    · cases h
    · rename_i st1 h1
      exact ih _ _ _ (stepLine_noBlank rec hrec count l st st1 hst h1) h

theorem finishParse_noBlank (rec : ParseFn) (hrec : RecOk rec) (st : PState) (nodes : List Node)
    (hst : allLinesL nonBlank st.ret = true) (h : finishParse rec st = .ok nodes) : allLinesL nonBlank nodes = true := by
  unfold finishParse at h
  split at h
  · cases h
  · split at h
    · cases h; rw [allLinesL_reverse]; exact hst
    · split at h
      · cases h
      · rename_i b hb
        cases h
        rw [allLinesL_reverse]
        simp [hst, hrec _ _ _ hb]

theorem parseFuel_noBlank : ∀ f : Nat, RecOk (parseFuel f) := by
  intro f
  induction f with
  | zero => intro text tab nodes h; simp [parseFuel] at h
  | succ f ih =>
    intro text tab nodes h
    simp only [parseFuel] at h
    split at h
    · cases h
    · rename_i st hgo
      exact finishParse_noBlank _ ih st nodes (goLines_noBlank _ ih text 0 _ st (by simp) hgo) h

/-- every command line of the parser's output, at every depth, is non-blank -/
theorem parseLines_noBlank (lines : List Str) (nodes : List Node) (h : parseLines lines = .ok nodes) :
    allLinesL nonBlank nodes = true :=
  parseFuel_noBlank _ _ _ _ h

theorem allCmdsL_text (p : Str → Bool) (nodes : List Node) : allCmdsL (fun s _ => p s) nodes = allLinesL p nodes :=
  allCmdsL_of_text p _ nodes (Nat.le_refl _)

/-- `nonBlank` as a predicate of the hereditary walk (it ignores whether a block follows) -/
abbrev nbq : Str → Bool → Bool := fun s _ => nonBlank s

/-- hence every file system satisfies the invariant for `nonBlank` -/
theorem fsOk_nonBlank (fs : FS) : FSOk nbq fs := fun _ _ nodes _ hp => by
  rw [show allCmdsL nbq nodes = allLinesL nonBlank nodes from allCmdsL_text nonBlank nodes]
  exact parseLines_noBlank _ nodes hp

/-- the C09 instance: nothing is asked of the output -/
theorem hspec_nonBlank : HSpec nbq (fun _ => True) (fun _ => True) :=
  ⟨fun s _ h => splitWs1_of_nonBlank s h, by intros; trivial, by intros; trivial⟩

end Duckling
