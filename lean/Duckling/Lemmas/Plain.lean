import Duckling.Lemmas.Legal
/-
  The third sentence of C02: a program in which every command line is a known command (so no unknown-command warning can be
  raised) and none is IGNORE emits no DucklingScript-only keyword and no `$`-prefixed command name.
-/
namespace Duckling
open Duckling.Spec Duckling.Legal

/-- the classes whose `run_compile` never goes through the default emission -/
def nonEmitNames : List String :=
  ["BreakLoop", "ContinueLoop", "Return", "Pass", "Print", "Exist", "NotExist", "Var", "Whitespace"]

theorem runCompileLocal_nonEmit (ctx : Ctx) (c : ClsDesc) (name : Str) (line : Nat) (a : Option Arg) (st : St) (rc : RC)
    (hh : hasHook c "run_compile" = true) (hc : c.cname ∈ nonEmitNames)
    (h : runCompileLocal ctx c name line a st = .ok rc) : rc.out = [] ∨ ∃ n, rc.out = List.replicate n [] := by
  unfold runCompileLocal at h
  simp only [hh, Bool.not_true, Bool.false_eq_true, if_false] at h
  simp only [nonEmitNames, List.mem_cons, List.not_mem_nil, or_false] at hc
  rcases hc with hc | hc | hc | hc | hc | hc | hc | hc | hc <;> simp only [hc] at h
  · cases h; exact Or.inl rfl
  · cases h; exact Or.inl rfl
  · cases h; exact Or.inl rfl
  · cases h; exact Or.inl rfl
  · split at h <;> (cases h; exact Or.inl rfl)
  · split at h
    · cases h
    · split at h
      · cases h; exact Or.inl rfl
      · simp [raise] at h
  · split at h
    · cases h
    · split at h
      · cases h; exact Or.inl rfl
      · simp [raise] at h
  · split at h
    · cases h
    · split at h
      · simp only [R.bind_eq_ok] at h
        obtain ⟨v, _, h⟩ := h
        split at h
        · simp [raise] at h
        · split at h
          · cases h
          · cases h; exact Or.inl rfl
      · cases h
  · split at h
    · cases h; exact Or.inr ⟨1, rfl⟩
    · split at h
      · cases h; exact Or.inr ⟨_, rfl⟩
      · cases h

/-- table fact: a simple class either has only plain names, or never emits through the default path -/
def plainTableOk : Bool :=
  Generated.palette.all fun c => c.isBlock ||
    ((c.names.all fun n => n.toList.head? != some '$') &&
     ((c.names.all fun n => !dsOnly.contains n) ||
      (c.hooks.contains "run_compile" && (nonEmitNames.contains c.cname || c.cname == "Run" || c.cname == "Start"))))

theorem plainTable_facts : plainTableOk = true := by decide

theorem plainLine_word (wl rest : Str) (hsp : ' ' ∉ wl) (h1 : String.ofList wl ∉ dsOnly) (h2 : wl.head? ≠ some '$') :
    plainLine wl = true ∧ plainLine (wl ++ [' '] ++ rest) = true := by
  have a := takeWhile_nosep wl hsp
  have b := takeWhile_sep wl rest hsp
  have e1 : dsOnly.contains (String.ofList wl) = false := by simpa using h1
  constructor
  · simp only [plainLine, a.1, e1, Bool.not_false, Bool.true_and, bne_iff_ne, ne_eq]; exact h2
  · simp only [List.append_assoc, List.singleton_append, plainLine, b.1, e1, Bool.not_false, Bool.true_and, bne_iff_ne, ne_eq]; exact h2

/-- the line is a command line, its command is a known one and is not IGNORE -/
def knownLine (s : Str) (hb : Bool) : Bool :=
  match splitWs1 s with
  | none => false
  | some (w, _) => upper w != "IGNORE".toList && (dispatch w hb).isSome

theorem plainLine_repeat (ce : Str) : plainLine ("REPEAT ".toList ++ ce) = true := by
  have h : "REPEAT ".toList ++ ce = "REPEAT".toList ++ [' '] ++ ce := by simp
  rw [h]
  exact (plainLine_word "REPEAT".toList ce (by decide) (by decide) (by decide)).2

theorem hspec_plain : HSpec knownLine (fun l => plainLine l = true) (fun _ => True) where
  nonblank := by
    intro s hb h
    unfold knownLine at h
    split at h
    · cases h
    · rename_i heq; rw [heq]; simp
  blockDone := by
    intro ctx content word arg block cl _ hq hsplit hd hblk line st o hpre l hl
    rcases blockPre_done_out _ _ _ _ _ _ _ _ _ hpre with h | h | ⟨ce, h⟩
    · rw [h] at hl; cases hl
    · exfalso
      have hu := dispatch_ignore word _ cl hd h
      unfold knownLine at hq
      rw [hsplit] at hq
      simp [hu] at hq
    · rw [h] at hl; simp only [List.mem_singleton] at hl; subst hl; exact plainLine_repeat ce
  emit := by
    intro ctx content word arg block cl _ hq hsplit hd hnr hns line st name items st' hpre a ha st2 rc hrc l hl
    -- the command is a known one
    have hdisp : dispatch word (hasBlockOf block) = some cl ∧ cl.isBlock = false := by
      rcases hd with hd | hd
      · exact hd
      · exfalso
        unfold knownLine at hq
        rw [hsplit] at hq
        simp [hd.1] at hq
    have hmem : cl ∈ Generated.palette := List.mem_of_find?_eq_some hdisp.1
    have hname := dispatch_name word _ cl hdisp.1 hdisp.2
    obtain ⟨hnm, _⟩ := simplePre_spec ctx cl word line arg block st name items st' hpre
    subst hnm
    have hsp : ' ' ∉ upper (nameOf word) := nameOf_no_space word (splitWs1_word_no_space _ _ _ hsplit)
    have hf := List.all_eq_true.mp plainTable_facts cl hmem
    simp only [hdisp.2, Bool.false_or, Bool.and_eq_true, List.all_eq_true, Bool.or_eq_true, bne_iff_ne, ne_eq,
      Bool.not_eq_true', beq_iff_eq, List.contains_iff_mem] at hf
    obtain ⟨hdollar, hplain⟩ := hf
    rcases hplain with hplain | ⟨hrun, hcn⟩
    · -- plain names: whatever is emitted starts with the (upper-cased) name
      rcases runCompileLocal_out ctx cl (nameOf word) line a st2 rc hrc with h | ⟨n, h⟩ | ⟨n, h⟩ | ⟨_, ls, hls, h⟩
      · rw [h] at hl; cases hl
      · rw [h] at hl; rw [List.eq_of_mem_replicate hl]; decide
      · rw [h] at hl; rw [List.eq_of_mem_replicate hl]; decide
      · rw [h] at hl
        have hW1 : String.ofList (upper (nameOf word)) ∉ dsOnly := by
          have := hplain _ hname
          simpa using this
        have hW2 : (upper (nameOf word)).head? ≠ some '$' := by
          have := hdollar _ hname
          simpa using this
        rcases defaultEmit_lines _ _ _ hls with ⟨_, rfl⟩ | ⟨a1, s, _, _, rfl⟩ | ⟨a1, i, _, _, rfl⟩
        · simp only [List.mem_singleton] at hl; subst hl
          exact (plainLine_word _ [] hsp hW1 hW2).1
        · simp only [List.mem_singleton] at hl; subst hl
          exact (plainLine_word _ s hsp hW1 hW2).2
        · simp only [List.mem_singleton] at hl; subst hl
          exact (plainLine_word _ (intToStr i) hsp hW1 hW2).2
    · -- a DucklingScript command: it emits nothing, or empty lines
      have hh : hasHook cl "run_compile" = true := by simp [hasHook, hrun]
      rcases hcn with (hcn | hcn) | hcn
      · rcases runCompileLocal_nonEmit ctx cl _ line a st2 rc hh hcn hrc with h | ⟨n, h⟩
        · rw [h] at hl; cases hl
        · rw [h] at hl; rw [List.eq_of_mem_replicate hl]; decide
      · simp [hh, hcn] at hnr
      · simp [hh, hcn] at hns

end Duckling
