import Duckling.Model.Expr
/-
  Precedence: the rank-by-rank left-to-right reduction of `__build_parse_trees` equals the
  textbook precedence grammar (left-associative within a rank), for sequences of any length and any
  list of pairwise disjoint ranks.  (C04-A)
-/
namespace Duckling

variable {V O : Type}

def foldL : Tree V O → Pairs V O → Tree V O
  | acc, [] => acc
  | acc, (o, t) :: rest => foldL (.node o acc t) rest

/-- split a flat sequence at the operators of rank `r` -/
def splitOn (r : O → Bool) : Tree V O → Pairs V O → Flat V O × List (O × Flat V O)
  | h, [] => ((h, []), [])
  | h, (o, t) :: rest =>
    if r o then ((h, []), (o, (splitOn r t rest).1) :: (splitOn r t rest).2)
    else ((h, (o, (splitOn r t rest).1.1) :: (splitOn r t rest).1.2), (splitOn r t rest).2)

/-- Reference grammar; ranks listed LOOSEST first. -/
def refL : List (O → Bool) → Tree V O → Pairs V O → Tree V O
  | [], h, ps => foldL h ps
  | r :: tighter, h, ps =>
    foldL (refL tighter (splitOn r h ps).1.1 (splitOn r h ps).1.2)
      ((splitOn r h ps).2.map fun q => (q.1, refL tighter q.2.1 q.2.2))

def opsIn (rs : List (O → Bool)) (ps : Pairs V O) : Prop := ∀ q ∈ ps, ∃ r ∈ rs, r q.1 = true

theorem reducePass_all (r : O → Bool) (h : Tree V O) (ps : Pairs V O) (hall : ∀ q ∈ ps, r q.1 = true) :
    reducePass r h ps = (foldL h ps, []) := by
  induction ps generalizing h with
  | nil => rfl
  | cons q qs ih =>
    obtain ⟨o, t⟩ := q
    have ho : r o = true := hall (o, t) (by simp)
    simp only [reducePass, ho, if_true, foldL]
    exact ih _ (fun q hq => hall q (by simp [hq]))

theorem splitOn_all (r : O → Bool) (h : Tree V O) (ps : Pairs V O) (hall : ∀ q ∈ ps, r q.1 = true) :
    splitOn r h ps = ((h, []), ps.map fun q => (q.1, (q.2, []))) := by
  induction ps generalizing h with
  | nil => rfl
  | cons q qs ih =>
    obtain ⟨o, t⟩ := q
    have ho : r o = true := hall (o, t) (by simp)
    have := ih t (fun q hq => hall q (by simp [hq]))
    simp [splitOn, ho, this]

theorem splitOn_head (r : O → Bool) (h : Tree V O) (ps : Pairs V O) : (splitOn r h ps).1.1 = h := by
  cases ps with
  | nil => rfl
  | cons q qs => obtain ⟨o, t⟩ := q; by_cases ho : r o = true <;> simp [splitOn, ho]

theorem splitOn_indep (r : O → Bool) (h h' : Tree V O) (ps : Pairs V O) :
    (splitOn r h ps).1.2 = (splitOn r h' ps).1.2 ∧ (splitOn r h ps).2 = (splitOn r h' ps).2 := by
  cases ps with
  | nil => exact ⟨rfl, rfl⟩
  | cons q qs => obtain ⟨o, t⟩ := q; by_cases ho : r o = true <;> simp [splitOn, ho]

/-- splitting on a looser rank commutes with reducing a (disjoint) tighter rank -/
theorem splitOn_reducePass (r r1 : O → Bool) (hd : ∀ o, r o = true → r1 o = false)
    (h : Tree V O) (ps : Pairs V O) :
    splitOn r (reducePass r1 h ps).1 (reducePass r1 h ps).2 =
      (reducePass r1 (splitOn r h ps).1.1 (splitOn r h ps).1.2,
       (splitOn r h ps).2.map fun q => (q.1, reducePass r1 q.2.1 q.2.2)) := by
  induction ps generalizing h with
  | nil => simp [reducePass, splitOn]
  | cons q qs ih =>
    obtain ⟨o, t⟩ := q
    by_cases h1 : r1 o = true
    · have hr : r o = false := by
        cases hro : r o with
        | false => rfl
        | true => have := hd o hro; simp [h1] at this
      have e1 := ih (.node o h t)
      have hh := splitOn_head r t qs
      have hi := splitOn_indep r (.node o h t) t qs
      have hh' := splitOn_head r (.node o h t) qs
      simp only [reducePass, h1, if_true]
      rw [e1]
      simp [splitOn, hr, hh', hi.1, hi.2, hh, reducePass, h1]
    · have h1' : r1 o = false := by simpa using h1
      have e1 := ih t
      by_cases hro : r o = true
      · simp [reducePass, h1', splitOn, hro, e1]
      · have hro' : r o = false := by simpa using hro
        simp [reducePass, h1', splitOn, hro', e1]


/-! ops bookkeeping -/
def ops (ps : Pairs V O) : List O := ps.map (·.1)
@[simp] theorem ops_nil : ops ([] : Pairs V O) = [] := rfl
@[simp] theorem ops_cons (o : O) (t : Tree V O) (ps : Pairs V O) : ops ((o, t) :: ps) = o :: ops ps := rfl

theorem reducePass_ops (r1 : O → Bool) (h : Tree V O) (ps : Pairs V O) :
    ∀ o ∈ ops (reducePass r1 h ps).2, o ∈ ops ps ∧ r1 o = false := by
  induction ps generalizing h with
  | nil => simp [reducePass, ops]
  | cons q qs ih =>
    obtain ⟨o', t⟩ := q
    by_cases h1 : r1 o' = true
    · intro o ho
      simp only [reducePass, h1, if_true] at ho
      have := ih _ o ho
      exact ⟨by simp only [ops_cons, List.mem_cons]; exact Or.inr this.1, this.2⟩
    · have h1' : r1 o' = false := by simpa using h1
      intro o ho
      simp only [reducePass, h1', Bool.false_eq_true, if_false, ops_cons, List.mem_cons] at ho
      rcases ho with rfl | ho
      · exact ⟨by simp, h1'⟩
      · have := ih t o ho
        exact ⟨by simp only [ops_cons, List.mem_cons]; exact Or.inr this.1, this.2⟩

theorem splitOn_ops (r : O → Bool) (h : Tree V O) (ps : Pairs V O) :
    (∀ o ∈ ops (splitOn r h ps).1.2, o ∈ ops ps ∧ r o = false) ∧
    (∀ q ∈ (splitOn r h ps).2, ∀ o ∈ ops q.2.2, o ∈ ops ps ∧ r o = false) := by
  induction ps generalizing h with
  | nil => simp [splitOn, ops]
  | cons q qs ih =>
    obtain ⟨o', t⟩ := q
    have ⟨ih1, ih2⟩ := ih t
    by_cases hr : r o' = true
    · simp only [splitOn, hr, if_true]
      refine ⟨by simp [ops], ?_⟩
      intro q hq o ho
      simp only [List.mem_cons] at hq
      rcases hq with rfl | hq
      · have := ih1 o ho; exact ⟨by simp only [ops_cons, List.mem_cons]; exact Or.inr this.1, this.2⟩
      · have := ih2 q hq o ho; exact ⟨by simp only [ops_cons, List.mem_cons]; exact Or.inr this.1, this.2⟩
    · have hr' : r o' = false := by simpa using hr
      simp only [splitOn, hr', Bool.false_eq_true, if_false]
      refine ⟨?_, ?_⟩
      · intro o ho
        simp only [ops_cons, List.mem_cons] at ho
        rcases ho with rfl | ho
        · exact ⟨by simp, hr'⟩
        · have := ih1 o ho; exact ⟨by simp only [ops_cons, List.mem_cons]; exact Or.inr this.1, this.2⟩
      · intro q hq o ho
        have := ih2 q hq o ho; exact ⟨by simp only [ops_cons, List.mem_cons]; exact Or.inr this.1, this.2⟩

def OpsIn (rs : List (O → Bool)) (ps : Pairs V O) : Prop := ∀ o ∈ ops ps, ∃ r ∈ rs, r o = true

/-- peeling the tightest rank off the reference grammar -/
theorem refL_peel (L : List (O → Bool)) (r1 : O → Bool)
    (hd : ∀ r ∈ L, ∀ o, r o = true → r1 o = false)
    (h : Tree V O) (ps : Pairs V O) (hops : OpsIn (L ++ [r1]) ps) :
    refL (L ++ [r1]) h ps = refL L (reducePass r1 h ps).1 (reducePass r1 h ps).2 := by
  induction L generalizing h ps with
  | nil =>
    have hall : ∀ q ∈ ps, r1 q.1 = true := by
      intro q hq
      obtain ⟨r, hr, hro⟩ := hops q.1 (by simp [ops]; exact ⟨q.2, hq⟩)
      simp at hr; subst hr; exact hro
    simp only [List.nil_append, refL, splitOn_all r1 h ps hall, reducePass_all r1 h ps hall, foldL,
      List.map_map]
    congr 1
    conv => rhs; rw [← List.map_id ps]
    apply List.map_congr_left
    intro q _; simp [foldL]
  | cons r L ih =>
    have hdr : ∀ o, r o = true → r1 o = false := hd r (by simp)
    have hdL : ∀ r' ∈ L, ∀ o, r' o = true → r1 o = false := fun r' hr' => hd r' (by simp [hr'])
    have ⟨so1, so2⟩ := splitOn_ops r h ps
    -- ops of every segment lie in L ++ [r1]
    have seg_ops : ∀ (qs : Pairs V O), (∀ o ∈ ops qs, o ∈ ops ps ∧ r o = false) → OpsIn (L ++ [r1]) qs := by
      intro qs hqs o ho
      obtain ⟨hin, hro⟩ := hqs o ho
      obtain ⟨r', hr', hr'o⟩ := hops o hin
      simp only [List.cons_append, List.mem_cons] at hr'
      rcases hr' with rfl | hr'
      · simp [hro] at hr'o
      · exact ⟨r', hr', hr'o⟩
    simp only [List.cons_append, refL]
    rw [splitOn_reducePass r r1 hdr h ps]
    simp only [List.map_map]
    rw [ih hdL _ _ (seg_ops _ so1)]
    congr 1
    apply List.map_congr_left
    intro q hq
    simp only [Function.comp]
    rw [ih hdL _ _ (seg_ops _ (so2 q hq))]

/-- C04-A: rank-by-rank left-to-right reduction = the reference precedence grammar -/
theorem reduceAll_eq_ref (ranks : List (O → Bool))
    (hdisj : ranks.Pairwise (fun a b => ∀ o, b o = true → a o = false))
    (h : Tree V O) (ps : Pairs V O) (hops : OpsIn ranks ps) :
    reduceAll ranks h ps = (refL ranks.reverse h ps, []) := by
  induction ranks generalizing h ps with
  | nil =>
    have : ps = [] := by
      cases ps with
      | nil => rfl
      | cons q qs => obtain ⟨r, hr, _⟩ := hops q.1 (by simp [ops]); simp at hr
    subst this; simp [reduceAll, refL, foldL]
  | cons r1 rs ih =>
    rw [List.pairwise_cons] at hdisj
    have hops' : OpsIn rs (reducePass r1 h ps).2 := by
      intro o ho
      obtain ⟨hin, h1⟩ := reducePass_ops r1 h ps o ho
      obtain ⟨r, hr, hro⟩ := hops o hin
      simp only [List.mem_cons] at hr
      rcases hr with rfl | hr
      · simp [h1] at hro
      · exact ⟨r, hr, hro⟩
    simp only [reduceAll, List.reverse_cons]
    rw [ih hdisj.2 _ _ hops']
    rw [refL_peel rs.reverse r1 (by
      intro r hr o hro
      exact hdisj.1 r (by simpa using hr) o hro) h ps (by
      intro o ho
      obtain ⟨r, hr, hro⟩ := hops o ho
      refine ⟨r, ?_, hro⟩
      simp only [List.mem_cons] at hr
      simp only [List.mem_append, List.mem_reverse, List.mem_singleton]
      rcases hr with rfl | hr
      · exact Or.inr rfl
      · exact Or.inl hr)]

end Duckling
