import Duckling.Model.Compile
import Duckling.Lemmas.RBasic
/-
  The print log only grows (C18): along every execution the log a computation ends with — and the log
  carried by any located error — extends the log it started with.
-/
namespace Duckling

/-- the print log inside a result value, if it has one -/
class HasPrints (α : Type) where
  prints : α → Option (List Print)

instance : HasPrints St := ⟨fun s => some s.prints⟩
instance : HasPrints Out := ⟨fun o => some o.st.prints⟩
instance : HasPrints RC := ⟨fun o => some o.st.prints⟩
instance : HasPrints (Func × St) := ⟨fun p => some p.2.prints⟩
instance : HasPrints (Str × List (Option Arg) × St) := ⟨fun p => some p.2.2.prints⟩
instance : HasPrints BlockAct := ⟨fun a => match a with
  | .done o => some o.st.prints | .body st => some st.prints | .repeat _ _ st => some st.prints | .while _ _ st => some st.prints⟩
instance : HasPrints (Path × List Node) := ⟨fun _ => none⟩
instance : HasPrints (List Arg) := ⟨fun _ => none⟩
instance : HasPrints (List Val) := ⟨fun _ => none⟩
instance : HasPrints (List Str) := ⟨fun _ => none⟩
instance : HasPrints Nat := ⟨fun _ => none⟩
instance : HasPrints Str := ⟨fun _ => none⟩
instance : HasPrints Val := ⟨fun _ => none⟩
instance : HasPrints Unit := ⟨fun _ => none⟩
instance : HasPrints Bool := ⟨fun _ => none⟩

/-- `r` only extends the log `p0` -/
structure PG {α : Type} [HasPrints α] (p0 : List Print) (r : R α) : Prop where
  ok : ∀ a ps, r = .ok a → HasPrints.prints a = some ps → p0 <+: ps
  err : ∀ e ps, r = .err e → e.prints = some ps → p0 <+: ps

variable {α β : Type} [HasPrints α] [HasPrints β]

theorem PG.crash (p0 : List Print) (x : String) : PG p0 (.crash x : R α) := ⟨fun _ _ h _ => (by cases h), fun _ _ h _ => (by cases h)⟩
theorem PG.oom (p0 : List Print) (x : String) : PG p0 (.oom x : R α) := ⟨fun _ _ h _ => (by cases h), fun _ _ h _ => (by cases h)⟩
theorem PG.unlocated (p0 : List Print) (k : EK) (n : Option Nat) : PG p0 (.err { k := k, lineNo := n } : R α) :=
  ⟨fun _ _ h _ => (by cases h), fun e ps h hp => (by cases h; simp at hp)⟩

theorem PG.okOf (p0 : List Print) (a : α) (h : ∀ ps, HasPrints.prints a = some ps → p0 <+: ps) : PG p0 (.ok a : R α) :=
  ⟨fun a' ps he hp => (by cases he; exact h ps hp), fun _ _ he _ => (by cases he)⟩

theorem PG.okNone (p0 : List Print) (a : α) (h : HasPrints.prints a = none) : PG p0 (.ok a : R α) :=
  PG.okOf p0 a (fun ps hp => by rw [h] at hp; cases hp)

theorem PG.raise (p0 : List Print) (ctx : Ctx) (pos : Pos) (st : St) (k : EK) (h : p0 <+: st.prints) :
    PG p0 (Duckling.raise ctx pos st k : R α) :=
  ⟨fun _ _ he _ => (by simp [Duckling.raise] at he),
   fun e ps he hp => (by simp only [Duckling.raise, R.err.injEq] at he; subst he; simp at hp; subst hp; exact h)⟩

theorem PG.overflow (p0 : List Print) (ctx : Ctx) (pos : Pos) (st : St) (h : p0 <+: st.prints) :
    PG p0 (overflowErr ctx pos st : R α) :=
  ⟨fun _ _ he _ => (by simp [overflowErr] at he),
   fun e ps he hp => (by simp only [overflowErr, R.err.injEq] at he; subst he; simp at hp; subst hp; exact h)⟩

theorem PG.liftO {γ : Type} [HasPrints γ] (p0 : List Print) (ctx : Ctx) (pos : Pos) (st : St) (o : Outcome γ) (h : p0 <+: st.prints)
    (hn : ∀ a : γ, HasPrints.prints a = none) : PG p0 (Duckling.liftO ctx pos st o) := by
  cases o with
  | ok a => exact PG.okNone p0 a (hn a)
  | cerr k => exact PG.raise p0 ctx pos st k h
  | crash e => exact PG.crash _ _
  | oom w => exact PG.oom _ _

theorem PG.evalIn (p0 : List Print) (ctx : Ctx) (pos : Pos) (st : St) (s : Str) (h : p0 <+: st.prints) :
    PG p0 (Duckling.evalIn ctx pos st s) := PG.liftO p0 ctx pos st _ h (fun _ => rfl)

/-- sequencing: the continuation starts from the log the first part ended with (or from `p0` when the
    intermediate value carries no log) -/
theorem PG.bind {p0 : List Print} {x : R α} {f : α → R β}
    (hx : PG p0 x) (hf : ∀ a, x = .ok a → ∀ p1, (HasPrints.prints a = some p1 ∨ (HasPrints.prints a = none ∧ p1 = p0)) → PG p1 (f a)) :
    PG p0 (x >>= f) := by
  cases x with
  | ok a =>
    cases hp : HasPrints.prints a with
    | none =>
      have := hf a rfl p0 (Or.inr ⟨hp, rfl⟩)
      exact ⟨fun b ps he hb => this.ok b ps he hb, fun e ps he hb => this.err e ps he hb⟩
    | some p1 =>
      have h01 : p0 <+: p1 := hx.ok a p1 rfl hp
      have := hf a rfl p1 (Or.inl hp)
      exact ⟨fun b ps he hb => List.IsPrefix.trans h01 (this.ok b ps he hb),
             fun e ps he hb => List.IsPrefix.trans h01 (this.err e ps he hb)⟩
  | err e => exact ⟨fun _ _ h _ => (by cases h), fun e' ps h hp => (by cases h; exact hx.err e ps rfl hp)⟩
  | crash e => exact PG.crash _ _
  | oom w => exact PG.oom _ _

theorem PG.mono {p0 p1 : List Print} {r : R α} (h01 : p0 <+: p1) (h : PG p1 r) : PG p0 r :=
  ⟨fun a ps he hp => List.IsPrefix.trans h01 (h.ok a ps he hp), fun e ps he hp => List.IsPrefix.trans h01 (h.err e ps he hp)⟩

/-- a child executor that only extends the log -/
def ChildGrows (c : Option ChildFn) : Prop :=
  ∀ run, c = some run → ∀ code ctx st, PG st.prints (run code ctx st)

theorem PG.runChild {c : Option ChildFn} (hc : ChildGrows c) (p0 : List Print) (ctx : Ctx) (pos : Pos) (st : St)
    (code : List Node) (file : Option Path) (cst : St) (h : p0 <+: st.prints) (h2 : p0 <+: cst.prints) :
    PG p0 (Duckling.runChild c ctx pos st code file cst) := by
  cases c with
  | none => exact PG.overflow p0 ctx pos st h
  | some run => exact PG.mono h2 (hc run rfl code _ cst)

theorem PG.guardChild {c : Option ChildFn} (p0 : List Print) (ctx : Ctx) (pos : Pos) (st : St) (k : R α)
    (h : p0 <+: st.prints) (hk : PG p0 k) : PG p0 (Duckling.guardChild c ctx pos st k) := by
  cases c with
  | none => exact PG.overflow p0 ctx pos st h
  | some _ => exact hk

end Duckling

namespace Duckling

syntax "pg_side" : tactic
macro_rules
  | `(tactic| pg_side) => `(tactic|
      first
        | assumption
        | exact List.prefix_refl _
        | (simp only [HasPrints.prints] at *; done)
        | (intro ps hp; simp only [HasPrints.prints, Option.some.injEq, reduceCtorEq] at hp; subst hp; assumption)
        | (intro ps hp; simp only [HasPrints.prints, Option.some.injEq, reduceCtorEq] at hp))

syntax "pg_auto" : tactic
macro_rules
  | `(tactic| pg_auto) => `(tactic|
      repeat' first
        | with_reducible exact PG.crash _ _
        | with_reducible exact PG.oom _ _
        | with_reducible exact PG.unlocated _ _ _
        | (with_reducible apply PG.raise; pg_side)
        | (with_reducible apply PG.evalIn; pg_side)
        | (with_reducible apply PG.okOf; pg_side)
        | (with_reducible apply PG.okNone; rfl)
        | with_reducible assumption
        | split)

theorem PG.runArgs (p0 : List Print) (ctx : Ctx) (pos : Pos) (st : St) (vs : Option Str) (h : p0 <+: st.prints) :
    PG p0 (Duckling.runArgs ctx pos st vs) := by
  unfold Duckling.runArgs
  split
  · exact PG.okNone _ _ rfl
  · split
    · exact PG.okNone _ _ rfl
    · apply PG.bind (PG.evalIn p0 ctx pos st _ h)
      intro v _ p1 hp1
      have : p1 = p0 := by rcases hp1 with hp1 | hp1; simp [HasPrints.prints] at hp1; exact hp1.2
      subst this
      split <;> exact PG.okNone _ _ rfl

theorem PG.runPre (p0 : List Print) (ctx : Ctx) (pos : Pos) (a : Arg) (st : St) (h : p0 <+: st.prints) :
    PG p0 (Duckling.runPre ctx pos a st) := by
  unfold Duckling.runPre
  apply PG.bind (PG.runArgs p0 ctx pos st _ h)
  intro vals _ p1 hp1
  have : p1 = p0 := by rcases hp1 with hp1 | hp1; simp [HasPrints.prints] at hp1; exact hp1.2
  subst this
  split
  · exact PG.raise _ _ _ _ _ h
  · split
    · exact PG.raise _ _ _ _ _ h
    · split
      · exact PG.oom _ _
      · apply PG.okOf; intro ps hp
        simp only [HasPrints.prints, bindParams, enterSt, Option.some.injEq] at hp
        subst hp; exact h

theorem PG.runPost (p0 : List Print) (ctx : Ctx) (pos : Pos) (st : St) (r : Out) (h : p0 <+: r.st.prints) :
    PG p0 (Duckling.runPost ctx pos st r) := by
  unfold Duckling.runPost; simp only []
  split
  · exact PG.raise _ _ _ _ _ h
  · apply PG.okOf; intro ps hp
    simp only [HasPrints.prints, leave, Option.some.injEq] at hp
    subst hp; exact h

theorem prefix_of_bindOk {x : List Print} {p1 p0 : List Print} (h : p0 <+: x) (hp : (some x = some p1 ∨ ((some x : Option (List Print)) = none ∧ p1 = p0))) : p0 <+: p1 := by
  rcases hp with hp | hp
  · cases hp; exact h
  · cases hp.1

theorem PG.runRun {c : Option ChildFn} (hc : ChildGrows c) (p0 : List Print) (ctx : Ctx) (pos : Pos) (a : Arg) (st : St)
    (h : p0 <+: st.prints) : PG p0 (Duckling.runRun c ctx pos a st) := by
  unfold Duckling.runRun
  apply PG.bind (PG.runPre p0 ctx pos a st h)
  intro p hpre p1 hp1
  have hpp := (PG.runPre p0 ctx pos a st h).ok p p.2.prints hpre rfl
  have h1 : p1 = p.2.prints := by
    rcases hp1 with hp1 | hp1
    · simp only [HasPrints.prints, Option.some.injEq] at hp1; exact hp1.symm
    · simp [HasPrints.prints] at hp1
  subst h1
  -- the caller's log is what the child starts from
  have hst : p.2.prints = st.prints := by
    unfold Duckling.runPre at hpre
    simp only [R.bind_eq_ok] at hpre
    obtain ⟨vals, _, hpre⟩ := hpre
    split at hpre
    · simp [Duckling.raise] at hpre
    · split at hpre
      · simp [Duckling.raise] at hpre
      · split at hpre
        · cases hpre
        · cases hpre; rfl
  apply PG.bind (PG.runChild hc _ ctx pos st _ _ _ (by rw [hst]; exact List.prefix_refl _) (List.prefix_refl _))
  intro r hr p2 hp2
  have : p2 = r.st.prints := by
    rcases hp2 with hp2 | hp2
    · simp only [HasPrints.prints, Option.some.injEq] at hp2; exact hp2.symm
    · simp [HasPrints.prints] at hp2
  subst this
  exact PG.runPost _ _ _ _ _ (List.prefix_refl _)

theorem PG.loadImport (p0 : List Print) (ctx : Ctx) (pos : Pos) (a : Arg) (st : St) (h : p0 <+: st.prints) :
    PG p0 (Duckling.loadImport ctx pos a st) := by
  unfold Duckling.loadImport
  pg_auto

theorem startBaseWarn_prints (st : St) (sig : Sig) : (startBaseWarn st sig).prints = st.prints := by
  simp only [startBaseWarn]; split <;> simp [addWarn] <;> split <;> rfl

theorem PG.startPost (p0 : List Print) (name : Str) (st : St) (r : Out) (h : p0 <+: r.st.prints) :
    PG p0 (Duckling.startPost name st r) := by
  unfold Duckling.startPost; simp only []
  split <;>
  · apply PG.okOf; intro ps hp
    simp only [HasPrints.prints, leave, startBaseWarn_prints, Option.some.injEq] at hp
    subst hp; exact h

theorem PG.runStart {c : Option ChildFn} (hc : ChildGrows c) (p0 : List Print) (ctx : Ctx) (pos : Pos) (name : Str) (a : Arg) (st : St)
    (h : p0 <+: st.prints) : PG p0 (Duckling.runStart c ctx pos name a st) := by
  unfold Duckling.runStart
  apply PG.bind (PG.loadImport p0 ctx pos a st h)
  intro p _ p1 hp1
  have : p1 = p0 := by rcases hp1 with hp1 | hp1; simp [HasPrints.prints] at hp1; exact hp1.2
  subst this
  apply PG.bind (PG.runChild hc _ ctx pos st _ _ (enterSt st) h h)
  intro r hr p2 hp2
  have : p2 = r.st.prints := by
    rcases hp2 with hp2 | hp2
    · simp only [HasPrints.prints, Option.some.injEq] at hp2; exact hp2.symm
    · simp [HasPrints.prints] at hp2
  subst this
  exact PG.startPost _ _ _ _ (List.prefix_refl _)

end Duckling

namespace Duckling

/-- the log a bound intermediate value hands to the continuation -/
theorem p1_of_state {α : Type} [HasPrints α] {a : α} {x p1 p0 : List Print} (hx : HasPrints.prints a = some x)
    (hp : HasPrints.prints a = some p1 ∨ (HasPrints.prints a = none ∧ p1 = p0)) : p1 = x := by
  rcases hp with hp | hp
  · rw [hx] at hp; cases hp; rfl
  · rw [hx] at hp; cases hp.1

theorem p1_of_none {α : Type} [HasPrints α] {a : α} {p1 p0 : List Print} (hx : HasPrints.prints a = none)
    (hp : HasPrints.prints a = some p1 ∨ (HasPrints.prints a = none ∧ p1 = p0)) : p1 = p0 := by
  rcases hp with hp | hp
  · rw [hx] at hp; cases hp
  · exact hp.2

theorem PG.defaultEmit (p0 : List Print) (name : Str) (a : Option Arg) : PG p0 (Duckling.defaultEmit name a) := by
  unfold Duckling.defaultEmit
  pg_auto

theorem PG.runCompileLocal (p0 : List Print) (ctx : Ctx) (c : ClsDesc) (name : Str) (line : Nat) (a : Option Arg) (st : St)
    (h : p0 <+: st.prints) : PG p0 (Duckling.runCompileLocal ctx c name line a st) := by
  have hdf : PG p0 (Duckling.defaultEmit name a >>= fun ls => (R.ok { st := st, out := ls, sig := some Sig.normal } : R RC)) := by
    apply PG.bind (PG.defaultEmit p0 name a)
    intro ls _ p1 hp1
    have := p1_of_none (p0 := p0) (a := ls) rfl hp1
    subst this
    exact PG.okOf _ _ (fun ps hp => by simp only [HasPrints.prints, Option.some.injEq] at hp; subst hp; exact h)
  unfold Duckling.runCompileLocal
  simp only []
  split
  · exact hdf
  · split
    all_goals first
      | exact hdf
      | (exact PG.okOf _ _ (fun ps hp => by simp only [HasPrints.prints, Option.some.injEq] at hp; subst hp; exact h))
      | skip
    · split
      · exact hdf
      · exact PG.okOf _ _ (fun ps hp => by simp only [HasPrints.prints, Option.some.injEq] at hp; subst hp; exact h)
    · split
      · exact PG.okOf _ _ (fun ps hp => by simp only [HasPrints.prints, Option.some.injEq] at hp; subst hp; exact h)
      · apply PG.okOf; intro ps hp
        simp only [HasPrints.prints, Option.some.injEq] at hp
        subst hp
        exact List.IsPrefix.trans h (List.prefix_append _ _)
    · split
      · exact hdf
      · split
        · split
          · exact PG.oom _ _
          · exact PG.okOf _ _ (fun ps hp => by simp only [HasPrints.prints, Option.some.injEq] at hp; subst hp; exact h)
        · exact PG.crash _ _
    · split
      · exact PG.okOf _ _ (fun ps hp => by simp only [HasPrints.prints, Option.some.injEq] at hp; subst hp; exact h)
      · split
        · exact PG.okOf _ _ (fun ps hp => by simp only [HasPrints.prints, Option.some.injEq] at hp; subst hp; exact h)
        · exact PG.crash _ _
    · split
      · exact PG.crash _ _
      · split
        · exact PG.raise _ _ _ _ _ h
        · apply PG.bind (PG.defaultEmit p0 name _)
          intro ls _ p1 hp1
          have := p1_of_none (p0 := p0) (a := ls) rfl hp1
          subst this
          exact PG.okOf _ _ (fun ps hp => by simp only [HasPrints.prints, Option.some.injEq] at hp; subst hp; exact h)
    · split
      · exact PG.crash _ _
      · split
        · exact PG.okOf _ _ (fun ps hp => by simp only [HasPrints.prints, Option.some.injEq] at hp; subst hp; exact h)
        · exact PG.raise _ _ _ _ _ h
    · split
      · exact PG.crash _ _
      · split
        · exact PG.okOf _ _ (fun ps hp => by simp only [HasPrints.prints, Option.some.injEq] at hp; subst hp; exact h)
        · exact PG.raise _ _ _ _ _ h
    · split
      · exact PG.crash _ _
      · split
        · apply PG.bind (PG.evalIn p0 ctx _ st _ h)
          intro v _ p1 hp1
          have := p1_of_none (p0 := p0) (a := v) rfl hp1
          subst this
          split
          · exact PG.raise _ _ _ _ _ h
          · split
            · exact PG.oom _ _
            · exact PG.okOf _ _ (fun ps hp => by simp only [HasPrints.prints, Option.some.injEq] at hp; subst hp; exact h)
        · exact PG.crash _ _

end Duckling

namespace Duckling

theorem PG.runCompile {c : Option ChildFn} (hc : ChildGrows c) (p0 : List Print) (ctx : Ctx) (cl : ClsDesc) (name : Str) (line : Nat)
    (a : Option Arg) (st : St) (h : p0 <+: st.prints) : PG p0 (Duckling.runCompile c ctx cl name line a st) := by
  unfold Duckling.runCompile
  split
  · split
    · exact PG.crash _ _
    · exact PG.runRun hc _ _ _ _ _ h
  · split
    · split
      · exact PG.crash _ _
      · exact PG.runStart hc _ _ _ _ _ _ h
    · exact PG.runCompileLocal _ _ _ _ _ _ _ h

theorem PG.multiComp {c : Option ChildFn} (hc : ChildGrows c) (p0 : List Print) (ctx : Ctx) (cl : ClsDesc) (name : Str) (line : Nat)
    (items : List (Option Arg)) (st : St) (out : List Str) (sig : Sig) (h : p0 <+: st.prints) :
    PG p0 (Duckling.multiComp c ctx cl name line items st out sig) := by
  induction items generalizing p0 st out sig with
  | nil => exact PG.okOf _ _ (fun ps hp => by simp only [HasPrints.prints, Option.some.injEq] at hp; subst hp; exact h)
  | cons a rest ih =>
    unfold Duckling.multiComp
    apply PG.bind (PG.runCompile hc p0 _ _ _ _ _ _ h)
    intro r _ p1 hp1
    have := p1_of_state (a := r) (x := r.st.prints) rfl hp1
    subst this
    exact ih _ _ _ _ (List.prefix_refl _)

theorem PG.evaluateArgs (p0 : List Print) (ctx : Ctx) (line : Nat) (st : St) (b : Bool) (args : List Arg) (h : p0 <+: st.prints) :
    PG p0 (Duckling.evaluateArgs ctx line st b args) := by
  induction args with
  | nil => exact PG.okNone _ _ rfl
  | cons a rest ih =>
    unfold Duckling.evaluateArgs
    apply PG.bind (PG.evalIn p0 _ _ _ _ h)
    intro v _ p1 hp1
    have := p1_of_none (p0 := p0) (a := v) rfl hp1; subst this
    apply PG.bind ih
    intro r _ p2 hp2
    have := p1_of_none (p0 := p1) (a := r) rfl hp2; subst this
    exact PG.okNone _ _ rfl

theorem PG.stringifyArgs (p0 : List Print) (ctx : Ctx) (line : Nat) (st : St) (args : List Arg) (h : p0 <+: st.prints) :
    PG p0 (Duckling.stringifyArgs ctx line st args) := by
  induction args with
  | nil => exact PG.okNone _ _ rfl
  | cons a rest ih =>
    unfold Duckling.stringifyArgs
    apply PG.bind (PG.liftO p0 _ _ _ _ h (fun _ => rfl))
    intro v _ p1 hp1
    have := p1_of_none (p0 := p0) (a := v) rfl hp1; subst this
    apply PG.bind ih
    intro r _ p2 hp2
    have := p1_of_none (p0 := p1) (a := r) rfl hp2; subst this
    exact PG.okNone _ _ rfl

theorem PG.verifyTypes (p0 : List Print) (ctx : Ctx) (line : Nat) (st : St) (t : ArgType) (args : List Arg) (h : p0 <+: st.prints) :
    PG p0 (Duckling.verifyTypes ctx line st t args) := by
  induction args with
  | nil => exact PG.okNone _ _ rfl
  | cons a rest ih => unfold Duckling.verifyTypes; split; exact PG.raise _ _ _ _ _ h; exact ih

theorem PG.verifyEach (p0 : List Print) (ctx : Ctx) (line : Nat) (st : St) (c : ClsDesc) (args : List Arg) (h : p0 <+: st.prints) :
    PG p0 (Duckling.verifyEach ctx line st c args) := by
  induction args with
  | nil => exact PG.okNone _ _ rfl
  | cons a rest ih => unfold Duckling.verifyEach; split; exact PG.raise _ _ _ _ _ h; exact ih

theorem addWarn_prints (st : St) (w : Warn) : (addWarn st w).prints = st.prints := by
  simp only [addWarn]; split <;> rfl

theorem PG.verifyArgsHook (p0 : List Print) (ctx : Ctx) (pos0 : Pos) (c : ClsDesc) (args : List Arg) (st : St) (h : p0 <+: st.prints) :
    PG p0 (Duckling.verifyArgsHook ctx pos0 c args st) := by
  unfold Duckling.verifyArgsHook
  split
  · split
    · split
      · exact PG.okOf _ _ (fun ps hp => by simp only [HasPrints.prints, addWarn_prints, Option.some.injEq] at hp; subst hp; exact h)
      · exact PG.okOf _ _ (fun ps hp => by simp only [HasPrints.prints, Option.some.injEq] at hp; subst hp; exact h)
    · split
      · exact PG.raise _ _ _ _ _ h
      · exact PG.okOf _ _ (fun ps hp => by simp only [HasPrints.prints, Option.some.injEq] at hp; subst hp; exact h)
    · exact PG.okOf _ _ (fun ps hp => by simp only [HasPrints.prints, Option.some.injEq] at hp; subst hp; exact h)
  · exact PG.okOf _ _ (fun ps hp => by simp only [HasPrints.prints, Option.some.injEq] at hp; subst hp; exact h)

theorem PG.prepareArgs (p0 : List Print) (ctx : Ctx) (c : ClsDesc) (word : Str) (line : Nat) (arg : Option Str) (block : Option (List Node))
    (st : St) (h : p0 <+: st.prints) : PG p0 (Duckling.prepareArgs ctx c word line arg block st) := by
  unfold Duckling.prepareArgs
  split
  · exact PG.raise _ _ _ _ _ h
  · simp only []
    split
    · apply PG.bind (PG.evaluateArgs p0 _ _ _ _ _ h)
      intro ev _ p1 hp1
      have := p1_of_none (p0 := p0) (a := ev) rfl hp1; subst this
      split
      · exact PG.okNone _ _ rfl
      · exact PG.stringifyArgs _ _ _ _ _ h
    · exact PG.okNone _ _ rfl

theorem PG.checkArgs (p0 : List Print) (ctx : Ctx) (c : ClsDesc) (line : Nat) (args : List Arg) (st : St) (h : p0 <+: st.prints) :
    PG p0 (Duckling.checkArgs ctx c line args st) := by
  unfold Duckling.checkArgs
  simp only []
  split
  · exact PG.raise _ _ _ _ _ h
  · split
    · exact PG.raise _ _ _ _ _ h
    · apply PG.bind (PG.verifyTypes p0 _ _ _ _ _ h)
      intro u _ p1 hp1
      have := p1_of_none (p0 := p0) (a := u) rfl hp1; subst this
      apply PG.bind (PG.verifyArgsHook p1 _ _ _ _ _ h)
      intro st' _ p2 hp2
      have := p1_of_state (a := st') (x := st'.prints) rfl hp2; subst this
      apply PG.bind (PG.verifyEach _ _ _ _ _ _ (List.prefix_refl _))
      intro u2 _ p3 hp3
      have := p1_of_none (p0 := st'.prints) (a := u2) rfl hp3; subst this
      exact PG.okOf _ _ (fun ps hp => by simp only [HasPrints.prints, Option.some.injEq] at hp; subst hp; exact List.prefix_refl _)

theorem PG.simplePre (p0 : List Print) (ctx : Ctx) (c : ClsDesc) (word : Str) (line : Nat) (arg : Option Str) (block : Option (List Node))
    (st : St) (h : p0 <+: st.prints) : PG p0 (Duckling.simplePre ctx c word line arg block st) := by
  unfold Duckling.simplePre
  simp only []
  split
  · exact PG.raise _ _ _ _ _ h
  · split
    · exact PG.raise _ _ _ _ _ h
    · apply PG.bind (PG.prepareArgs p0 _ _ _ _ _ _ _ h)
      intro args _ p1 hp1
      have := p1_of_none (p0 := p0) (a := args) rfl hp1; subst this
      apply PG.bind (PG.checkArgs p1 _ _ _ _ _ h)
      intro st' _ p2 hp2
      have := p1_of_state (a := st') (x := st'.prints) rfl hp2; subst this
      exact PG.okOf _ _ (fun ps hp => by simp only [HasPrints.prints, Option.some.injEq] at hp; subst hp; exact List.prefix_refl _)

theorem PG.compileSimple {c : Option ChildFn} (hc : ChildGrows c) (p0 : List Print) (ctx : Ctx) (cl : ClsDesc) (word : Str) (line : Nat)
    (arg : Option Str) (block : Option (List Node)) (st : St) (h : p0 <+: st.prints) :
    PG p0 (Duckling.compileSimple c ctx cl word line arg block st) := by
  unfold Duckling.compileSimple
  apply PG.bind (PG.simplePre p0 _ _ _ _ _ _ _ h)
  intro p _ p1 hp1
  have := p1_of_state (a := p) (x := p.2.2.prints) rfl hp1; subst this
  exact PG.multiComp hc _ _ _ _ _ _ _ _ _ (List.prefix_refl _)

theorem PG.tokenizeCount (p0 : List Print) (ctx : Ctx) (pos : Pos) (st : St) (s : Str) (h : p0 <+: st.prints) :
    PG p0 (Duckling.tokenizeCount ctx pos st s) := by
  unfold Duckling.tokenizeCount
  apply PG.bind (PG.evalIn p0 _ _ _ _ h)
  intro v _ p1 hp1
  have := p1_of_none (p0 := p0) (a := v) rfl hp1; subst this
  simp only []
  split
  · exact PG.raise _ _ _ _ _ h
  · split
    · exact PG.raise _ _ _ _ _ h
    · exact PG.okNone _ _ rfl

theorem PG.bindCounter (p0 : List Print) (ctx : Ctx) (pos : Pos) (st : St) (var : Option Str) (n : Nat) (cst : St)
    (h : p0 <+: st.prints) (h2 : p0 <+: cst.prints) : PG p0 (Duckling.bindCounter ctx pos st var n cst) := by
  unfold Duckling.bindCounter
  split
  · exact PG.okOf _ _ (fun ps hp => by simp only [HasPrints.prints, Option.some.injEq] at hp; subst hp; exact h2)
  · split
    · exact PG.raise _ _ _ _ _ h
    · exact PG.okOf _ _ (fun ps hp => by simp only [HasPrints.prints, Option.some.injEq] at hp; subst hp; exact h2)

theorem bindCounter_prints (ctx : Ctx) (pos : Pos) (st : St) (var : Option Str) (n : Nat) (cst cst' : St)
    (h : Duckling.bindCounter ctx pos st var n cst = .ok cst') : cst'.prints = cst.prints := by
  unfold Duckling.bindCounter at h
  split at h
  · cases h; rfl
  · split at h
    · simp [Duckling.raise] at h
    · cases h; rfl

theorem PG.repeatLoop {c : Option ChildFn} (hc : ChildGrows c) (p0 : List Print) (ctx : Ctx) (pos : Pos) (var : Option Str)
    (ce : Str) (body : List Node) (budget count : Nat) (st : St) (out : List Str) (h : p0 <+: st.prints) :
    PG p0 (Duckling.repeatLoop c ctx pos var ce body budget count st out) := by
  induction budget generalizing p0 count st out with
  | zero => exact PG.okOf _ _ (fun ps hp => by simp only [HasPrints.prints, Option.some.injEq] at hp; subst hp; exact h)
  | succ b ih =>
    unfold Duckling.repeatLoop
    apply PG.bind (PG.tokenizeCount p0 _ _ _ _ h)
    intro n _ p1 hp1
    have := p1_of_none (p0 := p0) (a := n) rfl hp1; subst this
    split
    · exact PG.okOf _ _ (fun ps hp => by simp only [HasPrints.prints, Option.some.injEq] at hp; subst hp; exact h)
    · apply PG.guardChild _ _ _ _ _ h
      apply PG.bind (PG.bindCounter p1 _ _ _ _ _ (enterSt st) h h)
      intro cst hcst p2 hp2
      have := p1_of_state (a := cst) (x := cst.prints) rfl hp2; subst this
      have hcp : cst.prints = st.prints := by rw [bindCounter_prints _ _ _ _ _ _ _ hcst]; rfl
      apply PG.bind (PG.runChild hc _ ctx pos st body ctx.file cst (by rw [hcp]; exact List.prefix_refl _) (List.prefix_refl _))
      intro r _ p3 hp3
      have := p1_of_state (a := r) (x := r.st.prints) rfl hp3; subst this
      split
      · rename_i st' out' s heq
        simp only [afterIter, Prod.mk.injEq] at heq
        exact PG.okOf _ _ (fun ps hp => by
          simp only [HasPrints.prints, Option.some.injEq] at hp; subst hp; rw [← heq.1]; exact List.prefix_refl _)
      · rename_i st' out' heq
        simp only [afterIter, Prod.mk.injEq] at heq
        exact ih _ _ _ _ (by rw [← heq.1]; exact List.prefix_refl _)

theorem PG.whileLoop {c : Option ChildFn} (hc : ChildGrows c) (p0 : List Print) (ctx : Ctx) (pos : Pos) (var : Option Str)
    (cond : Str) (body : List Node) (budget count : Nat) (st : St) (out : List Str) (h : p0 <+: st.prints) :
    PG p0 (Duckling.whileLoop c ctx pos var cond body budget count st out) := by
  induction budget generalizing p0 count st out with
  | zero => exact PG.raise _ _ _ _ _ h
  | succ b ih =>
    unfold Duckling.whileLoop
    apply PG.guardChild _ _ _ _ _ h
    apply PG.bind (PG.bindCounter p0 _ _ _ _ _ (enterSt st) h h)
    intro cst hcst p2 hp2
    have := p1_of_state (a := cst) (x := cst.prints) rfl hp2; subst this
    have hcp : cst.prints = st.prints := by rw [bindCounter_prints _ _ _ _ _ _ _ hcst]; rfl
    apply PG.bind (PG.evalIn _ _ _ _ _ (List.prefix_refl _))
    intro cv _ p3 hp3
    have := p1_of_none (p0 := cst.prints) (a := cv) rfl hp3; subst this
    split
    · exact PG.okOf _ _ (fun ps hp => by simp only [HasPrints.prints, leave, Option.some.injEq] at hp; subst hp; exact List.prefix_refl _)
    · apply PG.bind (PG.runChild hc _ ctx pos st body ctx.file cst (by rw [hcp]; exact List.prefix_refl _) (List.prefix_refl _))
      intro r _ p4 hp4
      have := p1_of_state (a := r) (x := r.st.prints) rfl hp4; subst this
      split
      · rename_i st' out' s heq
        simp only [afterIter, Prod.mk.injEq] at heq
        exact PG.okOf _ _ (fun ps hp => by
          simp only [HasPrints.prints, Option.some.injEq] at hp; subst hp; rw [← heq.1]; exact List.prefix_refl _)
      · rename_i st' out' heq
        simp only [afterIter, Prod.mk.injEq] at heq
        exact ih _ _ _ _ (by rw [← heq.1]; exact List.prefix_refl _)

end Duckling

namespace Duckling

theorem setIfFlag_prints (st : St) (b : Bool) : (setIfFlag st b).prints = st.prints := rfl

theorem withFlag_prints (st : St) : (withFlag st).prints = st.prints := by
  unfold withFlag; split <;> rfl

theorem ifDecide_prints (name : Str) (st : St) (cond : Bool) : HasPrints.prints (ifDecide name st cond) = some st.prints := by
  unfold ifDecide
  cases h1 : (name == "IF".toList) <;> cases hf : ifFlag st <;> cases cond <;>
    simp [HasPrints.prints, setIfFlag_prints]

theorem PG.ifCond (p0 : List Print) (ctx : Ctx) (pos : Pos) (name : Str) (arg : Option Str) (st : St) (h : p0 <+: st.prints) :
    PG p0 (Duckling.ifCond ctx pos name arg st) := by
  unfold Duckling.ifCond
  split
  · apply PG.bind (PG.evalIn p0 _ _ _ _ h)
    intro v _ p1 _
    exact PG.okNone _ _ rfl
  · exact PG.okNone _ _ rfl

theorem PG.ifPre (p0 : List Print) (ctx : Ctx) (pos : Pos) (word : Str) (arg : Option Str) (st : St) (h : p0 <+: st.prints) :
    PG p0 (Duckling.ifPre ctx pos word arg st) := by
  unfold Duckling.ifPre
  simp only []
  have hw : p0 <+: (withFlag st).prints := by rw [withFlag_prints]; exact h
  split
  · exact PG.raise _ _ _ _ _ hw
  · split
    · exact PG.raise _ _ _ _ _ hw
    · apply PG.bind (PG.ifCond p0 _ _ _ _ _ hw)
      intro cond _ p1 hp1
      have := p1_of_none (p0 := p0) (a := cond) rfl hp1; subst this
      exact PG.okOf _ _ (fun ps hp => by rw [ifDecide_prints] at hp; cases hp; exact hw)

theorem PG.funcPre (p0 : List Print) (ctx : Ctx) (pos : Pos) (arg : Option Str) (block : List Node) (st : St) (h : p0 <+: st.prints) :
    PG p0 (Duckling.funcPre ctx pos arg block st) := by
  unfold Duckling.funcPre
  simp only []
  repeat' split
  all_goals first
    | exact PG.raise _ _ _ _ _ h
    | exact PG.okOf _ _ (fun ps hp => by simp only [HasPrints.prints, Option.some.injEq] at hp; subst hp; exact h)

theorem PG.ignorePre (p0 : List Print) (ctx : Ctx) (pos : Pos) (block : List Node) (st : St) (h : p0 <+: st.prints) :
    PG p0 (Duckling.ignorePre ctx pos block st) := by
  unfold Duckling.ignorePre
  split
  · exact PG.raise _ _ _ _ _ h
  · exact PG.okOf _ _ (fun ps hp => by simp only [HasPrints.prints, Option.some.injEq] at hp; subst hp; exact h)

theorem PG.repeatPre (p0 : List Print) (ctx : Ctx) (pos : Pos) (arg : Option Str) (hb : Bool) (st : St) (h : p0 <+: st.prints) :
    PG p0 (Duckling.repeatPre ctx pos arg hb st) := by
  unfold Duckling.repeatPre
  simp only []
  repeat' split
  all_goals first
    | exact PG.raise _ _ _ _ _ h
    | exact PG.okOf _ _ (fun ps hp => by simp only [HasPrints.prints, Option.some.injEq] at hp; subst hp; exact h)

theorem PG.blockPre (p0 : List Print) (ctx : Ctx) (c : ClsDesc) (word : Str) (line : Nat) (arg : Option Str) (block : List Node)
    (hb : Bool) (st : St) (h : p0 <+: st.prints) : PG p0 (Duckling.blockPre ctx c word line arg block hb st) := by
  unfold Duckling.blockPre
  simp only []
  repeat' split
  all_goals first
    | exact PG.raise _ _ _ _ _ h
    | exact PG.ifPre _ _ _ _ _ _ h
    | exact PG.funcPre _ _ _ _ _ _ h
    | exact PG.ignorePre _ _ _ _ _ h
    | exact PG.repeatPre _ _ _ _ _ _ h
    | exact PG.oom _ _
    | exact PG.okOf _ _ (fun ps hp => by simp only [HasPrints.prints, Option.some.injEq] at hp; subst hp; exact h)

theorem PG.runBlockAct {c : Option ChildFn} (hc : ChildGrows c) (p0 : List Print) (ctx : Ctx) (pos : Pos) (block : List Node)
    (act : BlockAct) (h : ∀ ps, HasPrints.prints act = some ps → p0 <+: ps) :
    PG p0 (Duckling.runBlockAct c ctx pos block act) := by
  cases act with
  | done o => exact PG.okOf _ _ (fun ps hp => h ps hp)
  | body st =>
    have hs : p0 <+: st.prints := h _ rfl
    unfold Duckling.runBlockAct
    apply PG.bind (PG.runChild hc p0 ctx pos st block ctx.file (enterSt st) hs hs)
    intro r _ p1 hp1
    have := p1_of_state (a := r) (x := r.st.prints) rfl hp1; subst this
    exact PG.okOf _ _ (fun ps hp => by simp only [HasPrints.prints, leave, Option.some.injEq] at hp; subst hp; exact List.prefix_refl _)
  | «repeat» var ce st => exact PG.repeatLoop hc _ _ _ _ _ _ _ _ _ _ (h _ rfl)
  | «while» var cond st => exact PG.whileLoop hc _ _ _ _ _ _ _ _ _ _ (h _ rfl)

theorem PG.compileBlock {c : Option ChildFn} (hc : ChildGrows c) (p0 : List Print) (ctx : Ctx) (cl : ClsDesc) (word : Str) (line : Nat)
    (arg : Option Str) (block : List Node) (hb : Bool) (st : St) (h : p0 <+: st.prints) :
    PG p0 (Duckling.compileBlock c ctx cl word line arg block hb st) := by
  unfold Duckling.compileBlock
  apply PG.bind (PG.blockPre p0 _ _ _ _ _ _ _ _ h)
  intro act _ p1 hp1
  apply PG.runBlockAct hc
  intro ps hps
  have := p1_of_state (a := act) (x := ps) hps hp1
  rw [this]; exact List.prefix_refl _

theorem PG.stepCmd {c : Option ChildFn} (hc : ChildGrows c) (p0 : List Print) (ctx : Ctx) (l : PreLine) (block : Option (List Node))
    (st : St) (h : p0 <+: st.prints) : PG p0 (Duckling.stepCmd c ctx l block st) := by
  unfold Duckling.stepCmd
  split
  · exact PG.crash _ _
  · simp only []
    split
    · split
      · exact PG.compileBlock hc _ _ _ _ _ _ _ _ _ h
      · exact PG.compileSimple hc _ _ _ _ _ _ _ _ h
    · apply PG.compileSimple hc
      split
      · exact h
      · rw [addWarn_prints]; exact h

theorem PG.runNodes {c : Option ChildFn} (hc : ChildGrows c) (p0 : List Print) (ctx : Ctx) (nodes : List Node) (st : St) (out : List Str)
    (h : p0 <+: st.prints) : PG p0 (Duckling.runNodes c ctx nodes st out) := by
  induction nodes generalizing p0 st out with
  | nil => exact PG.okOf _ _ (fun ps hp => by simp only [HasPrints.prints, Option.some.injEq] at hp; subst hp; exact h)
  | cons n rest ih =>
    cases n with
    | block b => unfold Duckling.runNodes; exact ih _ _ _ h
    | line l =>
      unfold Duckling.runNodes
      apply PG.bind (PG.stepCmd hc p0 _ _ _ _ h)
      intro r _ p1 hp1
      have := p1_of_state (a := r) (x := r.st.prints) rfl hp1; subst this
      split
      · exact ih _ _ _ (List.prefix_refl _)
      · exact PG.okOf _ _ (fun ps hp => by simp only [HasPrints.prints, Option.some.injEq] at hp; subst hp; exact List.prefix_refl _)

theorem exec_childGrows (d : Nat) : ChildGrows (some (exec d)) := by
  induction d with
  | zero =>
    intro run hr code ctx st; cases hr
    exact PG.runNodes (c := none) (by intro run h; cases h) _ _ _ _ _ (List.prefix_refl _)
  | succ d ih =>
    intro run hr code ctx st; cases hr
    exact PG.runNodes ih _ _ _ _ _ (List.prefix_refl _)

/-- C18: along every execution the print log only grows; an error carries an extension of the log it started from -/
theorem exec_prints_grow (d : Nat) (nodes : List Node) (ctx : Ctx) (st : St) : PG st.prints (exec d nodes ctx st) := by
  cases d with
  | zero => exact PG.runNodes (c := none) (by intro run h; cases h) _ _ _ _ _ (List.prefix_refl _)
  | succ d => exact PG.runNodes (exec_childGrows d) _ _ _ _ _ (List.prefix_refl _)

end Duckling
