import Duckling.Model.Interp
/-  simp lemmas for the result monads -/
namespace Duckling

@[simp] theorem R.pure_eq {α : Type} (a : α) : (pure a : R α) = .ok a := rfl
@[simp] theorem R.bind_ok {α β : Type} (a : α) (f : α → R β) : (R.ok a >>= f) = f a := rfl
@[simp] theorem R.bind_err {α β : Type} (e : ErrInfo) (f : α → R β) : (R.err e >>= f) = .err e := rfl
@[simp] theorem R.bind_crash {α β : Type} (e : String) (f : α → R β) : (R.crash e >>= f) = .crash e := rfl
@[simp] theorem R.bind_oom {α β : Type} (e : String) (f : α → R β) : (R.oom e >>= f) = .oom e := rfl

theorem R.bind_eq_ok {α β : Type} (x : R α) (f : α → R β) (b : β) :
    (x >>= f) = .ok b ↔ ∃ a, x = .ok a ∧ f a = .ok b := by
  cases x <;> simp

@[simp] theorem Outcome.pure_eq {α : Type} (a : α) : (pure a : Outcome α) = .ok a := rfl
@[simp] theorem Outcome.bind_ok {α β : Type} (a : α) (f : α → Outcome β) : (Outcome.ok a >>= f) = f a := rfl
@[simp] theorem Outcome.bind_cerr {α β : Type} (k : EK) (f : α → Outcome β) : (Outcome.cerr k >>= f) = .cerr k := rfl
@[simp] theorem Outcome.bind_crash {α β : Type} (e : String) (f : α → Outcome β) : (Outcome.crash e >>= f) = .crash e := rfl
@[simp] theorem Outcome.bind_oom {α β : Type} (e : String) (f : α → Outcome β) : (Outcome.oom e >>= f) = .oom e := rfl

end Duckling
