import Duckling.Spec.Scoped
import Duckling.Lemmas.Assoc
/-
  The copy-in / copy-back discipline of `variable_environment.py` refines the scoped stack of frames (Spec/Scoped.lean).
  The concrete machine keeps one FULL dictionary per live stack (innermost first): entering a block copies the current one
  (`append_env` into a fresh environment), an assignment writes the current one (`dict[k] = v`), leaving a block overwrites in the
  parent's dictionary the names the parent already has with the child's values (`update_from_env`) and drops the child.
-/
namespace Duckling
open Duckling.Spec

/-- one step of the concrete machine -/
def cstep : List Frame → ScOp → List Frame
  | cur :: rest, .assign k v => assocSet cur k v :: rest
  | cur :: rest, .enter => cur :: cur :: rest
  | child :: parent :: rest, .exit => copyBack parent child :: rest
  | cs, _ => cs

theorem lookup_cons (f : Frame) (rest : List Frame) (k : Str) :
    lookup (f :: rest) k = (match assocGet f k with | some v => some v | none => lookup rest k) := rfl

theorem owns_cons (f : Frame) (rest : List Frame) (k : Str) : owns (f :: rest) k = (assocHas f k || owns rest k) := by
  simp only [owns, lookup_cons, assocHas]
  cases assocGet f k <;> simp

theorem assocGet_set (f : Frame) (k k' : Str) (v : Val) :
    assocGet (assocSet f k v) k' = if k' = k then some v else assocGet f k' := by
  by_cases h : k' = k
  · subst h; simp [assocGet_assocSet_same]
  · simp [h, assocGet_assocSet_other f k k' v h]

theorem assocHas_set (f : Frame) (k k' : Str) (v : Val) : assocHas (assocSet f k v) k' = (decide (k' = k) || assocHas f k') := by
  simp only [assocHas, assocGet_set]
  by_cases h : k' = k <;> simp [h]

/-- assignment: the assigned name reads back the value, every other name reads what it read before -/
theorem lookup_assign (fr : List Frame) (k k' : Str) (v : Val) :
    lookup (assign fr k v) k' = if k' = k then some v else lookup fr k' := by
  induction fr with
  | nil =>
    simp only [assign, lookup_cons, assocGet]
    by_cases h : k' = k
    · subst h; simp
    · have : (k == k') = false := by simpa using (Ne.symm h)
      simp [h, this, lookup]
  | cons f rest ih =>
    unfold assign
    split
    · rename_i hf
      simp only [lookup_cons, assocGet_set]
      by_cases h : k' = k
      · simp [h]
      · simp [h]
    · rename_i hf
      have hfn : assocGet f k = none := by simpa [assocHas] using hf
      split
      · simp only [lookup_cons, ih]
        by_cases h : k' = k
        · subst h; simp [hfn]
        · simp [h]
      · rename_i ho
        simp only [lookup_cons, assocGet_set]
        by_cases h : k' = k
        · simp [h]
        · simp [h]

/-- the shadow-freedom of the frames: a name lives in one frame only -/
def NoShadow : List Frame → Prop
  | [] => True
  | f :: rest => (∀ k, assocHas f k = true → owns rest k = false) ∧ NoShadow rest

/-- at every depth the suspended dictionary has exactly the names visible from that depth -/
def DomRel : List Frame → List Frame → Prop
  | [], [] => True
  | c :: cs, f :: fs => (∀ k, assocHas c k = owns (f :: fs) k) ∧ DomRel cs fs
  | _, _ => False

/-- the refinement relation -/
def Refines (cs fr : List Frame) : Prop :=
  DomRel cs fr ∧ NoShadow fr ∧ ∀ k, (match cs with | c :: _ => assocGet c k | [] => none) = lookup fr k

theorem owns_assign_owned (fr : List Frame) (k k' : Str) (v : Val) (h : owns fr k = true) : owns (assign fr k v) k' = owns fr k' := by
  simp only [owns, lookup_assign]
  by_cases hk : k' = k
  · subst hk; simpa [owns] using h.symm
  · simp [hk]

theorem domRel_assign_owned (cs fr : List Frame) (k : Str) (v : Val) (h : owns fr k = true) (hd : DomRel cs fr) :
    DomRel cs (assign fr k v) := by
  induction fr generalizing cs with
  | nil => simp [owns, lookup] at h
  | cons f rest ih =>
    cases cs with
    | nil => simp [DomRel] at hd
    | cons c cs' =>
      obtain ⟨hc, hrest⟩ := hd
      have hown := owns_assign_owned (f :: rest) k
      unfold assign at hown ⊢
      split
      · rename_i hf
        simp only [hf, if_true] at hown
        exact ⟨fun k' => by rw [hc k', hown k' v h], hrest⟩
      · rename_i hf
        have hr : owns rest k = true := by
          rw [owns_cons] at h
          simpa [hf] using h
        simp only [hf, hr, if_true, Bool.false_eq_true, if_false] at hown ⊢
        exact ⟨fun k' => by rw [hc k', hown k' v h], ih cs' hr hrest⟩

theorem noShadow_assign (fr : List Frame) (k : Str) (v : Val) (h : NoShadow fr) : NoShadow (assign fr k v) := by
  induction fr with
  | nil => simp [assign, NoShadow, owns, lookup]
  | cons f rest ih =>
    obtain ⟨hf, hrest⟩ := h
    unfold assign
    split
    · rename_i hfk
      refine ⟨?_, hrest⟩
      intro k' hk'
      rw [assocHas_set] at hk'
      by_cases hkk : k' = k
      · subst hkk; exact hf k' hfk
      · simp [hkk] at hk'; exact hf k' hk'
    · rename_i hfk
      split
      · rename_i ho
        refine ⟨?_, ih hrest⟩
        intro k' hk'
        rw [owns_assign_owned rest k k' v ho]
        exact hf k' hk'
      · rename_i ho
        refine ⟨?_, hrest⟩
        intro k' hk'
        rw [assocHas_set] at hk'
        by_cases hkk : k' = k
        · subst hkk; simpa using ho
        · simp [hkk] at hk'; exact hf k' hk'

/-- **one step**: the copy-in / copy-back machine and the scoped stack stay related -/
theorem refines_step (cs fr : List Frame) (op : ScOp) (hne : cs ≠ []) (h : Refines cs fr) :
    cstep cs op ≠ [] ∧ Refines (cstep cs op) (step fr op) := by
  obtain ⟨hd, hn, hl⟩ := h
  cases cs with
  | nil => exact absurd rfl hne
  | cons c cs' =>
    cases fr with
    | nil => simp [DomRel] at hd
    | cons f fs =>
      obtain ⟨hc, hrest⟩ := hd
      simp only [] at hl
      cases op with
      | assign k v =>
        show (assocSet c k v :: cs') ≠ [] ∧ Refines (assocSet c k v :: cs') (assign (f :: fs) k v)
        refine ⟨by simp, ?_, noShadow_assign _ k v hn, ?_⟩
        · -- domains
          by_cases ho : owns (f :: fs) k = true
          · have := domRel_assign_owned (c :: cs') (f :: fs) k v ho ⟨hc, hrest⟩
            -- the concrete head gains no name either
            have hck : assocHas c k = true := by rw [hc k]; exact ho
            cases hfr : assign (f :: fs) k v with
            | nil => rw [hfr] at this; simp [DomRel] at this
            | cons f' fs' =>
              rw [hfr] at this
              obtain ⟨h1, h2⟩ := this
              refine ⟨?_, h2⟩
              intro k'
              rw [assocHas_set, ← h1 k']
              by_cases hkk : k' = k
              · subst hkk; simp [hck]
              · simp [hkk]
          · -- a new name: created in the innermost frame on both sides
            have ho' : owns (f :: fs) k = false := by simpa using ho
            have hfk : assocHas f k = false := by rw [owns_cons] at ho'; simp at ho'; exact ho'.1
            have hfs : owns fs k = false := by rw [owns_cons] at ho'; simp at ho'; exact ho'.2
            have hfr : assign (f :: fs) k v = assocSet f k v :: fs := by simp [assign, hfk, hfs]
            rw [hfr]
            refine ⟨?_, hrest⟩
            intro k'
            rw [assocHas_set, owns_cons, assocHas_set, hc k', owns_cons]
            cases decide (k' = k) <;> simp
        · intro k'
          show assocGet (assocSet c k v) k' = lookup (assign (f :: fs) k v) k'
          rw [assocGet_set, lookup_assign, hl k']
      | enter =>
        show (c :: c :: cs') ≠ [] ∧ Refines (c :: c :: cs') ([] :: f :: fs)
        refine ⟨by simp, ⟨?_, hc, hrest⟩, ⟨?_, hn⟩, ?_⟩
        · intro k; rw [hc k, owns_cons ([] : Frame)]; simp [assocHas]
        · intro k hk; simp [assocHas] at hk
        · intro k; show assocGet c k = lookup ([] :: f :: fs) k; rw [lookup_cons]; simpa using hl k
      | exit =>
        cases cs' with
        | nil =>
          cases fs with
          | nil => exact ⟨by simp [cstep], ⟨hc, hrest⟩, hn, hl⟩
          | cons p frest => simp [DomRel] at hrest
        | cons parent crest =>
          cases fs with
          | nil => simp [DomRel] at hrest
          | cons p frest =>
            obtain ⟨hp, hrest'⟩ := hrest
            obtain ⟨hnf, hnrest⟩ := hn
            have key : ∀ k, assocGet (copyBack parent c) k = lookup (p :: frest) k := by
              intro k
              rw [assocGet_copyBack, hp k]
              cases ho : owns (p :: frest) k with
              | false =>
                simp only [cond_false]
                have : (lookup (p :: frest) k).isSome = false := ho
                cases hlk : lookup (p :: frest) k with
                | none => rfl
                | some v => rw [hlk] at this; cases this
              | true =>
                simp only [cond_true]
                rw [hl k, lookup_cons]
                have hfk : assocHas f k = false := by
                  cases hh : assocHas f k with
                  | false => rfl
                  | true => have := hnf k hh; rw [ho] at this; cases this
                have : assocGet f k = none := by simpa [assocHas] using hfk
                rw [this]
            show (copyBack parent c :: crest) ≠ [] ∧ Refines (copyBack parent c :: crest) (p :: frest)
            refine ⟨by simp, ⟨?_, hrest'⟩, hnrest, ?_⟩
            · intro k
              have := key k
              simp only [assocHas, owns, this]
            · intro k; exact key k

/-- the starting point: one dictionary, one frame -/
theorem refines_init (e : Frame) : Refines [e] [e] := by
  refine ⟨⟨?_, trivial⟩, ⟨?_, trivial⟩, ?_⟩
  · intro k; simp [owns, lookup, assocHas]; cases assocGet e k <;> simp
  · intro k _; simp [owns, lookup]
  · intro k; simp [lookup]; cases assocGet e k <;> rfl

/-- **any history of assignments, block entries and exits**: the dictionary the compiler is working with reads exactly what
    the scoped stack of frames reads — every visible name with its current value, and no name a finished block created -/
theorem refines_run (e : Frame) (ops : List ScOp) :
    let cs := ops.foldl cstep [e]
    let fr := ops.foldl step [e]
    cs ≠ [] ∧ Refines cs fr := by
  have gen : ∀ (ops : List ScOp) cs fr, cs ≠ [] → Refines cs fr → ops.foldl cstep cs ≠ [] ∧ Refines (ops.foldl cstep cs) (ops.foldl step fr) := by
    intro ops
    induction ops with
    | nil => intro cs fr hne h; exact ⟨hne, h⟩
    | cons op rest ih =>
      intro cs fr hne h
      obtain ⟨h1, h2⟩ := refines_step cs fr op hne h
      exact ih _ _ h1 h2
  exact gen ops [e] [e] (by simp) (refines_init e)

end Duckling
