import Duckling.Model.Interp
/-
  Sequencing: running a list of statements is running its parts one after the other.
-/
namespace Duckling

/-- continue with `b` after a result, unless it carries a signal -/
def thenNodes (child : Option ChildFn) (ctx : Ctx) (b : List Node) (r : Res) : Res :=
  r >>= fun o => if o.sig == .normal then runNodes child ctx b o.st o.out else .ok o

theorem nextBlock_append (a b : List Node) (ha : a ≠ []) : nextBlock (a ++ b) = nextBlock a := by
  cases a with
  | nil => exact absurd rfl ha
  | cons x xs => cases x <;> rfl

/-- `Stack.run` over `a ++ b` (where `b` does not start with an orphan block that the last
    command of `a` would take as its code block) is `a`, then `b` from where `a` ended -/
theorem runNodes_append (child : Option ChildFn) (ctx : Ctx) (a b : List Node) (st : St) (out : List Str)
    (hb : nextBlock b = none) :
    runNodes child ctx (a ++ b) st out = thenNodes child ctx b (runNodes child ctx a st out) := by
  induction a generalizing st out with
  | nil => simp [runNodes, thenNodes, bind]
  | cons n rest ih =>
    cases n with
    | block blk =>
      simp only [List.cons_append, runNodes]
      exact ih st out
    | line l =>
      have hnb : nextBlock (rest ++ b) = nextBlock rest := by
        cases rest with
        | nil => simpa [nextBlock] using hb
        | cons x xs => exact nextBlock_append _ _ (by simp)
      simp only [List.cons_append, runNodes, hnb, thenNodes]
      cases hs : stepCmd child ctx l (nextBlock rest) st with
      | ok r =>
        simp only [bind]
        by_cases hsig : (r.sig == Sig.normal) = true
        · simp only [hsig, if_true]
          have := ih r.st (out ++ r.out)
          simpa [thenNodes, bind] using this
        · simp [hsig]
      | err e => simp [bind]
      | crash e => simp [bind]
      | oom w => simp [bind]

end Duckling
