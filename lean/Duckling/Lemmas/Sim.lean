import Duckling.Lemmas.Hered
/-
  A simulation walk over the whole interpreter: two runs of THE SAME code in lock-step — the base run in context `ctx` from
  state `st`, the projected run in `S.ctx ctx` (other option flags) from `S.st st` (a projection of the warning list).
  For every program, depth, context and state: either the base run ends in an error the instance declares to be an escape
  (`Esc`: e.g. InvalidCommand when the Flipper gate differs), or the projected run's result is the projection of the base
  run's result: the same error, or the same signal with the projected state and the output lines filtered by `S.p`.
  Instances (Lemmas/SimInst): suppress-unknown-command warnings, comments on/off, Flipper commands on/off.
-/
namespace Duckling

/-- what differs between the two runs: the option flags (`g`), the warning list (`W`), the output lines kept (`p`) -/
structure SimP where
  g : Flags → Flags
  W : List Warn → List Warn
  p : Str → Bool

namespace SimP
variable (S : SimP)
def ctx (c : Ctx) : Ctx := { c with opts := S.g c.opts }
def st (s : St) : St := { s with warns := S.W s.warns }
def out (o : List Str) : List Str := o.filter S.p

@[simp] theorem ctx_frames (c : Ctx) : (S.ctx c).frames = c.frames := rfl
@[simp] theorem ctx_file (c : Ctx) : (S.ctx c).file = c.file := rfl
@[simp] theorem ctx_fs (c : Ctx) : (S.ctx c).fs = c.fs := rfl
@[simp] theorem ctx_opts (c : Ctx) : (S.ctx c).opts = S.g c.opts := rfl
@[simp] theorem ctx_trace (c : Ctx) (pos : Pos) : (S.ctx c).trace pos = c.trace pos := rfl
@[simp] theorem ctx_child (c : Ctx) (pos : Pos) (f : Option Path) : (S.ctx c).child pos f = S.ctx (c.child pos f) := rfl
@[simp] theorem st_env (s : St) : (S.st s).env = s.env := rfl
@[simp] theorem st_prints (s : St) : (S.st s).prints = s.prints := rfl
@[simp] theorem st_warns (s : St) : (S.st s).warns = S.W s.warns := rfl
@[simp] theorem out_nil : S.out [] = [] := rfl
@[simp] theorem out_append (a b : List Str) : S.out (a ++ b) = S.out a ++ S.out b := by simp [out]
end SimP

/-- how a result value is projected -/
class Proj (α : Type) where
  proj : SimP → α → α

instance : Proj St := ⟨fun S s => S.st s⟩
instance : Proj Out := ⟨fun S o => { o with st := S.st o.st, out := S.out o.out }⟩
instance : Proj RC := ⟨fun S o => { o with st := S.st o.st, out := S.out o.out }⟩
instance : Proj (Func × St) := ⟨fun S p => (p.1, S.st p.2)⟩
instance : Proj (Str × List (Option Arg) × St) := ⟨fun S p => (p.1, p.2.1, S.st p.2.2)⟩
instance : Proj BlockAct := ⟨fun S a => match a with
  | .done o => .done { o with st := S.st o.st, out := S.out o.out }
  | .body st => .body (S.st st)
  | .repeat v c st => .repeat v c (S.st st)
  | .while v c st => .while v c (S.st st)⟩

def R.mapOk {α : Type} (f : α → α) : R α → R α
  | .ok a => .ok (f a)
  | .err e => .err e
  | .crash e => .crash e
  | .oom w => .oom w

@[simp] theorem R.mapOk_ok {α : Type} (f : α → α) (a : α) : R.mapOk f (.ok a) = .ok (f a) := rfl
@[simp] theorem R.mapOk_err {α : Type} (f : α → α) (e : ErrInfo) : R.mapOk f (.err e : R α) = .err e := rfl
@[simp] theorem R.mapOk_crash {α : Type} (f : α → α) (e : String) : R.mapOk f (.crash e : R α) = .crash e := rfl
@[simp] theorem R.mapOk_oom {α : Type} (f : α → α) (e : String) : R.mapOk f (.oom e : R α) = .oom e := rfl

/-- the simulation relation between the base run's result `x1` and the projected run's result `x2` -/
def SimR (Esc : ErrInfo → Prop) (S : SimP) {α : Type} [Proj α] (x1 x2 : R α) : Prop :=
  (∃ e, x1 = .err e ∧ Esc e) ∨ x2 = R.mapOk (Proj.proj S) x1

variable {Esc : ErrInfo → Prop} {S : SimP} {α β : Type} [Proj α] [Proj β]

theorem SimR.eq {x1 x2 : R α} (h : x2 = R.mapOk (Proj.proj S) x1) : SimR Esc S x1 x2 := Or.inr h

theorem SimR.bind {x1 x2 : R α} {f1 f2 : α → R β} (hx : SimR Esc S x1 x2)
    (hf : ∀ a, x1 = .ok a → SimR Esc S (f1 a) (f2 (Proj.proj S a))) : SimR Esc S (x1 >>= f1) (x2 >>= f2) := by
  rcases hx with ⟨e, h, he⟩ | h
  · subst h; exact Or.inl ⟨e, rfl, he⟩
  · subst h
    cases x1 with
    | ok a => exact hf a rfl
    | err e => exact Or.inr rfl
    | crash e => exact Or.inr rfl
    | oom w => exact Or.inr rfl

/-- binding a computation whose result does not depend on what is projected (arguments, values, counts) -/
theorem SimR.bindSame {γ : Type} {x : R γ} {f1 f2 : γ → R β}
    (hf : ∀ a, x = .ok a → SimR Esc S (f1 a) (f2 a)) : SimR Esc S (x >>= f1) (x >>= f2) := by
  cases x with
  | ok a => exact hf a rfl
  | err e => exact Or.inr rfl
  | crash e => exact Or.inr rfl
  | oom w => exact Or.inr rfl

/-! ### what does not look at the flags or the warnings -/

theorem raise_sim {γ : Type} (c : Ctx) (pos : Pos) (s : St) (k : EK) :
    (raise (S.ctx c) pos (S.st s) k : R γ) = raise c pos s k := rfl

theorem overflow_sim {γ : Type} (c : Ctx) (pos : Pos) (s : St) :
    (overflowErr (S.ctx c) pos (S.st s) : R γ) = overflowErr c pos s := rfl

theorem liftO_sim {γ : Type} (c : Ctx) (pos : Pos) (s : St) (o : Outcome γ) :
    liftO (S.ctx c) pos (S.st s) o = liftO c pos s o := by cases o <;> rfl

theorem evalIn_sim (c : Ctx) (pos : Pos) (s : St) (t : Str) : evalIn (S.ctx c) pos (S.st s) t = evalIn c pos s t := rfl

theorem evaluateArgs_sim (c : Ctx) (line : Nat) (s : St) (b : Bool) (args : List Arg) :
    evaluateArgs (S.ctx c) line (S.st s) b args = evaluateArgs c line s b args := by
  induction args with
  | nil => rfl
  | cons a rest ih => unfold evaluateArgs; rw [evalIn_sim, ih]

theorem stringifyArgs_sim (c : Ctx) (line : Nat) (s : St) (args : List Arg) :
    stringifyArgs (S.ctx c) line (S.st s) args = stringifyArgs c line s args := by
  induction args with
  | nil => rfl
  | cons a rest ih => unfold stringifyArgs; rw [liftO_sim, ih]

theorem verifyTypes_sim (c : Ctx) (line : Nat) (s : St) (t : ArgType) (args : List Arg) :
    verifyTypes (S.ctx c) line (S.st s) t args = verifyTypes c line s t args := by
  induction args with
  | nil => rfl
  | cons a rest ih => unfold verifyTypes; rw [raise_sim, ih]

theorem verifyEach_sim (c : Ctx) (line : Nat) (s : St) (cl : ClsDesc) (args : List Arg) :
    verifyEach (S.ctx c) line (S.st s) cl args = verifyEach c line s cl args := by
  induction args with
  | nil => rfl
  | cons a rest ih => unfold verifyEach; rw [raise_sim, ih]

theorem prepareArgs_sim (c : Ctx) (cl : ClsDesc) (word : Str) (line : Nat) (arg : Option Str) (block : Option (List Node)) (s : St) :
    prepareArgs (S.ctx c) cl word line arg block (S.st s) = prepareArgs c cl word line arg block s := by
  unfold prepareArgs
  simp only [raise_sim, evaluateArgs_sim, stringifyArgs_sim]

theorem tokenizeCount_sim (c : Ctx) (pos : Pos) (s : St) (t : Str) :
    tokenizeCount (S.ctx c) pos (S.st s) t = tokenizeCount c pos s t := by
  unfold tokenizeCount
  simp only [evalIn_sim, raise_sim]

theorem ifCond_sim (c : Ctx) (pos : Pos) (name : Str) (arg : Option Str) (s : St) :
    ifCond (S.ctx c) pos name arg (S.st s) = ifCond c pos name arg s := by
  unfold ifCond
  simp only [evalIn_sim]

theorem runArgs_sim (c : Ctx) (pos : Pos) (s : St) (vs : Option Str) :
    runArgs (S.ctx c) pos (S.st s) vs = runArgs c pos s vs := by
  unfold runArgs
  cases vs <;> simp only [evalIn_sim]

theorem loadImport_sim (c : Ctx) (pos : Pos) (a : Arg) (s : St) :
    loadImport (S.ctx c) pos a (S.st s) = loadImport c pos a s := by
  unfold loadImport
  simp only [SimP.ctx_file, SimP.ctx_fs, SimP.ctx_frames, raise_sim]
  rfl

end Duckling

namespace Duckling

/-- the commands that create no stack neither read nor change the warning list, and read no flag but — REM only — the comments flag -/
theorem runCompileLocal_warns (W : List Warn → List Warn) (ctx : Ctx) (o' : Flags) (cl : ClsDesc) (name : Str) (line : Nat)
    (a : Option Arg) (st : St) (hcom : hasHook cl "run_compile" = true → cl.cname = "Rem" → o'.comments = ctx.opts.comments) :
    runCompileLocal { ctx with opts := o' } cl name line a { st with warns := W st.warns } =
      R.mapOk (fun rc => { rc with st := { rc.st with warns := W rc.st.warns } }) (runCompileLocal ctx cl name line a st) := by
  obtain ⟨env, warns, prints⟩ := st
  unfold runCompileLocal
  simp only []
  repeat' split
  all_goals first
    | rfl
    | (cases defaultEmit name _ <;> rfl)
    | (simp only [evalIn]; generalize tokenize _ _ = o; cases o <;> first | rfl | (simp only [liftO, R.bind_ok]; split <;> rfl))
    | (simp_all <;> done)

def Warn.isNE (w : Warn) : Bool := match w.kind with | .notExist _ => true | _ => false

/-- `WarningsObject.append` on the list itself -/
def addWarnL (ws : List Warn) (w : Warn) : List Warn := if ws.contains w then ws else ws ++ [w]

theorem addWarn_eq (st : St) (w : Warn) : addWarn st w = { st with warns := addWarnL st.warns w } := by
  unfold addWarn addWarnL; split <;> rfl

/-- what an instance has to say about its projection: warnings other than "unknown command" pass through it; the unknown-command
    site agrees; the Flipper flag is kept, or switched on with InvalidCommand declared an escape -/
structure SimOk (Esc : ErrInfo → Prop) (S : SimP) : Prop where
  wcontains : ∀ ws w, Warn.isNE w = false → (S.W ws).contains w = ws.contains w
  wappend : ∀ ws w, Warn.isNE w = false → S.W (ws ++ [w]) = S.W ws ++ [w]
  unknown : ∀ (o : Flags) ws w, Warn.isNE w = true →
    (if (S.g o).suppress then S.W ws else addWarnL (S.W ws) w) = S.W (if o.suppress then ws else addWarnL ws w)
  flip : ∀ o : Flags, (S.g o).flipper = o.flipper ∨ ((S.g o).flipper = true ∧ ∀ e : ErrInfo, e.k = .invalidCommand → Esc e)

variable {Esc : ErrInfo → Prop} {S : SimP} {α β : Type} [Proj α] [Proj β]

theorem addWarn_sim (ok : SimOk Esc S) (st : St) (w : Warn) (hw : Warn.isNE w = false) :
    addWarn (S.st st) w = S.st (addWarn st w) := by
  rw [addWarn_eq, addWarn_eq]
  simp only [SimP.st, addWarnL, ok.wcontains _ _ hw]
  split <;> simp [ok.wappend _ _ hw]

theorem verifyArgsHook_sim (ok : SimOk Esc S) (c : Ctx) (pos0 : Pos) (cl : ClsDesc) (args : List Arg) (s : St) :
    verifyArgsHook (S.ctx c) pos0 cl args (S.st s) = R.mapOk S.st (verifyArgsHook c pos0 cl args s) := by
  unfold verifyArgsHook
  repeat' split
  all_goals first
    | rfl
    | exact congrArg R.ok (addWarn_sim ok s ⟨.defaultDelayMulti, some (c.trace pos0)⟩ rfl)

theorem checkArgs_sim (ok : SimOk Esc S) (c : Ctx) (cl : ClsDesc) (line : Nat) (args : List Arg) (s : St) :
    checkArgs (S.ctx c) cl line args (S.st s) = R.mapOk S.st (checkArgs c cl line args s) := by
  unfold checkArgs
  simp only [raise_sim, verifyTypes_sim, verifyArgsHook_sim ok]
  split
  · rfl
  · split
    · rfl
    · cases verifyTypes c line s cl.argType args <;> try rfl
      simp only [R.bind_ok]
      cases verifyArgsHook c ⟨line, none⟩ cl args s <;> try rfl
      simp only [R.mapOk_ok, R.bind_ok, verifyEach_sim]
      cases verifyEach c line _ cl args <;> rfl

theorem simplePre_sim (ok : SimOk Esc S) (c : Ctx) (cl : ClsDesc) (word : Str) (line : Nat) (arg : Option Str)
    (block : Option (List Node)) (s : St) :
    SimR Esc S (simplePre c cl word line arg block s) (simplePre (S.ctx c) cl word line arg block (S.st s)) := by
  unfold simplePre
  simp only [raise_sim, prepareArgs_sim, checkArgs_sim ok, SimP.ctx_opts, SimP.ctx_file]
  by_cases h1 : (cl.flipperOnly && !c.opts.flipper) = true
  · rcases ok.flip c.opts with hfl | ⟨_, hesc⟩
    · right; simp only [h1, hfl, if_true]; rfl
    · left; exact ⟨_, by simp only [h1, if_true]; rfl, hesc _ rfl⟩
  · have h2 : (cl.flipperOnly && !(S.g c.opts).flipper) = false := by
      rcases ok.flip c.opts with hfl | ⟨hfl, _⟩
      · rw [hfl]; simpa using h1
      · simp [hfl]
    right
    simp only [h1, h2, Bool.false_eq_true, if_false]
    split
    · rfl
    · cases prepareArgs c cl word line arg block s <;> try rfl
      simp only [R.bind_ok]
      cases checkArgs c cl line _ s <;> rfl

theorem runPre_sim (c : Ctx) (pos : Pos) (a : Arg) (s : St) :
    runPre (S.ctx c) pos a (S.st s) = R.mapOk (Proj.proj S) (runPre c pos a s) := by
  unfold runPre
  simp only [runArgs_sim, raise_sim, SimP.st_env]
  cases runArgs c pos s (breakArg a.str).2 <;> try rfl
  simp only [R.bind_ok]
  split
  · rfl
  · split
    · rfl
    · split <;> rfl

@[simp] theorem proj_out_sig (r : Out) : (Proj.proj S r : Out).sig = r.sig := rfl
@[simp] theorem proj_out_st (r : Out) : (Proj.proj S r : Out).st = S.st r.st := rfl
@[simp] theorem proj_out_out (r : Out) : (Proj.proj S r : Out).out = S.out r.out := rfl
@[simp] theorem proj_rc_sig (r : RC) : (Proj.proj S r : RC).sig = r.sig := rfl
@[simp] theorem proj_rc_st (r : RC) : (Proj.proj S r : RC).st = S.st r.st := rfl
@[simp] theorem proj_rc_out (r : RC) : (Proj.proj S r : RC).out = S.out r.out := rfl

theorem leave_sim (par : Bool) (p cst : St) : leave par (S.st p) (S.st cst) = S.st (leave par p cst) := rfl

theorem runPost_sim (c : Ctx) (pos : Pos) (s : St) (r : Out) :
    runPost (S.ctx c) pos (S.st s) (Proj.proj S r) = R.mapOk (Proj.proj S) (runPost c pos s r) := by
  unfold runPost
  simp only [proj_out_sig]
  split <;> rfl

theorem startBaseWarn_sim (ok : SimOk Esc S) (s : St) (sig : Sig) : startBaseWarn (S.st s) sig = S.st (startBaseWarn s sig) := by
  unfold startBaseWarn
  split
  · rfl
  · exact addWarn_sim ok s _ rfl

theorem startPost_sim (ok : SimOk Esc S) (name : Str) (s : St) (r : Out) :
    startPost name (S.st s) (Proj.proj S r) = R.mapOk (Proj.proj S) (startPost name s r) := by
  unfold startPost
  simp only []
  have h : startBaseWarn (Proj.proj S r).st (Proj.proj S r).sig = S.st (startBaseWarn r.st r.sig) := startBaseWarn_sim ok r.st r.sig
  rw [h]
  split <;> rfl

end Duckling

namespace Duckling

variable {Esc : ErrInfo → Prop} {S : SimP} {q : Str → Bool → Bool} {C : Ctx → Prop} [CtxInv C]

abbrev PT : Str → Prop := fun _ => True

/-- a child executor that simulates itself -/
def ChildSim (Esc : ErrInfo → Prop) (S : SimP) (q : Str → Bool → Bool) (C : Ctx → Prop) (c : Option ChildFn) : Prop :=
  ∀ run, c = some run → ∀ code ctx st, C ctx → allCmdsL q code = true → StOk q st → FSOk q ctx.fs →
    SimR Esc S (run code ctx st) (run code (S.ctx ctx) (S.st st))

theorem runChild_sim {c : Option ChildFn} (hc : ChildSim Esc S q C c) (ctx : Ctx) (pos : Pos) (st : St) (code : List Node)
    (file : Option Path) (cst : St) (hcode : allCmdsL q code = true) (hcst : StOk q cst) (hfs : FSOk q ctx.fs) (hC : C ctx) :
    SimR Esc S (runChild c ctx pos st code file cst) (runChild c (S.ctx ctx) pos (S.st st) code file (S.st cst)) := by
  cases c with
  | none => exact Or.inr rfl
  | some run => exact hc run rfl code _ cst (CtxInv.child _ _ _ hC) hcode hcst hfs

theorem guardChild_sim {γ : Type} [Proj γ] {c : Option ChildFn} (ctx : Ctx) (pos : Pos) (st : St) (k1 k2 : R γ)
    (hk : SimR Esc S k1 k2) : SimR Esc S (guardChild c ctx pos st k1) (guardChild c (S.ctx ctx) pos (S.st st) k2) := by
  cases c with
  | none => exact Or.inr rfl
  | some _ => exact hk

theorem runRun_sim {c : Option ChildFn} (hc : ChildSim Esc S q C c) (ctx : Ctx) (pos : Pos) (a : Arg)
    (st : St) (hs : StOk q st) (hfs : FSOk q ctx.fs) (hC : C ctx) :
    SimR Esc S (runRun c ctx pos a st) (runRun c (S.ctx ctx) pos a (S.st st)) := by
  unfold runRun
  refine SimR.bind (SimR.eq (runPre_sim ctx pos a st)) ?_
  intro p hp
  have hcodes := (HG.runPre (q := q) (P := PT) ctx pos a st hs).codes p hp
  have hcode : allCmdsL q p.1.code = true := hcodes _ (by simp [Carries.codes])
  have hcst : StOk q p.2 := fun cd hcd => hcodes cd (by simp only [Carries.codes]; exact List.mem_cons_of_mem _ hcd)
  refine SimR.bind (runChild_sim hc ctx pos st p.1.code (funcFile ctx p.1) p.2 hcode hcst hfs hC) ?_
  intro r _
  exact SimR.eq (runPost_sim ctx pos st r)

theorem runStart_sim (ok : SimOk Esc S) {c : Option ChildFn} (hc : ChildSim Esc S q C c) (ctx : Ctx) (pos : Pos) (name : Str)
    (a : Arg) (st : St) (hs : StOk q st) (hfs : FSOk q ctx.fs) (hC : C ctx) :
    SimR Esc S (runStart c ctx pos name a st) (runStart c (S.ctx ctx) pos name a (S.st st)) := by
  unfold runStart
  rw [loadImport_sim]
  refine SimR.bindSame ?_
  intro p hp
  have hcodes := (HG.loadImport (q := q) (P := PT) ctx pos a st hfs).codes p hp
  have hcode : allCmdsL q p.2 = true := hcodes _ (by simp [Carries.codes])
  refine SimR.bind (runChild_sim hc ctx pos st p.2 (some p.1) (enterSt st) hcode hs.enterSt hfs hC) ?_
  intro r _
  exact SimR.eq (startPost_sim ok name st r)

/-- a class all of whose own `run_compile` results carry no signal or NORMAL -/
def NormalCls (cl : ClsDesc) : Prop :=
  (hasHook cl "run_compile" && cl.cname == "Run") = false ∧ (hasHook cl "run_compile" && cl.cname == "Start") = false ∧
  ∀ ctx name line a st rc, runCompileLocal ctx cl name line a st = .ok rc → rc.sig = none ∨ rc.sig = some .normal

/-- the relation between the two runs of one `run_compile` call: the simulation, or — for a class whose results never carry
    another signal — NORMAL against no signal at all (REM with comments on returns a line, with comments off nothing) -/
def ItemSim (Esc : ErrInfo → Prop) (S : SimP) (cl : ClsDesc) (x1 x2 : R RC) : Prop :=
  SimR Esc S x1 x2 ∨
  (NormalCls cl ∧ ∃ rc, x1 = .ok rc ∧ rc.sig = some .normal ∧ x2 = .ok { (Proj.proj S rc : RC) with sig := none })

theorem runCompile_sim (ok : SimOk Esc S) {c : Option ChildFn} (hh : ChildHG q PT C c) (hc : ChildSim Esc S q C c) (ctx : Ctx)
    (cl : ClsDesc) (name : Str) (line : Nat) (a : Option Arg) (st : St) (hs : StOk q st) (hfs : FSOk q ctx.fs) (hC : C ctx)
    (hemit : (hasHook cl "run_compile" && cl.cname == "Run") = false → (hasHook cl "run_compile" && cl.cname == "Start") = false →
      ItemSim Esc S cl (runCompileLocal ctx cl name line a st) (runCompileLocal (S.ctx ctx) cl name line a (S.st st))) :
    ItemSim Esc S cl (runCompile c ctx cl name line a st) (runCompile c (S.ctx ctx) cl name line a (S.st st)) := by
  unfold runCompile
  split
  · split
    · exact Or.inl (Or.inr rfl)
    · exact Or.inl (runRun_sim hc _ _ _ _ hs hfs hC)
  · rename_i hnr
    split
    · split
      · exact Or.inl (Or.inr rfl)
      · exact Or.inl (runStart_sim ok hc _ _ _ _ _ hs hfs hC)
    · rename_i hns
      exact hemit (by simpa using hnr) (by simpa using hns)

theorem runCompile_normal (cl : ClsDesc) (hn : NormalCls cl) (c : Option ChildFn) (ctx : Ctx) (name : Str) (line : Nat)
    (a : Option Arg) (st : St) (rc : RC) (h : runCompile c ctx cl name line a st = .ok rc) :
    rc.sig = none ∨ rc.sig = some .normal := by
  unfold runCompile at h
  rw [hn.1, hn.2.1] at h
  simp only [Bool.false_eq_true, if_false] at h
  exact hn.2.2 _ _ _ _ _ _ h

theorem multiComp_sim (ok : SimOk Esc S) {c : Option ChildFn} (hh : ChildHG q PT C c) (hc : ChildSim Esc S q C c) (ctx : Ctx)
    (cl : ClsDesc) (name : Str) (line : Nat) (items : List (Option Arg)) (st : St) (out : List Str) (sig : Sig)
    (hs : StOk q st) (hfs : FSOk q ctx.fs) (hC : C ctx) (hsig : NormalCls cl → sig = .normal)
    (hemit : (hasHook cl "run_compile" && cl.cname == "Run") = false → (hasHook cl "run_compile" && cl.cname == "Start") = false →
      ∀ a ∈ items, ∀ st2, StOk q st2 →
        ItemSim Esc S cl (runCompileLocal ctx cl name line a st2) (runCompileLocal (S.ctx ctx) cl name line a (S.st st2))) :
    SimR Esc S (multiComp c ctx cl name line items st out sig)
      (multiComp c (S.ctx ctx) cl name line items (S.st st) (S.out out) sig) := by
  induction items generalizing st out sig with
  | nil => exact Or.inr rfl
  | cons a rest ih =>
    unfold multiComp
    have hitem := runCompile_sim ok hh hc ctx cl name line a st hs hfs hC (fun h1 h2 => hemit h1 h2 a List.mem_cons_self st hs)
    have hg := HG.runCompile (q := q) (P := PT) hh ctx cl name line a st hs hfs hC (fun _ _ _ _ _ _ => trivial)
    have hrest : ∀ r, runCompile c ctx cl name line a st = .ok r → ∀ sig', (NormalCls cl → sig' = .normal) →
        SimR Esc S (multiComp c ctx cl name line rest r.st (out ++ r.out) sig')
          (multiComp c (S.ctx ctx) cl name line rest (S.st r.st) (S.out (out ++ r.out)) sig') := by
      intro r hr sig' hsig'
      exact ih r.st (out ++ r.out) sig' (hg.codes r hr) hsig' (fun h1 h2 a' ha' => hemit h1 h2 a' (List.mem_cons_of_mem _ ha'))
    have hnext : ∀ r, runCompile c ctx cl name line a st = .ok r → NormalCls cl → r.sig.getD sig = .normal := by
      intro r hr hn
      rcases runCompile_normal cl hn c ctx name line a st r hr with h | h
      · rw [h]; exact hsig hn
      · rw [h]; rfl
    rcases hitem with hsim | ⟨hn, rc, h1, hsn, h2⟩
    · refine SimR.bind hsim ?_
      intro r hr
      have := hrest r hr (r.sig.getD sig) (hnext r hr)
      simpa using this
    · rw [h1, h2]
      simp only [R.bind_ok]
      have := hrest rc h1 (rc.sig.getD sig) (hnext rc h1)
      rw [hsn] at this
      simp only [Option.getD_some] at this
      simpa [hsig hn, hsn] using this

theorem compileSimple_sim (ok : SimOk Esc S) {c : Option ChildFn} (hh : ChildHG q PT C c) (hc : ChildSim Esc S q C c) (ctx : Ctx)
    (cl : ClsDesc) (word : Str) (line : Nat) (arg : Option Str) (block : Option (List Node)) (st : St)
    (hs : StOk q st) (hfs : FSOk q ctx.fs) (hC : C ctx)
    (hemit : (hasHook cl "run_compile" && cl.cname == "Run") = false → (hasHook cl "run_compile" && cl.cname == "Start") = false →
      ∀ name items st', simplePre ctx cl word line arg block st = .ok (name, items, st') → ∀ a ∈ items, ∀ st2, StOk q st2 →
        ItemSim Esc S cl (runCompileLocal ctx cl name line a st2) (runCompileLocal (S.ctx ctx) cl name line a (S.st st2))) :
    SimR Esc S (compileSimple c ctx cl word line arg block st) (compileSimple c (S.ctx ctx) cl word line arg block (S.st st)) := by
  unfold compileSimple
  refine SimR.bind (simplePre_sim ok ctx cl word line arg block st) ?_
  intro p hp
  obtain ⟨name, items, st'⟩ := p
  have hst' : StOk q st' := (HG.simplePre (q := q) (P := PT) ctx cl word line arg block st hs).codes _ hp
  exact multiComp_sim ok hh hc ctx cl name line items st' [] .normal hst' hfs hC (fun _ => rfl)
    (fun h1 h2 => hemit h1 h2 name items st' hp)

end Duckling

namespace Duckling

variable {Esc : ErrInfo → Prop} {S : SimP} {q : Str → Bool → Bool} {C : Ctx → Prop} [CtxInv C]

theorem bindCounter_sim (ctx : Ctx) (pos : Pos) (st : St) (var : Option Str) (n : Nat) (cst : St) :
    bindCounter (S.ctx ctx) pos (S.st st) var n (S.st cst) = R.mapOk S.st (bindCounter ctx pos st var n cst) := by
  unfold bindCounter
  split
  · rfl
  · split <;> rfl

theorem repeatLoop_sim {c : Option ChildFn} (hh : ChildHG q PT C c) (hc : ChildSim Esc S q C c) (ctx : Ctx) (pos : Pos)
    (var : Option Str) (ce : Str) (body : List Node) (budget count : Nat) (st : St) (out : List Str)
    (hs : StOk q st) (hfs : FSOk q ctx.fs) (hC : C ctx) (hbody : allCmdsL q body = true) :
    SimR Esc S (repeatLoop c ctx pos var ce body budget count st out)
      (repeatLoop c (S.ctx ctx) pos var ce body budget count (S.st st) (S.out out)) := by
  induction budget generalizing count st out with
  | zero => exact Or.inr rfl
  | succ b ih =>
    unfold repeatLoop
    rw [tokenizeCount_sim]
    refine SimR.bindSame ?_
    intro n _
    split
    · exact Or.inr rfl
    · apply guardChild_sim
      refine SimR.bind (SimR.eq (bindCounter_sim ctx pos st var count (enterSt st))) ?_
      intro cst hcst
      have hcstOk : StOk q cst := (HG.bindCounter (q := q) (P := PT) ctx pos st var count (enterSt st) hs.enterSt).codes cst hcst
      refine SimR.bind (runChild_sim hc ctx pos st body ctx.file cst hbody hcstOk hfs hC) ?_
      intro r hr
      have hrOk : StOk q r.st := (HG.runChild (q := q) (P := PT) hh ctx pos st body ctx.file cst hbody hcstOk hfs hC).codes r hr
      simp only [afterIter, proj_out_st, proj_out_out, proj_out_sig, leave_sim, ← SimP.out_append]
      cases shouldBreak r.sig with
      | none => exact ih (count + 1) _ _ (StOk.leave false hs hrOk)
      | some s => exact Or.inr rfl

theorem whileLoop_sim {c : Option ChildFn} (hh : ChildHG q PT C c) (hc : ChildSim Esc S q C c) (ctx : Ctx) (pos : Pos)
    (var : Option Str) (cond : Str) (body : List Node) (budget count : Nat) (st : St) (out : List Str)
    (hs : StOk q st) (hfs : FSOk q ctx.fs) (hC : C ctx) (hbody : allCmdsL q body = true) :
    SimR Esc S (whileLoop c ctx pos var cond body budget count st out)
      (whileLoop c (S.ctx ctx) pos var cond body budget count (S.st st) (S.out out)) := by
  induction budget generalizing count st out with
  | zero => exact Or.inr rfl
  | succ b ih =>
    unfold whileLoop
    apply guardChild_sim
    refine SimR.bind (SimR.eq (bindCounter_sim ctx pos st var count (enterSt st))) ?_
    intro cst hcst
    have hcstOk : StOk q cst := (HG.bindCounter (q := q) (P := PT) ctx pos st var count (enterSt st) hs.enterSt).codes cst hcst
    change SimR Esc S _ (evalIn (S.ctx ctx) pos (S.st cst) cond >>= _)
    rw [evalIn_sim]
    refine SimR.bindSame ?_
    intro cv _
    split
    · exact Or.inr rfl
    · refine SimR.bind (runChild_sim hc ctx pos st body ctx.file cst hbody hcstOk hfs hC) ?_
      intro r hr
      have hrOk : StOk q r.st := (HG.runChild (q := q) (P := PT) hh ctx pos st body ctx.file cst hbody hcstOk hfs hC).codes r hr
      simp only [afterIter, proj_out_st, proj_out_out, proj_out_sig, leave_sim, ← SimP.out_append]
      cases shouldBreak r.sig with
      | none => exact ih (count + 1) _ _ (StOk.leave false hs hrOk)
      | some s => exact Or.inr rfl

/-- a block-command decision with its state mapped -/
def BlockAct.mapSt (f : St → St) : BlockAct → BlockAct
  | .done o => .done { o with st := f o.st }
  | .body st => .body (f st)
  | .repeat v c st => .repeat v c (f st)
  | .while v c st => .while v c (f st)

theorem ifDecide_sim (name : Str) (s : St) (cond : Bool) :
    ifDecide name (S.st s) cond = BlockAct.mapSt S.st (ifDecide name s cond) := by
  unfold ifDecide
  have h : ifFlag (S.st s) = ifFlag s := rfl
  simp only [h]
  repeat' split
  all_goals rfl

theorem withFlag_sim (s : St) : withFlag (S.st s) = S.st (withFlag s) := by
  unfold withFlag
  simp only [SimP.st_env]
  by_cases h : assocHas s.env.temp ifSuccess = true
  · simp only [h, if_true]
  · simp only [h, if_false, Bool.false_eq_true]; rfl

theorem ifPre_sim (c : Ctx) (pos : Pos) (word : Str) (arg : Option Str) (s : St) :
    ifPre (S.ctx c) pos word arg (S.st s) = R.mapOk (BlockAct.mapSt S.st) (ifPre c pos word arg s) := by
  unfold ifPre
  simp only [withFlag_sim, raise_sim, ifCond_sim]
  split
  · rfl
  · split
    · rfl
    · cases ifCond c pos (upper word) arg (withFlag s) <;> try rfl
      simp only [R.bind_ok, R.mapOk_ok, ifDecide_sim]

theorem funcPre_sim (c : Ctx) (pos : Pos) (arg : Option Str) (block : List Node) (s : St) :
    funcPre (S.ctx c) pos arg block (S.st s) = R.mapOk (BlockAct.mapSt S.st) (funcPre c pos arg block s) := by
  unfold funcPre
  simp only [raise_sim]
  repeat' split
  all_goals rfl

theorem ignorePre_sim (c : Ctx) (pos : Pos) (block : List Node) (s : St) :
    ignorePre (S.ctx c) pos block (S.st s) = R.mapOk (BlockAct.mapSt S.st) (ignorePre c pos block s) := by
  unfold ignorePre
  split <;> rfl

theorem repeatPre_sim (c : Ctx) (pos : Pos) (arg : Option Str) (hb : Bool) (s : St) :
    repeatPre (S.ctx c) pos arg hb (S.st s) = R.mapOk (BlockAct.mapSt S.st) (repeatPre c pos arg hb s) := by
  unfold repeatPre
  simp only [raise_sim]
  repeat' split
  all_goals rfl

/-- the part of a block command that runs in the current stack neither reads nor changes the warning list and reads no flag
    but the Flipper gate (outputs are left as they are here) -/
theorem blockPre_warns (ctx : Ctx) (cl : ClsDesc) (word : Str) (line : Nat)
    (arg : Option Str) (block : List Node) (hb : Bool) (st : St)
    (hfl : (cl.flipperOnly && !(S.g ctx.opts).flipper) = (cl.flipperOnly && !ctx.opts.flipper)) :
    blockPre (S.ctx ctx) cl word line arg block hb (S.st st) =
      R.mapOk (BlockAct.mapSt S.st) (blockPre ctx cl word line arg block hb st) := by
  unfold blockPre
  simp only [SimP.ctx_opts, hfl, raise_sim, ifPre_sim, funcPre_sim, ignorePre_sim, repeatPre_sim]
  repeat' split
  all_goals rfl

end Duckling

namespace Duckling

variable {Esc : ErrInfo → Prop} {S : SimP} {q : Str → Bool → Bool} {C : Ctx → Prop} [CtxInv C]

theorem proj_eq_mapSt (a : BlockAct) (h : ∀ o, a = .done o → S.out o.out = o.out) :
    BlockAct.mapSt S.st a = Proj.proj S a := by
  cases a with
  | done o =>
    have := h o rfl
    simp only [BlockAct.mapSt, Proj.proj, this]
  | body st => rfl
  | «repeat» v c st => rfl
  | «while» v c st => rfl

theorem blockPre_sim (ok : SimOk Esc S) (ctx : Ctx) (cl : ClsDesc) (word : Str) (line : Nat) (arg : Option Str) (block : List Node)
    (hb : Bool) (st : St) (hdone : ∀ o, blockPre ctx cl word line arg block hb st = .ok (.done o) → S.out o.out = o.out) :
    SimR Esc S (blockPre ctx cl word line arg block hb st) (blockPre (S.ctx ctx) cl word line arg block hb (S.st st)) := by
  by_cases h1 : (cl.flipperOnly && !ctx.opts.flipper) = true
  · rcases ok.flip ctx.opts with hfl | ⟨_, hesc⟩
    · right
      rw [blockPre_warns ctx cl word line arg block hb st (by rw [hfl])]
      unfold blockPre
      simp only [h1, if_true]
      rfl
    · left
      refine ⟨{ k := .invalidCommand, trace := some (ctx.trace ⟨line, none⟩), prints := some st.prints }, ?_, hesc _ rfl⟩
      unfold blockPre
      simp only [h1, if_true]
      rfl
  · have h2 : (cl.flipperOnly && !(S.g ctx.opts).flipper) = (cl.flipperOnly && !ctx.opts.flipper) := by
      rcases ok.flip ctx.opts with hfl | ⟨hfl, _⟩
      · rw [hfl]
      · have h1' : (cl.flipperOnly && !ctx.opts.flipper) = false := by simpa using h1
        rw [h1']; simp [hfl]
    right
    rw [blockPre_warns ctx cl word line arg block hb st h2]
    cases hx : blockPre ctx cl word line arg block hb st with
    | ok a =>
      simp only [R.mapOk_ok]
      rw [proj_eq_mapSt a (fun o ho => hdone o (by rw [hx, ho]))]
    | err e => rfl
    | crash e => rfl
    | oom w => rfl

theorem runBlockAct_sim {c : Option ChildFn} (hh : ChildHG q PT C c) (hc : ChildSim Esc S q C c) (ctx : Ctx) (pos : Pos)
    (block : List Node) (act : BlockAct) (hfs : FSOk q ctx.fs) (hC : C ctx) (hblock : allCmdsL q block = true)
    (hact : ∀ cd ∈ Carries.codes act, allCmdsL q cd = true) :
    SimR Esc S (runBlockAct c ctx pos block act) (runBlockAct c (S.ctx ctx) pos block (Proj.proj S act)) := by
  cases act with
  | done o => exact Or.inr rfl
  | body st =>
    have hs : StOk q st := hact
    unfold runBlockAct
    refine SimR.bind (runChild_sim hc ctx pos st block ctx.file (enterSt st) hblock hs.enterSt hfs hC) ?_
    intro r _
    exact Or.inr rfl
  | «repeat» var ce st => exact repeatLoop_sim hh hc ctx pos var ce block _ 0 st [] hact hfs hC hblock
  | «while» var cond st => exact whileLoop_sim hh hc ctx pos var cond block _ 0 st [] hact hfs hC hblock

theorem compileBlock_sim (ok : SimOk Esc S) {c : Option ChildFn} (hh : ChildHG q PT C c) (hc : ChildSim Esc S q C c) (ctx : Ctx)
    (cl : ClsDesc) (word : Str) (line : Nat) (arg : Option Str) (block : List Node) (hb : Bool) (st : St)
    (hs : StOk q st) (hfs : FSOk q ctx.fs) (hC : C ctx) (hblock : allCmdsL q block = true)
    (hdone : ∀ o, blockPre ctx cl word line arg block hb st = .ok (.done o) → S.out o.out = o.out) :
    SimR Esc S (compileBlock c ctx cl word line arg block hb st) (compileBlock c (S.ctx ctx) cl word line arg block hb (S.st st)) := by
  unfold compileBlock
  refine SimR.bind (blockPre_sim ok ctx cl word line arg block hb st hdone) ?_
  intro act hact
  have hcodes := (HG.blockPre (q := q) ctx cl word line arg block hb st hs hblock).codes act hact
  exact runBlockAct_sim hh hc ctx ⟨line, none⟩ block act hfs hC hblock hcodes

/-- what an instance has to provide beyond `SimOk`: the line invariant `q` (with its hereditary facts), and the two kinds of sites
    that emit lines or read the comments flag — one `run_compile` call of a simple class, a block command that finishes
    without running a body -/
structure SimSpec (Esc : ErrInfo → Prop) (S : SimP) (q : Str → Bool → Bool) (C : Ctx → Prop) : Prop where
  ok : SimOk Esc S
  hs : HSpec q PT C
  emit : ∀ (ctx : Ctx) (content word : Str) (arg : Option Str) (block : Option (List Node)) (cl : ClsDesc), C ctx →
      q content (hasBlockOf block) = true → splitWs1 content = some (word, arg) →
      ((dispatch word (hasBlockOf block) = some cl ∧ cl.isBlock = false) ∨
       (dispatch word (hasBlockOf block) = none ∧ cl = Generated.generic)) →
      (hasHook cl "run_compile" && cl.cname == "Run") = false → (hasHook cl "run_compile" && cl.cname == "Start") = false →
      ∀ line st name items st', simplePre ctx cl word line arg block st = .ok (name, items, st') →
      ∀ a ∈ items, ∀ st2, StOk q st2 →
        ItemSim Esc S cl (runCompileLocal ctx cl name line a st2) (runCompileLocal (S.ctx ctx) cl name line a (S.st st2))
  blockDone : ∀ (ctx : Ctx) (content word : Str) (arg : Option Str) (block : Option (List Node)) (cl : ClsDesc), C ctx →
      q content (hasBlockOf block) = true → splitWs1 content = some (word, arg) → dispatch word (hasBlockOf block) = some cl →
      cl.isBlock = true →
      ∀ line st o, blockPre ctx cl word line arg (block.getD []) (hasBlockOf block) st = .ok (.done o) → S.out o.out = o.out

theorem unknown_sim (ok : SimOk Esc S) (ctx : Ctx) (st : St) (w : Warn) (hw : Warn.isNE w = true) :
    (if (S.ctx ctx).opts.suppress then S.st st else addWarn (S.st st) w) = S.st (if ctx.opts.suppress then st else addWarn st w) := by
  have h := ok.unknown ctx.opts st.warns w hw
  simp only [SimP.ctx_opts, addWarn_eq, SimP.st_warns]
  by_cases h1 : (S.g ctx.opts).suppress = true <;> by_cases h2 : ctx.opts.suppress = true <;>
    simp only [h1, h2, if_true, if_false, Bool.false_eq_true] at h ⊢ <;> simp only [SimP.st, h]

theorem stepCmd_sim (T : SimSpec Esc S q C) {c : Option ChildFn} (hh : ChildHG q PT C c) (hc : ChildSim Esc S q C c) (ctx : Ctx)
    (l : PreLine) (block : Option (List Node)) (st : St) (hs : StOk q st) (hfs : FSOk q ctx.fs) (hC : C ctx)
    (hq : q l.content (hasBlockOf block) = true) (hblock : allCmdsL q (block.getD []) = true) :
    SimR Esc S (stepCmd c ctx l block st) (stepCmd c (S.ctx ctx) l block (S.st st)) := by
  unfold stepCmd
  split
  · exact Or.inr rfl
  · rename_i word arg hsplit
    simp only []
    split
    · rename_i cl hd
      split
      · rename_i hb
        exact compileBlock_sim T.ok hh hc ctx cl word l.num arg _ _ st hs hfs hC hblock
          (T.blockDone ctx _ _ _ block cl hC hq hsplit hd hb _ _)
      · rename_i hb
        have hb' : cl.isBlock = false := by simpa using hb
        refine compileSimple_sim T.ok hh hc ctx cl word l.num arg block st hs hfs hC ?_
        intro h1 h2 name items st' hpre
        exact T.emit ctx _ _ _ block cl hC hq hsplit (Or.inl ⟨hd, hb'⟩) h1 h2 _ _ name items st' hpre
    · rename_i hd
      rw [unknown_sim T.ok ctx st _ rfl]
      have hst : StOk q (if ctx.opts.suppress = true then st else addWarn st ⟨.notExist l.num, some (ctx.trace ⟨l.num, none⟩)⟩) := by
        split
        · exact hs
        · exact hs.addWarn _
      refine compileSimple_sim T.ok hh hc ctx Generated.generic word l.num arg block _ hst hfs hC ?_
      intro h1 h2 name items st' hpre
      exact T.emit ctx _ _ _ block Generated.generic hC hq hsplit (Or.inr ⟨hd, rfl⟩) h1 h2 _ _ name items st' hpre

theorem runNodes_sim (T : SimSpec Esc S q C) {c : Option ChildFn} (hh : ChildHG q PT C c) (hc : ChildSim Esc S q C c) (ctx : Ctx)
    (nodes : List Node) (st : St) (out : List Str) (hs : StOk q st) (hfs : FSOk q ctx.fs) (hC : C ctx)
    (hnodes : allCmdsL q nodes = true) :
    SimR Esc S (runNodes c ctx nodes st out) (runNodes c (S.ctx ctx) nodes (S.st st) (S.out out)) := by
  induction nodes generalizing st out with
  | nil => exact Or.inr rfl
  | cons n rest ih =>
    cases n with
    | block b =>
      simp only [allCmdsL_block, Bool.and_eq_true] at hnodes
      unfold runNodes; exact ih _ _ hs hnodes.2
    | line l =>
      simp only [allCmdsL_line, Bool.and_eq_true] at hnodes
      unfold runNodes
      have hblk := allCmdsL_nextBlock _ hnodes.2
      refine SimR.bind (stepCmd_sim T hh hc ctx l (nextBlock rest) st hs hfs hC hnodes.1 hblk) ?_
      intro r hr
      have hrOk : StOk q r.st := (HG.stepCmd T.hs hh ctx l (nextBlock rest) st hs hfs hC hnodes.1 hblk).codes r hr
      simp only [proj_out_sig, proj_out_st, proj_out_out, ← SimP.out_append]
      split
      · exact ih _ _ hrOk hnodes.2
      · exact Or.inr rfl

theorem exec_childSim (T : SimSpec Esc S q C) (d : Nat) : ChildSim Esc S q C (some (exec d)) := by
  induction d with
  | zero =>
    intro run hr code ctx st hC hcode hs hfs; cases hr
    exact runNodes_sim T (c := none) (by intro run h; cases h) (by intro run h; cases h) _ _ _ _ hs hfs hC hcode
  | succ d ih =>
    intro run hr code ctx st hC hcode hs hfs; cases hr
    exact runNodes_sim T (exec_childHG T.hs d) ih _ _ _ _ hs hfs hC hcode

/-- the simulation: any depth, any program, any context, any state -/
theorem exec_sim (T : SimSpec Esc S q C) (d : Nat) (nodes : List Node) (ctx : Ctx) (st : St)
    (hnodes : allCmdsL q nodes = true) (hs : StOk q st) (hfs : FSOk q ctx.fs) (hC : C ctx) :
    SimR Esc S (exec d nodes ctx st) (exec d nodes (S.ctx ctx) (S.st st)) :=
  exec_childSim T d _ rfl nodes ctx st hC hnodes hs hfs

end Duckling
