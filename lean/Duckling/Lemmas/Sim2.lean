import Duckling.Lemmas.Sim
/-
  The simulation walk, second form: the projected run may execute OTHER CODE — every command line `l` of the base program
  replaced by `S.lineT l` (the same line for all but the lines an instance rewrites; blocks that are code are rewritten
  recursively, argument groups and IGNORE bodies are left alone), the bodies of the functions in the environment and the files on
  disk rewritten the same way — with another print log (`S.P`), other flags (`S.g`) and projected warnings (`S.W`).
  For every program, depth, context and state: either the base run ends in an escape, or the projected run's result is the
  projection of the base run's result (same signal, same error class and trace).
  Instance (Lemmas/SimPrint): every plain PRINT line replaced by PASS — nothing but the print log changes.
-/
namespace Duckling.S2
open Duckling

structure SimP where
  g : Flags → Flags
  W : List Warn → List Warn
  p : Str → Bool
  P : List Print → List Print
  lineT : PreLine → Bool → PreLine
  fs2 : FS → FS

/-- the block that follows this command line is code (the body of IF/ELIF/ELSE, REPEAT, WHILE, FUNC): it is rewritten too;
    the argument group of a simple command and the body of IGNORE are text and stay -/
def codeOf (l : PreLine) (hb : Bool) : Bool :=
  match splitWs1 l.content with
  | none => false
  | some (word, _) =>
    match dispatch word hb with
    | some cl => cl.isBlock && cl.cname != "Ignore"
    | none => false

/-- the code the projected run executes; `prev` is the command line that owns a leading block -/
def tau (S : SimP) (prev : Option PreLine) : List Node → List Node
  | [] => []
  | .line l :: rest => .line (S.lineT l (hasBlockOf (nextBlock rest))) :: tau S (some l) rest
  | .block b :: rest =>
    .block (match prev with
            | some l => if codeOf l (!b.isEmpty) then tau S none b else b
            | none => b) :: tau S none rest

namespace SimP
variable (S : SimP)
def code (c : List Node) : List Node := tau S none c
def func (f : Func) : Func := { f with code := S.code f.code }
def funcs (fs : List (Str × Func)) : List (Str × Func) := fs.map (fun kf => (kf.1, S.func kf.2))
def ctx (c : Ctx) : Ctx := { c with opts := S.g c.opts, fs := S.fs2 c.fs }
def st (s : St) : St := { env := { s.env with funcs := S.funcs s.env.funcs }, warns := S.W s.warns, prints := S.P s.prints }
def err (e : ErrInfo) : ErrInfo := { e with prints := e.prints.map S.P }
def out (o : List Str) : List Str := o.filter S.p

@[simp] theorem ctx_frames (c : Ctx) : (S.ctx c).frames = c.frames := rfl
@[simp] theorem ctx_file (c : Ctx) : (S.ctx c).file = c.file := rfl
@[simp] theorem ctx_fs (c : Ctx) : (S.ctx c).fs = S.fs2 c.fs := rfl
@[simp] theorem ctx_opts (c : Ctx) : (S.ctx c).opts = S.g c.opts := rfl
@[simp] theorem ctx_trace (c : Ctx) (pos : Pos) : (S.ctx c).trace pos = c.trace pos := rfl
@[simp] theorem ctx_child (c : Ctx) (pos : Pos) (f : Option Path) : (S.ctx c).child pos f = S.ctx (c.child pos f) := rfl
@[simp] theorem st_allVars (s : St) : (S.st s).env.allVars = s.env.allVars := rfl
@[simp] theorem st_sys (s : St) : (S.st s).env.sys = s.env.sys := rfl
@[simp] theorem st_user (s : St) : (S.st s).env.user = s.env.user := rfl
@[simp] theorem st_temp (s : St) : (S.st s).env.temp = s.env.temp := rfl
@[simp] theorem st_funcs (s : St) : (S.st s).env.funcs = S.funcs s.env.funcs := rfl
@[simp] theorem st_prints (s : St) : (S.st s).prints = S.P s.prints := rfl
@[simp] theorem st_warns (s : St) : (S.st s).warns = S.W s.warns := rfl
@[simp] theorem out_nil : S.out [] = [] := rfl
@[simp] theorem out_append (a b : List Str) : S.out (a ++ b) = S.out a ++ S.out b := by simp [out]
end SimP

class Proj (α : Type) where
  proj : SimP → α → α

instance : Proj St := ⟨fun S s => S.st s⟩
instance : Proj Out := ⟨fun S o => { o with st := S.st o.st, out := S.out o.out }⟩
instance : Proj RC := ⟨fun S o => { o with st := S.st o.st, out := S.out o.out }⟩
instance : Proj (Func × St) := ⟨fun S p => (S.func p.1, S.st p.2)⟩
instance : Proj (Str × List (Option Arg) × St) := ⟨fun S p => (p.1, p.2.1, S.st p.2.2)⟩
instance : Proj BlockAct := ⟨fun S a => match a with
  | .done o => .done { o with st := S.st o.st, out := S.out o.out }
  | .body st => .body (S.st st)
  | .repeat v c st => .repeat v c (S.st st)
  | .while v c st => .while v c (S.st st)⟩
instance : Proj (Path × List Node) := ⟨fun S p => (p.1, S.code p.2)⟩
instance : Proj (List Arg) := ⟨fun _ a => a⟩
instance : Proj (List Val) := ⟨fun _ a => a⟩
instance : Proj Val := ⟨fun _ a => a⟩
instance : Proj Nat := ⟨fun _ a => a⟩
instance : Proj Bool := ⟨fun _ a => a⟩
instance : Proj Unit := ⟨fun _ a => a⟩
instance : Proj Str := ⟨fun _ a => a⟩

def map2 {α : Type} (f : α → α) (fe : ErrInfo → ErrInfo) : R α → R α
  | .ok a => .ok (f a)
  | .err e => .err (fe e)
  | .crash e => .crash e
  | .oom w => .oom w

@[simp] theorem map2_ok {α : Type} (f : α → α) (fe : ErrInfo → ErrInfo) (a : α) : map2 f fe (.ok a) = .ok (f a) := rfl
@[simp] theorem map2_err {α : Type} (f : α → α) (fe : ErrInfo → ErrInfo) (e : ErrInfo) : map2 f fe (.err e : R α) = .err (fe e) := rfl
@[simp] theorem map2_crash {α : Type} (f : α → α) (fe : ErrInfo → ErrInfo) (e : String) : map2 f fe (.crash e : R α) = .crash e := rfl
@[simp] theorem map2_oom {α : Type} (f : α → α) (fe : ErrInfo → ErrInfo) (e : String) : map2 f fe (.oom e : R α) = .oom e := rfl

/-- the simulation relation between the base run's result `x1` and the projected run's result `x2` -/
def SimR (Esc : ErrInfo → Prop) (S : SimP) {α : Type} [Proj α] (x1 x2 : R α) : Prop :=
  (∃ e, x1 = .err e ∧ Esc e) ∨ x2 = map2 (Proj.proj S) S.err x1

variable {Esc : ErrInfo → Prop} {S : SimP} {α β : Type} [Proj α] [Proj β]

@[simp] theorem proj_val (v : Val) : (Proj.proj S v : Val) = v := rfl
@[simp] theorem proj_args (v : List Arg) : (Proj.proj S v : List Arg) = v := rfl
@[simp] theorem proj_vals (v : List Val) : (Proj.proj S v : List Val) = v := rfl
@[simp] theorem proj_nat (v : Nat) : (Proj.proj S v : Nat) = v := rfl
@[simp] theorem proj_bool (v : Bool) : (Proj.proj S v : Bool) = v := rfl
@[simp] theorem proj_unit (v : Unit) : (Proj.proj S v : Unit) = v := rfl
@[simp] theorem proj_str (v : Str) : (Proj.proj S v : Str) = v := rfl

theorem SimR.eq {x1 x2 : R α} (h : x2 = map2 (Proj.proj S) S.err x1) : SimR Esc S x1 x2 := Or.inr h

theorem SimR.bind {x1 x2 : R α} {f1 f2 : α → R β} (hx : SimR Esc S x1 x2)
    (hf : ∀ a, x1 = .ok a → SimR Esc S (f1 a) (f2 (Proj.proj S a))) : SimR Esc S (x1 >>= f1) (x2 >>= f2) := by
  rcases hx with ⟨e, h, he⟩ | h
  · subst h; exact Or.inl ⟨e, rfl, he⟩
  · subst h
    cases x1 with
    | ok a => exact hf a rfl
    | err e => exact Or.inr rfl
    | crash e => exact Or.inr rfl
    | oom w => exact Or.inr rfl

/-! ### what does not look at the flags, the warnings, the functions -/

theorem raise_sim {γ : Type} [Proj γ] (c : Ctx) (pos : Pos) (s : St) (k : EK) :
    SimR Esc S (raise c pos s k : R γ) (raise (S.ctx c) pos (S.st s) k) := Or.inr rfl

theorem raise_eq {γ : Type} (f : γ → γ) (c : Ctx) (pos : Pos) (s : St) (k : EK) :
    (raise (S.ctx c) pos (S.st s) k : R γ) = map2 f S.err (raise c pos s k) := rfl

theorem liftO_sim {γ : Type} [Proj γ] (hid : ∀ a : γ, Proj.proj S a = a) (c : Ctx) (pos : Pos) (s : St) (o : Outcome γ) :
    SimR Esc S (liftO c pos s o) (liftO (S.ctx c) pos (S.st s) o) := by
  cases o with
  | ok a => right; simp [liftO, hid]
  | cerr k => exact Or.inr rfl
  | crash e => exact Or.inr rfl
  | oom w => exact Or.inr rfl

theorem evalIn_sim (c : Ctx) (pos : Pos) (s : St) (t : Str) : SimR Esc S (evalIn c pos s t) (evalIn (S.ctx c) pos (S.st s) t) :=
  liftO_sim (fun _ => rfl) c pos s _

theorem evaluateArgs_sim (c : Ctx) (line : Nat) (s : St) (b : Bool) (args : List Arg) :
    SimR Esc S (evaluateArgs c line s b args) (evaluateArgs (S.ctx c) line (S.st s) b args) := by
  induction args with
  | nil => exact Or.inr rfl
  | cons a rest ih =>
    unfold evaluateArgs
    refine SimR.bind (evalIn_sim c _ s _) ?_
    intro v _
    refine SimR.bind ih ?_
    intro r _
    exact Or.inr rfl

theorem stringifyArgs_sim (c : Ctx) (line : Nat) (s : St) (args : List Arg) :
    SimR Esc S (stringifyArgs c line s args) (stringifyArgs (S.ctx c) line (S.st s) args) := by
  induction args with
  | nil => exact Or.inr rfl
  | cons a rest ih =>
    unfold stringifyArgs
    refine SimR.bind (liftO_sim (fun _ => rfl) c _ s _) ?_
    intro v _
    refine SimR.bind ih ?_
    intro r _
    exact Or.inr rfl

theorem verifyTypes_sim (c : Ctx) (line : Nat) (s : St) (t : ArgType) (args : List Arg) :
    SimR Esc S (verifyTypes c line s t args) (verifyTypes (S.ctx c) line (S.st s) t args) := by
  induction args with
  | nil => exact Or.inr rfl
  | cons a rest ih =>
    unfold verifyTypes
    split
    · exact Or.inr rfl
    · exact ih

theorem verifyEach_sim (c : Ctx) (line : Nat) (s : St) (cl : ClsDesc) (args : List Arg) :
    SimR Esc S (verifyEach c line s cl args) (verifyEach (S.ctx c) line (S.st s) cl args) := by
  induction args with
  | nil => exact Or.inr rfl
  | cons a rest ih =>
    unfold verifyEach
    split
    · exact Or.inr rfl
    · exact ih

theorem prepareArgs_sim (c : Ctx) (cl : ClsDesc) (word : Str) (line : Nat) (arg : Option Str) (block : Option (List Node)) (s : St) :
    SimR Esc S (prepareArgs c cl word line arg block s) (prepareArgs (S.ctx c) cl word line arg block (S.st s)) := by
  unfold prepareArgs
  split
  · exact Or.inr rfl
  · simp only []
    split
    · refine SimR.bind (evaluateArgs_sim c line s true _) ?_
      intro ev _
      split
      · exact Or.inr rfl
      · exact stringifyArgs_sim c line s ev
    · exact Or.inr rfl

theorem tokenizeCount_sim (c : Ctx) (pos : Pos) (s : St) (t : Str) :
    SimR Esc S (tokenizeCount c pos s t) (tokenizeCount (S.ctx c) pos (S.st s) t) := by
  unfold tokenizeCount
  refine SimR.bind (evalIn_sim c pos s t) ?_
  intro v _
  simp only [proj_val]
  split
  · exact Or.inr rfl
  · split <;> exact Or.inr rfl

theorem ifCond_sim (c : Ctx) (pos : Pos) (name : Str) (arg : Option Str) (s : St) :
    SimR Esc S (ifCond c pos name arg s) (ifCond (S.ctx c) pos name arg (S.st s)) := by
  unfold ifCond
  split
  · refine SimR.bind (evalIn_sim c pos s _) ?_
    intro v _
    exact Or.inr rfl
  · exact Or.inr rfl

theorem runArgs_sim (c : Ctx) (pos : Pos) (s : St) (vs : Option Str) :
    SimR Esc S (runArgs c pos s vs) (runArgs (S.ctx c) pos (S.st s) vs) := by
  unfold runArgs
  cases vs with
  | none => exact Or.inr rfl
  | some v =>
    simp only []
    split
    · exact Or.inr rfl
    · refine SimR.bind (evalIn_sim c pos s v) ?_
      intro x _
      show SimR Esc S _ (match x with | .list l => R.ok l | v => R.ok [v])
      cases x <;> exact Or.inr rfl

end Duckling.S2

namespace Duckling.S2
open Duckling

variable {Esc : ErrInfo → Prop} {S : SimP} {α β : Type} [Proj α] [Proj β]

/-! ### the function table under the rewriting of bodies -/

theorem assocGet_map {γ : Type} (f : γ → γ) (l : List (Str × γ)) (k : Str) :
    assocGet (l.map fun kv => (kv.1, f kv.2)) k = (assocGet l k).map f := by
  induction l with
  | nil => rfl
  | cons h t ih =>
    obtain ⟨k', v'⟩ := h
    simp only [List.map_cons, assocGet]
    split
    · rfl
    · exact ih

theorem assocSet_map {γ : Type} (f : γ → γ) (l : List (Str × γ)) (k : Str) (v : γ) :
    assocSet (l.map fun kv => (kv.1, f kv.2)) k (f v) = (assocSet l k v).map fun kv => (kv.1, f kv.2) := by
  induction l with
  | nil => rfl
  | cons h t ih =>
    obtain ⟨k', v'⟩ := h
    simp only [List.map_cons, assocSet]
    split
    · rfl
    · simp only [List.map_cons, ih]

theorem assocUpdate_map {γ : Type} (f : γ → γ) (d e : List (Str × γ)) :
    assocUpdate (d.map fun kv => (kv.1, f kv.2)) (e.map fun kv => (kv.1, f kv.2)) = (assocUpdate d e).map fun kv => (kv.1, f kv.2) := by
  unfold assocUpdate
  induction e generalizing d with
  | nil => rfl
  | cons h t ih =>
    simp only [List.map_cons, List.foldl_cons]
    rw [assocSet_map, ih]

theorem leave_sim (par : Bool) (p c : St) : leave par (S.st p) (S.st c) = S.st (leave par p c) := by
  cases par with
  | false => rfl
  | true =>
    simp only [leave, if_true, SimP.st, VEnv.exitParallel, SimP.funcs, assocUpdate_map]

theorem enterSt_sim (s : St) : enterSt (S.st s) = S.st (enterSt s) := rfl

/-- what an instance has to say about its projection of warnings and flags (as in the first form) -/
structure SimOk (Esc : ErrInfo → Prop) (S : SimP) : Prop where
  wcontains : ∀ ws w, Warn.isNE w = false → (S.W ws).contains w = ws.contains w
  wappend : ∀ ws w, Warn.isNE w = false → S.W (ws ++ [w]) = S.W ws ++ [w]
  unknown : ∀ (o : Flags) ws w, Warn.isNE w = true →
    (if (S.g o).suppress then S.W ws else addWarnL (S.W ws) w) = S.W (if o.suppress then ws else addWarnL ws w)
  flip : ∀ o : Flags, (S.g o).flipper = o.flipper ∨ ((S.g o).flipper = true ∧ ∀ e : ErrInfo, e.k = .invalidCommand → Esc e)

theorem addWarn_sim (ok : SimOk Esc S) (st : St) (w : Warn) (hw : Warn.isNE w = false) :
    addWarn (S.st st) w = S.st (addWarn st w) := by
  rw [addWarn_eq, addWarn_eq]
  simp only [SimP.st, addWarnL, ok.wcontains _ _ hw]
  split <;> simp [ok.wappend _ _ hw]

theorem verifyArgsHook_sim (ok : SimOk Esc S) (c : Ctx) (pos0 : Pos) (cl : ClsDesc) (args : List Arg) (s : St) :
    SimR Esc S (verifyArgsHook c pos0 cl args s) (verifyArgsHook (S.ctx c) pos0 cl args (S.st s)) := by
  unfold verifyArgsHook
  repeat' split
  all_goals first
    | exact Or.inr rfl
    | exact Or.inr (congrArg R.ok (addWarn_sim ok s ⟨.defaultDelayMulti, some (c.trace pos0)⟩ rfl))

theorem checkArgs_sim (ok : SimOk Esc S) (c : Ctx) (cl : ClsDesc) (line : Nat) (args : List Arg) (s : St) :
    SimR Esc S (checkArgs c cl line args s) (checkArgs (S.ctx c) cl line args (S.st s)) := by
  unfold checkArgs
  simp only []
  split
  · exact Or.inr rfl
  · split
    · exact Or.inr rfl
    · refine SimR.bind (verifyTypes_sim c line s _ args) ?_
      intro _ _
      refine SimR.bind (verifyArgsHook_sim ok c _ cl args s) ?_
      intro st' _
      refine SimR.bind (verifyEach_sim c line st' cl args) ?_
      intro _ _
      exact Or.inr rfl

theorem simplePre_sim (ok : SimOk Esc S) (c : Ctx) (cl : ClsDesc) (word : Str) (line : Nat) (arg : Option Str)
    (block : Option (List Node)) (s : St) :
    SimR Esc S (simplePre c cl word line arg block s) (simplePre (S.ctx c) cl word line arg block (S.st s)) := by
  unfold simplePre
  simp only [SimP.ctx_opts, SimP.ctx_file]
  by_cases h1 : (cl.flipperOnly && !c.opts.flipper) = true
  · rcases ok.flip c.opts with hfl | ⟨_, hesc⟩
    · right; simp only [h1, hfl, if_true]; rfl
    · left; exact ⟨{ k := .invalidCommand, trace := some (c.trace ⟨line, none⟩), prints := some s.prints },
        by simp only [h1, if_true]; rfl, hesc _ rfl⟩
  · have h2 : (cl.flipperOnly && !(S.g c.opts).flipper) = false := by
      rcases ok.flip c.opts with hfl | ⟨hfl, _⟩
      · rw [hfl]; simpa using h1
      · simp [hfl]
    simp only [h1, h2, Bool.false_eq_true, if_false]
    by_cases h3 : (cl.cname == "Start" && c.file.isNone) = true
    · simp only [h3, if_true]; exact Or.inr rfl
    · simp only [h3, Bool.false_eq_true, if_false]
      refine SimR.bind (prepareArgs_sim c cl word line arg block s) ?_
      intro args _
      refine SimR.bind (checkArgs_sim ok c cl line args s) ?_
      intro st' _
      exact Or.inr rfl

theorem bindParams_sim (s : St) (fn : Func) (vals : List Val) : bindParams (S.st s) (S.func fn) vals = S.st (bindParams s fn vals) := rfl

theorem runPre_sim (c : Ctx) (pos : Pos) (a : Arg) (s : St) :
    SimR Esc S (runPre c pos a s) (runPre (S.ctx c) pos a (S.st s)) := by
  unfold runPre
  refine SimR.bind (runArgs_sim c pos s _) ?_
  intro vals _
  simp only [proj_vals, SimP.st_funcs, SimP.funcs, assocGet_map]
  cases assocGet s.env.funcs (breakArg a.str).1 with
  | none => exact Or.inr rfl
  | some fn =>
    simp only [Option.map_some]
    have hp : (S.func fn).params = fn.params := rfl
    rw [hp]
    split
    · exact Or.inr rfl
    · split
      · exact Or.inr rfl
      · exact Or.inr rfl

@[simp] theorem proj_out_sig (r : Out) : (Proj.proj S r : Out).sig = r.sig := rfl
@[simp] theorem proj_out_st (r : Out) : (Proj.proj S r : Out).st = S.st r.st := rfl
@[simp] theorem proj_out_out (r : Out) : (Proj.proj S r : Out).out = S.out r.out := rfl
@[simp] theorem proj_rc_sig (r : RC) : (Proj.proj S r : RC).sig = r.sig := rfl
@[simp] theorem proj_rc_st (r : RC) : (Proj.proj S r : RC).st = S.st r.st := rfl
@[simp] theorem proj_rc_out (r : RC) : (Proj.proj S r : RC).out = S.out r.out := rfl

theorem runPost_sim (c : Ctx) (pos : Pos) (s : St) (r : Out) :
    SimR Esc S (runPost c pos s r) (runPost (S.ctx c) pos (S.st s) (Proj.proj S r)) := by
  unfold runPost
  simp only [proj_out_sig, proj_out_st, leave_sim]
  split <;> exact Or.inr rfl

theorem startBaseWarn_sim (ok : SimOk Esc S) (s : St) (sig : Sig) : startBaseWarn (S.st s) sig = S.st (startBaseWarn s sig) := by
  unfold startBaseWarn
  split
  · rfl
  · exact addWarn_sim ok s _ rfl

theorem startPost_sim (ok : SimOk Esc S) (name : Str) (s : St) (r : Out) :
    SimR Esc S (startPost name s r) (startPost name (S.st s) (Proj.proj S r)) := by
  unfold startPost
  simp only [proj_out_sig, proj_out_st, startBaseWarn_sim ok, leave_sim]
  split <;> exact Or.inr rfl

/-- the files on disk as the projected run reads them: each parses to the rewriting of what the base run's file parses to -/
def FRel (S : SimP) (fs : FS) : Prop :=
  ∀ p, match fs.read p with
    | none => (S.fs2 fs).read p = none
    | some t => ∃ t', (S.fs2 fs).read p = some t' ∧
        parseLines (splitLines t') = (match parseLines (splitLines t) with | .ok nodes => .ok (S.code nodes) | .error e => .error e)

theorem loadImport_sim (c : Ctx) (pos : Pos) (a : Arg) (s : St) (hF : FRel S c.fs) :
    SimR Esc S (loadImport c pos a s) (loadImport (S.ctx c) pos a (S.st s)) := by
  obtain ⟨opts, fs, frames, cfile⟩ := c
  unfold loadImport
  simp only [SimP.ctx_file, SimP.ctx_fs, SimP.ctx_frames]
  cases cfile with
  | none => exact Or.inr rfl
  | some file =>
    simp only []
    split
    · exact Or.inr rfl
    · cases resolveImport file a.str with
      | error k => exact Or.inr rfl
      | ok target =>
        simp only []
        have h := hF target
        cases hr : fs.read target with
        | none =>
          rw [hr] at h
          simp only [h]
          exact Or.inr rfl
        | some text =>
          rw [hr] at h
          obtain ⟨t', h1, h2⟩ := h
          simp only [h1]
          by_cases hcyc : (List.map (fun x => x.file) frames ++ [some file]).contains (some target) = true
          · simp only [hcyc, if_true]; exact Or.inr rfl
          · simp only [hcyc, Bool.false_eq_true, if_false]
            rw [h2]
            cases parseLines (splitLines text) with
            | error e => cases e <;> exact Or.inr rfl
            | ok nodes => exact Or.inr rfl

end Duckling.S2

namespace Duckling.S2
open Duckling

variable {Esc : ErrInfo → Prop} {S : SimP} {q : Str → Bool → Bool} {C : Ctx → Prop} [CtxInv C]

/-- a child executor that simulates itself on the rewritten code -/
def ChildSim (Esc : ErrInfo → Prop) (S : SimP) (q : Str → Bool → Bool) (C : Ctx → Prop) (c : Option ChildFn) : Prop :=
  ∀ run, c = some run → ∀ code ctx st, C ctx → allCmdsL q code = true → StOk q st → FSOk q ctx.fs → FRel S ctx.fs →
    SimR Esc S (run code ctx st) (run (S.code code) (S.ctx ctx) (S.st st))

theorem runChild_sim {c : Option ChildFn} (hc : ChildSim Esc S q C c) (ctx : Ctx) (pos : Pos) (st : St) (code : List Node)
    (file : Option Path) (cst : St) (hcode : allCmdsL q code = true) (hcst : StOk q cst) (hfs : FSOk q ctx.fs) (hF : FRel S ctx.fs)
    (hC : C ctx) :
    SimR Esc S (runChild c ctx pos st code file cst) (runChild c (S.ctx ctx) pos (S.st st) (S.code code) file (S.st cst)) := by
  cases c with
  | none => exact Or.inr rfl
  | some run => exact hc run rfl code _ cst (CtxInv.child _ _ _ hC) hcode hcst hfs hF

theorem guardChild_sim {γ : Type} [Proj γ] {c : Option ChildFn} (ctx : Ctx) (pos : Pos) (st : St) (k1 k2 : R γ)
    (hk : SimR Esc S k1 k2) : SimR Esc S (guardChild c ctx pos st k1) (guardChild c (S.ctx ctx) pos (S.st st) k2) := by
  cases c with
  | none => exact Or.inr rfl
  | some _ => exact hk

theorem runRun_sim {c : Option ChildFn} (hc : ChildSim Esc S q C c) (ctx : Ctx) (pos : Pos) (a : Arg)
    (st : St) (hs : StOk q st) (hfs : FSOk q ctx.fs) (hF : FRel S ctx.fs) (hC : C ctx) :
    SimR Esc S (runRun c ctx pos a st) (runRun c (S.ctx ctx) pos a (S.st st)) := by
  unfold runRun
  refine SimR.bind (runPre_sim ctx pos a st) ?_
  intro p hp
  have hcodes := (HG.runPre (q := q) (P := PT) ctx pos a st hs).codes p hp
  have hcode : allCmdsL q p.1.code = true := hcodes _ (by simp [Carries.codes])
  have hcst : StOk q p.2 := fun cd hcd => hcodes cd (by simp only [Carries.codes]; exact List.mem_cons_of_mem _ hcd)
  refine SimR.bind (runChild_sim hc ctx pos st p.1.code (funcFile ctx p.1) p.2 hcode hcst hfs hF hC) ?_
  intro r _
  exact runPost_sim ctx pos st r

theorem runStart_sim (ok : SimOk Esc S) {c : Option ChildFn} (hc : ChildSim Esc S q C c) (ctx : Ctx) (pos : Pos) (name : Str)
    (a : Arg) (st : St) (hs : StOk q st) (hfs : FSOk q ctx.fs) (hF : FRel S ctx.fs) (hC : C ctx) :
    SimR Esc S (runStart c ctx pos name a st) (runStart c (S.ctx ctx) pos name a (S.st st)) := by
  unfold runStart
  refine SimR.bind (loadImport_sim ctx pos a st hF) ?_
  intro p hp
  have hcodes := (HG.loadImport (q := q) (P := PT) ctx pos a st hfs).codes p hp
  have hcode : allCmdsL q p.2 = true := hcodes _ (by simp [Carries.codes])
  refine SimR.bind (runChild_sim hc ctx pos st p.2 (some p.1) (enterSt st) hcode hs.enterSt hfs hF hC) ?_
  intro r _
  exact startPost_sim ok name st r

/-- the relation between the two runs of one `run_compile` call (as in the first form) -/
def ItemSim (Esc : ErrInfo → Prop) (S : SimP) (cl : ClsDesc) (x1 x2 : R RC) : Prop :=
  SimR Esc S x1 x2 ∨
  (NormalCls cl ∧ ∃ rc, x1 = .ok rc ∧ rc.sig = some .normal ∧ x2 = .ok { (Proj.proj S rc : RC) with sig := none })

theorem runCompile_sim (ok : SimOk Esc S) {c : Option ChildFn} (hc : ChildSim Esc S q C c) (ctx : Ctx)
    (cl : ClsDesc) (name : Str) (line : Nat) (a : Option Arg) (st : St) (hs : StOk q st) (hfs : FSOk q ctx.fs) (hF : FRel S ctx.fs)
    (hC : C ctx)
    (hemit : (hasHook cl "run_compile" && cl.cname == "Run") = false → (hasHook cl "run_compile" && cl.cname == "Start") = false →
      ItemSim Esc S cl (runCompileLocal ctx cl name line a st) (runCompileLocal (S.ctx ctx) cl name line a (S.st st))) :
    ItemSim Esc S cl (runCompile c ctx cl name line a st) (runCompile c (S.ctx ctx) cl name line a (S.st st)) := by
  unfold runCompile
  split
  · split
    · exact Or.inl (Or.inr rfl)
    · exact Or.inl (runRun_sim hc _ _ _ _ hs hfs hF hC)
  · rename_i hnr
    split
    · split
      · exact Or.inl (Or.inr rfl)
      · exact Or.inl (runStart_sim ok hc _ _ _ _ _ hs hfs hF hC)
    · rename_i hns
      exact hemit (by simpa using hnr) (by simpa using hns)

theorem multiComp_sim (ok : SimOk Esc S) {c : Option ChildFn} (hh : ChildHG q PT C c) (hc : ChildSim Esc S q C c) (ctx : Ctx)
    (cl : ClsDesc) (name : Str) (line : Nat) (items : List (Option Arg)) (st : St) (out : List Str) (sig : Sig)
    (hs : StOk q st) (hfs : FSOk q ctx.fs) (hF : FRel S ctx.fs) (hC : C ctx) (hsig : NormalCls cl → sig = .normal)
    (hemit : (hasHook cl "run_compile" && cl.cname == "Run") = false → (hasHook cl "run_compile" && cl.cname == "Start") = false →
      ∀ a ∈ items, ∀ st2, StOk q st2 →
        ItemSim Esc S cl (runCompileLocal ctx cl name line a st2) (runCompileLocal (S.ctx ctx) cl name line a (S.st st2))) :
    SimR Esc S (multiComp c ctx cl name line items st out sig)
      (multiComp c (S.ctx ctx) cl name line items (S.st st) (S.out out) sig) := by
  induction items generalizing st out sig with
  | nil => exact Or.inr rfl
  | cons a rest ih =>
    unfold multiComp
    have hitem := runCompile_sim ok hc ctx cl name line a st hs hfs hF hC (fun h1 h2 => hemit h1 h2 a List.mem_cons_self st hs)
    have hg := HG.runCompile (q := q) (P := PT) hh ctx cl name line a st hs hfs hC (fun _ _ _ _ _ _ => trivial)
    have hrest : ∀ r, runCompile c ctx cl name line a st = .ok r → ∀ sig', (NormalCls cl → sig' = .normal) →
        SimR Esc S (multiComp c ctx cl name line rest r.st (out ++ r.out) sig')
          (multiComp c (S.ctx ctx) cl name line rest (S.st r.st) (S.out (out ++ r.out)) sig') := by
      intro r hr sig' hsig'
      exact ih r.st (out ++ r.out) sig' (hg.codes r hr) hsig' (fun h1 h2 a' ha' => hemit h1 h2 a' (List.mem_cons_of_mem _ ha'))
    have hnext : ∀ r, runCompile c ctx cl name line a st = .ok r → NormalCls cl → r.sig.getD sig = .normal := by
      intro r hr hn
      rcases runCompile_normal cl hn c ctx name line a st r hr with h | h
      · rw [h]; exact hsig hn
      · rw [h]; rfl
    rcases hitem with hsim | ⟨hn, rc, h1, hsn, h2⟩
    · refine SimR.bind hsim ?_
      intro r hr
      have := hrest r hr (r.sig.getD sig) (hnext r hr)
      simpa using this
    · rw [h1, h2]
      simp only [R.bind_ok]
      have := hrest rc h1 (rc.sig.getD sig) (hnext rc h1)
      simpa [hsig hn, hsn] using this

theorem compileSimple_sim (ok : SimOk Esc S) {c : Option ChildFn} (hh : ChildHG q PT C c) (hc : ChildSim Esc S q C c) (ctx : Ctx)
    (cl : ClsDesc) (word : Str) (line : Nat) (arg : Option Str) (block : Option (List Node)) (st : St)
    (hs : StOk q st) (hfs : FSOk q ctx.fs) (hF : FRel S ctx.fs) (hC : C ctx)
    (hemit : (hasHook cl "run_compile" && cl.cname == "Run") = false → (hasHook cl "run_compile" && cl.cname == "Start") = false →
      ∀ name items st', simplePre ctx cl word line arg block st = .ok (name, items, st') → ∀ a ∈ items, ∀ st2, StOk q st2 →
        ItemSim Esc S cl (runCompileLocal ctx cl name line a st2) (runCompileLocal (S.ctx ctx) cl name line a (S.st st2))) :
    SimR Esc S (compileSimple c ctx cl word line arg block st) (compileSimple c (S.ctx ctx) cl word line arg block (S.st st)) := by
  unfold compileSimple
  refine SimR.bind (simplePre_sim ok ctx cl word line arg block st) ?_
  intro p hp
  obtain ⟨name, items, st'⟩ := p
  have hst' : StOk q st' := (HG.simplePre (q := q) (P := PT) ctx cl word line arg block st hs).codes _ hp
  exact multiComp_sim ok hh hc ctx cl name line items st' [] .normal hst' hfs hF hC (fun _ => rfl)
    (fun h1 h2 => hemit h1 h2 name items st' hp)

theorem bindCounter_sim (ctx : Ctx) (pos : Pos) (st : St) (var : Option Str) (n : Nat) (cst : St) :
    SimR Esc S (bindCounter ctx pos st var n cst) (bindCounter (S.ctx ctx) pos (S.st st) var n (S.st cst)) := by
  unfold bindCounter
  split
  · exact Or.inr rfl
  · split <;> exact Or.inr rfl

theorem repeatLoop_sim {c : Option ChildFn} (hh : ChildHG q PT C c) (hc : ChildSim Esc S q C c) (ctx : Ctx) (pos : Pos)
    (var : Option Str) (ce : Str) (body : List Node) (budget count : Nat) (st : St) (out : List Str)
    (hs : StOk q st) (hfs : FSOk q ctx.fs) (hF : FRel S ctx.fs) (hC : C ctx) (hbody : allCmdsL q body = true) :
    SimR Esc S (repeatLoop c ctx pos var ce body budget count st out)
      (repeatLoop c (S.ctx ctx) pos var ce (S.code body) budget count (S.st st) (S.out out)) := by
  induction budget generalizing count st out with
  | zero => exact Or.inr rfl
  | succ b ih =>
    unfold repeatLoop
    refine SimR.bind (tokenizeCount_sim ctx pos st ce) ?_
    intro n _
    simp only [proj_nat]
    split
    · exact Or.inr rfl
    · apply guardChild_sim
      refine SimR.bind (bindCounter_sim ctx pos st var count (enterSt st)) ?_
      intro cst hcst
      have hcstOk : StOk q cst := (HG.bindCounter (q := q) (P := PT) ctx pos st var count (enterSt st) hs.enterSt).codes cst hcst
      refine SimR.bind (runChild_sim hc ctx pos st body ctx.file cst hbody hcstOk hfs hF hC) ?_
      intro r hr
      have hrOk : StOk q r.st := (HG.runChild (q := q) (P := PT) hh ctx pos st body ctx.file cst hbody hcstOk hfs hC).codes r hr
      simp only [afterIter, proj_out_st, proj_out_out, proj_out_sig, leave_sim, ← SimP.out_append]
      cases shouldBreak r.sig with
      | none => exact ih (count + 1) _ _ (StOk.leave false hs hrOk)
      | some s => exact Or.inr rfl

theorem whileLoop_sim {c : Option ChildFn} (hh : ChildHG q PT C c) (hc : ChildSim Esc S q C c) (ctx : Ctx) (pos : Pos)
    (var : Option Str) (cond : Str) (body : List Node) (budget count : Nat) (st : St) (out : List Str)
    (hs : StOk q st) (hfs : FSOk q ctx.fs) (hF : FRel S ctx.fs) (hC : C ctx) (hbody : allCmdsL q body = true) :
    SimR Esc S (whileLoop c ctx pos var cond body budget count st out)
      (whileLoop c (S.ctx ctx) pos var cond (S.code body) budget count (S.st st) (S.out out)) := by
  induction budget generalizing count st out with
  | zero => exact Or.inr rfl
  | succ b ih =>
    unfold whileLoop
    apply guardChild_sim
    refine SimR.bind (bindCounter_sim ctx pos st var count (enterSt st)) ?_
    intro cst hcst
    have hcstOk : StOk q cst := (HG.bindCounter (q := q) (P := PT) ctx pos st var count (enterSt st) hs.enterSt).codes cst hcst
    refine SimR.bind (evalIn_sim ctx pos cst cond) ?_
    intro cv _
    simp only [proj_val, leave_sim]
    split
    · exact Or.inr rfl
    · refine SimR.bind (runChild_sim hc ctx pos st body ctx.file cst hbody hcstOk hfs hF hC) ?_
      intro r hr
      have hrOk : StOk q r.st := (HG.runChild (q := q) (P := PT) hh ctx pos st body ctx.file cst hbody hcstOk hfs hC).codes r hr
      simp only [afterIter, proj_out_st, proj_out_out, proj_out_sig, leave_sim, ← SimP.out_append]
      cases shouldBreak r.sig with
      | none => exact ih (count + 1) _ _ (StOk.leave false hs hrOk)
      | some s => exact Or.inr rfl

end Duckling.S2

namespace Duckling.S2
open Duckling

variable {Esc : ErrInfo → Prop} {S : SimP} {q : Str → Bool → Bool} {C : Ctx → Prop} [CtxInv C]

/-! ### block commands -/

theorem ifDecide_sim (name : Str) (s : St) (cond : Bool) :
    ifDecide name (S.st s) cond = BlockAct.mapSt S.st (ifDecide name s cond) := by
  unfold ifDecide
  have h : ifFlag (S.st s) = ifFlag s := rfl
  simp only [h]
  repeat' split
  all_goals rfl

theorem withFlag_sim (s : St) : withFlag (S.st s) = S.st (withFlag s) := by
  unfold withFlag
  simp only [SimP.st_temp]
  by_cases h : assocHas s.env.temp ifSuccess = true
  · simp only [h, if_true]
  · simp only [h, if_false, Bool.false_eq_true]; rfl

/-- the relation on block-command decisions: states projected, lines left alone -/
def ActSim (Esc : ErrInfo → Prop) (S : SimP) (x1 x2 : R BlockAct) : Prop :=
  (∃ e, x1 = .err e ∧ Esc e) ∨ x2 = map2 (BlockAct.mapSt S.st) S.err x1

theorem ActSim.ofSimRBool {x1 x2 : R Bool} (h : SimR Esc S x1 x2) (f1 f2 : Bool → R BlockAct)
    (hf : ∀ b, ActSim Esc S (f1 b) (f2 b)) : ActSim Esc S (x1 >>= f1) (x2 >>= f2) := by
  rcases h with ⟨e, h, he⟩ | h
  · subst h; exact Or.inl ⟨e, rfl, he⟩
  · subst h
    cases x1 with
    | ok a => exact hf a
    | err e => exact Or.inr rfl
    | crash e => exact Or.inr rfl
    | oom w => exact Or.inr rfl

theorem ifPre_sim (c : Ctx) (pos : Pos) (word : Str) (arg : Option Str) (s : St) :
    ActSim Esc S (ifPre c pos word arg s) (ifPre (S.ctx c) pos word arg (S.st s)) := by
  unfold ifPre
  simp only [withFlag_sim]
  split
  · exact Or.inr rfl
  · split
    · exact Or.inr rfl
    · refine ActSim.ofSimRBool (ifCond_sim c pos (upper word) arg (withFlag s)) _ _ ?_
      intro b
      right
      simp only [ifDecide_sim]
      rfl

theorem funcPre_sim (c : Ctx) (pos : Pos) (arg : Option Str) (block : List Node) (s : St) :
    ActSim Esc S (funcPre c pos arg block s) (funcPre (S.ctx c) pos arg (S.code block) (S.st s)) := by
  unfold funcPre
  simp only []
  repeat' split
  all_goals first
    | exact Or.inr rfl
    | (right
       simp only [map2_ok, BlockAct.mapSt, SimP.st, SimP.funcs, SimP.ctx_file]
       rw [← assocSet_map S.func]
       rfl)

theorem ignorePre_sim (c : Ctx) (pos : Pos) (block : List Node) (s : St) :
    ActSim Esc S (ignorePre c pos block s) (ignorePre (S.ctx c) pos block (S.st s)) := by
  unfold ignorePre
  split <;> exact Or.inr rfl

theorem repeatPre_sim (c : Ctx) (pos : Pos) (arg : Option Str) (hb : Bool) (s : St) :
    ActSim Esc S (repeatPre c pos arg hb s) (repeatPre (S.ctx c) pos arg hb (S.st s)) := by
  unfold repeatPre
  simp only []
  repeat' split
  all_goals exact Or.inr rfl

/-- the block handed to the projected run's block command: rewritten, unless it is the text of an IGNORE -/
def blockOf (S : SimP) (cl : ClsDesc) (block : List Node) : List Node :=
  if cl.cname != "Ignore" then S.code block else block

theorem blockPre_act (ok : SimOk Esc S) (ctx : Ctx) (cl : ClsDesc) (word : Str) (line : Nat) (arg : Option Str)
    (block : List Node) (hb : Bool) (st : St) :
    ActSim Esc S (blockPre ctx cl word line arg block hb st)
      (blockPre (S.ctx ctx) cl word line arg (blockOf S cl block) hb (S.st st)) := by
  unfold blockPre
  simp only [SimP.ctx_opts]
  by_cases h1 : (cl.flipperOnly && !ctx.opts.flipper) = true
  · rcases ok.flip ctx.opts with hfl | ⟨_, hesc⟩
    · right; simp only [h1, hfl, if_true]; rfl
    · left; exact ⟨{ k := .invalidCommand, trace := some (ctx.trace ⟨line, none⟩), prints := some st.prints },
        by simp only [h1, if_true]; rfl, hesc _ rfl⟩
  · have h2 : (cl.flipperOnly && !(S.g ctx.opts).flipper) = false := by
      rcases ok.flip ctx.opts with hfl | ⟨hfl, _⟩
      · rw [hfl]; simpa using h1
      · simp [hfl]
    simp only [h1, h2, Bool.false_eq_true, if_false]
    repeat' split
    all_goals first
      | exact Or.inr rfl
      | exact ifPre_sim ctx _ word _ st
      | exact repeatPre_sim ctx _ _ hb st
      | (have hb1 : blockOf S cl block = S.code block := by simp_all [blockOf]
         rw [hb1]; exact funcPre_sim ctx _ _ block st)
      | (have hb1 : blockOf S cl block = block := by simp_all [blockOf]
         rw [hb1]; exact ignorePre_sim ctx _ block st)

theorem proj_eq_mapSt (a : BlockAct) (h : ∀ o, a = .done o → S.out o.out = o.out) :
    BlockAct.mapSt S.st a = Proj.proj S a := by
  cases a with
  | done o =>
    have := h o rfl
    simp only [BlockAct.mapSt, Proj.proj, this]
  | body st => rfl
  | «repeat» v c st => rfl
  | «while» v c st => rfl

theorem blockPre_sim (ok : SimOk Esc S) (ctx : Ctx) (cl : ClsDesc) (word : Str) (line : Nat) (arg : Option Str) (block : List Node)
    (hb : Bool) (st : St) (hdone : ∀ o, blockPre ctx cl word line arg block hb st = .ok (.done o) → S.out o.out = o.out) :
    SimR Esc S (blockPre ctx cl word line arg block hb st) (blockPre (S.ctx ctx) cl word line arg (blockOf S cl block) hb (S.st st)) := by
  rcases blockPre_act ok ctx cl word line arg block hb st with h | h
  · exact Or.inl h
  · right
    rw [h]
    cases hx : blockPre ctx cl word line arg block hb st with
    | ok a =>
      simp only [map2_ok]
      rw [proj_eq_mapSt a (fun o ho => hdone o (by rw [hx, ho]))]
    | err e => rfl
    | crash e => rfl
    | oom w => rfl

/-- for an IGNORE the decision is always final: the block is never run -/
theorem blockPre_ignore_done (ctx : Ctx) (cl : ClsDesc) (word : Str) (line : Nat) (arg : Option Str) (block : List Node) (hb : Bool)
    (st : St) (hc : cl.cname = "Ignore") (act : BlockAct) (h : blockPre ctx cl word line arg block hb st = .ok act) :
    ∃ o, act = .done o := by
  unfold blockPre at h
  simp only [hc] at h
  repeat' split at h
  all_goals first
    | (simp [raise] at h; done)
    | (unfold ignorePre at h
       split at h
       · simp [raise] at h
       · cases h; exact ⟨_, rfl⟩)

theorem runBlockAct_sim {c : Option ChildFn} (hh : ChildHG q PT C c) (hc : ChildSim Esc S q C c) (ctx : Ctx) (pos : Pos)
    (block : List Node) (act : BlockAct) (hfs : FSOk q ctx.fs) (hF : FRel S ctx.fs) (hC : C ctx) (hblock : allCmdsL q block = true)
    (hact : ∀ cd ∈ Carries.codes act, allCmdsL q cd = true) :
    SimR Esc S (runBlockAct c ctx pos block act) (runBlockAct c (S.ctx ctx) pos (S.code block) (Proj.proj S act)) := by
  cases act with
  | done o => exact Or.inr rfl
  | body st =>
    have hs : StOk q st := hact
    unfold runBlockAct
    refine SimR.bind (runChild_sim hc ctx pos st block ctx.file (enterSt st) hblock hs.enterSt hfs hF hC) ?_
    intro r _
    exact Or.inr rfl
  | «repeat» var ce st => exact repeatLoop_sim hh hc ctx pos var ce block _ 0 st [] hact hfs hF hC hblock
  | «while» var cond st => exact whileLoop_sim hh hc ctx pos var cond block _ 0 st [] hact hfs hF hC hblock

theorem compileBlock_sim (ok : SimOk Esc S) {c : Option ChildFn} (hh : ChildHG q PT C c) (hc : ChildSim Esc S q C c) (ctx : Ctx)
    (cl : ClsDesc) (word : Str) (line : Nat) (arg : Option Str) (block : List Node) (hb : Bool) (st : St)
    (hs : StOk q st) (hfs : FSOk q ctx.fs) (hF : FRel S ctx.fs) (hC : C ctx) (hblock : allCmdsL q block = true)
    (hdone : ∀ o, blockPre ctx cl word line arg block hb st = .ok (.done o) → S.out o.out = o.out) :
    SimR Esc S (compileBlock c ctx cl word line arg block hb st)
      (compileBlock c (S.ctx ctx) cl word line arg (blockOf S cl block) hb (S.st st)) := by
  unfold compileBlock
  refine SimR.bind (blockPre_sim ok ctx cl word line arg block hb st hdone) ?_
  intro act hact
  have hcodes := (HG.blockPre (q := q) ctx cl word line arg block hb st hs hblock).codes act hact
  by_cases hcn : cl.cname = "Ignore"
  · obtain ⟨o, rfl⟩ := blockPre_ignore_done ctx cl word line arg block hb st hcn act hact
    exact Or.inr rfl
  · have : blockOf S cl block = S.code block := by simp [blockOf, hcn]
    rw [this]
    exact runBlockAct_sim hh hc ctx ⟨line, none⟩ block act hfs hF hC hblock hcodes

end Duckling.S2

namespace Duckling.S2
open Duckling

variable {Esc : ErrInfo → Prop} {S : SimP} {q : Str → Bool → Bool} {C : Ctx → Prop} [CtxInv C]

/-! ### the rewritten code, statement by statement -/

@[simp] theorem tau_nil (prev : Option PreLine) : tau S prev [] = [] := by simp [tau]
@[simp] theorem code_nil : S.code [] = [] := by simp [SimP.code]

theorem tau_line (prev : Option PreLine) (l : PreLine) (rest : List Node) :
    tau S prev (.line l :: rest) = .line (S.lineT l (hasBlockOf (nextBlock rest))) :: tau S (some l) rest := by
  rw [tau]

theorem tau_block (prev : Option PreLine) (b rest : List Node) :
    tau S prev (.block b :: rest) =
      .block (match prev with
              | some l => if codeOf l (!b.isEmpty) then tau S none b else b
              | none => b) :: tau S none rest := by
  conv => lhs; unfold tau

theorem tau_isEmpty (prev : Option PreLine) (nodes : List Node) : (tau S prev nodes).isEmpty = nodes.isEmpty := by
  cases nodes with
  | nil => simp
  | cons n rest => cases n <;> simp [tau_line, tau_block]

/-- the block a command line of the rewritten code owns -/
def blockT (S : SimP) (l : PreLine) (blk : Option (List Node)) : Option (List Node) :=
  blk.map fun b => if codeOf l (!b.isEmpty) then S.code b else b

theorem nextBlock_tau (l : PreLine) (rest : List Node) : nextBlock (tau S (some l) rest) = blockT S l (nextBlock rest) := by
  cases rest with
  | nil => simp [nextBlock, blockT]
  | cons n rest' =>
    cases n with
    | line l' => simp [tau_line, nextBlock, blockT]
    | block b => simp [tau_block, nextBlock, blockT, SimP.code]

theorem hasBlockOf_blockT (l : PreLine) (blk : Option (List Node)) : hasBlockOf (blockT S l blk) = hasBlockOf blk := by
  cases blk with
  | none => rfl
  | some b =>
    simp only [blockT, Option.map_some, hasBlockOf]
    split
    · simp [SimP.code, tau_isEmpty]
    · rfl

theorem blockT_noBlock (l : PreLine) (blk : Option (List Node)) (h : hasBlockOf blk = false) : blockT S l blk = blk := by
  cases blk with
  | none => rfl
  | some b =>
    have hb : b = [] := by
      cases b with
      | nil => rfl
      | cons x xs => simp [hasBlockOf] at h
    subst hb
    simp [blockT]

theorem codeOf_eq (l : PreLine) (hb : Bool) (word : Str) (arg : Option Str) (hsplit : splitWs1 l.content = some (word, arg)) :
    codeOf l hb = match dispatch word hb with
      | some cl => cl.isBlock && cl.cname != "Ignore"
      | none => false := by
  unfold codeOf
  rw [hsplit]

/-- what an instance has to provide: as in the first form, and for every command line either that it is kept, or the
    simulation of that one rewritten line (which then owns no block) -/
structure SimSpec (Esc : ErrInfo → Prop) (S : SimP) (q : Str → Bool → Bool) (C : Ctx → Prop) : Prop where
  ok : SimOk Esc S
  hs : HSpec q PT C
  emit : ∀ (ctx : Ctx) (content word : Str) (arg : Option Str) (block : Option (List Node)) (cl : ClsDesc), C ctx →
      q content (hasBlockOf block) = true → splitWs1 content = some (word, arg) →
      ((dispatch word (hasBlockOf block) = some cl ∧ cl.isBlock = false) ∨
       (dispatch word (hasBlockOf block) = none ∧ cl = Generated.generic)) →
      (hasHook cl "run_compile" && cl.cname == "Run") = false → (hasHook cl "run_compile" && cl.cname == "Start") = false →
      ∀ line, S.lineT ⟨content, line⟩ (hasBlockOf block) = ⟨content, line⟩ →
      ∀ st name items st', simplePre ctx cl word line arg block st = .ok (name, items, st') →
      ∀ a ∈ items, ∀ st2, StOk q st2 →
        ItemSim Esc S cl (runCompileLocal ctx cl name line a st2) (runCompileLocal (S.ctx ctx) cl name line a (S.st st2))
  blockDone : ∀ (ctx : Ctx) (content word : Str) (arg : Option Str) (block : Option (List Node)) (cl : ClsDesc), C ctx →
      q content (hasBlockOf block) = true → splitWs1 content = some (word, arg) → dispatch word (hasBlockOf block) = some cl →
      cl.isBlock = true →
      ∀ line st o, blockPre ctx cl word line arg (block.getD []) (hasBlockOf block) st = .ok (.done o) → S.out o.out = o.out
  line : ∀ (ctx : Ctx) (l : PreLine) (block : Option (List Node)), C ctx → q l.content (hasBlockOf block) = true →
      S.lineT l (hasBlockOf block) = l ∨
      (hasBlockOf block = false ∧ ∀ (c : Option ChildFn) st, StOk q st →
        SimR Esc S (stepCmd c ctx l block st) (stepCmd c (S.ctx ctx) (S.lineT l false) block (S.st st)))

theorem unknown_sim (ok : SimOk Esc S) (ctx : Ctx) (st : St) (w : Warn) (hw : Warn.isNE w = true) :
    (if (S.ctx ctx).opts.suppress then S.st st else addWarn (S.st st) w) = S.st (if ctx.opts.suppress then st else addWarn st w) := by
  have h := ok.unknown ctx.opts st.warns w hw
  simp only [SimP.ctx_opts, addWarn_eq, SimP.st_warns]
  by_cases h1 : (S.g ctx.opts).suppress = true <;> by_cases h2 : ctx.opts.suppress = true <;>
    simp only [h1, h2, if_true, if_false, Bool.false_eq_true] at h ⊢ <;> simp only [SimP.st, h]

theorem stepCmd_sim (T : SimSpec Esc S q C) {c : Option ChildFn} (hh : ChildHG q PT C c) (hc : ChildSim Esc S q C c) (ctx : Ctx)
    (l : PreLine) (block : Option (List Node)) (st : St) (hs : StOk q st) (hfs : FSOk q ctx.fs) (hF : FRel S ctx.fs) (hC : C ctx)
    (hq : q l.content (hasBlockOf block) = true) (hblock : allCmdsL q (block.getD []) = true) :
    SimR Esc S (stepCmd c ctx l block st)
      (stepCmd c (S.ctx ctx) (S.lineT l (hasBlockOf block)) (blockT S l block) (S.st st)) := by
  rcases T.line ctx l block hC hq with hl | ⟨hnb, hstep⟩
  · rw [hl]
    unfold stepCmd
    split
    · exact Or.inr rfl
    · rename_i word arg hsplit
      simp only [hasBlockOf_blockT]
      have hcode := codeOf_eq l (hasBlockOf block) word arg hsplit
      cases hd : dispatch word (hasBlockOf block) with
      | some cl =>
        rw [hd] at hcode
        simp only []
        by_cases hb : cl.isBlock = true
        · simp only [hb, if_true]
          have hbt : (blockT S l block).getD [] = blockOf S cl (block.getD []) := by
            cases block with
            | none => simp [blockT, blockOf]
            | some b =>
              have : codeOf l (!b.isEmpty) = (cl.cname != "Ignore") := by
                have := hcode; simp only [hasBlockOf, hb, Bool.true_and] at this; exact this
              simp only [blockT, Option.map_some, Option.getD_some, blockOf, this]
          rw [hbt]
          exact compileBlock_sim T.ok hh hc ctx cl word l.num arg _ _ st hs hfs hF hC hblock
            (T.blockDone ctx _ _ _ block cl hC hq hsplit hd hb _ _)
        · have hb' : cl.isBlock = false := by simpa using hb
          simp only [hb', Bool.false_eq_true, if_false]
          have hbt : blockT S l block = block := by
            cases block with
            | none => rfl
            | some b =>
              have : codeOf l (!b.isEmpty) = false := by
                have := hcode; simp only [hasBlockOf, hb', Bool.false_and] at this; exact this
              simp [blockT, this]
          rw [hbt]
          refine compileSimple_sim T.ok hh hc ctx cl word l.num arg block st hs hfs hF hC ?_
          intro h1 h2 name items st' hpre
          exact T.emit ctx _ _ _ block cl hC hq hsplit (Or.inl ⟨hd, hb'⟩) h1 h2 l.num hl _ name items st' hpre
      | none =>
        rw [hd] at hcode
        simp only []
        have hbt : blockT S l block = block := by
          cases block with
          | none => rfl
          | some b =>
            have : codeOf l (!b.isEmpty) = false := by simpa [hasBlockOf] using hcode
            simp [blockT, this]
        rw [hbt, unknown_sim T.ok ctx st _ rfl]
        have hst : StOk q (if ctx.opts.suppress = true then st else addWarn st ⟨.notExist l.num, some (ctx.trace ⟨l.num, none⟩)⟩) := by
          split
          · exact hs
          · exact hs.addWarn _
        refine compileSimple_sim T.ok hh hc ctx Generated.generic word l.num arg block _ hst hfs hF hC ?_
        intro h1 h2 name items st' hpre
        exact T.emit ctx _ _ _ block Generated.generic hC hq hsplit (Or.inr ⟨hd, rfl⟩) h1 h2 l.num hl _ name items st' hpre
  · rw [hnb, blockT_noBlock l block hnb]
    exact hstep c st hs

theorem runNodes_sim (T : SimSpec Esc S q C) {c : Option ChildFn} (hh : ChildHG q PT C c) (hc : ChildSim Esc S q C c) (ctx : Ctx)
    (nodes : List Node) (prev : Option PreLine) (st : St) (out : List Str) (hs : StOk q st) (hfs : FSOk q ctx.fs)
    (hF : FRel S ctx.fs) (hC : C ctx) (hnodes : allCmdsL q nodes = true) :
    SimR Esc S (runNodes c ctx nodes st out) (runNodes c (S.ctx ctx) (tau S prev nodes) (S.st st) (S.out out)) := by
  induction nodes generalizing prev st out with
  | nil => simp only [tau_nil]; exact Or.inr rfl
  | cons n rest ih =>
    cases n with
    | block b =>
      simp only [allCmdsL_block, Bool.and_eq_true] at hnodes
      rw [tau_block]
      unfold runNodes
      exact ih none _ _ hs hnodes.2
    | line l =>
      simp only [allCmdsL_line, Bool.and_eq_true] at hnodes
      rw [tau_line]
      unfold runNodes
      rw [nextBlock_tau]
      have hblk := allCmdsL_nextBlock _ hnodes.2
      refine SimR.bind (stepCmd_sim T hh hc ctx l (nextBlock rest) st hs hfs hF hC hnodes.1 hblk) ?_
      intro r hr
      have hrOk : StOk q r.st := (HG.stepCmd T.hs hh ctx l (nextBlock rest) st hs hfs hC hnodes.1 hblk).codes r hr
      simp only [proj_out_sig, proj_out_st, proj_out_out, ← SimP.out_append]
      split
      · exact ih (some l) _ _ hrOk hnodes.2
      · exact Or.inr rfl

theorem exec_childSim (T : SimSpec Esc S q C) (d : Nat) : ChildSim Esc S q C (some (exec d)) := by
  induction d with
  | zero =>
    intro run hr code ctx st hC hcode hs hfs hF; cases hr
    exact runNodes_sim T (c := none) (by intro run h; cases h) (by intro run h; cases h) _ _ none _ _ hs hfs hF hC hcode
  | succ d ih =>
    intro run hr code ctx st hC hcode hs hfs hF; cases hr
    exact runNodes_sim T (exec_childHG T.hs d) ih _ _ none _ _ hs hfs hF hC hcode

/-- the simulation: any depth, any program, any context, any state -/
theorem exec_sim (T : SimSpec Esc S q C) (d : Nat) (nodes : List Node) (ctx : Ctx) (st : St)
    (hnodes : allCmdsL q nodes = true) (hs : StOk q st) (hfs : FSOk q ctx.fs) (hF : FRel S ctx.fs) (hC : C ctx) :
    SimR Esc S (exec d nodes ctx st) (exec d (S.code nodes) (S.ctx ctx) (S.st st)) :=
  exec_childSim T d _ rfl nodes ctx st hC hnodes hs hfs hF

end Duckling.S2

namespace Duckling.S2
open Duckling

theorem defaultEmit_noErr (name : Str) (a : Option Arg) (e : ErrInfo) : defaultEmit name a ≠ .err e := by
  unfold defaultEmit
  repeat' split
  all_goals (intro h; cases h)

/-- the commands that create no stack — PRINT apart — neither read nor change the warning list, the print log (but to attach it to
    an error) or the function table, and read no flag but — REM only — the comments flag -/
theorem runCompileLocal_frame (S : SimP) (ctx : Ctx) (cl : ClsDesc) (name : Str) (line : Nat) (a : Option Arg) (st : St)
    (hcom : hasHook cl "run_compile" = true → cl.cname = "Rem" → (S.g ctx.opts).comments = ctx.opts.comments)
    (hnp : hasHook cl "run_compile" = true → cl.cname ≠ "Print") :
    runCompileLocal (S.ctx ctx) cl name line a (S.st st) =
      map2 (fun rc => { rc with st := S.st rc.st }) S.err (runCompileLocal ctx cl name line a st) := by
  obtain ⟨env, warns, prints⟩ := st
  have hav : ∀ f, ({ sys := env.sys, user := env.user, temp := env.temp, funcs := f } : VEnv).allVars = env.allVars := fun _ => rfl
  by_cases hr : hasHook cl "run_compile" = true ∧ cl.cname = "Rem"
  · obtain ⟨h1, h2⟩ := hr
    have hc := hcom h1 h2
    unfold runCompileLocal
    simp only [h1, h2, SimP.ctx_opts, hc, Bool.not_true, Bool.false_eq_true, if_false]
    split
    · cases hde : defaultEmit name a <;> first | rfl | exact absurd hde (defaultEmit_noErr _ _ _)
    · rfl
  · unfold runCompileLocal
    simp only [SimP.st, SimP.ctx, hav]
    repeat' split
    all_goals first
      | rfl
      | (cases hde : defaultEmit name _ <;> first | rfl | exact absurd hde (defaultEmit_noErr _ _ _))
      | (simp only [evalIn, hav]; generalize tokenize _ _ = o; cases o <;> first | rfl | (simp only [liftO, R.bind_ok]; split <;> rfl))
      | (simp only [*, if_true, if_false]
         first | rfl | (cases hde : defaultEmit name _ <;> first | rfl | exact absurd hde (defaultEmit_noErr _ _ _)))
      | (exfalso; simp_all <;> done)

end Duckling.S2
