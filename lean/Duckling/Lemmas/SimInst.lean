import Duckling.Lemmas.Sim
import Duckling.Lemmas.OptsOut
import Duckling.Lemmas.ParseNoBlank
/-
  Instances of the simulation walk (Lemmas/Sim): what one option changes, for whole programs.
    * suppress-unknown-command warnings on  =  the same run with the unknown-command warnings filtered out, nothing else changed;
    * Flipper commands on  =  the same result as with them off, unless that run ends in InvalidCommand;
    * comments off  =  the same run with the REM lines filtered out of the output, nothing else changed (programs without IGNORE).
-/
namespace Duckling
open Duckling.Spec Duckling.Legal

def NoEsc : ErrInfo → Prop := fun _ => False

theorem SimR.noEsc {S : SimP} {α : Type} [Proj α] {x1 x2 : R α} (h : SimR NoEsc S x1 x2) : x2 = R.mapOk (Proj.proj S) x1 := by
  rcases h with ⟨_, _, he⟩ | h
  · exact he.elim
  · exact h

/-- one `run_compile` call of a class that creates no stack, when the projection leaves its lines alone -/
theorem local_sim_of (S : SimP) (ctx : Ctx) (cl : ClsDesc) (name : Str) (line : Nat) (a : Option Arg) (st : St)
    (hcom : hasHook cl "run_compile" = true → cl.cname = "Rem" → (S.g ctx.opts).comments = ctx.opts.comments)
    (hout : ∀ rc, runCompileLocal ctx cl name line a st = .ok rc → S.out rc.out = rc.out) :
    runCompileLocal (S.ctx ctx) cl name line a (S.st st) = R.mapOk (Proj.proj S) (runCompileLocal ctx cl name line a st) := by
  have h := runCompileLocal_warns S.W ctx (S.g ctx.opts) cl name line a st hcom
  change runCompileLocal (S.ctx ctx) cl name line a (S.st st) = _ at h
  rw [h]
  cases hx : runCompileLocal ctx cl name line a st with
  | ok rc =>
    simp only [R.mapOk_ok]
    have := hout rc hx
    simp only [Proj.proj, this]
    rfl
  | err e => rfl
  | crash e => rfl
  | oom w => rfl

/-! ### unknown-command warnings suppressed -/

def notNE (w : Warn) : Bool := !Warn.isNE w

def simSuppress : SimP := ⟨fun o => { o with suppress := true }, fun ws => ws.filter notNE, fun _ => true⟩

theorem simSuppress_out (o : List Str) : simSuppress.out o = o := by simp [SimP.out, simSuppress]

theorem simOk_suppress : SimOk NoEsc simSuppress where
  wcontains := by
    intro ws w hw
    have hn : notNE w = true := by simp [notNE, hw]
    rw [Bool.eq_iff_iff]
    simp only [simSuppress, List.contains_iff_mem, List.mem_filter, hn, and_true]
  wappend := by
    intro ws w hw
    have hn : notNE w = true := by simp [notNE, hw]
    simp [simSuppress, List.filter_append, hn]
  unknown := by
    intro o ws w hw
    have hn : notNE w = false := by simp [notNE, hw]
    simp only [simSuppress, if_true, addWarnL]
    split
    · rfl
    · split
      · rfl
      · simp [List.filter_append, hn]
  flip := fun _ => Or.inl rfl

theorem simSpec_suppress : SimSpec NoEsc simSuppress nbq (fun _ => True) where
  ok := simOk_suppress
  hs := hspec_nonBlank
  emit := by
    intro ctx content word arg block cl _ _ _ _ _ _ line st name items st' _ a _ st2 _
    exact Or.inl (SimR.eq (local_sim_of simSuppress ctx cl name line a st2 (fun _ _ => rfl) (fun _ _ => simSuppress_out _)))
  blockDone := by intros; exact simSuppress_out _

/-! ### Flipper commands switched on -/

def EscInvalid : ErrInfo → Prop := fun e => e.k = .invalidCommand

def simFlipper : SimP := ⟨fun o => { o with flipper := true }, fun ws => ws, fun _ => true⟩

theorem simFlipper_out (o : List Str) : simFlipper.out o = o := by simp [SimP.out, simFlipper]

theorem simOk_flipper : SimOk EscInvalid simFlipper where
  wcontains := fun _ _ _ => rfl
  wappend := fun _ _ _ => rfl
  unknown := fun _ _ _ _ => rfl
  flip := fun _ => Or.inr ⟨rfl, fun _ h => h⟩

theorem simSpec_flipper : SimSpec EscInvalid simFlipper nbq (fun _ => True) where
  ok := simOk_flipper
  hs := hspec_nonBlank
  emit := by
    intro ctx content word arg block cl _ _ _ _ _ _ line st name items st' _ a _ st2 _
    exact Or.inl (SimR.eq (local_sim_of simFlipper ctx cl name line a st2 (fun _ _ => rfl) (fun _ _ => simFlipper_out _)))
  blockDone := by intros; exact simFlipper_out _

end Duckling

namespace Duckling
open Duckling.Spec Duckling.Legal

/-! ### comments switched off -/

def simComments : SimP := ⟨fun o => { o with comments := false }, fun ws => ws, notRem⟩

theorem simOk_comments : SimOk NoEsc simComments where
  wcontains := fun _ _ _ => rfl
  wappend := fun _ _ _ => rfl
  unknown := fun _ _ _ _ => rfl
  flip := fun _ => Or.inl rfl

theorem simComments_keep (ls : List Str) (h : ∀ l ∈ ls, notRem l = true) : simComments.out ls = ls :=
  List.filter_eq_self.mpr h

/-- table facts about the REM class, re-checked on the regenerated palette -/
def remTableOk : Bool := Generated.palette.all fun c =>
  c.cname != "Rem" || (c.names == ["REM"] && c.argType == .str && !c.hooks.contains "format_arg" && !c.isBlock)

theorem remTable_facts : remTableOk = true := by decide

theorem rem_normalCls (cl : ClsDesc) (hh : hasHook cl "run_compile" = true) (hc : cl.cname = "Rem") : NormalCls cl := by
  refine ⟨by simp [hc], by simp [hc], ?_⟩
  intro ctx name line a st rc h
  unfold runCompileLocal at h
  simp only [hh, Bool.not_true, Bool.false_eq_true, if_false, hc] at h
  split at h
  · obtain ⟨ls, _, h2⟩ := (R.bind_eq_ok _ _ _).mp h
    cases h2; exact Or.inr rfl
  · cases h; exact Or.inl rfl

/-- a line beginning with the word REM is filtered out -/
theorem rem_line_dropped (nm rest : Str) (hsp : ' ' ∉ upper nm) (hn : String.ofList (upper nm) = "REM") :
    simComments.out [upper nm] = [] ∧ simComments.out [upper nm ++ [' '] ++ rest] = [] := by
  have h := firstWord_word (upper nm) rest hsp
  have h2 := h.2
  simp only [List.append_assoc, List.singleton_append] at h2
  constructor
  · simp [SimP.out, simComments, notRem, h.1, hn]
  · simp [SimP.out, simComments, notRem, h2, hn]

theorem simSpec_comments : SimSpec NoEsc simComments niq (fun _ => True) where
  ok := simOk_comments
  hs := ⟨hspec_legal.nonblank, by intros; trivial, by intros; trivial⟩
  blockDone := by
    intro ctx content word arg block cl _ hq hsplit hd hblk line st o hpre
    apply simComments_keep
    intro l hl
    rcases blockPre_done_out _ _ _ _ _ _ _ _ _ hpre with h | h | ⟨ce, h⟩
    · rw [h] at hl; cases hl
    · exfalso
      have hu := dispatch_ignore word _ cl hd h
      simp only [niq] at hq
      unfold noIgnoreLine at hq
      rw [hsplit] at hq
      simp [hu] at hq
    · rw [h] at hl; simp only [List.mem_singleton] at hl; subst hl
      have e : "REPEAT ".toList ++ ce = "REPEAT".toList ++ [' '] ++ ce := by simp
      have fw := (firstWord_word "REPEAT".toList ce (by decide)).2
      rw [← e] at fw
      simp only [notRem, fw]; decide
  emit := by
    intro ctx content word arg block cl _ hq hsplit hd hnr hns line st name items st' hpre a ha st2 _
    obtain ⟨hnm, _, _, _, args, _, hitems, _, _, hargs⟩ := simplePre_spec ctx cl word line arg block st name items st' hpre
    subst hnm
    obtain ⟨hsp, hw⟩ := emitted_word content word arg block cl hsplit hd
    by_cases hrem : hasHook cl "run_compile" = true ∧ cl.cname = "Rem"
    · -- the REM class
      obtain ⟨hh, hc⟩ := hrem
      have hboth : cl ∈ Generated.palette ∧ String.ofList (upper (nameOf word)) ∈ cl.names := by
        rcases hd with ⟨hd1, hb⟩ | ⟨_, hg⟩
        · exact ⟨List.mem_of_find?_eq_some hd1, dispatch_name word _ cl hd1 hb⟩
        · subst hg; simp [hasHook, Generated.generic] at hh
      obtain ⟨hmem, hin⟩ := hboth
      have hname : String.ofList (upper (nameOf word)) = "REM" := by
        have hf := List.all_eq_true.mp remTable_facts cl hmem
        simp only [hc, bne_self_eq_false, Bool.false_or, Bool.and_eq_true, beq_iff_eq] at hf
        rw [hf.1.1.1] at hin; simpa using hin
      by_cases hcm : ctx.opts.comments = true
      · right
        refine ⟨rem_normalCls cl hh hc, ?_⟩
        have hf := List.all_eq_true.mp remTable_facts cl hmem
        simp only [hc, bne_self_eq_false, Bool.false_or, Bool.and_eq_true, beq_iff_eq, Bool.not_eq_true'] at hf
        -- what the argument looks like
        have hshape : a = none ∨ ∃ a1 s, a = some a1 ∧ a1.content = .str s := by
          rw [hitems] at ha
          unfold itemsOf at ha
          split at ha
          · simp only [List.mem_singleton] at ha; exact Or.inl ha
          · simp only [List.mem_map] at ha
            obtain ⟨a', ha', rfl⟩ := ha
            have hty := (hargs a' ha').1
            rw [hf.1.1.2] at hty
            have hfa : formatArg cl a' = a' := by
              unfold formatArg
              have : hasHook cl "format_arg" = false := hf.1.2
              simp [this]
            rw [hfa]
            cases hct : a'.content with
            | str s => exact Or.inr ⟨a', s, rfl, hct⟩
            | _ => simp [typeOk, hct] at hty
        have hbase : ∀ ls, defaultEmit (nameOf word) a = .ok ls →
            runCompileLocal ctx cl (nameOf word) line a st2 = .ok { st := st2, out := ls, sig := some .normal } := by
          intro ls hls
          unfold runCompileLocal
          simp only [hh, Bool.not_true, Bool.false_eq_true, if_false, hc, hcm, if_true, hls, R.bind_ok]
        have hproj : runCompileLocal (simComments.ctx ctx) cl (nameOf word) line a (simComments.st st2) = .ok { st := simComments.st st2 } := by
          unfold runCompileLocal
          simp only [hh, Bool.not_true, Bool.false_eq_true, if_false, hc, SimP.ctx_opts, simComments]
        rcases hshape with rfl | ⟨a1, s, rfl, hs⟩
        · refine ⟨_, hbase [upper (nameOf word)] (by simp [defaultEmit]), rfl, ?_⟩
          rw [hproj]
          simp only [Proj.proj, (rem_line_dropped (nameOf word) [] hsp hname).1]
        · refine ⟨_, hbase [upper (nameOf word) ++ [' '] ++ s] (by simp [defaultEmit, hs]), rfl, ?_⟩
          rw [hproj]
          simp only [Proj.proj, (rem_line_dropped (nameOf word) s hsp hname).2]
      · left
        have hoff : ctx.opts.comments = false := by simpa using hcm
        refine SimR.eq (local_sim_of simComments ctx cl _ line a st2 (fun _ _ => by simp [simComments, hoff]) ?_)
        intro rc hrc
        rw [rem_off_out ctx cl _ line a st2 rc hc hh hoff hrc]; rfl
    · left
      refine SimR.eq (local_sim_of simComments ctx cl _ line a st2 (fun h1 h2 => absurd ⟨h1, h2⟩ hrem) ?_)
      intro rc hrc
      apply simComments_keep
      intro l hl
      rcases out_first_word ctx cl _ line a st2 rc hsp hrc l hl with h | h | h
      · rw [h]; decide
      · rw [h]; decide
      · simp only [notRem, h, bne_iff_ne, ne_eq]
        intro hremw
        rcases hw with ⟨hmem, hb, hname⟩ | hnone
        · have hf := List.all_eq_true.mp optsTable_facts cl hmem
          simp only [hb, Bool.false_or, Bool.and_eq_true, Bool.or_eq_true, Bool.not_eq_true', beq_iff_eq, List.contains_iff_mem] at hf
          rw [hremw] at hname
          rcases hf.1 with hf1 | hf1
          · have : "REM" ∉ cl.names := by simpa using hf1
            exact this hname
          · exact hrem ⟨by simp [hasHook, hf1.2], hf1.1⟩
        · have : ∃ c ∈ Generated.palette, c.isBlock = false ∧ "REM" ∈ c.names := by decide
          obtain ⟨c, hc, hb, hn⟩ := this
          exact hnone c hc hb (hremw ▸ hn)

end Duckling

namespace Duckling

/-- a compilation result with its warnings and output lines mapped -/
def Result.mapWO (fw : List Warn → List Warn) (fo : List Str → List Str) : Result → Result
  | .ok out warns prints vars => .ok (fo out) (fw warns) prints vars
  | r => r

/-- the simulation for `Compiler.compile`: the compilation under the projected options either is excused by an escape of the
    base compilation, or is the base result with warnings and output projected -/
theorem compile_sim {Esc : ErrInfo → Prop} {S : SimP} {q : Str → Bool → Bool} (T : SimSpec Esc S q (fun _ => True))
    (hW : S.W [] = []) (opts opts' : Opts) (hflags : opts'.flags = S.g opts.flags) (hlim : opts'.stackLimit = opts.stackLimit)
    (fs : FS) (file : Option Path) (src : Source)
    (hsrc : ∀ nodes, prepare src = .ok nodes → allCmdsL q nodes = true) (hfs : FSOk q fs) :
    (∃ e, compile opts fs file src = .err e ∧ Esc e) ∨
      compile opts' fs file src = (compile opts fs file src).mapWO S.W S.out := by
  unfold compile
  cases hp : prepare src with
  | error e => cases e <;> exact Or.inr rfl
  | ok nodes =>
    simp only [hlim, hflags]
    have hsim := exec_sim T (opts.stackLimit - 1) nodes { opts := opts.flags, fs := fs, frames := [], file := file }
      { env := initEnv } (hsrc nodes hp) (by intro c hc; unfold initEnv at hc; split at hc <;> simp [St.codes] at hc) hfs trivial
    have hst : S.st { env := initEnv } = { env := initEnv } := by simp [SimP.st, hW]
    rw [hst] at hsim
    change SimR Esc S _ (exec (opts.stackLimit - 1) nodes { opts := S.g opts.flags, fs := fs, frames := [], file := file } _) at hsim
    rcases hsim with ⟨e, he, hesc⟩ | h
    · left; exact ⟨e, by rw [he], hesc⟩
    · right
      rw [h]
      cases exec (opts.stackLimit - 1) nodes { opts := opts.flags, fs := fs, frames := [], file := file } { env := initEnv } with
      | ok r =>
        simp only [R.mapOk_ok, Result.mapWO, proj_out_st, proj_out_sig, proj_out_out]
        rw [startBaseWarn_sim T.ok]
        rfl
      | err e => rfl
      | crash e => rfl
      | oom w => rfl

/-- text always parses to non-blank command lines -/
theorem prepare_text_nbq (t : Str) (nodes : List Node) (h : prepare (.text t) = .ok nodes) : allCmdsL nbq nodes = true := by
  rw [show allCmdsL nbq nodes = allLinesL nonBlank nodes from allCmdsL_text nonBlank nodes]
  exact parseLines_noBlank _ nodes h

end Duckling
