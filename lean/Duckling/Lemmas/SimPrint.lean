import Duckling.Lemmas.Sim2
import Duckling.Lemmas.SimInst
/-
  PRINT is invisible (C18), as an instance of the simulation walk (second form): rewrite EVERY plain PRINT line (`PRINT text`, not
  `$`-evaluated, owning no block) of the program, of every function body and of every file on disk into `PASS` — the projected run
  produces the same output, warnings, variables, signal, the same error with the same trace, and an empty print log.
-/
namespace Duckling
open Duckling.S2

/-- a PRINT line that only logs its own text -/
def isPlainPrint (l : PreLine) (hb : Bool) : Bool :=
  !hb && match splitWs1 l.content with
    | some (w, _) => upper w == "PRINT".toList
    | none => false

def passLine (l : PreLine) : PreLine := { l with content := "PASS".toList }

def simPrint (F : FS → FS) : S2.SimP :=
  ⟨fun o => o, fun ws => ws, fun _ => true, fun _ => [], fun l hb => if isPlainPrint l hb then passLine l else l, F⟩

/-- the line invariant: non-blank, and no print other than a plain one (`$PRINT expr` may fail to evaluate; a PRINT that owns a
    group prints several texts) -/
def printOk (s : Str) (hb : Bool) : Bool :=
  match splitWs1 s with
  | none => false
  | some (word, _) => upper word != "$PRINT".toList && !(upper word == "PRINT".toList && hb)

def printRow : ClsDesc := (Generated.palette.find? (fun c => c.cname == "Print")).getD Generated.generic
def passRow : ClsDesc := (Generated.palette.find? (fun c => c.cname == "Pass")).getD Generated.generic

/-- table facts, re-checked on the regenerated palette: PRINT and PASS are the names of the Print and Pass classes only, which are
    plain string commands whose only hook is `run_compile` -/
def printTableOk : Bool :=
  (Generated.palette.all fun c =>
    (!c.names.contains "PRINT" || c.cname == "Print") && (c.cname != "Print" || c.names == ["PRINT"])) &&
  printRow.cname == "Print" && !printRow.isBlock && !printRow.flipperOnly && printRow.strip && !printRow.tokenize &&
  printRow.argType == .str && printRow.argReq == .allowed && printRow.hooks == ["run_compile"] &&
  passRow.cname == "Pass" && !passRow.isBlock && !passRow.flipperOnly && !passRow.tokenize &&
  passRow.argReq == .notAllowed && passRow.hooks == ["run_compile"]

theorem printTable_facts : printTableOk = true := by decide

theorem simPrint_out (F : FS → FS) (o : List Str) : (simPrint F).out o = o := by simp [S2.SimP.out, simPrint]

theorem simOk_print (F : FS → FS) : S2.SimOk NoEsc (simPrint F) where
  wcontains := fun _ _ _ => rfl
  wappend := fun _ _ _ => rfl
  unknown := fun _ _ _ _ => rfl
  flip := fun _ => Or.inl rfl

/-- the word PRINT, however it is cased, is dispatched to the Print class -/
theorem dispatch_print (word : Str) (hw : upper word = "PRINT".toList) : dispatch word false = some printRow := by
  unfold dispatch
  have h : ∀ c, isThisCommand c word false =
      (if c.isBlock then
        (if (startsWith ['$'] word && c.names.contains "RINT") || (c.blockRequired && true) then false else c.names.contains "PRINT")
       else c.names.contains "PRINT") := by
    intro c
    unfold isThisCommand
    rw [hw]
    rfl
  simp only [h]
  cases startsWith ['$'] word <;> decide

theorem dispatch_pass : dispatch "PASS".toList false = some passRow := by decide

theorem splitWs1_pass : splitWs1 "PASS".toList = some ("PASS".toList, none) := by decide

theorem noBlock_cases (block : Option (List Node)) (h : hasBlockOf block = false) : block = none ∨ block = some [] := by
  cases block with
  | none => exact Or.inl rfl
  | some b =>
    cases b with
    | nil => exact Or.inr rfl
    | cons x xs => simp [hasBlockOf] at h

/-- a plain PRINT line: nothing but the log changes -/
theorem print_line (c : Option ChildFn) (ctx : Ctx) (word : Str) (num : Nat) (arg : Option Str) (block : Option (List Node)) (st : St)
    (hw : upper word = "PRINT".toList) (hb : hasBlockOf block = false) :
    ∃ ps, compileSimple c ctx printRow word num arg block st =
      .ok { st := { st with prints := st.prints ++ ps }, out := [], sig := .normal } := by
  have hf := printTable_facts
  simp only [printTableOk, Bool.and_eq_true, Bool.not_eq_true', beq_iff_eq] at hf
  obtain ⟨⟨⟨⟨⟨⟨⟨⟨⟨⟨⟨⟨⟨⟨_, h1⟩, h2⟩, h3⟩, h4⟩, h5⟩, h6⟩, h7⟩, h8⟩, _⟩, _⟩, _⟩, _⟩, _⟩, _⟩ := hf
  have hd : startsWith ['$'] (upper word) = false := by rw [hw]; decide
  have hh : hasHook printRow "run_compile" = true := by simp [hasHook, h8]
  have hva : hasHook printRow "verify_args" = false := by simp [hasHook, h8]
  have hv : hasHook printRow "verify_arg" = false := by simp [hasHook, h8]
  have hfa : hasHook printRow "format_arg" = false := by simp [hasHook, h8]
  rcases noBlock_cases block hb with rfl | rfl
  all_goals
    cases arg with
    | none =>
      refine ⟨[], ?_⟩
      simp [compileSimple, simplePre, prepareArgs, checkArgs, itemsOf, nameOf, h1, h2, h3, h4, h5, h6, h7, hd, listifyArgs, listifyArgs.go,
        verifyTypes, verifyArgsHook, hva, verifyEach, multiComp, runCompile, hh, runCompileLocal]
    | some a =>
      by_cases ha : a.isEmpty = true
      · refine ⟨[], ?_⟩
        simp [compileSimple, simplePre, prepareArgs, checkArgs, itemsOf, nameOf, h1, h2, h3, h4, h5, h6, h7, hd, listifyArgs, listifyArgs.go, ha,
          verifyTypes, verifyArgsHook, hva, verifyEach, multiComp, runCompile, hh, runCompileLocal]
      · have ha' : a.isEmpty = false := by simpa using ha
        refine ⟨[⟨strip a, num, ctx.file⟩], ?_⟩
        simp [compileSimple, simplePre, prepareArgs, checkArgs, itemsOf, nameOf, h1, h2, h3, h4, h5, h6, h7, hd, listifyArgs, listifyArgs.go, ha',
          Arg.str, verifyTypes, typeOk, isListVal, verifyArgsHook, hva, verifyEach, verifyArgHook, hv, formatArg, hfa, multiComp, runCompile, hh,
          runCompileLocal]

/-- a PASS line does nothing -/
theorem pass_line (c : Option ChildFn) (ctx : Ctx) (num : Nat) (block : Option (List Node)) (st : St) (hb : hasBlockOf block = false) :
    compileSimple c ctx passRow "PASS".toList num none block st = .ok { st := st, out := [], sig := .normal } := by
  have hf := printTable_facts
  simp only [printTableOk, Bool.and_eq_true, Bool.not_eq_true', beq_iff_eq] at hf
  obtain ⟨⟨⟨⟨⟨⟨⟨⟨⟨⟨⟨⟨⟨⟨_, _⟩, _⟩, _⟩, _⟩, _⟩, _⟩, _⟩, _⟩, h1⟩, h2⟩, h3⟩, h4⟩, h5⟩, h6⟩ := hf
  have hh : hasHook passRow "run_compile" = true := by simp [hasHook, h6]
  have hva : hasHook passRow "verify_args" = false := by simp [hasHook, h6]
  have hd : startsWith ['$'] (upper ['P', 'A', 'S', 'S']) = false := by decide
  rcases noBlock_cases block hb with rfl | rfl
  all_goals
    cases hs : passRow.strip <;>
    simp [compileSimple, simplePre, prepareArgs, checkArgs, itemsOf, nameOf, h1, h2, h3, h4, h5, hd, hs, listifyArgs, listifyArgs.go,
      verifyTypes, verifyArgsHook, hva, verifyEach, multiComp, runCompile, hh, runCompileLocal]

end Duckling

namespace Duckling
open Duckling.S2

theorem printOk_split (s : Str) (hb : Bool) (h : printOk s hb = true) :
    ∃ word arg, splitWs1 s = some (word, arg) ∧ upper word ≠ "$PRINT".toList ∧ (upper word = "PRINT".toList → hb = false) := by
  unfold printOk at h
  split at h
  · cases h
  · rename_i word arg heq
    refine ⟨word, arg, heq, ?_, ?_⟩
    · intro hw; simp [hw] at h
    · intro hw; simpa [hw] using h

/-- a kept line under the invariant is not dispatched to the Print class -/
theorem kept_not_print (F : FS → FS) (content word : Str) (arg : Option Str) (line : Nat) (hb : Bool) (cl : ClsDesc)
    (hq : printOk content hb = true) (hsplit : splitWs1 content = some (word, arg))
    (hkeep : (simPrint F).lineT ⟨content, line⟩ hb = ⟨content, line⟩)
    (hmem : cl ∈ Generated.palette) (hname : String.ofList (upper (nameOf word)) ∈ cl.names) : cl.cname ≠ "Print" := by
  intro hc
  obtain ⟨w', a', hs', hnd, hp⟩ := printOk_split content hb hq
  rw [hsplit] at hs'
  cases hs'
  have hf := printTable_facts
  simp only [printTableOk, Bool.and_eq_true] at hf
  have hrow := List.all_eq_true.mp hf.1.1.1.1.1.1.1.1.1.1.1.1.1.1 cl hmem
  simp only [hc, Bool.and_eq_true, Bool.or_eq_true, bne_self_eq_false, Bool.false_eq_true, false_or, beq_iff_eq] at hrow
  rw [hrow.2] at hname
  have hn : upper (nameOf word) = "PRINT".toList := by
    have : String.ofList (upper (nameOf word)) = "PRINT" := by simpa using hname
    have := congrArg String.toList this
    simpa using this
  unfold nameOf at hn
  split at hn
  · rename_i hdol
    rw [upper_drop] at hn
    apply hnd
    cases hu : upper word with
    | nil => simp [hu, startsWith] at hdol
    | cons ch rest =>
      rw [hu] at hn hdol
      have hch : ch = '$' := by have := hdol; simp [startsWith] at this; exact this.symm
      simp only [List.drop_succ_cons, List.drop_zero] at hn
      rw [hch, hn]; rfl
  · have hbf := hp hn
    subst hbf
    have hpp : isPlainPrint ⟨content, line⟩ false = true := by
      simp [isPlainPrint, hsplit, hn]
    simp only [simPrint, hpp, if_true, passLine, PreLine.mk.injEq, and_true] at hkeep
    rw [← hkeep] at hsplit
    rw [splitWs1_pass] at hsplit
    cases hsplit
    revert hn; decide

theorem simSpec_print (F : FS → FS) : S2.SimSpec NoEsc (simPrint F) printOk (fun _ => True) where
  ok := simOk_print F
  hs := ⟨fun s hb h => by obtain ⟨w, a, hs, _⟩ := printOk_split s hb h; rw [hs]; simp, by intros; trivial, by intros; trivial⟩
  blockDone := by intros; exact simPrint_out F _
  emit := by
    intro ctx content word arg block cl _ hq hsplit hd _ _ line hkeep st name items st' hpre a _ st2 _
    left
    have hnp : hasHook cl "run_compile" = true → cl.cname ≠ "Print" := by
      intro _
      rcases hd with ⟨hd1, hb⟩ | ⟨_, hg⟩
      · exact kept_not_print F content word arg line _ cl hq hsplit hkeep (List.mem_of_find?_eq_some hd1) (dispatch_name word _ cl hd1 hb)
      · subst hg; decide
    have h := runCompileLocal_frame (simPrint F) ctx cl name line a st2 (fun _ _ => rfl) hnp
    refine S2.SimR.eq ?_
    rw [h]
    cases runCompileLocal ctx cl name line a st2 with
    | ok rc => simp only [S2.map2_ok, S2.Proj.proj, simPrint_out]
    | err e => rfl
    | crash e => rfl
    | oom w => rfl
  line := by
    intro ctx l block _ hq
    by_cases hpp : isPlainPrint l (hasBlockOf block) = true
    · right
      have hnb : hasBlockOf block = false := by
        unfold isPlainPrint at hpp
        simp only [Bool.and_eq_true, Bool.not_eq_true'] at hpp
        exact hpp.1
      refine ⟨hnb, ?_⟩
      intro c st _
      have hpp' : isPlainPrint l false = true := by rw [← hnb]; exact hpp
      have hlt : (simPrint F).lineT l false = passLine l := by simp [simPrint, hpp']
      rw [hlt]
      -- the base line
      obtain ⟨word, arg, hsplit, hw⟩ : ∃ word arg, splitWs1 l.content = some (word, arg) ∧ upper word = "PRINT".toList := by
        unfold isPlainPrint at hpp'
        simp only [Bool.not_false, Bool.true_and] at hpp'
        split at hpp'
        · rename_i w a heq; exact ⟨w, a, heq, by simpa using hpp'⟩
        · cases hpp'
      have hfacts := printTable_facts
      simp only [printTableOk, Bool.and_eq_true, Bool.not_eq_true', beq_iff_eq] at hfacts
      have hpb : printRow.isBlock = false := hfacts.1.1.1.1.1.1.1.1.1.1.1.1.2
      have hqb : passRow.isBlock = false := hfacts.1.1.1.1.2
      obtain ⟨ps, hbase⟩ := print_line c ctx word l.num arg block st hw hnb
      have hb1 : stepCmd c ctx l block st = .ok { st := { st with prints := st.prints ++ ps }, out := [], sig := .normal } := by
        unfold stepCmd
        simp only [hsplit, hnb, dispatch_print word hw, hpb, Bool.false_eq_true, if_false]
        exact hbase
      have hb2 : stepCmd c ((simPrint F).ctx ctx) (passLine l) block ((simPrint F).st st) =
          .ok { st := (simPrint F).st st, out := [], sig := .normal } := by
        unfold stepCmd
        simp only [passLine, splitWs1_pass, hnb, dispatch_pass, hqb, Bool.false_eq_true, if_false]
        exact pass_line c _ l.num block _ hnb
      rw [hb1, hb2]
      exact Or.inr rfl
    · left
      simp [simPrint, hpp]

/-- a compilation result without its print log -/
def Result.dropPrints : Result → Result
  | .ok out warns _ vars => .ok out warns [] vars
  | .err e => .err { e with prints := e.prints.map fun _ => [] }
  | r => r

/-- **PRINT is invisible**: compiling the program with every plain PRINT line rewritten to PASS — in the program, and in the files
    on disk — gives exactly the result of compiling the original, minus the print log -/
theorem compile_print_invisible (F : FS → FS) (opts : Opts) (fs : FS) (file : Option Path) (src src' : Source) (nodes : List Node)
    (hsrc : prepare src = .ok nodes) (hsrc' : prepare src' = .ok ((simPrint F).code nodes))
    (hq : allCmdsL printOk nodes = true) (hfs : FSOk printOk fs) (hF : S2.FRel (simPrint F) fs) :
    compile opts (F fs) file src' = (compile opts fs file src).dropPrints := by
  unfold compile
  rw [hsrc, hsrc']
  simp only []
  have hsim := S2.exec_sim (simSpec_print F) (opts.stackLimit - 1) nodes { opts := opts.flags, fs := fs, frames := [], file := file }
    { env := initEnv } hq (by intro c hc; unfold initEnv at hc; split at hc <;> simp [St.codes] at hc) hfs hF trivial
  have hst : (simPrint F).st { env := initEnv } = { env := initEnv } := by
    unfold initEnv; split <;> rfl
  rw [hst] at hsim
  change S2.SimR NoEsc (simPrint F) _ (exec (opts.stackLimit - 1) ((simPrint F).code nodes) { opts := opts.flags, fs := F fs, frames := [], file := file } _) at hsim
  rcases hsim with ⟨_, _, he⟩ | h
  · exact he.elim
  · rw [h]
    cases exec (opts.stackLimit - 1) nodes { opts := opts.flags, fs := fs, frames := [], file := file } { env := initEnv } with
    | ok r =>
      simp only [S2.map2_ok, Result.dropPrints, S2.proj_out_st, S2.proj_out_sig, S2.proj_out_out, simPrint_out]
      rw [S2.startBaseWarn_sim (simOk_print F)]
      rfl
    | err e => rfl
    | crash e => rfl
    | oom w => rfl

end Duckling
