import Duckling.Model.Compile
import Duckling.Lemmas.RBasic
/-
  What the simple-command pipeline does for one inline argument (or none) of a command that is not
  evaluated — the shape every plain Ducky line has.
-/
namespace Duckling

/-- a class whose pipeline is the plain one: no evaluation, string arguments, default `run_compile`,
    no `verify_args` hook -/
structure PlainCls (ctx : Ctx) (c : ClsDesc) : Prop where
  notBlock : c.isBlock = false
  flipperOk : (c.flipperOnly && !ctx.opts.flipper) = false
  notStart : (c.cname == "Start") = false
  notTok : c.tokenize = false
  strTy : c.argType = .str
  noRun : hasHook c "run_compile" = false
  noVerifyArgs : hasHook c "verify_args" = false

theorem plain_bare (child : Option ChildFn) (ctx : Ctx) (c : ClsDesc) (hp : PlainCls ctx c) (word : Str) (line : Nat) (st : St)
    (hd : startsWith ['$'] (upper word) = false) (hreq : c.argReq ≠ .required) :
    compileSimple child ctx c word line none none st = .ok { st := st, out := [upper word], sig := .normal } := by
  obtain ⟨h1, h2, h3, h4, h5, h6, h7⟩ := hp
  have hr : (c.argReq == ArgReq.required) = false := by simpa using hreq
  simp [compileSimple, simplePre, prepareArgs, checkArgs, itemsOf, nameOf, h2, h3, h4, h5, hd, listifyArgs, verifyTypes, verifyArgsHook, h7, verifyEach,
    multiComp, runCompile, h6, runCompileLocal, defaultEmit, hr]

theorem formatArg_str (c : ClsDesc) (s : Str) (l o : Nat) :
    (formatArg c ⟨.str s, l, o⟩).content = .str (formatArg c ⟨.str s, l, o⟩).str := by
  unfold formatArg
  split
  · rfl
  · split
    · split <;> rfl
    · rfl
    · rfl
    · rfl

/-- one inline argument: emitted as `UPPER(word) content` where content is the argument, stripped when
    the class strips, and then reformatted by `format_arg` -/
theorem plain_inline (child : Option ChildFn) (ctx : Ctx) (c : ClsDesc) (hp : PlainCls ctx c) (word a : Str) (line : Nat) (st : St)
    (hd : startsWith ['$'] (upper word) = false) (ha : a.isEmpty = false) (hallow : c.argReq ≠ .notAllowed)
    (hverify : verifyArgHook c ⟨.str (if c.strip then strip a else a), line, line⟩ = true) :
    compileSimple child ctx c word line (some a) none st =
      .ok { st := st, out := [upper word ++ [' '] ++ (formatArg c ⟨.str (if c.strip then strip a else a), line, line⟩).str], sig := .normal } := by
  obtain ⟨h1, h2, h3, h4, h5, h6, h7⟩ := hp
  have hr : (c.argReq == ArgReq.notAllowed) = false := by simpa using hallow
  cases hs : c.strip
  · simp only [hs, Bool.false_eq_true, if_false] at hverify
    have hf := formatArg_str c a line line
    generalize hfa : formatArg c ⟨.str a, line, line⟩ = fa at hf ⊢
    obtain ⟨fc, fl, fo⟩ := fa
    simp only [Arg.str] at hf
    cases fc <;> simp at hf
    simp [compileSimple, simplePre, prepareArgs, checkArgs, itemsOf, nameOf, h2, h3, h4, h5, hd, listifyArgs, listifyArgs.go, ha, hs, Arg.str, verifyTypes, typeOk,
      isListVal, verifyArgsHook, h7, verifyEach, hverify, multiComp, runCompile, h6, runCompileLocal, defaultEmit, hr, hfa]
  · simp only [hs, if_true] at hverify
    have hf := formatArg_str c (strip a) line line
    generalize hfa : formatArg c ⟨.str (strip a), line, line⟩ = fa at hf ⊢
    obtain ⟨fc, fl, fo⟩ := fa
    simp only [Arg.str] at hf
    cases fc <;> simp at hf
    simp [compileSimple, simplePre, prepareArgs, checkArgs, itemsOf, nameOf, h2, h3, h4, h5, hd, listifyArgs, listifyArgs.go, ha, hs, Arg.str, verifyTypes, typeOk,
      isListVal, verifyArgsHook, h7, verifyEach, hverify, multiComp, runCompile, h6, runCompileLocal, defaultEmit, hr, hfa]

end Duckling
