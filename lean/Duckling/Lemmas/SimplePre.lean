import Duckling.Model.Compile
import Duckling.Lemmas.RBasic
/-
  What a successful `simplePre` guarantees about the items handed to `run_compile`
  — whatever way the arguments were delivered (inline, grouped, `$`-evaluated).
-/
namespace Duckling

theorem verifyTypes_ok (ctx : Ctx) (line : Nat) (st : St) (t : ArgType) (args : List Arg)
    (h : verifyTypes ctx line st t args = .ok ()) : ∀ a ∈ args, typeOk t a.content = true ∧ isListVal a.content = false := by
  induction args with
  | nil => intro a ha; cases ha
  | cons x rest ih =>
    unfold verifyTypes at h
    by_cases hx : (!typeOk t x.content || isListVal x.content) = true
    · simp [hx, raise] at h
    · simp only [hx, Bool.false_eq_true, if_false] at h
      intro a ha
      rcases List.mem_cons.mp ha with rfl | ha
      · simpa using hx
      · exact ih h a ha

theorem verifyEach_ok (ctx : Ctx) (line : Nat) (st : St) (c : ClsDesc) (args : List Arg)
    (h : verifyEach ctx line st c args = .ok ()) : ∀ a ∈ args, verifyArgHook c a = true := by
  induction args with
  | nil => intro a ha; cases ha
  | cons x rest ih =>
    unfold verifyEach at h
    by_cases hx : (!verifyArgHook c x) = true
    · simp [hx, raise] at h
    · simp only [hx, Bool.false_eq_true, if_false] at h
      intro a ha
      rcases List.mem_cons.mp ha with rfl | ha
      · simpa using hx
      · exact ih h a ha

theorem verifyArgsHook_ok (ctx : Ctx) (pos0 : Pos) (c : ClsDesc) (args : List Arg) (st st2 : St)
    (h : verifyArgsHook ctx pos0 c args st = .ok st2) : st2.env = st.env ∧ st2.prints = st.prints := by
  unfold verifyArgsHook at h
  split at h
  · split at h
    · split at h
      · cases h; simp only [addWarn]; split <;> exact ⟨rfl, rfl⟩
      · cases h; exact ⟨rfl, rfl⟩
    · split at h
      · simp [raise] at h
      · cases h; exact ⟨rfl, rfl⟩
    · cases h; exact ⟨rfl, rfl⟩
  · cases h; exact ⟨rfl, rfl⟩

/-- a successful `checkArgs`: counts respected, every argument well-typed and accepted by its hook -/
theorem checkArgs_spec (ctx : Ctx) (c : ClsDesc) (line : Nat) (args : List Arg) (st st' : St)
    (h : checkArgs ctx c line args st = .ok st') :
    st'.env = st.env ∧ st'.prints = st.prints ∧
    (args = [] → c.argReq ≠ .required) ∧ (args ≠ [] → c.argReq ≠ .notAllowed) ∧
    ∀ a ∈ args, typeOk c.argType a.content = true ∧ isListVal a.content = false ∧ verifyArgHook c a = true := by
  unfold checkArgs at h
  simp only at h
  split at h
  · simp [raise] at h
  · rename_i hna
    split at h
    · simp [raise] at h
    · rename_i hreq
      simp only [R.bind_eq_ok] at h
      obtain ⟨_, hvt, st2, hvh, _, hve, h⟩ := h
      cases h
      have hst2 := verifyArgsHook_ok _ _ _ _ _ _ hvh
      refine ⟨hst2.1, hst2.2, ?_, ?_, ?_⟩
      · intro he hr; subst he; simp [hr] at hreq
      · intro hne hr
        have : args.isEmpty = false := by cases args <;> simp_all
        simp [hr, this] at hna
      · intro a ha
        have h1 := verifyTypes_ok ctx line st c.argType args hvt a ha
        exact ⟨h1.1, h1.2, verifyEach_ok ctx line _ c args hve a ha⟩

/-- the guarantees of a successful `simplePre`, whatever way the arguments were delivered -/
theorem simplePre_spec (ctx : Ctx) (c : ClsDesc) (word : Str) (line : Nat) (arg : Option Str) (block : Option (List Node)) (st : St)
    (name : Str) (items : List (Option Arg)) (st' : St)
    (h : simplePre ctx c word line arg block st = .ok (name, items, st')) :
    name = nameOf word ∧ (c.flipperOnly && !ctx.opts.flipper) = false ∧ st'.env = st.env ∧ st'.prints = st.prints ∧
    ∃ args, prepareArgs ctx c word line arg block st = .ok args ∧ items = itemsOf c args ∧
      (args = [] → c.argReq ≠ .required) ∧ (args ≠ [] → c.argReq ≠ .notAllowed) ∧
      ∀ a ∈ args, typeOk c.argType a.content = true ∧ isListVal a.content = false ∧ verifyArgHook c a = true := by
  unfold simplePre at h
  simp only at h
  split at h
  · simp [raise] at h
  · rename_i hfl
    split at h
    · simp [raise] at h
    · simp only [R.bind_eq_ok] at h
      obtain ⟨args, hargs, st2, hchk, h⟩ := h
      simp only [R.ok.injEq, Prod.mk.injEq] at h
      obtain ⟨rfl, rfl, rfl⟩ := h
      have hc := checkArgs_spec ctx c line args st st2 hchk
      exact ⟨rfl, by simpa using hfl, hc.1, hc.2.1, args, hargs, rfl, hc.2.2.1, hc.2.2.2.1, hc.2.2.2.2⟩

end Duckling
